(* Reader model, C14: a consistent system is never refused.
   Part 7b: composite-domain names in kernel strings - look-ups that fail, ~d for a declared domain,
   the expansion loop. *)
From Coq Require Import List NArith ZArith Bool Arith Lia.
From DSD Require Import Base.Str Base.Errors Model.ComplexUtils Model.RegStr Model.ReaderStr Model.PyNum
  Model.Peg Model.Kernel Model.DispatchKernel Model.Heap Model.Registry Model.Reader Model.ReaderShape Model.ReaderConsistent
  Proofs.RegHeap Proofs.RegInv Proofs.RegCalls Proofs.RegExt Proofs.ReaderBasic Proofs.ReaderStmt Proofs.ReaderHeap
  Proofs.ReaderInv Proofs.ReaderHoare Proofs.ReaderNoFault Proofs.ReaderThms Proofs.ReaderBuilds Proofs.ReaderKernel
  Proofs.ReaderMore Proofs.ReaderSys Proofs.ReaderSysA Proofs.ReaderSysB Proofs.ReaderSysD Proofs.ReaderSysE
  Proofs.ReaderSysF Proofs.ReaderSysS.
From DSD Require Model.Iupac.
Import ListNotations.

Lemma starred_split x : starred x = true -> x = star (removelast x).
Proof.
  unfold starred, star. intros H. destruct (rev x) as [|c l] eqn:E; [discriminate|].
  apply N.eqb_eq in H. subst c.
  assert (Ex : x = rev l ++ [Registry.cStar]).
  { rewrite <- (rev_involutive x), E. reflexivity. }
  rewrite Ex at 2. rewrite removelast_last. exact Ex.
Qed.

Lemma starred_nonempty x : starred x = true -> nonempty x = true.
Proof. intros H. rewrite (starred_split x H). apply star_nonempty. Qed.

Lemma cname_starred x : starred x = true -> cname_of x = removelast x.
Proof. unfold cname_of. intros ->. reflexivity. Qed.

Section Expand.
  Variable ct : ctable.
  Variables cd cs cc cm cr : nat.
  Hypothesis CO : cfg_okb ct cd cs cc cm cr = true.
  Hypothesis PL : forall c, In c [cd; cs; cc; cm; cr] -> exists ci, nth_error ct c = Some ci /\ c_fail ci = FNone.
  Notation G := (g cd cs cc cm cr).
  Notation cls_of := (cls_of cd cs cc cm cr).
  Notation Core := (Core cd cs cc cm cr ct).
  Notation SInv := (SInv cd cs cc cm cr ct).
  Notation Built := (Built cd cs cc cm cr).
  Notation dobj := (dobj cd).
  Notation DomReg := (DomReg cd).

  (* ---- look-ups that fail ---- *)
  (* Domain(x) finds nothing: neither x nor, for x = y*, the name y is registered *)
  Definition DomUnreg (st : state) (x : pstr) : Prop :=
    nonempty x = true /\ nlookup x (cs_names (cget st cd)) = None /\
    (starred x = true ->
       starred (removelast x) = false /\ nonempty (removelast x) = true /\
       nlookup (removelast x) (cs_names (cget st cd)) = None).

  Lemma dbn_fail r x : SOK ct (r_st r) -> DomUnreg (r_st r) x -> domain_by_name ct G x r = (r, Err eSingleton).
  Proof.
    intros OK [Hne [Hn Hs]]. destruct (PL cd) as [ci [Hci Hf]]; [cbn; auto|].
    unfold domain_by_name. cbn [gD g slot]. rewrite bind_ret. unfold call.
    destruct (starred x) eqn:Es.
    - destruct (Hs eq_refl) as [Hs1 [Hs2 Hs3]]. change dom_fuel with (S (S 6)).
      pose proof (starred_split x Es) as Ex. rewrite Ex in Hn. rewrite Ex at 1. unfold star.
      rewrite (dom_lookup_starred_none ct cd ci Hci 6 (r_st r) (removelast x) (proj1 OK) Hs1 Hs2 Hs3 Hn).
      rewrite (collect_id ct _ OK), with_st_id. reflexivity.
    - change dom_fuel with (S 7). rewrite (dom_lookup_unstarred ct cd ci Hci 7 (r_st r) x Es Hne), Hn, with_st_id.
      reflexivity.
  Qed.

  (* Strand(None, name = x) finds nothing *)
  Definition StrUnreg (st : state) (x : pstr) : Prop :=
    nonempty x = true /\ nlookup x (cs_names (cget st cs)) = None.

  Lemma strand_seq_fail r x : StrUnreg (r_st r) x -> strand_seq ct G x r = (r, Err eSingleton).
  Proof.
    intros [Hne Hn]. destruct (PL cs) as [ci [Hci Hf]]; [cbn; auto|].
    unfold strand_seq, strand_by_name. cbn [gS g slot]. rewrite bind_ret.
    assert (Ec : call (fun st => strand_call ct cs st None (Some x) None) r = (r, Err eSingleton)).
    { unfold call, strand_call. rewrite Hci. unfold sing_lookup. rewrite Hne, Hn, with_st_id. reflexivity. }
    rewrite (bind_err _ _ _ _ _ Ec). reflexivity.
  Qed.

  (* ---- ~d for a declared domain: the complement exists ---- *)
  (* the pair of objects of a declared domain x of length l *)
  Definition DomPairReg (st : state) (x : pstr) (l : Z) (i j : nat) : Prop :=
    starred x = false /\ nonempty x = true /\ (0 <= l)%Z /\
    hget (heap st) i = Some (dobj x l) /\ hget (heap st) j = Some (dobj (star x) l) /\
    nlookup x (cs_names (cget st cd)) = Some i /\ nlookup (star x) (cs_names (cget st cd)) = Some j /\
    klookup (KDom x l) (cs_canon (cget st cd)) = Some i /\ klookup (KDom (star x) l) (cs_canon (cget st cd)) = Some j.

  Lemma obj_len_dobj st i x l : hget (heap st) i = Some (dobj x l) -> (0 <= l)%Z -> obj_length (heap st) i = Ok l.
  Proof. intros H Hl. unfold obj_length. rewrite H. reflexivity. Qed.

  (* cls(x*, length = l) when the pair exists *)
  Lemma dom_found_starred f st x l i j :
    SOK ct st -> DomPairReg st x l i j ->
    forall ci, nth_error ct cd = Some ci ->
    dom_call (S (S f)) ct cd st (@Some pstr (star x)) (Some l) None None = (st, CRet j false).
  Proof.
    intros OK [Hs [Hne [Hl [Hi [Hj [Ni [Nj [Ki Kj]]]]]]]] ci Hci.
    rewrite (dom_call_S ct cd). unfold dom_body at 1. rewrite Hci. cbn [resolve_name]. rewrite dom_len1_none.
    rewrite star_nonempty. cbn [negb]. unfold dom_nested. rewrite star_starred. unfold star at 1. rewrite (cname_star x).
    assert (Efin : dom_finish ct cd st (is_none (@Some pstr (star x))) (star x) (Some l) = (st, CRet j false)).
    { unfold dom_finish. cbn [option_map]. unfold sing_lookup. rewrite star_nonempty, Nj, Kj, Nat.eqb_refl. reflexivity. }
    rewrite (dom_lookup_unstarred ct cd ci Hci f st x Hs Hne), Ni, (obj_len_dobj st i x l Hi Hl), Z.eqb_refl.
    rewrite (collect_id ct _ OK). exact Efin.
  Qed.

  (* cls(x, length = l) when the pair exists *)
  Lemma dom_found_unstarred f st x l i j :
    SOK ct st -> DomPairReg st x l i j ->
    forall ci, nth_error ct cd = Some ci ->
    dom_call (S (S (S f))) ct cd st (Some x) (Some l) None None = (st, CRet i false).
  Proof.
    intros OK P ci Hci. pose proof P as [Hs [Hne [Hl [Hi [Hj [Ni [Nj [Ki Kj]]]]]]]].
    rewrite (dom_call_S ct cd). unfold dom_body at 1. rewrite Hci. cbn [resolve_name]. rewrite dom_len1_none.
    rewrite Hne. cbn [negb]. unfold dom_nested. rewrite Hs.
    assert (Efin : dom_finish ct cd st (is_none (Some x)) x (Some l) = (st, CRet i false)).
    { unfold dom_finish. cbn [option_map]. unfold sing_lookup. rewrite Hne, Ni, Ki, Nat.eqb_refl. reflexivity. }
    rewrite (cname_unstarred' x Hs).
    assert (E1 : dom_call (S (S f)) ct cd st (@Some pstr (star x)) None None None = (st, CRet j false)).
    { unfold star. rewrite <- (collect_id ct _ OK) in Nj, Kj.
      rewrite (dom_lookup_starred ct cd ci Hci f st x i l j (proj1 OK) Hs Hne Ni (obj_len_dobj st i x l Hi Hl) Nj Kj).
      rewrite (collect_id ct _ OK). reflexivity. }
    cbv beta. rewrite E1, (obj_len_dobj st j (star x) l Hj Hl), (collect_id ct _ OK).
    rewrite (dom_found_starred f st x l i j OK P ci Hci), (collect_id ct _ OK). exact Efin.
  Qed.

  (* object i is a declared domain and j its complement *)
  Definition InvReg (st : state) (i j : nat) : Prop :=
    exists x l a b, DomPairReg st x l a b /\ ((i = a /\ j = b) \/ (i = b /\ j = a)).

  Lemma invert_found r i j :
    SOK ct (r_st r) -> InvReg (r_st r) i j ->
    invert ct i r = (with_st r (hold (r_st r) j), Ok j) /\ is_live (heap (r_st r)) j = true.
  Proof.
    intros OK [x [l [a [b [P Hij]]]]]. destruct (PL cd) as [ci [Hci Hf]]; [cbn; auto|].
    pose proof P as [Hs [Hne [Hl [Hi [Hj [Ni [Nj [Ki Kj]]]]]]]].
    destruct Hij as [[-> ->]|[-> ->]].
    - split.
      + unfold invert, call, dom_complement. rewrite Hi. cbn [o_data o_cls o_name dobj ReaderSysA.dobj new_obj].
        rewrite (cname_unstarred' x Hs). change dom_fuel with (S (S 6)).
        rewrite (dom_found_starred 6 (r_st r) x l a b OK P ci Hci). reflexivity.
      + unfold is_live. rewrite Hj. reflexivity.
    - split.
      + unfold invert, call, dom_complement. rewrite Hj. cbn [o_data o_cls o_name dobj ReaderSysA.dobj new_obj].
        rewrite (cname_starred _ (star_starred x)). unfold star at 1. rewrite removelast_last.
        change dom_fuel with (S (S (S 5))).
        rewrite (dom_found_unstarred 5 (r_st r) x l a b OK P ci Hci). reflexivity.
      + unfold is_live. rewrite Hi. reflexivity.
  Qed.

  (* ---- assert isinstance(sd, Domain) ---- *)
  Lemma assert_domain_exact r (e : elem) i :
    snd e = Some i -> (exists o, hget (heap (r_st r)) i = Some o /\ o_cls o = cd) ->
    assert_domain ct G e r = (r, Ok (CDom i)).
  Proof.
    intros He [o [Ho Hc]]. unfold assert_domain. cbn [gD g slot]. rewrite bind_ret.
    rewrite (bind_ok get_state _ _ _ _ eq_refl). rewrite He. unfold isinst. rewrite Ho, Hc, subclass_refl. reflexivity.
  Qed.

  Lemma assert_all_exact r (es : list elem) ids :
    Forall2 (fun e i => snd e = Some i /\ exists o, hget (heap (r_st r)) i = Some o /\ o_cls o = cd) es ids ->
    mapM (assert_domain ct G) es r = (r, Ok (map CDom ids)).
  Proof.
    induction 1 as [|e i es ids [H1 H2] F IH]; cbn [mapM map]; [reflexivity|].
    rewrite (bind_ok _ _ _ _ _ (assert_domain_exact r e i H1 H2)), (bind_ok _ _ _ _ _ IH). reflexivity.
  Qed.
  (* ---- one name of the kernel string ---- *)
  Definition has_cd (st : state) (i : nat) : Prop := exists o, hget (heap st) i = Some o /\ o_cls o = cd.

  (* ~d for an element of a strand *)
  Definition InvElem (st : state) (e : elem) (y : elem * list nat) : Prop :=
    exists i j, snd e = Some i /\ InvReg st i j /\ y = (elem_of st j, [j]).

  Lemma invert_elem_exact r e y :
    SOK ct (r_st r) -> InvElem (r_st r) e y ->
    invert_elem ct e r = (with_st r (holds (r_st r) (snd y)), Ok (fst y)) /\
    (forall i, In i (snd y) -> is_live (heap (r_st r)) i = true).
  Proof.
    intros OK [i [j [He [Hr ->]]]]. destruct (invert_found r i j OK Hr) as [E L]. cbn [fst snd]. split.
    - unfold invert_elem. rewrite He. rewrite (bind_ok _ _ _ _ _ E), (bind_ok get_state _ _ _ _ eq_refl).
      unfold ret, holds, with_roots, hold. reflexivity.
    - intros k [<-|[]]. exact L.
  Qed.

  Inductive ExpReg (st : state) (x : pstr) : list cell * list nat -> Prop :=
  | ER_dom j : DomReg st x j -> ExpReg st x ([CDom j], [j])
  | ER_strand i es ids :
      DomUnreg st x -> StrReg cs st x (es, [i]) -> es <> [] ->
      Forall2 (fun e id => snd e = Some id /\ has_cd st id) es ids ->
      ExpReg st x (map CDom ids, [i])
  | ER_compl y0 i es (ys : list (elem * list nat)) :
      DomUnreg st x -> StrUnreg st x -> complement_name x = Ok y0 -> StrReg cs st y0 (es, [i]) -> es <> [] ->
      Forall2 (InvElem st) (rev es) ys ->
      ExpReg st x (map CDom (flat_map snd ys), i :: flat_map snd ys).

  Lemma invreg_has_cd st i j : InvReg st i j -> has_cd st j.
  Proof.
    intros [x [l [a [b [[_ [_ [_ [Ha [Hb _]]]]] [[_ ->]|[_ ->]]]]]]]; eexists; split; try eassumption; reflexivity.
  Qed.

  Lemma expreg_hold st j x y : ExpReg st x y -> ExpReg (hold st j) x y.
  Proof. intros H. destruct H; econstructor; eassumption. Qed.

  Lemma catch_ok {A} (m h : M A) p r r' a : m r = (r', Ok a) -> catch m p h r = (r', Ok a).
  Proof. unfold catch. intros ->. reflexivity. Qed.
  Lemma catch_err {A} (m h : M A) p r r' k : m r = (r', Err k) -> p k = true -> catch m p h r = h r'.
  Proof. unfold catch. intros -> ->. reflexivity. Qed.

  Lemma expand_one_exact r x y :
    SOK ct (r_st r) -> ExpReg (r_st r) x y ->
    expand_one ct G x r = (with_st r (holds (r_st r) (snd y)), Ok (fst y)) /\
    (forall i, In i (snd y) -> is_live (heap (r_st r)) i = true).
  Proof.
    intros OK H. destruct H as [j Hd | i es ids Hu Hs Hne Fe | y0 i es ys Hu Hsu Hc Hs Hne Fi]; cbn [fst snd].
    - destruct (dbn_exact ct cd cs cc cm cr PL r x j OK Hd) as [E L]. split; [|intros k [<-|[]]; exact L].
      unfold expand_one. apply catch_ok. rewrite (bind_ok _ _ _ _ _ E). unfold ret, holds, with_roots, hold. reflexivity.
    - destruct (strand_seq_exact ct cd cs cc cm cr PL r x (es, [i]) OK Hs) as [E L]. cbn [fst snd] in E, L.
      split; [|exact L]. unfold expand_one.
      rewrite (catch_err _ _ _ r r eSingleton); [| rewrite (bind_err _ _ _ _ _ (dbn_fail r x OK Hu)); reflexivity | reflexivity].
      rewrite (bind_ok _ _ _ _ _ (catch_ok _ _ _ _ _ _ E)).
      destruct es as [|e0 es']; [contradiction|].
      apply assert_all_exact. eapply Forall2_impl'; [|exact Fe]. cbn. intros e id [A1 A2]. split; [exact A1 | exact A2].
    - destruct (strand_seq_exact ct cd cs cc cm cr PL r y0 (es, [i]) OK Hs) as [E L]. cbn [fst snd] in E, L.
      set (r1 := with_st r (holds (r_st r) [i])) in E.
      assert (OK1 : SOK ct (r_st r1)) by (apply sok_holds; assumption).
      assert (Fi1 : Forall2 (InvElem (r_st r1)) (rev es) ys) by exact Fi.
      destruct (mapM_lookup_gen2 ct (invert_elem ct) InvElem (fun st j x y H => H) invert_elem_exact (rev es) ys r1 OK1 Fi1)
        as [Em Lm].
      split.
      + unfold expand_one.
        rewrite (catch_err _ _ _ r r eSingleton); [| rewrite (bind_err _ _ _ _ _ (dbn_fail r x OK Hu)); reflexivity | reflexivity].
        assert (Esub : catch (strand_seq ct G x) (is_sing)
                         (catch (dm cn <- lift (complement_name x); dm compl <- strand_seq ct G cn;
                                 mapM (invert_elem ct) (rev compl)) is_sing (fail ePilFormat)) r =
                       (with_st r1 (holds (r_st r1) (flat_map snd ys)), Ok (map fst ys))).
        { rewrite (catch_err _ _ _ r r eSingleton (strand_seq_fail r x Hsu) eq_refl).
          apply catch_ok. rewrite Hc, bind_lift_Ok, (bind_ok _ _ _ _ _ E). exact Em. }
        rewrite (bind_ok _ _ _ _ _ Esub).
        assert (Hys : ys <> []).
        { intros ->. inversion Fi1 as [E0|]. destruct es; [contradiction|]. cbn in E0.
          symmetry in E0. apply app_eq_nil in E0. destruct E0 as [_ E0]. discriminate. }
        destruct (map fst ys) as [|e0 el] eqn:Emf; [destruct ys; [contradiction | discriminate]|].
        rewrite <- Emf.
        assert (Ea : mapM (assert_domain ct G) (map fst ys) (with_st r1 (holds (r_st r1) (flat_map snd ys))) =
                     (with_st r1 (holds (r_st r1) (flat_map snd ys)), Ok (map CDom (flat_map snd ys)))).
        { apply assert_all_exact. clear -Fi1. induction Fi1 as [|e y es0 ys0 [a [b [Hs [Hr ->]]]] F IH]; cbn [map flat_map fst snd app]; constructor.
          - split; [reflexivity|]. exact (invreg_has_cd _ _ _ Hr).
          - exact IH. }
        rewrite Ea. unfold r1. cbn [r_st with_st]. rewrite holds_app. reflexivity.
      + intros k [<-|Hk]; [apply L; left; reflexivity | apply (Lm k Hk)].
  Qed.

  (* ---- the expansion loop ---- *)
  (* what stands for one position (name, structure character) *)
  Definition PosReg (st : state) (xc : pstr * chr) (y : list cell * list nat) : Prop :=
    if str_eqb (fst xc) sPlus then y = ([CStr (fst xc)], []) else ExpReg st (fst xc) y.

  Definition pos_cells (xc : pstr * chr) (y : list cell * list nat) : list (cell * chr) :=
    map (fun c => (c, snd xc)) (fst y).

  Lemma posreg_hold st j xc y : PosReg st xc y -> PosReg (hold st j) xc y.
  Proof. unfold PosReg. destruct (str_eqb (fst xc) sPlus); [auto | apply expreg_hold]. Qed.
  Lemma posreg_holds st l xc y : PosReg st xc y -> PosReg (holds st l) xc y.
  Proof.
    revert st. induction l as [|j l IH]; intros st H; [rewrite holds_nil; exact H|].
    rewrite <- holds_cons. apply IH. apply posreg_hold. exact H.
  Qed.

  Fixpoint flat_cells (todo : list (pstr * chr)) (ys : list (list cell * list nat)) : list (cell * chr) :=
    match todo, ys with
    | xc :: t, y :: r => pos_cells xc y ++ flat_cells t r
    | _, _ => []
    end.

  Lemma expand_loop_exact todo : forall ys done r,
    SOK ct (r_st r) -> Forall2 (PosReg (r_st r)) todo ys ->
    expand_loop ct G todo done r =
      (with_st r (holds (r_st r) (flat_map snd ys)), Ok (rev done ++ flat_cells todo ys)) /\
    (forall i, In i (flat_map snd ys) -> is_live (heap (r_st r)) i = true).
  Proof.
    induction todo as [|[d c] todo IH]; intros ys done r OK F; inversion F as [|? y ? ys' Py F']; subst.
    - cbn [expand_loop flat_map flat_cells]. unfold ret. rewrite holds_nil, with_st_id, app_nil_r.
      split; [reflexivity | intros i []].
    - cbn [expand_loop flat_map flat_cells]. unfold PosReg in Py. cbn [fst] in Py.
      destruct (str_eqb d sPlus) eqn:Ep.
      + subst y. cbn [snd app].
        destruct (IH ys' ((CStr d, c) :: done) r OK F') as [E L]. rewrite E. split; [|exact L].
        cbn [rev]. rewrite <- app_assoc. reflexivity.
      + destruct (expand_one_exact r d y OK Py) as [E L]. rewrite (bind_ok _ _ _ _ _ E).
        set (r1 := with_st r (holds (r_st r) (snd y))).
        assert (OK1 : SOK ct (r_st r1)) by (apply sok_holds; assumption).
        assert (F1 : Forall2 (PosReg (r_st r1)) todo ys').
        { eapply Forall2_impl'; [|exact F']. intros a b. apply posreg_holds. }
        destruct (IH ys' (rev (map (fun c0 => (c0, c)) (fst y)) ++ done) r1 OK1 F1) as [E2 L2]. rewrite E2. split.
        * unfold r1. cbn [r_st with_st]. rewrite holds_app, rev_app_distr, rev_involutive, <- app_assoc. reflexivity.
        * intros i Hi. apply in_app_or in Hi. destruct Hi as [Hi|Hi]; [apply L; exact Hi | apply (L2 i Hi)].
  Qed.
  (* ---- kernel_sequence, with or without composite names ---- *)
  Lemma mapM_app_fail {A B} (f : A -> M B) xs1 : forall x xs2 r r1 ys r2 k,
    mapM f xs1 r = (r1, Ok ys) -> f x r1 = (r2, Err k) -> mapM f (xs1 ++ x :: xs2) r = (r2, Err k).
  Proof.
    induction xs1 as [|a xs1 IH]; intros x xs2 r r1 ys r2 k H1 H2; cbn [mapM app] in *.
    - injection H1 as <- _. rewrite (bind_err _ _ _ _ _ H2). reflexivity.
    - apply bind_inv_ok in H1. destruct H1 as [ra [y [Ea H1]]]. apply bind_inv_ok in H1. destruct H1 as [rb [ys' [Eb H1]]].
      injection H1 as <- _. rewrite (bind_ok _ _ _ _ _ Ea). rewrite (bind_err _ _ _ _ _ (IH x xs2 ra rb ys' r2 k Eb H2)).
      reflexivity.
  Qed.

  Definition PlainPos (st : state) (xc : pstr * chr) (y : list cell * list nat) : Prop :=
    exists c, CellReg cd st (fst xc) c /\ y = ([c], cell_refs c).

  Lemma plain_or_not st todo ys :
    Forall2 (PosReg st) todo ys ->
    Forall2 (PlainPos st) todo ys \/
    (exists pre xc post ypre, todo = pre ++ xc :: post /\ Forall2 (PlainPos st) pre ypre /\
       str_eqb (fst xc) sPlus = false /\ DomUnreg st (fst xc)).
  Proof.
    induction 1 as [|xc y todo ys Py F IH]; [left; constructor|].
    assert (Hp : PlainPos st xc y \/ (str_eqb (fst xc) sPlus = false /\ DomUnreg st (fst xc))).
    { unfold PosReg in Py. unfold PlainPos, CellReg. destruct (str_eqb (fst xc) sPlus) eqn:Ep.
      - left. exists (CStr (fst xc)). auto.
      - destruct Py as [j Hd | i es ids Hu _ _ _ | y0 i es ys0 Hu _ _ _ _ _].
        + left. exists (CDom j). split; [eauto | reflexivity].
        + right. auto.
        + right. auto. }
    destruct Hp as [Hp|[Hp1 Hp2]].
    - destruct IH as [IH|[pre [xc' [post [ypre [E [Fp [H1 H2]]]]]]]].
      + left. constructor; assumption.
      + right. exists (xc :: pre), xc', post, (y :: ypre). rewrite E. split; [reflexivity|]. split; [constructor; assumption | auto].
    - right. exists [], xc, todo, []. split; [reflexivity|]. split; [constructor | auto].
  Qed.

  Lemma plain_cells st todo ys :
    Forall2 (PlainPos st) todo ys ->
    exists cells, Forall2 (CellReg cd st) (map fst todo) cells /\ flat_map snd ys = flat_map cell_refs cells /\
      map fst (flat_cells todo ys) = cells /\ map snd (flat_cells todo ys) = map snd todo.
  Proof.
    induction 1 as [|xc y todo ys [c [Hc ->]] F [cells [H1 [H2 [H3 H4]]]]].
    - exists []. repeat split. constructor.
    - exists (c :: cells). cbn [map flat_map flat_cells pos_cells fst snd app]. split; [constructor; assumption|].
      split; [rewrite H2; reflexivity|]. split; [rewrite H3; reflexivity | rewrite H4; reflexivity].
  Qed.

  Lemma combine_fst' {A B} (a : list A) (b : list B) : length a = length b -> map fst (combine a b) = a.
  Proof. revert b. induction a as [|x a IH]; intros [|y b] L; cbn in *; try lia; [reflexivity|]. f_equal. apply IH. lia. Qed.
  Lemma combine_snd' {A B} (a : list A) (b : list B) : length a = length b -> map snd (combine a b) = b.
  Proof. revert b. induction a as [|x a IH]; intros [|y b] L; cbn in *; try lia; [reflexivity|]. f_equal. apply IH. lia. Qed.

  Lemma kernel_sequence_gen names sst ys r :
    SOK ct (r_st r) -> length names = length sst -> Forall2 (PosReg (r_st r)) (combine names sst) ys ->
    kernel_sequence ct G names sst r =
      (with_st r (holds (r_st r) (flat_map snd ys)),
       Ok (map fst (flat_cells (combine names sst) ys), map snd (flat_cells (combine names sst) ys))) /\
    (forall i, In i (flat_map snd ys) -> is_live (heap (r_st r)) i = true).
  Proof.
    intros OK Hlen F. set (todo := combine names sst) in *.
    assert (Hn : map fst todo = names) by (apply combine_fst'; exact Hlen).
    assert (Hs : map snd todo = sst) by (apply combine_snd'; exact Hlen).
    destruct (expand_loop_exact todo ys [] r OK F) as [El Ll]. split; [|exact Ll].
    unfold kernel_sequence. rewrite (bind_ok nroots _ r r _ eq_refl).
    destruct (plain_or_not _ _ _ F) as [Fp|[pre [xc [post [ypre [E [Fp [H1 H2]]]]]]]].
    - destruct (plain_cells _ _ _ Fp) as [cells [C1 [C2 [C3 C4]]]]. rewrite Hn in C1.
      apply catch_ok. destruct (first_attempt_exact ct cd cs cc cm cr PL names cells r OK C1) as [Ef _].
      rewrite (bind_ok _ _ _ _ _ Ef). unfold ret. rewrite C2, C3, C4, Hs. reflexivity.
    - destruct (plain_cells _ _ _ Fp) as [cells [C1 [C2 [C3 C4]]]].
      destruct (first_attempt_exact ct cd cs cc cm cr PL (map fst pre) cells r OK C1) as [Ef Lf].
      set (r1 := with_st r (holds (r_st r) (flat_map cell_refs cells))) in Ef.
      assert (OK1 : SOK ct (r_st r1)) by (apply sok_holds; assumption).
      assert (Efail : first_attempt ct G names r = (r1, Err eSingleton)).
      { rewrite <- Hn, E, map_app. cbn [map]. unfold first_attempt in *.
        eapply mapM_app_fail; [exact Ef|]. rewrite H1.
        rewrite (bind_err _ _ _ _ _ (dbn_fail r1 (fst xc) OK1 H2)). reflexivity. }
      rewrite (catch_err _ _ _ r r1 eSingleton); [| rewrite (bind_err _ _ _ _ _ Efail); reflexivity | reflexivity].
      assert (Erel : release (length (roots (r_st r))) [] r1 = (r, Ok tt)).
      { unfold release. f_equal. unfold r1. cbn [r_st with_st].
        assert (Ec : cut_roots (holds (r_st r) (flat_map cell_refs cells)) (length (roots (r_st r))) [] = r_st r).
        { unfold cut_roots, holds, with_roots. cbn [heap classes roots map]. rewrite firstn_roots, app_nil_r.
          destruct (r_st r); reflexivity. }
        rewrite Ec, (collect_id ct _ OK). destruct r; reflexivity. }
      rewrite (bind_ok _ _ _ _ _ Erel). rewrite Hlen, Nat.eqb_refl. cbn [negb]. fold todo.
      rewrite (bind_ok _ _ _ _ _ El). reflexivity.
  Qed.
End Expand.
