(* wrap, rotate_locus and rotate_pairtable_loc: modular arithmetic of the
   strand re-indexing. *)
From Coq Require Import List Arith ZArith Lia Bool NArith.
From DSD Require Import Base.Str Base.Errors Model.ComplexUtils Model.Rotation.
Import ListNotations.
Local Open Scope Z_scope.

Lemma wrap_mod x m : 0 < m -> wrap x m = x mod m.
Proof.
  intros H. unfold wrap.
  replace (x mod m + m) with (x mod m + 1 * m) by lia.
  rewrite Z_mod_plus_full. apply Z.mod_mod. lia.
Qed.

Lemma wrap_range x m : 0 < m -> 0 <= wrap x m < m.
Proof. intros H. rewrite wrap_mod by exact H. apply Z.mod_pos_bound. exact H. Qed.

Lemma wrap_small x m : 0 <= x < m -> wrap x m = x.
Proof. intros H. rewrite wrap_mod by lia. apply Z.mod_small. exact H. Qed.

Lemma wrap_wrap_add x a m : 0 < m -> wrap (wrap x m + a) m = wrap (x + a) m.
Proof. intros H. rewrite !wrap_mod by exact H. apply Z.add_mod_idemp_l. lia. Qed.

Lemma wrap_period x m : 0 < m -> wrap (x + m) m = wrap x m.
Proof.
  intros H. rewrite !wrap_mod by exact H.
  replace (x + m) with (x + 1 * m) by lia. apply Z_mod_plus_full.
Qed.

Lemma wrap_minus_period x m : 0 < m -> wrap (x - m) m = wrap x m.
Proof.
  intros H. rewrite !wrap_mod by exact H.
  replace (x - m) with (x + (-1) * m) by lia. apply Z_mod_plus_full.
Qed.

(* the shift by -1 on a strand index below n *)
Lemma wrap_pred (s n : nat) : (s < n)%nat ->
  Z.to_nat (wrap (Z.of_nat s + -1) (Z.of_nat n)) = (match s with O => n - 1 | S k => k end)%nat.
Proof.
  intros H. destruct s as [|k].
  - replace (Z.of_nat 0 + -1) with (Z.of_nat (n - 1) - Z.of_nat n) by lia.
    rewrite wrap_minus_period by lia. rewrite wrap_small by lia. lia.
  - rewrite wrap_small by lia. lia.
Qed.

Lemma wrap_succ (s n : nat) : (s < n)%nat ->
  Z.to_nat (wrap (Z.of_nat s + 1) (Z.of_nat n)) = (if Nat.eqb (S s) n then 0 else S s)%nat.
Proof.
  intros H. destruct (Nat.eqb_spec (S s) n) as [E|E].
  - replace (Z.of_nat s + 1) with (0 + Z.of_nat n) by lia.
    rewrite wrap_period by lia. rewrite wrap_small by lia. reflexivity.
  - rewrite wrap_small by lia. lia.
Qed.

(* ---- rotate_locus ---- *)
Lemma rotate_locus_compose n a b x : (0 < n)%nat ->
  rotate_locus n a (rotate_locus n b x) = rotate_locus n (b + a) x.
Proof.
  intros H. destruct x as [[s d]|]; [|reflexivity]. unfold rotate_locus. cbn [option_map fst snd].
  f_equal. f_equal.
  pose proof (wrap_range (Z.of_nat s + b) (Z.of_nat n) ltac:(lia)) as R.
  rewrite Z2Nat.id by lia.
  rewrite wrap_wrap_add by lia. do 2 f_equal. lia.
Qed.

Lemma rotate_locus_zero n x :
  match x with Some p => (fst p < n)%nat | None => True end -> rotate_locus n 0 x = x.
Proof.
  destruct x as [[s d]|]; [|reflexivity]. cbn [fst]. intros H. unfold rotate_locus. cbn [option_map fst snd].
  rewrite Z.add_0_r, wrap_small by lia. rewrite Nat2Z.id. reflexivity.
Qed.

Lemma rotate_locus_period n a x : (0 < n)%nat ->
  rotate_locus n (a + Z.of_nat n) x = rotate_locus n a x.
Proof.
  intros H. destruct x as [[s d]|]; [|reflexivity]. unfold rotate_locus. cbn [option_map fst snd].
  rewrite Z.add_assoc, wrap_period by lia. reflexivity.
Qed.

Lemma rotate_locus_range n a x : (0 < n)%nat ->
  match rotate_locus n a x with Some p => (fst p < n)%nat | None => True end.
Proof.
  intros H. destruct x as [[s d]|]; [|exact I]. cbn [rotate_locus option_map fst snd].
  pose proof (wrap_range (Z.of_nat s + a) (Z.of_nat n) ltac:(lia)). lia.
Qed.

(* ---- ComplexS.rotate_pairtable_loc ---- *)
Theorem rotate_loc_spec_lemma : forall (size : nat), (0 < size)%nat ->
  (* one turn: strand si becomes strand (si + size - 1) mod size, position unchanged *)
  (forall si di, 0 <= si < Z.of_nat size ->
     rotate_pairtable_loc (si, di) 1 size = ((si + Z.of_nat size - 1) mod Z.of_nat size, di)) /\
  (* the result is a strand index of the complex *)
  (forall l n, 0 <= fst (rotate_pairtable_loc l n size) < Z.of_nat size) /\
  (* n + m turns = n turns, then m turns *)
  (forall l n m, rotate_pairtable_loc l (n + m) size
                 = rotate_pairtable_loc (rotate_pairtable_loc l n size) m size) /\
  (* `size` turns are the identity *)
  (forall l, 0 <= fst l < Z.of_nat size -> rotate_pairtable_loc l (Z.of_nat size) size = l) /\
  (* it is the map on loci that one step of rotate_complex_once induces (the
     relabelling of rot_once_pairs, `rotate_locus size (-1)`) *)
  (forall si di : nat, (si < size)%nat ->
     rotate_locus size (-1) (Some (si, di))
     = Some (Z.to_nat (fst (rotate_pairtable_loc (Z.of_nat si, Z.of_nat di) 1 size)), di)).
Proof.
  intros size Hs. refine (conj _ (conj _ (conj _ (conj _ _)))).
  - intros si di H. unfold rotate_pairtable_loc. cbn [fst snd]. f_equal.
    rewrite wrap_mod by lia.
    replace (si + Z.of_nat size - 1) with (si - 1 + 1 * Z.of_nat size) by lia.
    rewrite Z_mod_plus_full. reflexivity.
  - intros l n. unfold rotate_pairtable_loc; cbn [fst]. apply wrap_range. lia.
  - intros l n m. unfold rotate_pairtable_loc. cbn [fst snd]. f_equal.
    replace (wrap (fst l - n) (Z.of_nat size) - m) with (wrap (fst l - n) (Z.of_nat size) + (- m)) by lia.
    rewrite wrap_wrap_add by lia. f_equal. lia.
  - intros [s d] H. cbn [fst] in H. unfold rotate_pairtable_loc. cbn [fst snd]. f_equal.
    rewrite wrap_minus_period by lia. apply wrap_small. exact H.
  - intros si di H. unfold rotate_locus, rotate_pairtable_loc. cbn [option_map fst snd].
    do 3 f_equal.
Qed.

(* non-vacuity: a three-strand complex *)
Example ex_rotate_loc :
  rotate_pairtable_loc (0, 2) 1 3 = (2, 2) /\ rotate_pairtable_loc (2, 0) 1 3 = (1, 0) /\
  rotate_pairtable_loc (1, 5) (-7) 3 = (2, 5) /\
  rotate_locus 3 (-1) (Some (0, 2)%nat) = Some (2, 2)%nat.
Proof. repeat split. Qed.
