(* C04: domain complementarity on the registry machine. *)
From Coq Require Import List NArith ZArith Bool Arith Lia.
From DSD Require Import Base.Str Base.Errors Model.ComplexUtils Model.RegStr Model.Heap Model.Registry
  Proofs.RegHeap Proofs.RegInv Proofs.RegCalls Proofs.RegExt.
Import ListNotations.

(* ---- names ---- *)
Lemma starred_app n : starred (n ++ [cStar]) = true.
Proof. unfold starred. rewrite rev_app_distr. cbn. reflexivity. Qed.

Lemma starred_split n : starred n = true -> n = removelast n ++ [cStar].
Proof.
  unfold starred. destruct (rev n) as [|c r] eqn:E; [discriminate|].
  intros H. apply N.eqb_eq in H. subst c.
  assert (En : n = rev r ++ [cStar]).
  { rewrite <- (rev_involutive n), E. cbn. reflexivity. }
  rewrite En at 2. rewrite removelast_last. exact En.
Qed.

Lemma cname_unstarred n : starred n = false -> cname_of n = n ++ [cStar].
Proof. unfold cname_of. intros ->. reflexivity. Qed.

Lemma cname_starred n : starred n = true -> n = cname_of n ++ [cStar].
Proof. intros H. unfold cname_of. rewrite H. apply starred_split. exact H. Qed.

Lemma app_star_neq (n : pstr) : n <> n ++ [cStar].
Proof. intros H. apply (f_equal (@length _)) in H. rewrite app_length in H. cbn in H. lia. Qed.

(* ---- the property ---- *)
(* x and x* (x itself unstarred) live in one class => equal lengths *)
Definition CompOK (st : state) : Prop :=
  forall i j oi oj li lj,
    live_obj (heap st) i oi -> live_obj (heap st) j oj -> o_cls oi = o_cls oj ->
    o_data oi = DDom li -> o_data oj = DDom lj ->
    starred (o_name oi) = false -> o_name oj = o_name oi ++ [cStar] -> li = lj.

(* live domains have a non-empty name *)
Definition NoEmpty (st : state) : Prop :=
  forall i o l, live_obj (heap st) i o -> o_data o = DDom l -> nonempty (o_name o) = true.

Definition data_kind (d : odata) : kind :=
  match d with DDom _ => KindD | DCplx _ _ _ => KindC | DStrand _ => KindS | DMac _ _ => KindM | DRxn _ _ _ => KindR end.

(* objects have the kind of their class *)
Definition KindOK (ct : ctable) (st : state) : Prop :=
  forall i o, live_obj (heap st) i o -> class_kind ct (o_cls o) = Some (data_kind (o_data o)).

Definition DOK (ct : ctable) (st : state) : Prop := CompOK st /\ NoEmpty st /\ KindOK ct st.

(* both only speak about live objects: anything that only shrinks liveness keeps them *)
Definition LiveSub (s st : state) : Prop := forall i o, live_obj (heap s) i o -> live_obj (heap st) i o.

Lemma dok_sub ct s st : LiveSub s st -> DOK ct st -> DOK ct s.
Proof.
  intros L [C [Z K]]. split; [|split].
  - intros i j oi oj li lj Hi Hj. apply (C i j oi oj li lj); auto.
  - intros i o l Hi. apply (Z i o l). auto.
  - intros i o Hi. apply (K i o). auto.
Qed.

Lemma livesub_collect st : LiveSub (collect st) st.
Proof. intros i o H. rewrite heap_collect in H. apply live_obj_sweep in H. tauto. Qed.

Lemma dok_collect ct st : DOK ct st -> DOK ct (collect st).
Proof. apply dok_sub. apply livesub_collect. Qed.

Lemma dok_set_root ct st s v : DOK ct st -> DOK ct (set_root st s v).
Proof. apply dok_sub. intros i o H. exact H. Qed.

Lemma livesub_same_regs st s : same_regs st s -> LiveSub s st.
Proof. intros [Eh _] i o. rewrite Eh. auto. Qed.

Lemma livesub_junk st s : Junk st s -> LiveSub s st.
Proof.
  intros [_ _ [top [E F]] _] i o [H1 H2]. rewrite E in H1.
  assert (Hi : i < length (heap st)) by (eapply hget_app_dead; eauto).
  rewrite hget_app_old in H1 by exact Hi. split; assumption.
Qed.

Lemma livesub_junk_rev st s : Junk st s -> LiveSub st s.
Proof.
  intros [_ _ [top [E F]] _] i o [H1 H2]. split; [|exact H2].
  rewrite E. rewrite hget_app_old; [exact H1 | eapply hget_lt; eauto].
Qed.

(* ---- live objects after create ---- *)
Lemma create_live ct st c auto name k extra children d i o :
  live_obj (heap (fst (create ct st c auto name k extra children d))) i o ->
  live_obj (heap st) i o \/ o = mkObj c name k (k :: extra) true children d.
Proof.
  unfold create. destruct (nth_error ct c) as [ci|]; [|auto].
  set (st1 := if auto then bump_id ct st c else st).
  assert (Eh : heap st1 = heap st).
  { unfold st1. destruct auto; [|reflexivity]. unfold bump_id. destruct (class_id ct st c); reflexivity. }
  destruct (c_fail ci); [| auto |].
  - unfold alloc, register, cput. cbn [fst heap]. intros H. apply live_obj_cons_inv in H.
    destruct H as [[_ E]|[_ H]]; [right; exact E | left; rewrite <- Eh; exact H].
  - unfold alloc. cbn [fst]. intros H. apply livesub_collect in H.
    unfold register_extra, cput in H. cbn [heap] in H. apply live_obj_cons_inv in H.
    destruct H as [[_ E]|[_ H]]; [right; exact E | left; rewrite <- Eh; exact H].
Qed.

(* creating an object that is not a domain *)
Lemma dok_create_other ct st c auto name k extra children d :
  (forall l, d <> DDom l) -> class_kind ct c = Some (data_kind d) ->
  DOK ct st -> DOK ct (fst (create ct st c auto name k extra children d)).
Proof.
  intros Hd Hk [C [Z K]]. split; [|split].
  - intros i j oi oj li lj Hi Hj Ec Di Dj Hs Hn.
    apply create_live in Hi. apply create_live in Hj.
    destruct Hi as [Hi| ->]; [|cbn in Di; exfalso; eapply Hd; eauto].
    destruct Hj as [Hj| ->]; [|cbn in Dj; exfalso; eapply Hd; eauto].
    exact (C i j oi oj li lj Hi Hj Ec Di Dj Hs Hn).
  - intros i o l Hi Di. apply create_live in Hi. destruct Hi as [Hi| ->]; [exact (Z i o _ Hi Di)|].
    cbn in Di. exfalso; eapply Hd; eauto.
  - intros i o Hi. apply create_live in Hi. destruct Hi as [Hi| ->]; [apply (K i o Hi) | exact Hk].
Qed.

(* creating the domain (nm, l) when every live partner has length l *)
(* the pair {n, cname_of n} is {x, x*} for an unstarred x *)
Definition base_unstarred (n : pstr) : Prop := starred n = false \/ starred (cname_of n) = false.

Definition PartnerOK (st : state) (c : nat) (nm : pstr) (l : Z) : Prop :=
  base_unstarred nm ->
  forall p op lp, live_obj (heap st) p op -> o_cls op = c -> o_name op = cname_of nm ->
                  o_data op = DDom lp -> lp = l.

Lemma dok_create_dom ct st c auto nm l :
  DOK ct st -> class_kind ct c = Some KindD -> PartnerOK st c nm l -> nonempty nm = true ->
  DOK ct (fst (create ct st c auto nm (KDom nm l) [] [] (DDom l))).
Proof.
  intros [C [Z K]] Hk P Hne. split; [|split].
  - intros i j oi oj li lj Hi Hj Ec Di Dj Hs Hn.
    apply create_live in Hi. apply create_live in Hj.
    destruct Hi as [Hi| ->], Hj as [Hj| ->].
    + exact (C i j oi oj li lj Hi Hj Ec Di Dj Hs Hn).
    + (* j is the new x*, i the old x *)
      cbn in Dj, Hn, Ec. injection Dj as <-.
      assert (S : starred nm = true) by (rewrite Hn; apply starred_app).
      assert (Ecn : cname_of nm = o_name oi) by (unfold cname_of; rewrite S, Hn; apply removelast_last).
      apply (P (or_intror (eq_trans (f_equal starred Ecn) Hs)) i oi li Hi Ec); [|exact Di].
      symmetry. exact Ecn.
    + (* i is the new x, j the old x* *)
      cbn in Di, Hn, Ec, Hs. injection Di as <-. symmetry.
      apply (P (or_introl Hs) j oj lj Hj (eq_sym Ec)); [|exact Dj]. rewrite cname_unstarred by exact Hs. exact Hn.
    + cbn in Hn. exfalso. eapply app_star_neq; eauto.
  - intros i o l' Hi Di. apply create_live in Hi. destruct Hi as [Hi| ->]; [exact (Z i o _ Hi Di)|].
    cbn in Di. exact Hne.
  - intros i o Hi. apply create_live in Hi. destruct Hi as [Hi| ->]; [apply (K i o Hi) | exact Hk].
Qed.

(* ---- facts used about the nested constructor calls ---- *)
Lemma uniq_name ct st i j oi oj :
  Inv ct st -> live_obj (heap st) i oi -> live_obj (heap st) j oj ->
  o_cls oi = o_cls oj -> o_name oi = o_name oj -> i = j /\ oi = oj.
Proof.
  intros [R _] Hi Hj Ec En.
  destruct (ok_obj _ _ R i oi Hi) as [_ [[N1 _] _]]. destruct (ok_obj _ _ R j oj Hj) as [_ [[N2 _] _]].
  rewrite Ec, En in N1. assert (E : i = j) by congruence. subst j. split; [reflexivity|].
  destruct Hi as [Hi _], Hj as [Hj _]. congruence.
Qed.

Lemma obj_len_ok h o cl : obj_length h o = Ok cl -> exists ob, hget h o = Some ob /\ o_data ob = DDom cl.
Proof.
  unfold obj_length. destruct (hget h o) as [ob|]; [|discriminate].
  destruct (o_data ob) as [len| | | |] eqn:E; try discriminate.
  intros H; injection H as <-. exists ob. split; [reflexivity | exact E].
Qed.

Lemma sing_true : is_singleton_err eSingleton = true.
Proof. vm_compute. reflexivity. Qed.
Lemma sing_false_value : is_singleton_err eValue = false. Proof. vm_compute. reflexivity. Qed.
Lemma sing_false_type : is_singleton_err eType = false. Proof. vm_compute. reflexivity. Qed.
Lemma sing_false_bad : is_singleton_err eBadRequest = false. Proof. vm_compute. reflexivity. Qed.
Lemma sing_false_user : is_singleton_err eUserFail = false. Proof. vm_compute. reflexivity. Qed.
Lemma sing_false_fuel : is_singleton_err eFuel = false. Proof. vm_compute. reflexivity. Qed.
Lemma sing_false_index : is_singleton_err eIndex = false. Proof. vm_compute. reflexivity. Qed.
Lemma sing_false_attr : is_singleton_err eAttribute = false. Proof. vm_compute. reflexivity. Qed.
Lemma sing_false_oinit : is_singleton_err eObjectInit = false. Proof. vm_compute. reflexivity. Qed.

Lemma obj_len_err_not_sing h o k : obj_length h o = Err k -> is_singleton_err k = false.
Proof.
  unfold obj_length. destruct (hget h o) as [ob|]; [|intros H; injection H as <-; apply sing_false_bad].
  destruct (o_data ob) as [len| | | |]; try (intros H; injection H as <-; apply sing_false_type).
  discriminate.
Qed.

Lemma cname_involutive n : base_unstarred n -> cname_of (cname_of n) = n.
Proof.
  intros [H|H].
  - rewrite (cname_unstarred n H). unfold cname_of at 1. rewrite starred_app. apply removelast_last.
  - destruct (starred n) eqn:E.
    + rewrite (cname_unstarred _ H). symmetry. apply cname_starred. exact E.
    + rewrite (cname_unstarred n E). unfold cname_of at 1. rewrite starred_app. apply removelast_last.
Qed.

Lemma base_unstarred_cname n : base_unstarred n -> base_unstarred (cname_of n).
Proof.
  intros H. pose proof (cname_involutive n H) as E. unfold base_unstarred. rewrite E.
  destruct H as [H|H]; [right; exact H | left; exact H].
Qed.

Record RecSpec (ct : ctable) (c : nat) (rec : state -> pstr -> option Z -> state * cout) : Prop := mkRecSpec {
  rs_ok : RecOK ct rec;
  rs_ext : RecExt ct rec;
  rs_dok : forall st n l, Inv ct st -> Collected st -> DOK ct st -> DOK ct (fst (rec st n l));
  rs_ret : forall st n l o b, Inv ct st -> Collected st -> DOK ct st ->
      snd (rec st n l) = CRet o b ->
      exists ob, live_obj (heap (fst (rec st n l))) o ob /\ o_cls ob = c /\ o_name ob = n /\
                 (forall l', l = Some l' -> o_data ob = DDom l');
  rs_none : forall st n k e, Inv ct st -> Collected st -> DOK ct st -> base_unstarred n ->
      snd (rec st n None) = CErr k e -> is_singleton_err k = true ->
      forall j oj, live_obj (heap (fst (rec st n None))) j oj -> o_cls oj = c -> o_name oj <> n;
  rs_junk : forall st n l k e, Inv ct st -> Collected st -> DOK ct st ->
      snd (rec st n l) = CErr k e -> is_singleton_err k = true -> Junk st (fst (rec st n l));
  (* a name-only request for an unstarred name is a pure look-up *)
  rs_unst : forall st n, starred n = false -> fst (rec st n None) = st
}.

(* what the nested phase guarantees *)
Record NestedSpec (ct : ctable) (c : nat) (st : state) (nm : pstr) (len1 : option Z)
                  (r : state * res (option Z)) : Prop := mkNestedSpec {
  ns_dok : DOK ct (fst r);
  ns_some : forall l2, snd r = Ok (Some l2) -> PartnerOK (fst r) c nm l2;
  ns_len : forall l2, snd r = Ok l2 -> len1 <> None -> l2 = len1;
  ns_ok_junk : forall v, snd r = Ok v -> Junk st (fst r);
  ns_err_junk : forall k, snd r = Err k -> is_singleton_err k = true -> Junk st (fst r);
  ns_none_err : forall k, snd r = Err k -> len1 = None -> is_singleton_err k = false
}.

Lemma junk_collect_of_ext ct st s : Inv ct st -> Collected st -> Ext st s -> Junk st (collect s).
Proof. intros. eapply collect_ext; eauto. Qed.

Lemma partner_none st c nm l :
  (base_unstarred nm -> forall j oj, live_obj (heap st) j oj -> o_cls oj = c -> o_name oj <> cname_of nm) ->
  PartnerOK st c nm l.
Proof. intros H Hb p op lp Hp Ec En. exfalso. eapply H; eauto. Qed.

Lemma partner_unique ct st c nm o ob cl :
  Inv ct st -> live_obj (heap st) o ob -> o_cls ob = c -> o_name ob = cname_of nm -> o_data ob = DDom cl ->
  PartnerOK st c nm cl.
Proof.
  intros I Ho Ec En Ed _ p op lp Hp Ecp Enp Edp.
  destruct (uniq_name ct st p o op ob I Hp Ho) as [_ E]; [congruence | congruence |]. subst op. congruence.
Qed.

Lemma partner_sub s st c nm l : LiveSub s st -> PartnerOK st c nm l -> PartnerOK s c nm l.
Proof. intros L P Hb p op lp Hp. apply (P Hb p op lp). apply L. exact Hp. Qed.

Lemma ns_ok ct c st nm len1 s v :
  DOK ct s -> Junk st s -> (forall l2, v = Some l2 -> PartnerOK s c nm l2) ->
  (len1 <> None -> v = len1) -> NestedSpec ct c st nm len1 (s, Ok v).
Proof.
  intros D J P L. constructor; cbn [fst snd]; auto; try (intros; discriminate).
  - intros l2 E. injection E as E. apply P. exact E.
  - intros l2 E. injection E as <-. exact L.
Qed.

Lemma ns_err_sing ct c st nm len1 s :
  DOK ct s -> Junk st s -> len1 <> None -> NestedSpec ct c st nm len1 (s, Err eSingleton).
Proof.
  intros D J L. constructor; cbn [fst snd]; auto; try (intros; discriminate).
  intros k _ E. contradiction.
Qed.

Lemma ns_err_other ct c st nm len1 s k :
  DOK ct s -> is_singleton_err k = false -> NestedSpec ct c st nm len1 (s, Err k).
Proof.
  intros D Hk. constructor; cbn [fst snd]; auto; try (intros; discriminate).
  - intros k' E S. injection E as <-. congruence.
  - intros k' E _. injection E as <-. exact Hk.
Qed.

Lemma call_facts ct c rec st n l s1 r :
  RecSpec ct c rec -> Inv ct st -> Collected st -> DOK ct st -> rec st n l = (s1, r) ->
  Inv ct s1 /\ DOK ct s1 /\ Junk st (collect s1) /\ Inv ct (collect s1) /\ Collected (collect s1) /\ DOK ct (collect s1) /\
  (forall o b, r = CRet o b -> exists ob, live_obj (heap s1) o ob /\ o_cls ob = c /\ o_name ob = n /\
                                          (forall l', l = Some l' -> o_data ob = DDom l')) /\
  (forall k e, r = CErr k e -> is_singleton_err k = true ->
      Junk st s1 /\ (l = None -> base_unstarred n ->
                     forall j oj, live_obj (heap s1) j oj -> o_cls oj = c -> o_name oj <> n)).
Proof.
  intros RS I C D E.
  pose proof (rs_ok _ _ _ RS st n l I) as [I1 _].
  pose proof (rs_ext _ _ _ RS st n l I C) as X1.
  pose proof (rs_dok _ _ _ RS st n l I C D) as D1.
  pose proof (rs_ret _ _ _ RS st n l) as Rt.
  pose proof (rs_junk _ _ _ RS st n l) as Rj.
  pose proof (rs_none _ _ _ RS st n) as Rn.
  rewrite E in *. cbn [fst snd] in *.
  destruct (collect_step ct st s1 I C I1 X1) as [_ [I1c C1c]].
  split; [exact I1|]. split; [exact D1|]. split; [eapply collect_ext; eauto|].
  split; [exact I1c|]. split; [exact C1c|]. split; [apply dok_collect; exact D1|]. split.
  - intros o b ->. apply (Rt o b I C D eq_refl).
  - intros k e Er Es. split.
    + subst r. eapply Rj; eauto.
    + intros El Hb j oj. subst l r. rewrite E in Rn. cbn [fst snd] in Rn. eapply Rn; eauto.
Qed.

Theorem nested_spec ct c rec st nm len1 :
  RecSpec ct c rec -> Inv ct st -> Collected st -> DOK ct st ->
  NestedSpec ct c st nm len1 (dom_nested rec st nm len1).
Proof.
  intros RS I C D. unfold dom_nested.
  destruct len1 as [l|], (starred nm) eqn:ES.
  - (* x* with explicit length: partner x *)
    destruct (rec st (cname_of nm) None) as [s1 r] eqn:E1.
    destruct (call_facts ct c rec st (cname_of nm) None s1 r RS I C D E1)
      as [I1 [D1 [J1c [I1c [C1c [D1c [Ret Err]]]]]]].
    destruct r as [o b|k e].
    + destruct (Ret o b eq_refl) as [ob [Ho [Ec [En _]]]].
      destruct (obj_length (heap s1) o) as [cl|k] eqn:EL.
      * apply obj_len_ok in EL. destruct EL as [ob' [Hg Ed]].
        assert (ob' = ob) by (destruct Ho as [Ho _]; congruence). subst ob'.
        destruct (Z.eqb cl l) eqn:Ecl.
        -- apply Z.eqb_eq in Ecl. subst cl. apply ns_ok; [exact D1c | exact J1c | | intros _; reflexivity].
           intros l2 E. injection E as <-.
           eapply partner_sub; [apply livesub_collect|]. eapply partner_unique; eauto.
        -- apply ns_err_sing; [exact D1c | exact J1c | discriminate].
      * apply ns_err_other; [exact D1c | eapply obj_len_err_not_sing; eauto].
    + destruct (is_singleton_err k) eqn:Ek.
      * destruct (Err k e eq_refl Ek) as [J1 Nn]. apply ns_ok; [exact D1c | exact J1c | | intros _; reflexivity].
        intros l2 E. injection E as <-. apply partner_none.
        intros Hb j oj Hj. apply livesub_collect in Hj. apply (Nn eq_refl (base_unstarred_cname _ Hb) j oj Hj).
      * apply ns_err_other; [exact D1 | exact Ek].
  - (* x with explicit length: partner x* *)
    destruct (rec st (cname_of nm) None) as [s1 r] eqn:E1.
    destruct (call_facts ct c rec st (cname_of nm) None s1 r RS I C D E1)
      as [I1 [D1 [J1c [I1c [C1c [D1c [Ret Err]]]]]]].
    destruct r as [o b|k e].
    + destruct (Ret o b eq_refl) as [ob [Ho [Ec [En _]]]].
      destruct (obj_length (heap s1) o) as [cl|k] eqn:EL;
        [|apply ns_err_other; [exact D1c | eapply obj_len_err_not_sing; eauto]].
      apply obj_len_ok in EL. destruct EL as [ob' [Hg Ed]].
      assert (ob' = ob) by (destruct Ho as [Ho _]; congruence). subst ob'.
      destruct (rec (collect s1) (cname_of nm) (Some l)) as [s2 r2] eqn:E2.
      destruct (call_facts ct c rec (collect s1) (cname_of nm) (Some l) s2 r2 RS I1c C1c D1c E2)
        as [I2 [D2 [J2c [I2c [C2c [D2c [Ret2 Err2]]]]]]].
      assert (J2 : Junk st (collect s2)) by (eapply junk_trans; eauto).
      destruct r2 as [o2 b2|k2 e2].
      * destruct (Ret2 o2 b2 eq_refl) as [ob2 [Ho2 [Ec2 [En2 Ed2]]]].
        apply ns_ok; [exact D2c | exact J2 | | intros _; reflexivity].
        intros l2 E. injection E as <-.
        eapply partner_sub; [apply livesub_collect|]. eapply partner_unique; eauto.
      * destruct (is_singleton_err k2) eqn:Ek2; [|apply ns_err_other; [exact D2 | exact Ek2]].
        destruct (Err2 k2 e2 eq_refl Ek2) as [J21 _].
        destruct (Z.eqb cl l) eqn:Ecl; [|apply ns_err_sing; [exact D2c | exact J2 | discriminate]].
        apply Z.eqb_eq in Ecl. subst cl. apply ns_ok; [exact D2c | exact J2 | | intros _; reflexivity].
        intros l2 E. injection E as <-.
        (* a live partner after the second call was live after the first: it is o *)
        eapply partner_sub; [|eapply (partner_unique ct s1); eauto].
        intros j oj Hj. apply livesub_collect in Hj. apply (livesub_junk _ _ J21) in Hj.
        apply livesub_collect in Hj. exact Hj.
    + destruct (is_singleton_err k) eqn:Ek; [|apply ns_err_other; [exact D1 | exact Ek]].
      destruct (Err k e eq_refl Ek) as [J1 Nn]. apply ns_ok; [exact D1c | exact J1c | | intros _; reflexivity].
      intros l2 E. injection E as <-. apply partner_none.
      intros Hb j oj Hj. apply livesub_collect in Hj. apply (Nn eq_refl (base_unstarred_cname _ Hb) j oj Hj).
  - (* x* without length: take the partner's *)
    destruct (rec st (cname_of nm) None) as [s1 r] eqn:E1.
    destruct (call_facts ct c rec st (cname_of nm) None s1 r RS I C D E1)
      as [I1 [D1 [J1c [I1c [C1c [D1c [Ret Err]]]]]]].
    destruct r as [o b|k e].
    + destruct (Ret o b eq_refl) as [ob [Ho [Ec [En _]]]].
      destruct (obj_length (heap s1) o) as [cl|k] eqn:EL;
        [|apply ns_err_other; [exact D1c | eapply obj_len_err_not_sing; eauto]].
      apply obj_len_ok in EL. destruct EL as [ob' [Hg Ed]].
      assert (ob' = ob) by (destruct Ho as [Ho _]; congruence). subst ob'.
      apply ns_ok; [exact D1c | exact J1c | | intros F; contradiction].
      intros l2 E. injection E as <-.
      eapply partner_sub; [apply livesub_collect|]. eapply partner_unique; eauto.
    + destruct (is_singleton_err k) eqn:Ek; [|apply ns_err_other; [exact D1 | exact Ek]].
      apply ns_ok; [exact D1c | exact J1c | intros l2 E; discriminate | intros F; contradiction].
  - apply ns_ok; [exact D | apply junk_refl | intros l2 E; discriminate | intros F; contradiction].
Qed.

(* ---- the look-up / creation after identifiers ---- *)
Lemma live_registered ct st i o :
  Inv ct st -> live_obj (heap st) i o ->
  nlookup (o_name o) (cs_names (cget st (o_cls o))) = Some i /\
  klookup (o_key o) (cs_canon (cget st (o_cls o))) = Some i /\ ObjOK o.
Proof. intros [R _] H. destruct (ok_obj _ _ R i o H) as [_ [[H1 H2] [_ H3]]]. auto. Qed.

Lemma found_by_name ct st c n i :
  Inv ct st -> c < length ct -> nlookup n (cs_names (cget st c)) = Some i ->
  exists o, live_obj (heap st) i o /\ o_cls o = c /\ o_name o = n.
Proof.
  intros [R _] Hc H. apply (alookup_in str_eqb str_eqb_iff) in H.
  apply (ok_nv _ _ _ (ok_cls _ _ R c Hc) n i H).
Qed.

Lemma class_kind_lt ct c k : class_kind ct c = Some k -> c < length ct.
Proof. unfold class_kind. destruct (nth_error ct c) eqn:E; [|discriminate]. intros _. apply nth_error_Some. congruence. Qed.

Lemma dom_data ct st i o :
  DOK ct st -> live_obj (heap st) i o -> class_kind ct (o_cls o) = Some KindD -> exists l, o_data o = DDom l.
Proof.
  intros [_ [_ K]] H Hk. pose proof (K i o H) as E. rewrite Hk in E. injection E as E.
  destruct (o_data o); try discriminate. eauto.
Qed.

Lemma create_err_not_sing ct st c auto name k0 extra children d k e :
  snd (create ct st c auto name k0 extra children d) = CErr k e -> is_singleton_err k = false.
Proof.
  unfold create. destruct (nth_error ct c) as [ci|].
  - destruct (c_fail ci); unfold alloc; cbn [fst snd]; intros E; try discriminate;
      injection E as <- _; apply sing_false_user.
  - cbn [snd]. intros E. injection E as <- _. apply sing_false_bad.
Qed.

Record FinishSpec (ct : ctable) (c : nat) (st1 : state) (nm : pstr) (len2 : option Z) (r : state * cout) : Prop := {
  fs_dok : DOK ct (fst r);
  fs_ret : forall o b, snd r = CRet o b ->
      exists ob, live_obj (heap (fst r)) o ob /\ o_cls ob = c /\ o_name ob = nm /\
                 (forall l', len2 = Some l' -> o_data ob = DDom l');
  fs_err : forall k e, snd r = CErr k e -> is_singleton_err k = true -> fst r = st1;
  fs_none : forall k e, snd r = CErr k e -> is_singleton_err k = true -> len2 = None ->
      forall j oj, live_obj (heap st1) j oj -> o_cls oj = c -> o_name oj <> nm;
  fs_some : forall k e l2, snd r = CErr k e -> is_singleton_err k = true -> len2 = Some l2 ->
      forall j oj, live_obj (heap st1) j oj -> o_cls oj = c -> o_name oj = nm -> o_data oj <> DDom l2
}.

Lemma dom_finish_spec ct c st1 auto nm len2 :
  Inv ct st1 -> DOK ct st1 -> class_kind ct c = Some KindD -> nonempty nm = true ->
  (forall l2, len2 = Some l2 -> PartnerOK st1 c nm l2) ->
  FinishSpec ct c st1 nm len2 (dom_finish ct c st1 auto nm len2).
Proof.
  intros I D Hk Hne HP. pose proof (class_kind_lt _ _ _ Hk) as Hc. unfold dom_finish.
  destruct (sing_lookup (cget st1 c) nm (option_map (KDom nm) len2)) as [o| |e] eqn:EL.
  - (* found *)
    constructor; cbn [fst snd]; try (intros; discriminate); [exact D|].
    intros o' b E. injection E as <- _.
    assert (HN : nlookup nm (cs_names (cget st1 c)) = Some o /\
                 (forall l', len2 = Some l' -> klookup (KDom nm l') (cs_canon (cget st1 c)) = Some o)).
    { unfold sing_lookup in EL. rewrite Hne in EL. destruct len2 as [l'|]; cbn [option_map] in EL.
      - destruct (nlookup nm (cs_names (cget st1 c))) as [on|] eqn:E1;
          destruct (klookup (KDom nm l') (cs_canon (cget st1 c))) as [oc|] eqn:E2;
          try discriminate. destruct (Nat.eqb on oc) eqn:E; [|discriminate]. apply Nat.eqb_eq in E. subst oc.
        injection EL as <-. split; [reflexivity|]. intros l'' E'. injection E' as <-. exact E2.
      - destruct (nlookup nm (cs_names (cget st1 c))) as [on|]; [|discriminate]. injection EL as <-.
        split; [reflexivity | intros; discriminate]. }
    destruct HN as [HN HC]. destruct (found_by_name ct st1 c nm o I Hc HN) as [ob [Ho [Ec En]]].
    exists ob. split; [exact Ho|]. split; [exact Ec|]. split; [exact En|]. intros l' El.
    destruct (dom_data ct st1 o ob D Ho) as [lq Eq]; [rewrite Ec; exact Hk|].
    destruct (live_registered ct st1 o ob I Ho) as [_ [K2 OK]]. unfold ObjOK in OK. rewrite Eq in OK.
    destruct OK as [OK1 _]. rewrite Ec, OK1, En in K2. specialize (HC l' El).
    (* both (nm, lq) and (nm, l') are bound to o: o has the single key (nm, lq) *)
    destruct I as [R _]. apply (alookup_in key_eqb key_eqb_iff) in HC.
    destruct (ok_cv _ _ _ (ok_cls _ _ R c Hc) _ _ HC) as [ob' [Ho' [_ Hin]]].
    assert (ob' = ob) by (destruct Ho as [Ho _], Ho' as [Ho' _]; congruence). subst ob'.
    destruct (ok_obj _ _ R o ob Ho) as [_ [_ [_ OK']]]. unfold ObjOK in OK'. rewrite Eq in OK'.
    destruct OK' as [OKa OKb]. rewrite OKb, OKa, En in Hin. destruct Hin as [Hin|[]]. injection Hin as ->. exact Eq.
  - (* fresh: create *)
    destruct len2 as [l2|]; cbn [option_map] in EL; [|exfalso; eapply sing_fresh_none; eauto].
    pose proof (HP l2 eq_refl) as P.
    constructor.
    + apply dok_create_dom; auto.
    + intros o b E. unfold create in *. destruct (nth_error ct c) as [ci|]; [|discriminate].
      destruct (c_fail ci); try discriminate. unfold alloc in *. cbn [fst snd] in *. injection E as <- _.
      eexists. split; [split; [unfold register, cput; cbn [heap]; apply hget_new | reflexivity]|].
      cbn. split; [reflexivity|]. split; [reflexivity|]. intros l' E'. injection E' as <-. reflexivity.
    + intros k e E S. apply create_err_not_sing in E. congruence.
    + intros k e E S. discriminate.
    + intros k e l2' E S El. apply create_err_not_sing in E. congruence.
  - (* refused *)
    constructor; cbn [fst snd]; try (intros; discriminate); auto.
    + intros k e' E S El j oj Hj Ec En. subst len2. cbn [option_map] in EL.
      destruct (live_registered ct st1 j oj I Hj) as [K1 _]. rewrite Ec, En in K1.
      unfold sing_lookup in EL. rewrite Hne, K1 in EL. discriminate.
    + intros k e' l2 E S El j oj Hj Ec En Ed. subst len2. cbn [option_map] in EL.
      destruct (live_registered ct st1 j oj I Hj) as [K1 [K2 OK]]. unfold ObjOK in OK. rewrite Ed in OK.
      destruct OK as [OK1 _]. rewrite Ec, En in K1. rewrite Ec, OK1, En in K2.
      unfold sing_lookup in EL. rewrite Hne, K1, K2, Nat.eqb_refl in EL. discriminate.
Qed.

(* ---- one level of DomainS.identifiers + Singleton.__call__ ---- *)
Record BodySpec (ct : ctable) (c : nat) (st : state) (r : state * cout) : Prop := {
  bs_dok : DOK ct (fst r);
  bs_ret : forall o b, snd r = CRet o b -> exists ob, live_obj (heap (fst r)) o ob /\ o_cls ob = c;
  bs_junk : forall k e, snd r = CErr k e -> is_singleton_err k = true -> Junk st (fst r)
}.

Lemma dom_len1_none ci l : dom_len1 ci l None = Ok l.
Proof. destruct l; reflexivity. Qed.

Lemma body_spec ct c rec st name len prefix dtype :
  class_kind ct c = Some KindD -> RecSpec ct c rec -> Inv ct st -> Collected st -> DOK ct st ->
  BodySpec ct c st (dom_body rec ct c st name len prefix dtype) /\
  (forall ci nm len1 o b, nth_error ct c = Some ci -> resolve_name ct st c ci name prefix = Ok nm ->
     dom_len1 ci len dtype = Ok len1 ->
     snd (dom_body rec ct c st name len prefix dtype) = CRet o b ->
     exists ob, live_obj (heap (fst (dom_body rec ct c st name len prefix dtype))) o ob /\ o_cls ob = c /\
                o_name ob = nm /\ (forall l', len1 = Some l' -> o_data ob = DDom l')).
Proof.
  intros Hk RS I C D. unfold dom_body.
  assert (Triv : forall k, is_singleton_err k = false -> BodySpec ct c st (st, CErr k None)).
  { intros k Hf. constructor; cbn [fst snd]; [exact D | intros; discriminate|].
    intros k' e E S. injection E as <- _. congruence. }
  destruct (nth_error ct c) as [ci|] eqn:Ec; [|split; [apply Triv, sing_false_bad | intros; discriminate]].
  destruct (resolve_name ct st c ci name prefix) as [nm|k] eqn:En.
  2:{ split; [|intros; discriminate]. apply Triv. unfold resolve_name in En. destruct name; [discriminate|].
      destruct (class_id ct st c); [discriminate|]. injection En as <-. apply sing_false_attr. }
  destruct (dom_len1 ci len dtype) as [len1|k] eqn:El.
  2:{ split; [|intros; discriminate]. apply Triv. unfold dom_len1 in El. destruct len; [|discriminate].
      destruct (_ && _); [|discriminate]. injection El as <-. apply sing_false_oinit. }
  destruct (negb (nonempty nm)) eqn:Ene.
  { split; [apply Triv, sing_false_index | intros; discriminate]. }
  apply negb_false_iff in Ene.
  pose proof (nested_spec ct c rec st nm len1 RS I C D) as NS.
  pose proof (inv_dom_nested ct rec st nm len1 (rs_ok _ _ _ RS) I) as I1.
  destruct (dom_nested rec st nm len1) as [st1 rl]. destruct NS as [N1 N2 N3 N4 N5 N6]. cbn [fst snd] in *.
  destruct rl as [len2|k].
  - pose proof (dom_finish_spec ct c st1 (is_none name) nm len2 I1 N1 Hk Ene) as FS.
    assert (HP : forall l2, len2 = Some l2 -> PartnerOK st1 c nm l2)
      by (intros l2 ->; apply N2; reflexivity).
    specialize (FS HP). destruct FS as [F1 F2 F3 F4 F5]. split.
    + constructor; [exact F1 | |].
      * intros o b E. destruct (F2 o b E) as [ob [Ho [Eo _]]]. exists ob. auto.
      * intros k e E S. rewrite (F3 k e E S). eapply N4. reflexivity.
    + intros ci' nm' len1' o b Eci Enm Elen E. injection Eci as <-. rewrite En in Enm. injection Enm as <-.
      rewrite El in Elen. injection Elen as <-.
      destruct (F2 o b E) as [ob [Ho [Eo [Eno Ed]]]]. exists ob. split; [exact Ho|]. split; [exact Eo|].
      split; [exact Eno|]. intros l' E1. apply Ed. rewrite (N3 len2 eq_refl); [exact E1 | rewrite E1; discriminate].
  - split; [|intros; discriminate]. constructor; cbn [fst snd]; [exact N1 | intros; discriminate|].
    intros k' e E S. injection E as <- _. apply (N5 k eq_refl S).
Qed.

Lemma class_kind_nth ct c k : class_kind ct c = Some k -> exists ci, nth_error ct c = Some ci.
Proof. unfold class_kind. destruct (nth_error ct c) as [ci|]; [eauto | discriminate]. Qed.

Lemma live_after_collect ct st i o : Inv ct st -> Collected st -> live_obj (heap st) i o -> live_obj (heap (collect st)) i o.
Proof. intros I C H. eapply livesub_junk_rev; [eapply collect_collected; eauto | exact H]. Qed.

Theorem recspec_step ct c rec :
  class_kind ct c = Some KindD -> RecSpec ct c rec ->
  RecSpec ct c (fun st n l => dom_body rec ct c st (Some n) l None None).
Proof.
  intros Hk RS. destruct (class_kind_nth _ _ _ Hk) as [ci Eci].
  constructor.
  - intros st n l I. apply callok_dom_body; [apply (rs_ok _ _ _ RS) | exact I].
  - intros st n l I C. apply ext_dom_body; [apply (rs_ok _ _ _ RS) | apply (rs_ext _ _ _ RS) | exact I | exact C].
  - intros st n l I C D. apply (bs_dok _ _ _ _ (proj1 (body_spec ct c rec st (Some n) l None None Hk RS I C D))).
  - intros st n l o b I C D E.
    apply (proj2 (body_spec ct c rec st (Some n) l None None Hk RS I C D) ci n l o b Eci eq_refl (dom_len1_none ci l) E).
  - (* a refused name-only request: nobody of that name is live *)
    intros st n k e I C D Hb E S. revert E. unfold dom_body. rewrite Eci. cbn [resolve_name]. rewrite dom_len1_none.
    destruct (negb (nonempty n)) eqn:Ene.
    { cbn [snd]. intros E. injection E as <- _. rewrite sing_false_index in S. discriminate. }
    apply negb_false_iff in Ene. unfold dom_nested.
    destruct (starred n) eqn:ES.
    + assert (Hcn : starred (cname_of n) = false) by (destruct Hb as [Hb|Hb]; congruence).
      pose proof (rs_unst _ _ _ RS st (cname_of n) Hcn) as Est.
      pose proof (rs_ret _ _ _ RS st (cname_of n) None) as Rt.
      destruct (rec st (cname_of n) None) as [s1 r1]. cbn [fst snd] in *. subst s1.
      assert (Ic : Inv ct (collect st)) by (apply inv_collect; exact I).
      assert (Dc : DOK ct (collect st)) by (apply dok_collect; exact D).
      destruct r1 as [o b|k1 e1].
      * destruct (Rt o b I C D eq_refl) as [ob [Ho [Ec [Eno _]]]].
        destruct (obj_length (heap st) o) as [cl|k'] eqn:EL.
        -- apply obj_len_ok in EL. destruct EL as [ob' [Hg Ed]].
           assert (ob' = ob) by (destruct Ho as [Ho _]; congruence). subst ob'.
           assert (Hoc : live_obj (heap (collect st)) o ob) by (apply (live_after_collect ct); auto).
           assert (HP : forall l2, Some cl = Some l2 -> PartnerOK (collect st) c n l2).
           { intros l2 E2. injection E2 as <-. eapply partner_unique; eauto. }
           destruct (dom_finish_spec ct c (collect st) (is_none (Some n)) n (Some cl) Ic Dc Hk Ene HP) as [F1 F2 F3 F4 F5].
           cbn [fst snd]. intros E j oj Hj Ecj Enj. rewrite (F3 k e E S) in Hj.
           destruct (dom_data ct (collect st) j oj Dc Hj) as [lq Eq]; [rewrite Ecj; exact Hk|].
           assert (cl = lq).
           { apply (proj1 Dc o j ob oj cl lq Hoc Hj); auto; [congruence | congruence|].
             rewrite Enj, Eno. apply cname_starred. exact ES. }
           subst lq. apply (F5 k e cl E S eq_refl j oj Hj Ecj Enj Eq).
        -- cbn [fst snd]. intros E. injection E as <- _. apply obj_len_err_not_sing in EL. congruence.
      * destruct (is_singleton_err k1) eqn:Ek1.
        -- assert (HP : forall l2, @None Z = Some l2 -> PartnerOK (collect st) c n l2) by (intros; discriminate).
           destruct (dom_finish_spec ct c (collect st) (is_none (Some n)) n None Ic Dc Hk Ene HP) as [F1 F2 F3 F4 F5].
           cbn [fst snd]. intros E j oj Hj. rewrite (F3 k e E S) in Hj. apply (F4 k e E S eq_refl j oj Hj).
        -- cbn [fst snd]. intros E. injection E as <- _. congruence.
    + assert (HP : forall l2, @None Z = Some l2 -> PartnerOK st c n l2) by (intros; discriminate).
      destruct (dom_finish_spec ct c st (is_none (Some n)) n None I D Hk Ene HP) as [F1 F2 F3 F4 F5].
      cbn [fst snd]. intros E j oj Hj. rewrite (F3 k e E S) in Hj. apply (F4 k e E S eq_refl j oj Hj).
  - intros st n l k e I C D E S.
    apply (bs_junk _ _ _ _ (proj1 (body_spec ct c rec st (Some n) l None None Hk RS I C D)) k e E S).
  - intros st n ES. unfold dom_body. rewrite Eci. cbn [resolve_name]. rewrite dom_len1_none.
    destruct (negb (nonempty n)); [reflexivity|]. unfold dom_nested. rewrite ES. cbn [fst snd].
    unfold dom_finish. cbn [option_map]. destruct (sing_lookup (cget st c) n None); reflexivity.
Qed.

(* ---- the whole recursion ---- *)
Lemma recspec_base ct c : RecSpec ct c (fun st _ _ => (st, CErr eFuel None)).
Proof.
  constructor.
  - intros st n l I. apply callok_err. exact I.
  - intros st n l I C. apply ext_refl.
  - intros st n l I C D. exact D.
  - intros st n l o b I C D E. discriminate.
  - intros st n k e I C D Hb E S. cbn [snd] in E. injection E as <- _. rewrite sing_false_fuel in S. discriminate.
  - intros st n l k e I C D E S. cbn [snd] in E. injection E as <- _. rewrite sing_false_fuel in S. discriminate.
  - intros st n ES. reflexivity.
Qed.

Theorem recspec_fuel ct c f :
  class_kind ct c = Some KindD -> RecSpec ct c (fun st n l => dom_call f ct c st (Some n) l None None).
Proof.
  intros Hk. induction f as [|f IH]; [apply recspec_base|].
  cbn [dom_call]. apply (recspec_step ct c _ Hk IH).
Qed.

Theorem dok_dom_call fuel ct c st name len prefix dtype :
  class_kind ct c = Some KindD -> Inv ct st -> Collected st -> DOK ct st ->
  DOK ct (fst (dom_call fuel ct c st name len prefix dtype)).
Proof.
  intros Hk I C D. destruct fuel as [|f]; [exact D|]. cbn [dom_call].
  apply (bs_dok _ _ _ _ (proj1 (body_spec ct c _ st name len prefix dtype Hk (recspec_fuel ct c f Hk) I C D))).
Qed.

Lemma dok_finish ct dst r : DOK ct (fst r) -> DOK ct (fst (finish dst r)).
Proof.
  intros D. unfold finish. destruct (snd r); cbn [fst]; apply dok_collect; [apply dok_set_root|]; exact D.
Qed.

(* ---- the other classes never create domains ---- *)
Lemma dok_lookup_create ct st c nm k auto extra children d :
  (forall l, d <> DDom l) -> class_kind ct c = Some (data_kind d) -> DOK ct st ->
  DOK ct (fst (match sing_lookup (cget st c) nm (Some k) with
               | LFound o => (st, CRet o false)
               | LRaise e => (st, CErr eSingleton e)
               | LFresh => create ct st c auto nm k extra children d
               end)).
Proof. intros Hd Hk D. destruct (sing_lookup _ _ _); try exact D. apply dok_create_other; auto. Qed.

Ltac dok_triv D := repeat match goal with
  | |- DOK _ (fst (_, _)) => exact D
  | |- DOK _ (fst (match ?x with _ => _ end)) => destruct x
  | |- DOK _ (fst (if ?x then _ else _)) => destruct x
  end.

Lemma dok_cplx_call ct c st seq sst name prefix :
  class_kind ct c = Some KindC -> DOK ct st -> DOK ct (fst (cplx_call ct c st seq sst name prefix)).
Proof.
  intros Hk D. unfold cplx_call.
  destruct (nth_error ct c); [|exact D]. destruct seq as [es|].
  - destruct (resolve_name _ _ _ _ _ _); [|exact D]. destruct sst; [|exact D].
    destruct (negb _); [exact D|]. destruct (Nat.eqb _ 0); [exact D|].
    destruct (rot_loop _ _ _ _ _ _) as [[ex cdict]|]; [|exact D].
    match goal with |- DOK _ (fst (match ?x with _ => _ end)) => destruct x as [[cn e]|] end; [|exact D].
    apply dok_lookup_create; auto. discriminate.
  - destruct name; [|exact D]. destruct (sing_lookup _ _ _); exact D.
Qed.

Lemma dok_strand_call ct c st seq name prefix :
  class_kind ct c = Some KindS -> DOK ct st -> DOK ct (fst (strand_call ct c st seq name prefix)).
Proof.
  intros Hk D. unfold strand_call.
  destruct (nth_error ct c); [|exact D]. destruct seq as [es|].
  - destruct (existsb _ _); [exact D|]. destruct (resolve_name _ _ _ _ _ _); [|exact D].
    apply dok_lookup_create; auto. discriminate.
  - destruct name; [|exact D]. destruct (sing_lookup _ _ _); exact D.
Qed.

Lemma dok_macro_call ct c st members name :
  class_kind ct c = Some KindM -> DOK ct st -> DOK ct (fst (macro_call ct c st members name)).
Proof.
  intros Hk D. unfold macro_call. destruct members as [ms|].
  - destruct (omap' _ ms); [|exact D].
    match goal with |- DOK _ (fst (match ?x with _ => _ end)) => destruct x as [nm|] end; [|exact D].
    destruct (find _ ms).
    + apply dok_lookup_create; auto. discriminate.
    + destruct (sing_lookup _ _ _); exact D.
  - destruct name; [|exact D]. destruct (sing_lookup _ _ _); exact D.
Qed.

Lemma dok_reaction_call ct c st rp rtype name :
  class_kind ct c = Some KindR -> DOK ct st -> DOK ct (fst (reaction_call ct c st rp rtype name)).
Proof.
  intros Hk D. unfold reaction_call. destruct rp as [[rs ps]|].
  - destruct (omap' _ rs); [|exact D]. destruct (omap' _ ps); [|exact D].
    match goal with |- DOK _ (fst (if ?b then _ else _)) => destruct b end; [exact D|].
    apply dok_lookup_create; auto. discriminate.
  - destruct name; [|exact D]. destruct rtype; [exact D|]. destruct (sing_lookup _ _ _); exact D.
Qed.

Lemma dok_set_turns ct st i v : DOK ct st -> DOK ct (fst (set_turns st i v)).
Proof.
  intros D. unfold set_turns. destruct (hget (heap st) i) as [o|] eqn:E; [|exact D].
  destruct (o_data o) eqn:Ed; try exact D.
  - match goal with |- context [if ?b then _ else _] => destruct b end; [exact D|].
    destruct (rot_n _ seq sst) as [[es' ss']|]; [|exact D]. cbn [fst].
    (* the updated object is a complex before and after *)
    destruct D as [C [Z K]].
    assert (G : forall j x, live_obj (hset (heap st) i (with_data o (DCplx es' ss' (wrap v (Z.of_nat (length (make_strand_table_list sPlus (map fst seq)))))))) j x ->
                (live_obj (heap st) j x) \/ (exists x', live_obj (heap st) j x' /\ o_cls x = o_cls x' /\ o_name x = o_name x' /\
                   data_kind (o_data x) = KindC /\ data_kind (o_data x') = KindC)).
    { intros j x [H1 H2]. rewrite hget_hset in H1. destruct (Nat.eqb j i) eqn:Ej.
      - apply Nat.eqb_eq in Ej. subst j. rewrite E in H1. cbn in H1. injection H1 as <-. right. exists o.
        cbn in H2. repeat split; auto. rewrite Ed. reflexivity.
      - left. split; assumption. }
    split; [|split].
    + intros a b oa ob la lb Ha Hb. apply G in Ha. apply G in Hb.
      destruct Ha as [Ha|[xa [_ [_ [_ [Ka _]]]]]]; [|intros _ Da; rewrite Da in Ka; discriminate].
      destruct Hb as [Hb|[xb [_ [_ [_ [Kb _]]]]]]; [|intros _ _ Db; rewrite Db in Kb; discriminate].
      apply (C a b oa ob la lb Ha Hb).
    + intros a oa la Ha Da. apply G in Ha. destruct Ha as [Ha|[xa [_ [_ [_ [Ka _]]]]]]; [apply (Z a oa la Ha Da)|].
      rewrite Da in Ka. discriminate.
    + intros a oa Ha. apply G in Ha. destruct Ha as [Ha|[xa [Hx [Ec [_ [Ka Kb]]]]]]; [apply (K a oa Ha)|].
      rewrite Ec, Ka, <- Kb. apply (K a xa Hx).
  - match goal with |- context [if ?b then _ else _] => destruct b end; exact D.
Qed.
