(* Reader model, C14: a consistent system is never refused, and the assembled statement.
   Part 1: what the registries answer in a session in which every live object is held by the
   result dictionary, and the domain calls of the reader under that invariant. *)
From Coq Require Import List NArith ZArith Bool Arith Lia.
From DSD Require Import Base.Str Base.Errors Model.ComplexUtils Model.RegStr Model.ReaderStr Model.PyNum
  Model.Peg Model.Kernel Model.DispatchKernel Model.Heap Model.Registry Model.Reader Model.ReaderShape
  Proofs.RegHeap Proofs.RegInv Proofs.RegCalls Proofs.RegExt Proofs.ReaderBasic Proofs.ReaderStmt Proofs.ReaderHeap
  Proofs.ReaderInv Proofs.ReaderHoare Proofs.ReaderNoFault Proofs.ReaderThms Proofs.ReaderBuilds Proofs.ReaderKernel
  Proofs.ReaderMore.
From DSD Require Model.Iupac.
Import ListNotations.

(* ---- registries and live objects (consequences of Inv) ---- *)
Section Reg.
  Variable ct : ctable.

  Lemma reg_live st c n j :
    Inv ct st -> c < length ct -> nlookup n (cs_names (cget st c)) = Some j ->
    exists o, hget (heap st) j = Some o /\ o_live o = true /\ o_cls o = c /\ o_name o = n.
  Proof.
    intros [R _] Hc E. apply (alookup_in str_eqb str_eqb_iff) in E.
    destruct (ok_nv _ _ _ (ok_cls _ _ R c Hc) n j E) as [o [[Ho Hl] [Ec En]]]. eauto.
  Qed.

  Lemma kreg_live st c k j :
    Inv ct st -> c < length ct -> klookup k (cs_canon (cget st c)) = Some j ->
    exists o, hget (heap st) j = Some o /\ o_live o = true /\ o_cls o = c /\ In k (o_keys o).
  Proof.
    intros [R _] Hc E. apply (alookup_in key_eqb key_eqb_iff) in E.
    destruct (ok_cv _ _ _ (ok_cls _ _ R c Hc) k j E) as [o [[Ho Hl] [Ec En]]]. eauto.
  Qed.

  Lemma live_reg st j o :
    Inv ct st -> hget (heap st) j = Some o -> o_live o = true ->
    nlookup (o_name o) (cs_names (cget st (o_cls o))) = Some j /\
    klookup (o_key o) (cs_canon (cget st (o_cls o))) = Some j.
  Proof. intros [R _] Ho Hl. destruct (ok_obj _ _ R j o (conj Ho Hl)) as [_ [[N1 N2] _]]. auto. Qed.

  (* collect never registers anything *)
  Lemma live_collect_back st j o :
    hget (heap (collect st)) j = Some o -> o_live o = true -> hget (heap st) j = Some o.
  Proof.
    rewrite heap_collect, hget_sweep. destruct (hget (heap st) j) as [x|]; [|discriminate]. cbn.
    destruct (kept _ _ j); intros E Hl; injection E as <-; [reflexivity | cbn in Hl; discriminate].
  Qed.

  Lemma unreg_collect st c n :
    Inv ct st -> c < length ct -> nlookup n (cs_names (cget st c)) = None ->
    nlookup n (cs_names (cget (collect st) c)) = None.
  Proof.
    intros I Hc Hn. destruct (nlookup n (cs_names (cget (collect st) c))) as [j|] eqn:E; [|reflexivity]. exfalso.
    destruct (reg_live (collect st) c n j (inv_collect _ _ I) Hc E) as [o [Ho [Hl [Ec En]]]].
    pose proof (live_collect_back st j o Ho Hl) as Ho'.
    destruct (live_reg st j o I Ho' Hl) as [N1 _]. rewrite Ec, En in N1. congruence.
  Qed.

  Lemma kunreg_collect st c k :
    Inv ct st -> c < length ct -> klookup k (cs_canon (cget st c)) = None ->
    klookup k (cs_canon (cget (collect st) c)) = None.
  Proof.
    intros [R _] Hc Hn. rewrite cget_collect. cbn [purge_class cs_canon]. unfold purge.
    destruct (klookup k (filter _ (cs_canon (cget st c)))) as [j|] eqn:E; [|reflexivity]. exfalso.
    apply (alookup_filter_inv key_eqb key_eqb_iff) in E; [|apply (ok_cn _ _ _ (ok_cls _ _ R c Hc))].
    destruct E as [E _]. unfold klookup in Hn. congruence.
  Qed.
End Reg.

(* ---- DomainS calls, computed ---- *)
Section DomCalls.
  Variable ct : ctable.
  Variable c : nat.
  Variable ci : cinfo.
  Hypothesis Hci : nth_error ct c = Some ci.
  Hypothesis Hfail : c_fail ci = FNone.

  Lemma c_lt : c < length ct.
  Proof. apply nth_error_Some. congruence. Qed.

  Lemma starred_app x : starred (x ++ [Registry.cStar]) = true.
  Proof. unfold starred. rewrite rev_app_distr. cbn. reflexivity. Qed.
  Lemma cname_star x : cname_of (x ++ [Registry.cStar]) = x.
  Proof. unfold cname_of. rewrite starred_app. apply removelast_last. Qed.
  Lemma cname_unstarred x : starred x = false -> cname_of x = x ++ [Registry.cStar].
  Proof. unfold cname_of. intros ->. reflexivity. Qed.

  Lemma dom_call_S f st name len prefix dtype :
    dom_call (S f) ct c st name len prefix dtype =
      dom_body (fun st' n l => dom_call f ct c st' (Some n) l None None) ct c st name len prefix dtype.
  Proof. reflexivity. Qed.

  (* Domain(d), d unstarred: a pure look-up *)
  Lemma dom_lookup_unstarred f st d :
    starred d = false -> nonempty d = true ->
    dom_call (S f) ct c st (Some d) None None None =
      match nlookup d (cs_names (cget st c)) with
      | Some o => (st, CRet o false)
      | None => (st, CErr eSingleton None)
      end.
  Proof.
    intros Hs Hne. rewrite dom_call_S. unfold dom_body. rewrite Hci. cbn [resolve_name dom_len1 is_s].
    rewrite Hne. cbn [negb]. unfold dom_nested. rewrite Hs. unfold dom_finish. cbn [option_map].
    unfold sing_lookup. rewrite Hne. destruct (nlookup d (cs_names (cget st c))); reflexivity.
  Qed.

  (* Domain of a starred name, base name registered with length l, starred name registered with the same length: found *)
  Lemma dom_lookup_starred f st x i l j :
    Inv ct st -> starred x = false -> nonempty x = true ->
    nlookup x (cs_names (cget st c)) = Some i -> obj_length (heap st) i = Ok l ->
    nlookup (x ++ [Registry.cStar]) (cs_names (cget (collect st) c)) = Some j ->
    klookup (KDom (x ++ [Registry.cStar]) l) (cs_canon (cget (collect st) c)) = Some j ->
    dom_call (S (S f)) ct c st (@Some pstr (x ++ [Registry.cStar])) None None None = (collect st, CRet j false).
  Proof.
    intros I Hs Hne Hx Hl Hn Hk. rewrite dom_call_S. unfold dom_body at 1. rewrite Hci. cbn [resolve_name dom_len1 is_s].
    assert (Hne' : nonempty (x ++ [Registry.cStar]) = true) by (destruct x; reflexivity).
    rewrite Hne'. cbn [negb]. unfold dom_nested. rewrite starred_app, cname_star.
    rewrite (dom_lookup_unstarred f st x Hs Hne), Hx, Hl.
    unfold dom_finish. cbn [option_map]. unfold sing_lookup. rewrite Hne', Hn, Hk, Nat.eqb_refl. reflexivity.
  Qed.

  (* Domain of a starred name, neither it nor the base name registered: refused *)
  Lemma dom_lookup_starred_none f st x :
    Inv ct st -> starred x = false -> nonempty x = true ->
    nlookup x (cs_names (cget st c)) = None -> nlookup (x ++ [Registry.cStar]) (cs_names (cget st c)) = None ->
    dom_call (S (S f)) ct c st (@Some pstr (x ++ [Registry.cStar])) None None None = (collect st, CErr eSingleton None).
  Proof.
    intros I Hs Hne Hx Hn. rewrite dom_call_S. unfold dom_body at 1. rewrite Hci. cbn [resolve_name dom_len1 is_s].
    assert (Hne' : nonempty (x ++ [Registry.cStar]) = true) by (destruct x; reflexivity).
    rewrite Hne'. cbn [negb]. unfold dom_nested. rewrite starred_app, cname_star.
    rewrite (dom_lookup_unstarred f st x Hs Hne), Hx.
    replace (is_singleton_err eSingleton) with true by reflexivity.
    unfold dom_finish. cbn [option_map]. unfold sing_lookup. rewrite Hne'.
    rewrite (unreg_collect ct st c _ I c_lt Hn). reflexivity.
  Qed.

  (* Domain(nm, length = l), nm unstarred, neither nm nor its complement name registered: created *)
  Lemma dom_create_unstarred f st nm l :
    Inv ct st -> starred nm = false -> nonempty nm = true ->
    nlookup nm (cs_names (cget st c)) = None -> nlookup (nm ++ [Registry.cStar]) (cs_names (cget st c)) = None ->
    klookup (KDom nm l) (cs_canon (cget st c)) = None ->
    exists st1, (st1 = st \/ st1 = collect (collect st)) /\
      dom_call (S (S (S f))) ct c st (Some nm) (Some l) None None =
        create ct st1 c false nm (KDom nm l) [] [] (DDom l).
  Proof.
    intros I Hs Hne Hn Hc Hk. rewrite dom_call_S. unfold dom_body at 1. rewrite Hci. cbn [resolve_name].
    rewrite dom_len1_none. rewrite Hne. cbn [negb]. unfold dom_nested. rewrite Hs.
    + rewrite (cname_unstarred nm Hs). cbv beta.
      rewrite (dom_lookup_starred_none f st nm I Hs Hne Hn Hc).
      replace (is_singleton_err eSingleton) with true by reflexivity.
      exists (collect (collect st)). split; [right; reflexivity|].
      assert (I1 : Inv ct (collect st)) by (apply inv_collect; exact I).
      unfold dom_finish. cbn [option_map]. unfold sing_lookup. rewrite Hne.
      rewrite (unreg_collect ct _ c _ I1 c_lt (unreg_collect ct st c _ I c_lt Hn)).
      rewrite (kunreg_collect ct _ c _ I1 c_lt (kunreg_collect ct st c _ I c_lt Hk)). reflexivity.
  Qed.

  (* ~d for d = nm (unstarred, length l, registered as i), complement name not registered: it is created *)
  Lemma dom_create_complement f st nm l i :
    Inv ct st -> starred nm = false -> nonempty nm = true ->
    nlookup nm (cs_names (cget st c)) = Some i -> obj_length (heap st) i = Ok l ->
    nlookup (nm ++ [Registry.cStar]) (cs_names (cget st c)) = None ->
    klookup (KDom (nm ++ [Registry.cStar]) l) (cs_canon (cget st c)) = None ->
    exists st1, (st1 = st \/ st1 = collect st) /\
      dom_call (S (S f)) ct c st (@Some pstr (nm ++ [Registry.cStar])) (Some l) None None =
        create ct st1 c false (nm ++ [Registry.cStar]) (KDom (nm ++ [Registry.cStar]) l) [] [] (DDom l).
  Proof.
    intros I Hs Hne Hn Hl Hc Hk. rewrite dom_call_S. unfold dom_body at 1. rewrite Hci. cbn [resolve_name].
    rewrite dom_len1_none.
    assert (Hne' : nonempty (nm ++ [Registry.cStar]) = true) by (destruct nm; reflexivity).
    rewrite Hne'. cbn [negb]. unfold dom_nested. rewrite starred_app, cname_star.
    + rewrite (dom_lookup_unstarred f st nm Hs Hne), Hn, Hl. rewrite Z.eqb_refl.
      exists (collect st). split; [right; reflexivity|].
      unfold dom_finish. cbn [option_map]. unfold sing_lookup. rewrite Hne'.
      rewrite (unreg_collect ct st c _ I c_lt Hc), (kunreg_collect ct st c _ I c_lt Hk). reflexivity.
  Qed.

  (* what create does when the class is plain *)
  Lemma create_plain st auto name k extra children d :
    create ct st c auto name k extra children d =
      (register (fst (alloc (if auto then bump_id ct st c else st) (mkObj c name k (k :: extra) true children d)))
                c name k extra (length (heap (if auto then bump_id ct st c else st))),
       CRet (length (heap (if auto then bump_id ct st c else st))) true).
  Proof. unfold create. rewrite Hci, Hfail. reflexivity. Qed.
End DomCalls.

(* ---- sessions in which nothing ever dies: collect is the identity ---- *)
Section Sess.
  Variable ct : ctable.

  Definition SOK (st : state) : Prop := Inv ct st /\ Collected st.

  Lemma map_id_in {A} (f : A -> A) l : (forall x, In x l -> f x = x) -> map f l = l.
  Proof.
    induction l as [|a r IH]; cbn; intros H; [reflexivity|].
    rewrite (H a (or_introl eq_refl)). f_equal. apply IH. intros x Hx. apply H. right. exact Hx.
  Qed.

  Theorem collect_id st : SOK st -> collect st = st.
  Proof.
    intros [[R H] C]. unfold collect.
    assert (SW : sweep (heap st) (root_ids (roots st)) = heap st)
      by (apply sweep_collected; [apply (hk_older _ H) | exact C]).
    rewrite SW. destruct st as [h cl rs]. cbn [heap classes roots] in *. f_equal.
    apply map_id_in. intros x Hx. apply In_nth_error in Hx. destruct Hx as [c Hc].
    assert (Lc : c < length ct).
    { rewrite <- (ok_len _ _ R). cbn. apply nth_error_Some. congruence. }
    assert (Ex : x = cget (mkState h cl rs) c).
    { unfold cget. cbn. symmetry. apply nth_error_nth. exact Hc. }
    pose proof (ok_cls _ _ R c Lc) as K. rewrite <- Ex in K. cbn [heap] in K.
    destruct x as [nn cn idv]. unfold purge_class, purge. cbn [cs_names cs_canon cs_id] in *. f_equal.
    - apply filter_all. intros [n i] Hin. cbn. destruct (ok_nv _ _ _ K n i Hin) as [o [Ho _]].
      eapply live_obj_is_live; eauto.
    - apply filter_all. intros [n i] Hin. cbn. destruct (ok_cv _ _ _ K n i Hin) as [o [Ho _]].
      eapply live_obj_is_live; eauto.
  Qed.

  Lemma root_ids_app a b : root_ids (a ++ b) = root_ids a ++ root_ids b.
  Proof. induction a as [|[x|] r IH]; cbn; [reflexivity | rewrite IH; reflexivity | exact IH]. Qed.
  Lemma root_ids_some l : root_ids (map Some l) = l.
  Proof. induction l as [|x r IH]; cbn; [reflexivity | rewrite IH; reflexivity]. Qed.

  Lemma collected_roots st rs' :
    Collected st -> (forall j, In j (root_ids (roots st)) -> In j (root_ids rs')) ->
    Collected (mkState (heap st) (classes st) rs').
  Proof. intros C Hs i L. cbn [heap roots] in *. eapply reach_mono; [exact Hs | apply C; exact L]. Qed.

  Lemma sok_hold st i : SOK st -> is_live (heap st) i = true -> SOK (hold st i).
  Proof.
    intros [I C] L. split.
    - destruct I as [R H]. split.
      + destruct R as [R1 R2 R3]. constructor; [exact R1 | exact R2 | exact R3].
      + destruct H as [H1 H2 H3]. constructor; [|exact H2 | exact H3].
        intros s j Hs. unfold hold in Hs. cbn [roots] in Hs. apply nth_error_In in Hs.
        apply in_app_or in Hs. destruct Hs as [Hs|[Hs|[]]].
        * apply In_nth_error in Hs. destruct Hs as [s2 Hs2]. apply (H1 s2 j Hs2).
        * injection Hs as <-. exact L.
    - unfold hold. apply collected_roots; [exact C|]. intros j Hj. rewrite root_ids_app. apply in_or_app. left. exact Hj.
  Qed.

  Lemma reach_cons o h seeds i : Reach h seeds i -> Reach (o :: h) seeds i.
  Proof.
    intros R. induction R as [i Hs | j i x Rj IH Hg Hl Hc]; [apply R_seed; exact Hs|].
    eapply R_child; [exact IH | apply hget_old_some; exact Hg | exact Hl | exact Hc].
  Qed.

  (* a new object on top of the heap that is held at once *)
  Lemma collected_grow st st' o :
    Collected st -> heap st' = o :: heap st -> roots st' = roots st ->
    Collected (hold st' (length (heap st))).
  Proof.
    intros C Eh Er i L. unfold hold in *. cbn [heap roots] in *. rewrite Eh in *. rewrite Er, root_ids_app.
    destruct (Nat.eq_dec i (length (heap st))) as [->|D].
    - apply R_seed. apply in_or_app. right. left. reflexivity.
    - apply reach_cons. eapply reach_mono; [|apply C].
      + intros x Hx. apply in_or_app. left. exact Hx.
      + unfold is_live in *. rewrite hget_old in L by exact D. exact L.
  Qed.

  Lemma collected_cut st n keep :
    Collected st ->
    (forall j, In j (root_ids (roots st)) -> In j (root_ids (firstn n (roots st))) \/ In j keep) ->
    Collected (cut_roots st n keep).
  Proof.
    intros C Hs. unfold cut_roots. apply collected_roots; [exact C|]. intros j Hj.
    rewrite root_ids_app, root_ids_some. apply in_or_app. apply Hs. exact Hj.
  Qed.

  Lemma sok_init : SOK (init ct 0).
  Proof. split; [apply inv_init | apply collected_init]. Qed.
End Sess.

(* ---- the state after type.__call__ + registration in a class without user __init__ ---- *)
Section New.
  Variable ct : ctable.

  Definition new_obj (c : nat) (nm : pstr) (k : key) (extra : list key) (ch : list nat) (d : odata) : obj :=
    mkObj c nm k (k :: extra) true ch d.
  Definition mk_new (st : state) (c : nat) (nm : pstr) (k : key) (extra : list key) (ch : list nat) (d : odata) : state :=
    register (fst (alloc st (new_obj c nm k extra ch d))) c nm k extra (length (heap st)).

  Lemma create_new st c ci nm k extra ch d :
    nth_error ct c = Some ci -> c_fail ci = FNone ->
    create ct st c false nm k extra ch d = (mk_new st c nm k extra ch d, CRet (length (heap st)) true).
  Proof. intros Hci Hf. unfold create. rewrite Hci, Hf. reflexivity. Qed.

  Lemma heap_mk_new st c nm k extra ch d :
    heap (mk_new st c nm k extra ch d) = new_obj c nm k extra ch d :: heap st.
  Proof. reflexivity. Qed.
  Lemma roots_mk_new st c nm k extra ch d : roots (mk_new st c nm k extra ch d) = roots st.
  Proof. reflexivity. Qed.

  Lemma cget_mk_new_other st c nm k extra ch d c' :
    c <> c' -> cget (mk_new st c nm k extra ch d) c' = cget st c'.
  Proof. intros D. unfold mk_new, register. rewrite cget_cput_other by exact D. reflexivity. Qed.

  Lemma klookup_fold extra id canon k' :
    klookup k' (fold_left (fun acc k0 => kset k0 id acc) extra canon) =
      if existsb (key_eqb k') extra then Some id else klookup k' canon.
  Proof.
    revert canon. induction extra as [|x r IH]; intros canon; cbn [fold_left existsb]; [reflexivity|].
    rewrite IH. destruct (existsb (key_eqb k') r); [rewrite orb_true_r; reflexivity|]. rewrite orb_false_r.
    destruct (key_eqb k' x) eqn:E.
    - apply key_eqb_iff in E. subst x. apply (alookup_aset_same key_eqb key_eqb_iff).
    - apply (alookup_aset_other key_eqb key_eqb_iff). intros ->.
      rewrite (proj2 (key_eqb_iff x x) eq_refl) in E. discriminate.
  Qed.

  Lemma names_mk_new st c nm k extra ch d n :
    c < length (classes st) ->
    nlookup n (cs_names (cget (mk_new st c nm k extra ch d) c)) =
      if str_eqb n nm then Some (length (heap st)) else nlookup n (cs_names (cget st c)).
  Proof.
    intros Hc. unfold mk_new, register. rewrite cget_cput_same by exact Hc. cbn [cs_names].
    change (cget (fst (alloc st (new_obj c nm k extra ch d))) c) with (cget st c).
    destruct (str_eqb n nm) eqn:E.
    - apply str_eqb_iff in E. subst n. apply (alookup_aset_same str_eqb str_eqb_iff).
    - apply (alookup_aset_other str_eqb str_eqb_iff). intros ->.
      rewrite (proj2 (str_eqb_iff nm nm) eq_refl) in E. discriminate.
  Qed.

  Lemma canon_mk_new st c nm k extra ch d k' :
    c < length (classes st) ->
    klookup k' (cs_canon (cget (mk_new st c nm k extra ch d) c)) =
      if existsb (key_eqb k') (k :: extra) then Some (length (heap st)) else klookup k' (cs_canon (cget st c)).
  Proof.
    intros Hc. unfold mk_new, register. rewrite cget_cput_same by exact Hc. cbn [cs_canon existsb].
    change (cget (fst (alloc st (new_obj c nm k extra ch d))) c) with (cget st c).
    destruct (key_eqb k' k) eqn:E; cbn [orb].
    - apply key_eqb_iff in E. subst k'. apply (alookup_aset_same key_eqb key_eqb_iff).
    - unfold klookup at 1, kset. rewrite (alookup_aset_other key_eqb key_eqb_iff).
      + apply klookup_fold.
      + intros ->. rewrite (proj2 (key_eqb_iff k k) eq_refl) in E. discriminate.
  Qed.

  (* the new object is held at once: the session stays one in which nothing dies *)
  Lemma sok_mk_new st c nm k extra ch d :
    SOK ct st -> c < length ct -> Fresh st c nm k extra ->
    (forall x, In x ch -> is_live (heap st) x = true) ->
    ObjOK (new_obj c nm k extra ch d) ->
    SOK ct (hold (mk_new st c nm k extra ch d) (length (heap st))).
  Proof.
    intros [I C] Hc F Hch HO.
    assert (I' : Inv ct (mk_new st c nm k extra ch d)) by (apply inv_alloc_register; assumption).
    split.
    - destruct I' as [R H]. split.
      + destruct R as [R1 R2 R3]. constructor; [exact R1 | exact R2 | exact R3].
      + destruct H as [H1 H2 H3]. constructor; [|exact H2 | exact H3].
        intros s j Hs. unfold hold in Hs. cbn [roots] in Hs. apply nth_error_In in Hs.
        apply in_app_or in Hs. destruct Hs as [Hs|[Hs|[]]].
        * apply In_nth_error in Hs. destruct Hs as [s2 Hs2]. apply (H1 s2 j Hs2).
        * injection Hs as <-. unfold is_live. cbn [hold heap]. rewrite heap_mk_new, hget_new. reflexivity.
    - eapply collected_grow; [exact C | apply heap_mk_new | apply roots_mk_new].
  Qed.
End New.
