(* Reader model, C14: a consistent system is never refused.
   Part 8b: reading a complex in strand notation (`structure` / `complex`) over declared strands. *)
From Coq Require Import List NArith ZArith Bool Arith Lia.
From DSD Require Import Base.Str Base.Errors Model.ComplexUtils Model.RegStr Model.ReaderStr Model.PyNum
  Model.Peg Model.Kernel Model.DispatchKernel Model.Heap Model.Registry Model.Reader Model.ReaderShape Model.ReaderConsistent
  Proofs.RegHeap Proofs.RegInv Proofs.RegCalls Proofs.RegExt Proofs.ReaderBasic Proofs.ReaderStmt Proofs.ReaderHeap
  Proofs.ReaderInv Proofs.ReaderHoare Proofs.ReaderNoFault Proofs.ReaderThms Proofs.ReaderBuilds Proofs.ReaderKernel
  Proofs.ReaderMore Proofs.ReaderSys Proofs.ReaderSysA Proofs.ReaderSysB Proofs.ReaderSysD Proofs.ReaderSysE
  Proofs.ReaderSysF.
From DSD Require Model.Iupac.
Import ListNotations.

Lemma forall2_app3 {A B} (R : A -> B -> Prop) a a' p p' b b' :
  Forall2 R a a' -> R p p' -> Forall2 R b b' -> Forall2 R (a ++ [p] ++ b) (a' ++ [p'] ++ b').
Proof. intros H1 H2 H3. apply Forall2_app; [exact H1|]. constructor; assumption. Qed.

Lemma forall2_map_r' {A B C} (R : A -> C -> Prop) (f : B -> C) xs ys :
  Forall2 (fun x y => R x (f y)) xs ys -> Forall2 R xs (map f ys).
Proof. induction 1; cbn; constructor; assumption. Qed.

Lemma forall2_in_r {A B} (R : A -> B -> Prop) xs ys y : Forall2 R xs ys -> In y ys -> exists x, In x xs /\ R x y.
Proof.
  induction 1 as [|x0 y0 xs ys H F IH]; intros Hin; [destruct Hin|].
  destruct Hin as [<-|Hin]; [exists x0; split; [left; reflexivity | exact H]|].
  destruct (IH Hin) as [x [H1 H2]]. exists x. split; [right; exact H1 | exact H2].
Qed.

(* the joined sequence of a strand table *)
Lemma fold_join_names (r : list (list elem)) (e0 : list elem) :
  map fst (fold_left (fun a b => a ++ [(sPlus, @None nat)] ++ b) r e0) =
  fold_left (fun a b => a ++ [sPlus] ++ b) (map (map fst) r) (map fst e0).
Proof.
  revert e0. induction r as [|x r IH]; intros e0; cbn [fold_left map]; [reflexivity|].
  rewrite IH, !map_app. reflexivity.
Qed.

Lemma fold_join_forall2 {A B} (R : A -> B -> Prop) p p' (r : list (list A)) (r' : list (list B)) a a' :
  R p p' -> Forall2 (Forall2 R) r r' -> Forall2 R a a' ->
  Forall2 R (fold_left (fun x y => x ++ [p] ++ y) r a) (fold_left (fun x y => x ++ [p'] ++ y) r' a').
Proof.
  intros Hp F. revert a a'. induction F as [|x x' r r' Hx F IH]; intros a a' Ha; cbn [fold_left]; [exact Ha|].
  apply IH. apply forall2_app3; assumption.
Qed.

(* what is known of a named strand: object, domain names, domain objects *)
Definition sinfo := (nat * (list pstr * list nat))%type.
Definition si_id (x : sinfo) : nat := fst x.
Definition si_ds (x : sinfo) : list pstr := fst (snd x).
Definition si_ids (x : sinfo) : list nat := snd (snd x).
Definition si_es (x : sinfo) : list elem := combine (si_ds x) (map Some (si_ids x)).

Section StepSSC.
  Variable ct : ctable.
  Variables cd cs cc cm cr : nat.
  Hypothesis CO : cfg_okb ct cd cs cc cm cr = true.
  Hypothesis PL : forall c, In c [cd; cs; cc; cm; cr] -> exists ci, nth_error ct c = Some ci /\ c_fail ci = FNone.
  Notation G := (g cd cs cc cm cr).
  Notation cls_of := (cls_of cd cs cc cm cr).
  Notation Core := (Core cd cs cc cm cr ct).
  Notation SInv := (SInv cd cs cc cm cr ct).
  Notation Built := (Built cd cs cc cm cr).

  Lemma mapM_lookup_gen2 {A B} (f : A -> M B) (P : state -> A -> B * list nat -> Prop) :
    (forall st j x y, P st x y -> P (hold st j) x y) ->
    (forall r x y, SOK ct (r_st r) -> P (r_st r) x y ->
       f x r = (with_st r (holds (r_st r) (snd y)), Ok (fst y)) /\
       (forall i, In i (snd y) -> is_live (heap (r_st r)) i = true)) ->
    forall xs ys r, SOK ct (r_st r) -> Forall2 (P (r_st r)) xs ys ->
      mapM f xs r = (with_st r (holds (r_st r) (flat_map snd ys)), Ok (map fst ys)) /\
      (forall i, In i (flat_map snd ys) -> is_live (heap (r_st r)) i = true).
  Proof.
    intros Hp Hf xs ys r S F. revert ys r S F.
    induction xs as [|x xs IH]; intros ys r S F; inversion F as [|? y ? ys' Px F']; subst.
    - cbn [mapM flat_map map]. unfold ret. rewrite holds_nil, with_st_id. split; [reflexivity | intros i []].
    - cbn [mapM flat_map map]. destruct (Hf r x y S Px) as [E L]. rewrite (bind_ok _ _ _ _ _ E).
      set (r1 := with_st r (holds (r_st r) (snd y))).
      assert (S1 : SOK ct (r_st r1)) by (apply sok_holds; assumption).
      assert (Hps : forall l st x y, P st x y -> P (holds st l) x y).
      { intros l. induction l as [|j l IHl]; intros st0 x0 y0 H0; [rewrite holds_nil; exact H0|].
        rewrite <- holds_cons. apply IHl. apply Hp. exact H0. }
      assert (F1 : Forall2 (P (r_st r1)) xs ys').
      { eapply Forall2_impl'; [|exact F']. intros a b. apply Hps. }
      destruct (IH ys' r1 S1 F1) as [E2 L2]. rewrite (bind_ok _ _ _ _ _ E2). unfold ret.
      split.
      + unfold r1. cbn [r_st with_st]. rewrite holds_app. reflexivity.
      + intros j Hj. apply in_app_or in Hj. destruct Hj as [Hj|Hj]; [apply L; exact Hj | apply (L2 j Hj)].
  Qed.

  (* Strand(None, name = s).sequence for a registered strand *)
  Definition StrReg (st : state) (s : pstr) (y : list elem * list nat) : Prop :=
    exists j, snd y = [j] /\ nonempty s = true /\ nlookup s (cs_names (cget st cs)) = Some j /\ seq_of st j = Ok (fst y).

  Lemma strand_seq_exact r s y :
    SOK ct (r_st r) -> StrReg (r_st r) s y ->
    strand_seq ct G s r = (with_st r (holds (r_st r) (snd y)), Ok (fst y)) /\
    (forall i, In i (snd y) -> is_live (heap (r_st r)) i = true).
  Proof.
    intros OK [j [Ej [Hne [Hn Hs]]]]. destruct (PL cs) as [ci [Hci Hf]]; [cbn; auto|].
    assert (Hlt : cs < length ct) by (apply nth_error_Some; congruence).
    rewrite Ej. split.
    - unfold strand_seq, strand_by_name. cbn [gS g slot]. rewrite bind_ret.
      assert (Ec : call (fun st => strand_call ct cs st None (Some s) None) r = (with_st r (hold (r_st r) j), Ok j)).
      { unfold call, strand_call. rewrite Hci. unfold sing_lookup. rewrite Hne, Hn. reflexivity. }
      rewrite (bind_ok _ _ _ _ _ Ec). rewrite (bind_ok get_state _ _ _ _ eq_refl).
      cbn [r_st with_st]. change (seq_of (hold (r_st r) j) j) with (seq_of (r_st r) j). rewrite Hs.
      unfold lift, holds, with_roots, hold. reflexivity.
    - intros i [<-|[]]. destruct (reg_live ct _ cs s j (proj1 OK) Hlt Hn) as [o [Ho [Hl _]]]. unfold is_live. rewrite Ho. exact Hl.
  Qed.

  Lemma star_not_plus x : str_eqb (star x) sPlus = false.
  Proof.
    destruct (str_eqb (star x) sPlus) eqn:E; [|reflexivity]. apply str_eqb_iff in E. unfold star in E.
    destruct x as [|c [|c2 x]]; cbn in E; discriminate.
  Qed.

  Lemma dom_not_plus prev r acc d i :
    SInv prev r acc -> dlookup d (po_domains acc) = Some i -> str_eqb d sPlus = false.
  Proof.
    intros [C _] H. apply dlookup_in_keys in H. apply (si_keys _ _ _ _ _ _ _ _ _ C KindD) in H.
    apply declared_dom_in in H. destruct H as [x [Hx [->| ->]]]; [|apply star_not_plus].
    apply in_map_iff in Hx. destruct Hx as [[x0 l] [E Hx]]. cbn in E. subst x0.
    apply (si_decl _ _ _ _ _ _ _ _ _ C x l Hx).
  Qed.

  Lemma dom_live prev r acc d i :
    SInv prev r acc -> dlookup d (po_domains acc) = Some i -> is_live (heap (r_st r)) i = true.
  Proof.
    intros [C _] H. pose proof (si_reg _ _ _ _ _ _ _ _ _ C KindD ltac:(discriminate) d) as E.
    cbn [cls_of ReaderSysA.cls_of dict_of] in E. rewrite H in E.
    destruct (reg_live ct _ cd d i (proj1 (si_sok _ _ _ _ _ _ _ _ _ C)) (cls_of_lt ct cd cs cc cm cr CO KindD) E)
      as [o [Ho [Hl _]]].
    unfold is_live. rewrite Ho. exact Hl.
  Qed.

  Theorem step_ssc prev r acc line n ss sst names cdict cn e :
    SInv prev r acc -> decode line = Ok (SSC n ss sst) ->
    nonempty n = true -> ~ In n (map fst (decl_cplx prev)) ->
    Forall (fun s => In s (map fst (decl_strands prev))) ss ->
    ssc_names prev ss = Some names -> length names = length (no_space sst) ->
    rot_dict names (no_space sst) = Some cdict -> canon_of cdict = Some (cn, e) -> rot_disjoint prev cdict ->
    exists r' i, (forall accR, read_one ct G None (TList line) accR r = (r', Ok (apply_delta (FKind KindC n i) accR))) /\
      SInv (prev ++ [SSC n ss sst]) r' (apply_delta (FKind KindC n i) acc) /\
      Later r acc r' (apply_delta (FKind KindC n i) acc).
  Proof.
    intros SI Hdec Hne Hnew Hss Hnames Hlen Hrd Hcan Hdis. pose proof SI as [C B].
    set (st := r_st r). set (i := length (heap st)).
    pose proof (si_sok _ _ _ _ _ _ _ _ _ C) as OK. pose proof (proj1 OK) as I.
    pose proof (si_reg _ _ _ _ _ _ _ _ _ C KindS ltac:(discriminate)) as RegS. cbn [cls_of ReaderSysA.cls_of dict_of] in RegS.
    (* the strands *)
    assert (Hex : exists infos : list sinfo,
              Forall2 (fun s x => assoc s (decl_strands prev) = Some (si_ds x) /\
                                  dlookup s (po_strands acc) = Some (si_id x) /\ nonempty s = true /\
                                  Forall2 (fun d j => dlookup d (po_domains acc) = Some j) (si_ds x) (si_ids x) /\
                                  hget (heap st) (si_id x) = Some (strand_obj cs s (si_ds x) (si_ids x))) ss infos).
    { apply forall_exists_forall2. eapply Forall_impl; [|exact Hss]. cbn. intros s Hs.
      destruct (assoc_some s _ Hs) as [ds Ea]. pose proof (assoc_in _ _ _ Ea) as Hin. apply decl_strands_in in Hin.
      destruct (B _ Hin) as [j [ids [D1 [Hn1 [_ [D2 D3]]]]]]. exists (j, (ds, ids)). unfold si_ds, si_id, si_ids. cbn [fst snd]. auto. }
    destruct Hex as [infos F].
    set (dss := map si_ds infos). set (jids := map si_id infos). set (ess := map si_es infos).
    assert (Hdss : omap' (fun s => assoc s (decl_strands prev)) ss = Some dss).
    { apply omap'_forall2. unfold dss. apply forall2_map_r'. eapply Forall2_impl'; [|exact F]. cbn. tauto. }
    assert (Hn2 : names = joinp dss /\ dss <> []).
    { unfold ssc_names in Hnames. rewrite Hdss in Hnames. destruct dss; [discriminate|]. injection Hnames as <-. split; [reflexivity | discriminate]. }
    destruct Hn2 as [En Hdne].
    assert (HS : StrandsOf cs r acc ss dss).
    { unfold StrandsOf, dss. apply forall2_map_r'. eapply Forall2_impl'; [|exact F]. cbn.
      intros s x [_ [H2 [H3 [H4 H5]]]]. exists (si_id x), (si_ids x). auto. }
    (* the look-ups *)
    assert (F1 : Forall2 (StrReg (r_st r)) ss (map (fun x => (si_es x, [si_id x])) infos)).
    { apply forall2_map_r'. eapply Forall2_impl'; [|exact F]. cbn. intros s x [_ [H2 [H3 [_ H5]]]].
      exists (si_id x). cbn [fst snd]. split; [reflexivity|]. split; [exact H3|]. split; [rewrite RegS; exact H2|].
      unfold seq_of. fold st. rewrite H5. reflexivity. }
    destruct (mapM_lookup_gen2 (strand_seq ct G) StrReg (fun st j x y H => H) strand_seq_exact ss _ r OK F1) as [Em Lv].
    rewrite map_map in Em. cbn [fst] in Em. change (map (fun x : sinfo => si_es x) infos) with ess in Em.
    assert (Ej : flat_map snd (map (fun x : sinfo => (si_es x, [si_id x])) infos) = jids).
    { unfold jids. clear. induction infos as [|x l IH]; cbn; [reflexivity | rewrite IH; reflexivity]. }
    rewrite Ej in Em, Lv. fold st in Em.
    (* the sequence *)
    destruct ess as [|e0 er] eqn:Eess.
    { exfalso. apply Hdne. unfold dss. unfold ess in Eess. destruct infos; [reflexivity | discriminate]. }
    set (sq := fold_left (fun a b : list elem => a ++ [(sPlus, @None nat)] ++ b) er e0).
    assert (Efst : map (map fst) (e0 :: er) = dss).
    { rewrite <- Eess. unfold ess, dss. rewrite map_map. apply map_ext_in. intros x Hx. unfold si_es.
      apply map_fst_combine. rewrite map_length.
      destruct (forall2_in_r _ _ _ x F Hx) as [s [_ [_ [_ [_ [H4 _]]]]]]. eapply forall2_length; eauto. }
    assert (Hf1 : map fst sq = names).
    { unfold sq. rewrite fold_join_names. rewrite En. unfold joinp. rewrite <- Efst. reflexivity. }
    assert (Fe : Forall2 (ElemOf (po_domains acc)) names sq).
    { rewrite En. unfold joinp. rewrite <- Efst. cbn [map]. unfold sq.
      assert (Hone : forall x, In x infos -> Forall2 (ElemOf (po_domains acc)) (map fst (si_es x)) (si_es x)).
      { intros x Hx. destruct (forall2_in_r _ _ _ x F Hx) as [s [_ [_ [_ [_ [H4 _]]]]]].
        unfold si_es. rewrite map_fst_combine by (rewrite map_length; eapply forall2_length; eauto).
        clear -H4 SI. induction H4 as [|d j ds ids Hd H4 IH]; cbn [map combine]; constructor; [|exact IH].
        unfold ElemOf. rewrite (dom_not_plus prev r acc d j SI Hd). exists j. auto. }
      assert (Hall : Forall2 (Forall2 (ElemOf (po_domains acc))) (map (map fst) (e0 :: er)) (e0 :: er)).
      { rewrite <- Eess. unfold ess. rewrite map_map. clear -Hone. induction infos as [|x l IH]; cbn [map]; constructor.
        - apply Hone. left. reflexivity.
        - apply IH. intros y Hy. apply Hone. right. exact Hy. }
      inversion Hall as [|? ? ? ? H0 Hr]; subst.
      apply fold_join_forall2; [unfold ElemOf; rewrite (proj2 (str_eqb_iff sPlus sPlus) eq_refl); reflexivity | exact Hr | exact H0]. }
    assert (Hle : length sq = length (no_space sst)) by (rewrite <- Hlen, <- Hf1, map_length; reflexivity).
    assert (Lch : forall x, In x (elem_ids sq) -> is_live (heap st) x = true).
    { intros x Hx. unfold elem_ids in Hx. apply in_flat_map in Hx. destruct Hx as [e1 [He1 Hx]].
      destruct (forall2_in_r _ _ _ e1 Fe He1) as [nm1 [_ He]]. unfold ElemOf in He.
      destruct (str_eqb nm1 sPlus); [subst e1; destruct Hx|]. destruct He as [j [Hj ->]]. cbn in Hx. destruct Hx as [<-|[]].
      apply (dom_live prev r acc nm1 j SI Hj). }
    (* the name and the rotations are new *)
    pose proof (si_reg _ _ _ _ _ _ _ _ _ C KindC ltac:(discriminate)) as RegC. cbn [cls_of ReaderSysA.cls_of dict_of] in RegC.
    assert (Nn : nlookup n (cs_names (cget st cc)) = None).
    { unfold st. rewrite RegC. apply dlookup_notin. intros Hin.
      apply (si_keys _ _ _ _ _ _ _ _ _ C KindC) in Hin. contradiction. }
    pose proof (cplx_keys_fresh ct cd cs cc cm cr CO prev r acc cdict SI Hdis) as Kf. fold st in Kf.
    set (key := KCplx cn). set (extra := map (fun kv : ckey * nat => KCplx (fst kv)) cdict).
    set (d := DCplx sq (no_space sst) (wrap (- Z.of_nat e) (Z.of_nat (nstrands names)))).
    (* read_pil_line *)
    assert (Ex : exec_stmt ct G line (SSC n ss sst) r =
                 (mkR (hold (mk_new (holds st jids) (cls_of KindC) n key extra (elem_ids sq) d) i) (r_seq r) (r_conc r) (r_rate r),
                  Ok (RObj i))).
    { cbn [exec_stmt]. rewrite (bind_ok _ _ _ _ _ Em).
      cbv beta iota. rewrite bind_ret.
      assert (Es : strand_table_to_sequence (sPlus, @None nat) (e0 :: er) = Ok sq) by reflexivity.
      rewrite Es, bind_lift_Ok. cbn [gC g slot]. rewrite bind_ret.
      assert (Ec : cplx_call ct cc (holds st jids) (Some sq) (Some (no_space sst)) (Some n) None =
                   (mk_new (holds st jids) cc n key extra (elem_ids sq) d, CRet i true)).
      { assert (Ec0 := cplx_new_exact ct cd cs cc cm cr PL (holds st jids) sq (no_space sst) n cdict cn e Hle).
        rewrite Hf1 in Ec0. apply Ec0; assumption. }
      assert (Ecall : call (fun st' => cplx_call ct cc st' (Some sq) (Some (no_space sst)) (Some n) None) (with_st r (holds st jids)) =
                      (with_st r (hold (mk_new (holds st jids) cc n key extra (elem_ids sq) d) i), Ok i)).
      { unfold call. cbn [r_st with_st]. rewrite Ec. reflexivity. }
      change (filter (fun c : N => negb (N.eqb c 32%N)) sst) with (no_space sst).
      rewrite (bind_ok _ _ _ _ _ Ecall). reflexivity. }
    set (r' := mkR (hold (mk_new st (cls_of KindC) n key extra (elem_ids sq) d) i) (r_seq r) (r_conc r) (r_rate r)).
    set (acc' := with_dict KindC acc (dset n i (dict_of KindC acc))).
    assert (HBC : Later r acc r' acc' -> BuiltCplx cc r' acc' n names (no_space sst) None).
    { intros L'. exists i, sq, cdict, cn, e.
      split; [cbn [po_complexes with_dict with_complexes dict_of acc']; rewrite dlookup_dset, (proj2 (str_eqb_iff n n) eq_refl); reflexivity|].
      split; [exact Hne|].
      split; [eapply Forall2_impl'; [|exact Fe]; intros a b; apply elemof_later; apply (lt_D _ _ _ _ L')|].
      split; [exact Hrd|]. split; [exact Hcan|].
      split; [exact (hget_new _ (heap st))|].
      unfold r'. cbn [r_conc]. destruct (si_attr _ _ _ _ _ _ _ _ _ C i) as [_ [A _]]; [fold st; fold i; lia | exact A]. }
    destruct (step_single ct cd cs cc cm cr CO prev r acc line (SSC n ss sst) KindC n
                key extra (elem_ids sq) d jids (r_conc r) SI Hdec ltac:(cbn; auto) Ex) as [E3 [SI' L']].
    - split; [exact Nn|]. split; [apply Kf; eapply canon_of_in; eauto|].
      intros k' Hk'. unfold extra in Hk'. apply in_map_iff in Hk'. destruct Hk' as [[k2 v2] [<- Hk2]]. cbn.
      apply Kf. apply (in_map fst) in Hk2. exact Hk2.
    - exact Lch.
    - exact Logic.I.
    - intros k' n0 Hn0. destruct k'; cbn in Hn0; try tauto. destruct Hn0 as [<-|[]]. auto.
    - cbn. auto.
    - reflexivity.
    - reflexivity.
    - reflexivity.
    - intros C' L'. cbn [Built ReaderSysA.Built]. exists names. apply HBC. exact L'.
    - intros n0 names0 sst0 Hin L'. cbn [cplx_entry] in Hin. rewrite Hnames in Hin. destruct Hin as [Hin|[]].
      injection Hin as <- <- <-. exists None. apply HBC. exact L'.
    - eexists. eexists. split; [exact E3 | split; [exact SI' | exact L']].
  Qed.
End StepSSC.
