(* What a constructor call can do to the heap, without any invariant: objects are only
   ever added on top (with the class of the call and data of its kind), and existing
   objects change at most their liveness flag.  `HExt P h h'`. *)
From Coq Require Import List NArith ZArith Bool Arith Lia.
From DSD Require Import Base.Str Base.Errors Model.ComplexUtils Model.RegStr Model.Heap Model.Registry
  Proofs.RegHeap Proofs.RegInv.
Import ListNotations.

Definition okill (o o' : obj) : Prop := o' = o \/ o' = kill o.

Lemma okill_refl o : okill o o. Proof. left; reflexivity. Qed.
Lemma kill_kill o : kill (kill o) = kill o. Proof. reflexivity. Qed.
Lemma okill_trans a b c : okill a b -> okill b c -> okill a c.
Proof. intros [->| ->] [->| ->]; unfold okill; auto. Qed.

(* predicates on objects that do not look at the liveness flag *)
Definition kill_closed (P : obj -> Prop) : Prop := forall o, P o -> P (kill o).

Record HExt (P : obj -> Prop) (h h' : list obj) : Prop := mkHExt {
  hx_len : length h <= length h';
  hx_old : forall i o, hget h i = Some o -> exists o', hget h' i = Some o' /\ okill o o';
  hx_new : forall i o', length h <= i -> hget h' i = Some o' -> P o'
}.

Lemma hext_refl (P : obj -> Prop) h : HExt P h h.
Proof.
  constructor; [lia | intros i o H; exists o; split; [exact H | apply okill_refl] |].
  intros i o' Hi H. apply hget_lt in H. lia.
Qed.

Lemma hext_trans (P : obj -> Prop) h1 h2 h3 : kill_closed P -> HExt P h1 h2 -> HExt P h2 h3 -> HExt P h1 h3.
Proof.
  intros KC [A1 A2 A3] [B1 B2 B3]. constructor.
  - lia.
  - intros i o H. destruct (A2 i o H) as [o1 [H1 K1]]. destruct (B2 i o1 H1) as [o2 [H2 K2]].
    exists o2. split; [exact H2 | eapply okill_trans; eauto].
  - intros i o' Hi H. destruct (Nat.lt_ge_cases i (length h2)) as [L|L].
    + destruct (proj1 (hget_some_iff h2 i) L) as [o1 H1].
      destruct (B2 i o1 H1) as [o2 [H2 K2]]. rewrite H in H2. injection H2 as <-.
      pose proof (A3 i o1 Hi H1) as P1. destruct K2 as [->| ->]; [exact P1 | apply KC; exact P1].
    + apply (B3 i o' L H).
Qed.

Lemma hext_weaken (P Q : obj -> Prop) h h' : (forall o, P o -> Q o) -> HExt P h h' -> HExt Q h h'.
Proof. intros PQ [A1 A2 A3]. constructor; auto. intros i o' Hi H. apply PQ. eapply A3; eauto. Qed.

Lemma hext_alloc (P : obj -> Prop) h o : P o -> HExt P h (o :: h).
Proof.
  intros Po. constructor.
  - cbn. lia.
  - intros i x H. exists x. split; [apply hget_old_some; exact H | apply okill_refl].
  - intros i o' Hi H. cbn in H. destruct (Nat.eqb i (length h)) eqn:E.
    + injection H as <-. exact Po.
    + apply hget_lt in H. apply Nat.eqb_neq in E. lia.
Qed.

Lemma hext_sweep (P : obj -> Prop) h need : HExt P h (sweep h need).
Proof.
  constructor.
  - rewrite sweep_length. lia.
  - intros i o H. rewrite hget_sweep, H. cbn. destruct (kept h need i); eexists; split; try reflexivity.
    + left; reflexivity.
    + right; reflexivity.
  - intros i o' Hi H. apply hget_lt in H. rewrite sweep_length in H. lia.
Qed.

Lemma hext_collect (P : obj -> Prop) st : HExt P (heap st) (heap (collect st)).
Proof. rewrite heap_collect. apply hext_sweep. Qed.



(* ---- state-level wrappers: a call never touches the roots ---- *)
Definition SExt (P : obj -> Prop) (st st' : state) : Prop :=
  roots st' = roots st /\ HExt P (heap st) (heap st').

Lemma sext_refl (P : obj -> Prop) st : SExt P st st.
Proof. split; [reflexivity | apply hext_refl]. Qed.
Lemma sext_trans (P : obj -> Prop) s1 s2 s3 : kill_closed P -> SExt P s1 s2 -> SExt P s2 s3 -> SExt P s1 s3.
Proof. intros KC [A1 A2] [B1 B2]. split; [congruence | eapply hext_trans; eauto]. Qed.
Lemma sext_collect (P : obj -> Prop) st : SExt P st (collect st).
Proof. split; [reflexivity | apply hext_collect]. Qed.

Lemma heap_cput st c cs : heap (cput st c cs) = heap st. Proof. reflexivity. Qed.
Lemma heap_register st c name k extra id : heap (register st c name k extra id) = heap st. Proof. reflexivity. Qed.
Lemma heap_register_extra st c extra id : heap (register_extra st c extra id) = heap st. Proof. reflexivity. Qed.
Lemma heap_set_id st c z : heap (set_id st c z) = heap st. Proof. reflexivity. Qed.
Lemma heap_bump_id ct st c : heap (bump_id ct st c) = heap st.
Proof. unfold bump_id. destruct (class_id ct st c); reflexivity. Qed.
Lemma roots_bump_id ct st c : roots (bump_id ct st c) = roots st.
Proof. unfold bump_id. destruct (class_id ct st c); reflexivity. Qed.

Lemma sext_create (P : obj -> Prop) ct st c auto name k extra children d :
  P (mkObj c name k (k :: extra) true children d) -> kill_closed P ->
  SExt P st (fst (create ct st c auto name k extra children d)).
Proof.
  intros Po KC. unfold create.
  destruct (nth_error ct c) as [ci|]; [|apply sext_refl].
  assert (E : heap (if auto then bump_id ct st c else st) = heap st) by (destruct auto; [apply heap_bump_id | reflexivity]).
  assert (Er : roots (if auto then bump_id ct st c else st) = roots st) by (destruct auto; [apply roots_bump_id | reflexivity]).
  destruct (c_fail ci); cbn [fst alloc].
  - split; [cbn; exact Er|]. rewrite heap_register. cbn [heap]. rewrite E. apply hext_alloc. exact Po.
  - apply sext_refl.
  - eapply sext_trans; [exact KC | | apply sext_collect].
    split; [cbn; exact Er|]. rewrite heap_register_extra. cbn [heap]. rewrite E. apply hext_alloc. exact Po.
Qed.

(* ---- DomainS ---- *)
Section Dom.
  Variable P : obj -> Prop.
  Variable ct : ctable.
  Variable c : nat.
  Variable nameP : pstr -> Prop.
  Variable lenP : Z -> Prop.
  Hypothesis KC : kill_closed P.
  Hypothesis nameP_c : forall n, nameP n -> nameP (cname_of n).
  Hypothesis P_len : forall o l, P o -> o_data o = DDom l -> lenP l.
  Hypothesis P_dom : forall n l, nameP n -> lenP l -> P (mkObj c n (KDom n l) [KDom n l] true [] (DDom l)).

  (* the `.length` read from a stored domain: every stored length satisfies lenP *)
  Definition HeapLen (h : list obj) : Prop :=
    forall i o l, hget h i = Some o -> o_data o = DDom l -> lenP l.

  Lemma heaplen_ext h h' : HeapLen h -> HExt P h h' -> HeapLen h'.
  Proof.
    intros HL X i o' l H Ed. destruct (Nat.lt_ge_cases i (length h)) as [L|L].
    - destruct (proj1 (hget_some_iff h i) L) as [o Ho].
      destruct (hx_old _ _ _ X i o Ho) as [o2 [H2 Kl]]. rewrite H in H2. injection H2 as <-.
      destruct Kl as [->| ->]; eapply HL; [exact Ho | exact Ed | exact Ho | exact Ed].
    - eapply P_len; [eapply (hx_new _ _ _ X); eauto | exact Ed].
  Qed.

  Lemma heaplen_sext st st' : HeapLen (heap st) -> SExt P st st' -> HeapLen (heap st').
  Proof. intros HL [_ X]. eapply heaplen_ext; eauto. Qed.

  Lemma lenP_len h o l : HeapLen h -> obj_length h o = Ok l -> lenP l.
  Proof.
    intros HL. unfold obj_length. destruct (hget h o) as [ob|] eqn:E; [|discriminate].
    destruct (o_data ob) eqn:Ed; try discriminate. intros H; injection H as <-. eapply HL; eauto.
  Qed.

  Definition RecX (rec : state -> pstr -> option Z -> state * cout) : Prop :=
    forall st n l, nameP n -> (forall z, l = Some z -> lenP z) -> HeapLen (heap st) ->
      SExt P st (fst (rec st n l)).

  Ltac xt := eapply sext_trans; [exact KC | |].

  Lemma sext_dom_nested rec st nm len1 :
    RecX rec -> nameP nm -> (forall z, len1 = Some z -> lenP z) -> HeapLen (heap st) ->
    SExt P st (fst (dom_nested rec st nm len1)) /\
    (forall l2, snd (dom_nested rec st nm len1) = Ok (Some l2) -> lenP l2).
  Proof.
    intros HR Hn Hl HL. unfold dom_nested.
    assert (Hcn : nameP (cname_of nm)) by (apply nameP_c; exact Hn).
    destruct len1 as [l|], (starred nm).
    -
      pose proof (HR st (cname_of nm) None Hcn ltac:(discriminate) HL) as X1.
      destruct (rec st (cname_of nm) None) as [s1 r]. cbn [fst] in X1.
      destruct r as [o b|k e].
      + destruct (obj_length (heap s1) o) as [cl|k] eqn:EL; cbn [fst snd].
        * split; [xt; [exact X1 | apply sext_collect]|].
          destruct (Z.eqb cl l); intros l2 E; [injection E as <-; apply Hl; reflexivity | discriminate].
        * split; [xt; [exact X1 | apply sext_collect] | discriminate].
      + destruct (is_singleton_err k); cbn [fst snd].
        * split; [xt; [exact X1 | apply sext_collect] | intros l2 E; injection E as <-; apply Hl; reflexivity].
        * split; [exact X1 | discriminate].
    -
      pose proof (HR st (cname_of nm) None Hcn ltac:(discriminate) HL) as X1.
      destruct (rec st (cname_of nm) None) as [s1 r]. cbn [fst] in X1.
      destruct r as [o b|k e].
      + destruct (obj_length (heap s1) o) as [cl|k] eqn:EL; cbn [fst snd].
        * pose proof (HR (collect s1) (cname_of nm) (Some l) Hcn
                         ltac:(intros z E; injection E as <-; apply Hl; reflexivity)
                         ltac:(eapply heaplen_sext; [eapply heaplen_sext; [exact HL | exact X1] | apply sext_collect])) as X2.
          destruct (rec (collect s1) (cname_of nm) (Some l)) as [s2 r2]. cbn [fst] in X2.
          assert (X12 : SExt P st s2) by (xt; [xt; [exact X1 | apply sext_collect] | exact X2]).
          destruct r2 as [o2 b2|k2 e2]; cbn [fst snd].
          -- split; [xt; [exact X12 | apply sext_collect] | intros l2 E; injection E as <-; apply Hl; reflexivity].
          -- destruct (is_singleton_err k2); cbn [fst snd].
             ++ split; [xt; [exact X12 | apply sext_collect]|].
                destruct (Z.eqb cl l); intros l2 E; [injection E as <-; apply Hl; reflexivity | discriminate].
             ++ split; [exact X12 | discriminate].
        * split; [xt; [exact X1 | apply sext_collect] | discriminate].
      + destruct (is_singleton_err k); cbn [fst snd].
        * split; [xt; [exact X1 | apply sext_collect] | intros l2 E; injection E as <-; apply Hl; reflexivity].
        * split; [exact X1 | discriminate].
    - pose proof (HR st (cname_of nm) None Hcn ltac:(discriminate) HL) as X1.
      destruct (rec st (cname_of nm) None) as [s1 r]. cbn [fst] in X1.
      destruct r as [o b|k e].
      + destruct (obj_length (heap s1) o) as [cl|k] eqn:EL; cbn [fst snd].
        * split; [xt; [exact X1 | apply sext_collect] | intros l2 E; injection E as <-; eapply lenP_len; [eapply heaplen_sext; [exact HL | exact X1] | exact EL]].
        * split; [xt; [exact X1 | apply sext_collect] | discriminate].
      + destruct (is_singleton_err k); cbn [fst snd].
        * split; [xt; [exact X1 | apply sext_collect] | discriminate].
        * split; [exact X1 | discriminate].
    - split; [apply sext_refl | discriminate].
  Qed.

  Lemma sext_dom_finish st auto nm len2 :
    nameP nm -> (forall z, len2 = Some z -> lenP z) -> SExt P st (fst (dom_finish ct c st auto nm len2)).
  Proof.
    intros Hn Hl. unfold dom_finish.
    destruct (sing_lookup (cget st c) nm (option_map (KDom nm) len2)); try apply sext_refl.
    destruct len2 as [l|]; [|apply sext_refl].
    apply sext_create; [|exact KC]. apply P_dom; [exact Hn | apply Hl; reflexivity].
  Qed.

  Lemma dom_len1_none ci l : dom_len1 ci l None = Ok l.
  Proof. unfold dom_len1. destruct l; reflexivity. Qed.

  Lemma sext_dom_body rec st nm len :
    RecX rec -> nameP nm -> (forall z, len = Some z -> lenP z) -> HeapLen (heap st) ->
    SExt P st (fst (dom_body rec ct c st (Some nm) len None None)).
  Proof.
    intros HR Hn Hl HL. unfold dom_body.
    destruct (nth_error ct c) as [ci|]; [|apply sext_refl].
    cbn [resolve_name]. rewrite dom_len1_none.
    destruct (negb (nonempty nm)); [apply sext_refl|].
    destruct (sext_dom_nested rec st nm len HR Hn Hl HL) as [X1 L1].
    destruct (dom_nested rec st nm len) as [st1 rl]. cbn [fst snd] in *.
    destruct rl as [len2|k]; [|exact X1].
    xt; [exact X1|]. apply sext_dom_finish; [exact Hn|].
    intros z E. subst len2. apply L1. reflexivity.
  Qed.

  Theorem sext_dom_call fuel st nm len :
    nameP nm -> (forall z, len = Some z -> lenP z) -> HeapLen (heap st) ->
    SExt P st (fst (dom_call fuel ct c st (Some nm) len None None)).
  Proof.
    revert st nm len. induction fuel as [|f IH]; intros st nm len Hn Hl HL; [apply sext_refl|].
    cbn [dom_call]. apply sext_dom_body; [|exact Hn|exact Hl|exact HL]. intros st' n l Hn' Hl' HL'. apply IH; auto.
  Qed.
End Dom.

(* ---- the other classes ---- *)
Ltac leaves :=
  repeat match goal with
         | |- SExt _ ?st (fst (?st, _)) => apply sext_refl
         | |- SExt _ _ (fst (if ?x then _ else _)) => destruct x
         | |- SExt _ _ (fst (match ?x with _ => _ end)) => destruct x
         | |- SExt _ _ (fst (let '(_, _) := ?x in _)) => destruct x
         end.

Lemma sext_cplx_call (P : obj -> Prop) ct c st seq sst name prefix :
  kill_closed P ->
  (forall es ss nm cn extra t, seq = Some es -> sst = Some ss ->
     P (mkObj c nm (KCplx cn) (KCplx cn :: extra) true (elem_ids es) (DCplx es ss t))) ->
  SExt P st (fst (cplx_call ct c st seq sst name prefix)).
Proof.
  intros KC HP. unfold cplx_call.
  destruct (nth_error ct c) as [ci|]; [|apply sext_refl].
  destruct seq as [es|].
  - destruct (resolve_name ct st c ci name prefix) as [nm|k]; [|apply sext_refl].
    destruct sst as [ss|]; [|apply sext_refl].
    destruct (negb (Nat.eqb (length es) (length ss))); [apply sext_refl|].
    destruct (Nat.eqb (length (make_strand_table_list sPlus (map fst es))) 0); [apply sext_refl|].
    destruct (rot_loop _ 0 (cs_canon (cget st c)) (map fst es) ss []) as [[ex cdict]|k]; [|apply sext_refl].
    match goal with |- SExt _ _ (fst (match ?x with _ => _ end)) => destruct x as [[cn e]|k] end; [|apply sext_refl].
    destruct (sing_lookup (cget st c) nm (Some (KCplx cn))); try apply sext_refl.
    apply sext_create; [|exact KC]. apply HP; reflexivity.
  - destruct name as [nm|]; [|apply sext_refl].
    destruct (sing_lookup (cget st c) nm None); apply sext_refl.
Qed.

Lemma sext_strand_call (P : obj -> Prop) ct c st seq name prefix :
  kill_closed P ->
  (forall es nm, seq = Some es ->
     P (mkObj c nm (KCplx (map fst es, map (fun _ => cStar) es)) [KCplx (map fst es, map (fun _ => cStar) es)]
              true (elem_ids es) (DStrand es))) ->
  SExt P st (fst (strand_call ct c st seq name prefix)).
Proof.
  intros KC HP. unfold strand_call.
  destruct (nth_error ct c) as [ci|]; [|apply sext_refl].
  destruct seq as [es|].
  - destruct (existsb is_plus es); [apply sext_refl|].
    destruct (resolve_name ct st c ci name prefix) as [nm|k]; [|apply sext_refl].
    destruct (sing_lookup (cget st c) nm _); try apply sext_refl.
    apply sext_create; [|exact KC]. apply HP; reflexivity.
  - destruct name as [nm|]; [|apply sext_refl].
    destruct (sing_lookup (cget st c) nm None); apply sext_refl.
Qed.

Lemma sext_macro_call (P : obj -> Prop) ct c st members name :
  kill_closed P ->
  (forall ms nm cn rep, members = Some ms -> P (mkObj c nm (KMac cn) [KMac cn] true ms (DMac ms rep))) ->
  SExt P st (fst (macro_call ct c st members name)).
Proof.
  intros KC HP. unfold macro_call.
  destruct members as [ms|].
  - destruct (omap' _ ms) as [mks|]; [|apply sext_refl].
    match goal with |- SExt _ _ (fst (match ?x with _ => _ end)) => destruct x as [nm|k] end; [|apply sext_refl].
    destruct (sing_lookup (cget st c) nm _); try apply sext_refl.
    destruct (find _ ms) as [rep|]; [|apply sext_refl].
    apply sext_create; [|exact KC]. apply HP; reflexivity.
  - destruct name as [nm|]; [|apply sext_refl].
    destruct (sing_lookup (cget st c) nm None); apply sext_refl.
Qed.

Lemma sext_reaction_call (P : obj -> Prop) ct c st rp rtype name :
  kill_closed P ->
  (forall rs ps nm m r p a b, rp = Some (rs, ps) ->
     P (mkObj c nm (KRxn m r p rtype) [KRxn m r p rtype] true (rs ++ ps) (DRxn a b rtype))) ->
  SExt P st (fst (reaction_call ct c st rp rtype name)).
Proof.
  intros KC HP. unfold reaction_call.
  destruct rp as [[rs ps]|].
  - destruct (omap' _ rs) as [fr|]; [|apply sext_refl].
    destruct (omap' _ ps) as [fp|]; [|apply sext_refl].
    match goal with |- SExt _ _ (fst (if ?x then _ else _)) => destruct x end; [apply sext_refl|].
    destruct (sing_lookup (cget st c) _ _); try apply sext_refl.
    apply sext_create; [|exact KC]. apply HP; reflexivity.
  - destruct name as [nm|]; [|apply sext_refl]. destruct rtype; [apply sext_refl|].
    destruct (sing_lookup (cget st c) nm None); apply sext_refl.
Qed.
