(* Reader model, C14: the assembled statement in sessions that already hold objects. *)
From Coq Require Import String List NArith ZArith Bool Arith Lia Permutation.
From DSD Require Import Base.Str Base.Errors Base.Val Model.ComplexUtils Model.RegStr Model.ReaderStr Model.PyNum
  Model.Peg Model.Kernel Model.DispatchKernel Model.Heap Model.Registry Model.Reader Model.ReaderShape Model.ReaderConsistent
  Model.DispatchReader
  Proofs.RegHeap Proofs.RegInv Proofs.RegCalls Proofs.RegExt Proofs.ReaderBasic Proofs.ReaderStmt Proofs.ReaderHeap
  Proofs.ReaderInv Proofs.ReaderHoare Proofs.ReaderNoFault Proofs.ReaderThms Proofs.ReaderBuilds Proofs.ReaderKernel
  Proofs.ReaderMore Proofs.ReaderSys Proofs.ReaderSysA Proofs.ReaderSysB Proofs.ReaderSysJ Proofs.ReaderSysK
  Proofs.ReaderSysL Proofs.ReaderSysP Proofs.ReaderSysT.
From DSDGen Require Import ReaderConsts.
Import ListNotations.

Section SessionFinal.
  Variable ct : ctable.
  Variables cd cs cc cm cr : nat.
  Hypothesis CO : cfg_okb ct cd cs cc cm cr = true.
  Hypothesis PL : forall c, In c [cd; cs; cc; cm; cr] -> exists ci, nth_error ct c = Some ci /\ c_fail ci = FNone.
  Notation G := (g cd cs cc cm cr).
  Notation SInv := (SInv cd cs cc cm cr ct).

  (* C14, assembled, in a session that holds objects: never refused; the session stays one that statements
     describe (world'); nothing that existed is touched (Later: the heap is extended, every name keeps its
     object); the result files objects of the session only (Sub) under exactly the declared names (KeysOK) *)
  Theorem reader_builds_session world r accU lines ls ss world' :
    SInv world r accU -> decode_all lines = Some (ls, ss) -> session_from world ss = Some world' ->
    exists r' out accU', read_pil ct G None lines r = (r', Ok out) /\
      SInv world' r' accU' /\ Later0 r accU r' accU' /\ Sub out accU' /\ KeysOK ss out /\
      po_other out = other_lines ls ss.
  Proof.
    intros SI Hd Hs. destruct (decode_all_spec lines ls ss Hd) as [-> F].
    assert (Sb0 : Sub empty_out accU) by (split; [intros k n i H; destruct k; discriminate H | intros j []]).
    assert (Ks0 : KeysOK [] empty_out) by (intros k Hk n; destruct k; cbn; tauto).
    destruct (session_lines ct cd cs cc cm cr CO PL ls ss F world r accU empty_out [] world' SI Sb0 Ks0 Hs)
      as [r' [accU' [out [E [S1 [L1 [Sb [Ks O]]]]]]]].
    exists r', out, accU'. unfold read_pil. rewrite E. auto 10.
  Qed.

  (* identical objects: a declared name that the session knows maps to the object the session holds *)
  Corollary session_same_object r accU r' accU' out ss k n i :
    Later0 r accU r' accU' -> Sub out accU' -> KeysOK ss out -> k <> KindR ->
    In n (declared k ss) -> dlookup n (dict_of k accU) = Some i -> dlookup n (dict_of k out) = Some i.
  Proof.
    intros L [S1 _] Ks Hk Hn Hd. apply (Ks k Hk n) in Hn. destruct (keys_dlookup n _ Hn) as [i' Hi'].
    pose proof (S1 k n i' Hi') as H1. pose proof (proj2 L k n i Hd) as H2. congruence.
  Qed.

  (* ... and a declared name always has its entry, which is the entry of the session afterwards *)
  Corollary session_entry out accU' ss k n :
    Sub out accU' -> KeysOK ss out -> k <> KindR -> In n (declared k ss) ->
    exists i, dlookup n (dict_of k out) = Some i /\ dlookup n (dict_of k accU') = Some i.
  Proof.
    intros [S1 _] Ks Hk Hn. apply (Ks k Hk n) in Hn. destruct (keys_dlookup n _ Hn) as [i Hi]. eauto.
  Qed.

  (* the concentration of a complex is the one of its (kernel) statement in the description of the session:
     after a re-declaration with another triple, the newly declared one (refound replaces it in world') *)
  Corollary session_concentration world' r' accU' n names sst c :
    SInv world' r' accU' -> In (SKer n names sst (Some c)) world' ->
    exists i, dlookup n (po_complexes accU') = Some i /\ attr_get i (r_conc r') = Some c.
  Proof.
    intros [_ B] Hin. destruct (B _ Hin) as [names' [sst' [i [es [cdict [cn [e [D1 [_ [_ [_ [_ [_ Ha]]]]]]]]]]]]]. eauto.
  Qed.

  (* the sessions the theorem is about exist: what reading a consistent document in the empty session leaves *)
  Theorem fresh_read_session lines ls ss :
    decode_all lines = Some (ls, ss) -> consistentb ss = true ->
    exists r out, read_pil ct G None lines (rinit (init ct 0)) = (r, Ok out) /\ SInv ss r out.
  Proof.
    intros Hd Hc. destruct (decode_all_spec lines ls ss Hd) as [-> F].
    destruct (read_lines_consistent ct cd cs cc cm cr CO PL ls ss F [] _ _ (consistentb_sound ss Hc) (sinv_init ct cd cs cc cm cr CO))
      as [r [out [E [SI _]]]].
    exists r, out. unfold read_pil. rewrite E. auto.
  Qed.

  (* two documents one after the other, the result of the first held *)
  Theorem reader_builds_second_read lines1 ls1 ss1 lines2 ls2 ss2 world' :
    decode_all lines1 = Some (ls1, ss1) -> consistentb ss1 = true ->
    decode_all lines2 = Some (ls2, ss2) -> session_from ss1 ss2 = Some world' ->
    exists r1 out1 r2 out2 accU2,
      read_pil ct G None lines1 (rinit (init ct 0)) = (r1, Ok out1) /\
      read_pil ct G None lines2 r1 = (r2, Ok out2) /\
      SInv world' r2 accU2 /\ Later0 r1 out1 r2 accU2 /\ Sub out2 accU2 /\ KeysOK ss2 out2 /\
      (forall k n i, k <> KindR -> In n (declared k ss2) -> dlookup n (dict_of k out1) = Some i ->
                     dlookup n (dict_of k out2) = Some i).
  Proof.
    intros H1 C1 H2 Hs. destruct (fresh_read_session lines1 ls1 ss1 H1 C1) as [r1 [out1 [E1 SI1]]].
    destruct (reader_builds_session ss1 r1 out1 lines2 ls2 ss2 world' SI1 H2 Hs) as [r2 [out2 [accU2 [E2 [S2 [L2 [Sb [Ks _]]]]]]]].
    exists r1, out1, r2, out2, accU2. repeat (split; [assumption|]).
    intros k n i Hk Hn Hd. eapply session_same_object; eauto.
  Qed.
End SessionFinal.

(* the library's own classes *)
Theorem reader_builds_second_read_base lines1 ls1 ss1 lines2 ls2 ss2 world' :
  decode_all lines1 = Some (ls1, ss1) -> consistentb ss1 = true ->
  decode_all lines2 = Some (ls2, ss2) -> session_from ss1 ss2 = Some world' ->
  exists r1 out1 r2 out2,
    read_pil base_ctable base_g None lines1 (rinit (init base_ctable 0)) = (r1, Ok out1) /\
    read_pil base_ctable base_g None lines2 r1 = (r2, Ok out2) /\
    (forall k n i, k <> KindR -> In n (declared k ss2) -> dlookup n (dict_of k out1) = Some i ->
                   dlookup n (dict_of k out2) = Some i).
Proof.
  intros H1 C1 H2 Hs.
  destruct (reader_builds_second_read base_ctable 0 2 1 3 4 base_cfg_ok base_plain lines1 ls1 ss1 lines2 ls2 ss2 world' H1 C1 H2 Hs)
    as [r1 [out1 [r2 [out2 [accU2 [E1 [E2 [_ [_ [_ [_ Hsame]]]]]]]]]]].
  exists r1, out1, r2, out2. auto.
Qed.

(* what the op "reader_session" answers is the hypothesis of reader_builds_second_read_base *)
Theorem reader_session_accepts text1 text2 :
  reader_session text1 text2 = VBool true ->
  exists lines1 lines2 ss2 r1 out1 r2 out2,
    parse_lines text1 = Ok lines1 /\ parse_lines text2 = Ok lines2 /\ (exists ls2, decode_all lines2 = Some (ls2, ss2)) /\
    read_pil base_ctable base_g None lines1 (rinit (init base_ctable 0)) = (r1, Ok out1) /\
    read_pil base_ctable base_g None lines2 r1 = (r2, Ok out2) /\
    (forall k n i, k <> KindR -> In n (declared k ss2) -> dlookup n (dict_of k out1) = Some i ->
                   dlookup n (dict_of k out2) = Some i).
Proof.
  unfold reader_session. destruct (parse_lines text1) as [l1|k1]; [|destruct (parse_lines text2); discriminate].
  destruct (parse_lines text2) as [l2|k2]; [|discriminate].
  destruct (decode_all l1) as [[ls1 ss1]|] eqn:E1; [|discriminate].
  destruct (decode_all l2) as [[ls2 ss2]|] eqn:E2; [|discriminate].
  intros H. injection H as H. apply andb_true_iff in H. destruct H as [Hc Hs].
  destruct (session_from ss1 ss2) as [w|] eqn:Es; [|discriminate].
  destruct (reader_builds_second_read_base l1 ls1 ss1 l2 ls2 ss2 w E1 Hc E2 Es) as [r1 [out1 [r2 [out2 [A1 [A2 A3]]]]]].
  exists l1, l2, ss2, r1, out1, r2, out2. split; [reflexivity|]. split; [reflexivity|]. split; [eauto|]. auto.
Qed.

(* ---- not vacuous ---- *)
Local Open Scope string_scope.
(* the example system read twice, and a second document that re-declares, uses and extends the first *)
Definition ex_second : pstr :=
  doc ["length a = 5"; "length q = 7"; "X = a( b + ) b* @i 5 nM"; "strand s = a b*"; "V = q s* a";
       "structure Z = s + s : .(+.)"; "state X = [X, Y]"; "reaction [condensed = 5 /s] X -> Y + Y"; "state V = [V]";
       "reaction [open = 2 /s] V -> X + Y"; "reaction Y -> X"].

Example ex_reread : reader_session ex_sys ex_sys = VBool true.
Proof. vm_compute. reflexivity. Qed.
Example ex_second_read : reader_session ex_sys ex_second = VBool true.
Proof. vm_compute. reflexivity. Qed.

(* a third document re-declares X with another concentration: the description of the session afterwards has it *)
Definition ex_third : pstr := doc ["X = a( b + ) b* @c 2.5 uM"; "state X = [X, Y]"].
Definition third_conc_ok : bool :=
  match parse_lines ex_sys, parse_lines ex_third with
  | Ok l1, Ok l3 =>
      match decode_all l1, decode_all l3 with
      | Some (_, ss1), Some (_, ss3) =>
          match session_from ss1 ss3 with
          | Some w =>
              existsb (fun s => match s, ss3 with
                                | SKer n _ _ (Some c), SKer n3 _ _ (Some c3) :: _ => str_eqb n n3 && conc_eqb c c3
                                | _, _ => false
                                end) w &&
              (* ... and the triple of the first document is gone *)
              negb (existsb (fun s => match s with
                                      | SKer n _ _ (Some c) =>
                                          existsb (fun s1 => match s1 with
                                                             | SKer n1 _ _ (Some c1) => str_eqb n n1 && str_eqb n (str "X") && conc_eqb c c1
                                                             | _ => false
                                                             end) ss1
                                      | _ => false
                                      end) w)
          | None => false
          end
      | _, _ => false
      end
  | _, _ => false
  end.
Example ex_third_read : reader_session ex_sys ex_third = VBool true /\ third_conc_ok = true.
Proof. vm_compute. split; reflexivity. Qed.
