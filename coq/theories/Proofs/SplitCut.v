(* C09, tree surgery: cutting the strands between two strand breaks that lie
   directly in the same loop out of a dyck tree.

     take_until d c = Some (M, R)   d = M ++ break ++ R, M holds c breaks, none
                                    of them directly in d's own loop
     cutm d a b   = Some (M, Q)     breaks number a < b (pre-order) lie directly
                                    in one loop with no break of that loop
                                    between them; M = the forest between them,
                                    Q = d without "break a, M"

   and what this does to the entry lists (hence to the pair tables). *)
From Coq Require Import List Arith Lia Bool NArith.
From DSD Require Import Base.Str Base.Errors Model.ComplexUtils Dyck.Dyck
  Proofs.Mpt Proofs.Db Proofs.Assoc Proofs.Loops Proofs.LoopsConn.
Import ListNotations.

(* ------------------------------------------------------------------ *)
(* concatenation of forests                                             *)

Fixpoint dapp (a b : dyck) : dyck :=
  match a with
  | DNil => b
  | DU r => DU (dapp r b)
  | DB r => DB (dapp r b)
  | DP i r => DP i (dapp r b)
  end.

Lemma adv_dapp a b : forall p, adv (dapp a b) p = adv b (adv a p).
Proof. induction a as [|r IH|r IH|i _ r IH]; intros p; cbn [dapp adv]; auto. Qed.

Lemma ents_dapp a b : forall p, ents (dapp a b) p = ents a p ++ ents b (adv a p).
Proof.
  induction a as [|r IH|r IH|i _ r IH]; intros p; cbn [dapp ents adv app]; auto.
  - rewrite IH. reflexivity.
  - rewrite IH. reflexivity.
  - cbn zeta. rewrite IH. rewrite <- app_assoc. reflexivity.
Qed.

Lemma nbreaks_dapp a b : nbreaks (dapp a b) = nbreaks a + nbreaks b.
Proof. induction a as [|r IH|r IH|i _ r IH]; cbn [dapp nbreaks]; lia. Qed.

Lemma bl_length d : forall cl nl, length (bl d cl nl) = nbreaks d.
Proof.
  induction d as [|r IH|r IH|i IHi r IHr]; intros cl nl; cbn [bl nbreaks length]; auto.
  rewrite app_length, IHi, IHr. reflexivity.
Qed.

(* ------------------------------------------------------------------ *)
(* the cut                                                              *)

Fixpoint take_until (d : dyck) (c : nat) : option (dyck * dyck) :=
  match d with
  | DNil => None
  | DU r => match take_until r c with Some (M, R) => Some (DU M, R) | None => None end
  | DB r => match c with 0 => Some (DNil, r) | S _ => None end
  | DP i r =>
      if nbreaks i <=? c
      then match take_until r (c - nbreaks i) with Some (M, R) => Some (DP i M, R) | None => None end
      else None
  end.

Fixpoint cutm (d : dyck) (a b : nat) : option (dyck * dyck) :=
  match d with
  | DNil => None
  | DU r => match cutm r a b with Some (M, Q) => Some (M, DU Q) | None => None end
  | DB r =>
      match a with
      | 0 => match take_until r (b - 1) with Some (M, R) => Some (M, DB R) | None => None end
      | S a' => match cutm r a' (b - 1) with Some (M, Q) => Some (M, DB Q) | None => None end
      end
  | DP i r =>
      if a <? nbreaks i
      then match cutm i a b with Some (M, Q) => Some (M, DP Q r) | None => None end
      else match cutm r (a - nbreaks i) (b - nbreaks i) with
           | Some (M, Q) => Some (M, DP i Q) | None => None end
  end.

Lemma take_until_spec d : forall c M R,
  take_until d c = Some (M, R) -> d = dapp M (DB R) /\ nbreaks M = c.
Proof.
  induction d as [|r IH|r IH|i _ r IH]; intros c M R H; cbn [take_until] in H.
  - discriminate.
  - destruct (take_until r c) as [[M' R']|] eqn:E; [|discriminate]. injection H as <- <-.
    destruct (IH _ _ _ E) as [-> Hn]. split; [reflexivity|exact Hn].
  - destruct c; [|discriminate]. injection H as <- <-. split; reflexivity.
  - destruct (nbreaks i <=? c) eqn:Ec; [|discriminate]. apply Nat.leb_le in Ec.
    destruct (take_until r (c - nbreaks i)) as [[M' R']|] eqn:E; [|discriminate]. injection H as <- <-.
    destruct (IH _ _ _ E) as [-> Hn]. split; [reflexivity|]. cbn [nbreaks]. lia.
Qed.

(* existence, read off the break loops *)
Lemma take_until_ex d : forall cl nl b,
  cl <= nl -> nth_error (bl d cl nl) b = Some cl ->
  (forall c, c < b -> nth_error (bl d cl nl) c <> Some cl) ->
  exists M R, take_until d b = Some (M, R).
Proof.
  induction d as [|r IH|r IH|i _ r IH]; intros cl nl b Hc Hb Hlt; cbn [bl take_until] in *.
  - destruct b; discriminate.
  - destruct (IH cl nl b Hc Hb Hlt) as (M & R & E). rewrite E. eauto.
  - destruct b as [|b]; [eauto|]. exfalso. apply (Hlt 0); [lia|reflexivity].
  - destruct (Nat.lt_ge_cases b (nbreaks i)) as [Hlti|Hge].
    + exfalso. rewrite nth_error_app1 in Hb by (rewrite bl_length; exact Hlti).
      apply nth_error_In, bl_range in Hb. lia.
    + replace (nbreaks i <=? b) with true by (symmetry; apply Nat.leb_le; exact Hge).
      rewrite nth_error_app2 in Hb by (rewrite bl_length; exact Hge). rewrite bl_length in Hb.
      destruct (IH cl (S nl + npairs i) (b - nbreaks i) ltac:(lia) Hb) as (M & R & E).
      { intros c Hcb H. apply (Hlt (nbreaks i + c)); [lia|].
        rewrite nth_error_app2 by (rewrite bl_length; lia). rewrite bl_length.
        replace (nbreaks i + c - nbreaks i) with c by lia. exact H. }
      rewrite E. eauto.
Qed.

Lemma cutm_ex d : forall cl nl a b l,
  cl <= nl -> a < b ->
  nth_error (bl d cl nl) a = Some l -> nth_error (bl d cl nl) b = Some l ->
  (forall c, a < c < b -> nth_error (bl d cl nl) c <> Some l) ->
  exists M Q, cutm d a b = Some (M, Q).
Proof.
  induction d as [|r IH|r IH|i IHi r IHr]; intros cl nl a b l Hc Hab Ha Hb Hmid; cbn [bl cutm] in *.
  - destruct a; discriminate.
  - destruct (IH cl nl a b l Hc Hab Ha Hb Hmid) as (M & Q & E). rewrite E. eauto.
  - destruct b as [|b]; [lia|]. cbn [nth_error] in Hb. replace (S b - 1) with b by lia.
    destruct a as [|a]; cbn [nth_error] in Ha.
    + injection Ha as <-.
      destruct (take_until_ex r cl nl b Hc Hb) as (M & R & E).
      { intros c Hcb H. apply (Hmid (S c)); [lia|exact H]. }
      rewrite E. eauto.
    + destruct (IH cl nl a b l Hc ltac:(lia) Ha Hb) as (M & Q & E).
      { intros c Hcb H. apply (Hmid (S c)); [lia|exact H]. }
      rewrite E. eauto.
  - destruct (Nat.lt_ge_cases a (nbreaks i)) as [Hlt|Hge].
    + replace (a <? nbreaks i) with true by (symmetry; apply Nat.ltb_lt; exact Hlt).
      rewrite nth_error_app1 in Ha by (rewrite bl_length; exact Hlt).
      assert (Hbi : b < nbreaks i).
      { destruct (Nat.lt_ge_cases b (nbreaks i)) as [H|H]; [exact H|exfalso].
        rewrite nth_error_app2 in Hb by (rewrite bl_length; exact H).
        apply nth_error_In, bl_range in Ha. apply nth_error_In, bl_range in Hb. lia. }
      rewrite nth_error_app1 in Hb by (rewrite bl_length; exact Hbi).
      destruct (IHi (S nl) (S nl) a b l (le_n _) Hab Ha Hb) as (M & Q & E).
      { intros c Hcb H. apply (Hmid c Hcb). rewrite nth_error_app1 by (rewrite bl_length; lia). exact H. }
      rewrite E. eauto.
    + replace (a <? nbreaks i) with false by (symmetry; apply Nat.ltb_ge; exact Hge).
      rewrite nth_error_app2 in Ha by (rewrite bl_length; exact Hge).
      rewrite nth_error_app2 in Hb by (rewrite bl_length; lia). rewrite bl_length in Ha, Hb.
      destruct (IHr cl (S nl + npairs i) (a - nbreaks i) (b - nbreaks i) l ltac:(lia) ltac:(lia) Ha Hb) as (M & Q & E).
      { intros c Hcb H. apply (Hmid (nbreaks i + c)); [lia|].
        rewrite nth_error_app2 by (rewrite bl_length; lia). rewrite bl_length.
        replace (nbreaks i + c - nbreaks i) with c by lia. exact H. }
      rewrite E. eauto.
Qed.

(* ------------------------------------------------------------------ *)
(* entry lists: values, shifting                                        *)

Definition emap (f : loc -> loc) (e : entry) : entry :=
  match e with
  | EP (Some v) => EP (Some (f v))
  | e => e
  end.

Definition up (w : nat) (x : loc) : loc := (fst x + w, snd x).

(* remove w strands in front of strand i + w: earlier positions stay, later ones move *)
Definition fcut (i w : nat) (x : loc) : loc := if fst x <? i then x else (fst x - w, snd x).

Definition nEB (es : list entry) : nat :=
  length (filter (fun e => match e with EB => true | _ => false end) es).

Lemma nEB_app a b : nEB (a ++ b) = nEB a + nEB b.
Proof. unfold nEB. rewrite filter_app, app_length. reflexivity. Qed.

(* every value of an entry list satisfies P *)
Definition vals (P : loc -> Prop) (es : list entry) : Prop :=
  forall v, In (EP (Some v)) es -> P v.

Lemma In_entry_assoc es : forall p v, In (EP v) es -> exists a, In (a, v) (assoc es p).
Proof.
  induction es as [|[|x] r IH]; intros p v H; cbn [assoc] in *.
  - contradiction.
  - destruct H as [H|H]; [discriminate|]. apply IH, H.
  - destruct H as [H|H].
    + injection H as <-. exists p. left. reflexivity.
    + destruct (IH (fst p, S (snd p)) v H) as (a & Ha). exists a. right. exact Ha.
Qed.

Lemma vals_ents d p : vals (fun v => fst p <= fst v <= fst p + nbreaks d) (ents d p).
Proof.
  intros v H. destruct (In_entry_assoc _ p _ H) as (a & Ha).
  apply (aents_strands d p a v). exact Ha.
Qed.

Lemma emap_id_ext (f : loc -> loc) es : vals (fun v => f v = v) es -> map (emap f) es = es.
Proof.
  induction es as [|e r IH]; intros H; cbn [map]; [reflexivity|].
  rewrite IH by (intros v Hv; apply H; right; exact Hv). f_equal.
  destruct e as [|[v|]]; cbn [emap]; try reflexivity.
  rewrite (H v) by (left; reflexivity). reflexivity.
Qed.

Lemma emap_emap f g es : map (emap f) (map (emap g) es) = map (emap (fun x => f (g x))) es.
Proof.
  rewrite map_map. apply map_ext. intros [|[v|]]; reflexivity.
Qed.

Lemma vals_map_emap (P : loc -> Prop) g es : vals (fun v => P (g v)) es -> vals P (map (emap g) es).
Proof.
  intros H v Hv. apply in_map_iff in Hv. destruct Hv as ([|[x|]] & E & Hx); cbn [emap] in E; try discriminate.
  injection E as <-. apply H, Hx.
Qed.

Lemma ents_up d w : forall p,
  ents d (fst p + w, snd p) = map (emap (up w)) (ents d p) /\
  adv d (fst p + w, snd p) = (fst (adv d p) + w, snd (adv d p)).
Proof.
  induction d as [|r IH|r IH|i IHi r IHr]; intros p; cbn [ents adv map fst snd].
  - auto.
  - destruct (IH (fst p, S (snd p))) as [H1 H2]. cbn [fst snd] in *. rewrite H1, H2. auto.
  - destruct (IH (S (fst p), 0)) as [H1 H2]. cbn [fst snd Nat.add] in *. rewrite H1, H2. auto.
  - cbn zeta. destruct (IHi (fst p, S (snd p))) as [H1 H2]. cbn [fst snd] in H1, H2.
    rewrite H1, H2. cbn [fst snd].
    set (q := adv i (fst p, S (snd p))).
    destruct (IHr (fst q, S (snd q))) as [H3 H4]. cbn [fst snd] in H3, H4.
    rewrite H3, H4. split; [|reflexivity].
    rewrite map_app. cbn [map emap]. unfold up. cbn [fst snd]. reflexivity.
Qed.

Lemma nEB_map_emap f es : nEB (map (emap f) es) = nEB es.
Proof.
  unfold nEB. induction es as [|[|[v|]] r IH]; cbn [map emap filter length]; auto.
Qed.

Lemma nEB_ents d p : nEB (ents d p) = nbreaks d.
Proof. apply LoopsConn.nEB_ents. Qed.

(* moving a forest down by w strands when it starts at or after strand i + w *)
Lemma ents_down d i w s c :
  i <= s ->
  ents d (s, c) = map (emap (fcut i w)) (ents d (s + w, c)) /\
  adv d (s, c) = fcut i w (adv d (s + w, c)).
Proof.
  intros Hs. destruct (ents_up d w (s, c)) as [H1 H2]. cbn [fst snd] in H1, H2.
  rewrite H1, H2. split.
  - rewrite emap_emap. symmetry. apply emap_id_ext. intros v Hv.
    apply vals_ents in Hv. cbn [fst] in Hv. unfold fcut, up. cbn [fst snd].
    replace (fst v + w <? i) with false by (symmetry; apply Nat.ltb_ge; lia).
    destruct v; cbn [fst snd]. f_equal. lia.
  - unfold fcut. cbn [fst snd]. pose proof (adv_fst d (s, c)) as Ha. cbn [fst] in Ha.
    replace (fst (adv d (s, c)) + w <? i) with false by (symmetry; apply Nat.ltb_ge; lia).
    destruct (adv d (s, c)); cbn [fst snd]. f_equal. lia.
Qed.

(* ------------------------------------------------------------------ *)
(* the cut on entry lists                                               *)

Lemma cutm_bound d : forall a b M Q, cutm d a b = Some (M, Q) -> a < b ->
  b = a + S (nbreaks M) /\ b < nbreaks d /\ nbreaks d = nbreaks Q + S (nbreaks M).
Proof.
  induction d as [|r IH|r IH|i IHi r IHr]; intros a b M Q H Hab; cbn [cutm] in H.
  - discriminate.
  - destruct (cutm r a b) as [[M' Q']|] eqn:E; [|discriminate]. injection H as <- <-.
    destruct (IH _ _ _ _ E Hab) as (H1 & H2 & H3). cbn [nbreaks]. auto.
  - destruct a as [|a].
    + destruct (take_until r (b - 1)) as [[M' R']|] eqn:E; [|discriminate]. injection H as <- <-.
      destruct (take_until_spec _ _ _ _ E) as [-> Hn]. cbn [nbreaks]. rewrite nbreaks_dapp. cbn [nbreaks]. lia.
    + destruct (cutm r a (b - 1)) as [[M' Q']|] eqn:E; [|discriminate]. injection H as <- <-.
      destruct (IH _ _ _ _ E ltac:(lia)) as (H1 & H2 & H3). cbn [nbreaks]. lia.
  - destruct (a <? nbreaks i) eqn:Ea.
    + destruct (cutm i a b) as [[M' Q']|] eqn:E; [|discriminate]. injection H as <- <-.
      destruct (IHi _ _ _ _ E Hab) as (H1 & H2 & H3). cbn [nbreaks]. lia.
    + apply Nat.ltb_ge in Ea.
      destruct (cutm r (a - nbreaks i) (b - nbreaks i)) as [[M' Q']|] eqn:E; [|discriminate]. injection H as <- <-.
      destruct (IHr _ _ _ _ E ltac:(lia)) as (H1 & H2 & H3). cbn [nbreaks]. lia.
Qed.

Lemma fcut_before i w x : fst x < i -> fcut i w x = x.
Proof. intros H. unfold fcut. replace (fst x <? i) with true by (symmetry; apply Nat.ltb_lt; exact H). reflexivity. Qed.

Theorem cutm_ents d : forall a b M Q p,
  cutm d a b = Some (M, Q) -> a < b ->
  let i := S (fst p + a) in let w := S (nbreaks M) in
  exists E1 E2,
    ents d p = E1 ++ EB :: ents M (i, 0) ++ EB :: E2 /\
    nEB E1 = a /\
    ents Q p = map (emap (fcut i w)) (E1 ++ EB :: E2) /\
    adv Q p = fcut i w (adv d p).
Proof.
  induction d as [|r IH|r IH|i0 IHi r IHr]; intros a b M Q p H Hab; cbn [cutm] in H.
  - discriminate.
  - (* DU *)
    destruct (cutm r a b) as [[M' Q']|] eqn:E; [|discriminate]. injection H as <- <-.
    destruct (IH a b M' Q' (fst p, S (snd p)) E Hab) as (E1 & E2 & H1 & H2 & H3 & H4). cbn [fst] in *.
    exists (EP None :: E1), E2. cbn [ents adv app map emap]. rewrite H1, H3, H4.
    split; [reflexivity|]. split; [exact H2|]. split; reflexivity.
  - (* DB *)
    destruct a as [|a].
    + destruct (take_until r (b - 1)) as [[M' R']|] eqn:E; [|discriminate]. injection H as <- <-.
      destruct (take_until_spec _ _ _ _ E) as [-> Hn].
      exists [], (ents R' (S (S (fst p) + nbreaks M'), 0)).
      cbn [ents adv app map emap]. rewrite ents_dapp, adv_dapp. cbn [ents adv].
      pose proof (adv_fst M' (S (fst p), 0)) as Ha. cbn [fst] in Ha. rewrite Ha.
      rewrite Nat.add_0_r.
      destruct (ents_down R' (S (fst p)) (S (nbreaks M')) (S (fst p)) 0 (le_n _)) as [D1 D2].
      replace (S (fst p) + S (nbreaks M')) with (S (S (fst p) + nbreaks M')) in D1, D2 by lia.
      split; [reflexivity|]. split; [reflexivity|]. split; [rewrite D1; reflexivity|exact D2].
    + destruct (cutm r a (b - 1)) as [[M' Q']|] eqn:E; [|discriminate]. injection H as <- <-.
      destruct (IH a (b - 1) M' Q' (S (fst p), 0) E ltac:(lia)) as (E1 & E2 & H1 & H2 & H3 & H4). cbn [fst] in *.
      replace (S (S (fst p) + a)) with (S (fst p + S a)) in * by lia.
      exists (EB :: E1), E2. cbn [ents adv app map emap]. rewrite H1, H3, H4.
      split; [reflexivity|]. split; [|split; reflexivity].
      change (EB :: E1) with ([EB] ++ E1). rewrite nEB_app, H2. reflexivity.
  - (* DP *)
    destruct (a <? nbreaks i0) eqn:Ea.
    + apply Nat.ltb_lt in Ea.
      destruct (cutm i0 a b) as [[M' Qi]|] eqn:E; [|discriminate]. injection H as <- <-.
      destruct (cutm_bound _ _ _ _ _ E Hab) as (Hb1 & Hb2 & Hb3).
      destruct (IHi a b M' Qi (fst p, S (snd p)) E Hab) as (E1 & E2 & H1 & H2 & H3 & H4). cbn [fst] in *.
      set (p1 := (fst p, S (snd p))) in *.
      set (ii := S (fst p + a)) in *. set (w := S (nbreaks M')) in *.
      set (q := adv i0 p1) in *.
      assert (Hq : fst q = fst p + nbreaks i0) by (unfold q; rewrite adv_fst; reflexivity).
      exists (EP (Some q) :: E1), (E2 ++ EP (Some p) :: ents r (fst q, S (snd q))).
      cbn [ents adv]. cbn zeta. fold p1. fold q. rewrite H1, H3, H4.
      assert (Hfq : fcut ii w q = (fst q - w, snd q)).
      { unfold fcut. replace (fst q <? ii) with false by (symmetry; apply Nat.ltb_ge; unfold ii; lia). reflexivity. }
      rewrite Hfq. cbn [fst snd].
      destruct (ents_down r ii w (fst q - w) (S (snd q)) ltac:(unfold ii, w; lia)) as [D1 D2].
      replace (fst q - w + w) with (fst q) in D1, D2 by (unfold w; lia).
      split; [repeat rewrite <- app_assoc; cbn [app]; repeat rewrite <- app_assoc; reflexivity|].
      split; [change (EP (Some q) :: E1) with ([EP (Some q)] ++ E1); rewrite nEB_app, H2; reflexivity|].
      split; [|exact D2].
      cbn [app map emap]. rewrite Hfq. f_equal.
      rewrite !map_app. cbn [map emap]. rewrite !map_app. cbn [map emap].
      rewrite (fcut_before ii w p) by (unfold ii; lia).
      rewrite <- D1. repeat rewrite <- app_assoc. cbn [app]. repeat rewrite <- app_assoc. reflexivity.
    + apply Nat.ltb_ge in Ea.
      destruct (cutm r (a - nbreaks i0) (b - nbreaks i0)) as [[M' Qr]|] eqn:E; [|discriminate]. injection H as <- <-.
      set (p1 := (fst p, S (snd p))). set (q := adv i0 p1).
      assert (Hq : fst q = fst p + nbreaks i0) by (unfold q; rewrite adv_fst; reflexivity).
      destruct (IHr (a - nbreaks i0) (b - nbreaks i0) M' Qr (fst q, S (snd q)) E ltac:(lia)) as (E1 & E2 & H1 & H2 & H3 & H4).
      cbn [fst] in *.
      replace (S (fst q + (a - nbreaks i0))) with (S (fst p + a)) in * by lia.
      set (ii := S (fst p + a)) in *. set (w := S (nbreaks M')) in *.
      exists (EP (Some q) :: ents i0 p1 ++ EP (Some p) :: E1), E2.
      cbn [ents adv]. cbn zeta. fold p1. fold q. rewrite H1, H3, H4.
      split; [cbn [app]; repeat rewrite <- app_assoc; reflexivity|].
      split.
      { change (EP (Some q) :: ents i0 p1 ++ EP (Some p) :: E1)
          with ([EP (Some q)] ++ ents i0 p1 ++ [EP (Some p)] ++ E1).
        rewrite !nEB_app, nEB_ents, H2. cbn. lia. }
      split; [|reflexivity].
      cbn [app map emap]. rewrite (fcut_before ii w q) by (unfold ii; lia). f_equal.
      repeat rewrite <- app_assoc. rewrite !map_app. cbn [app map emap].
      rewrite (fcut_before ii w p) by (unfold ii; lia).
      rewrite (emap_id_ext (fcut ii w) (ents i0 p1)).
      * reflexivity.
      * intros v Hv. apply vals_ents in Hv. unfold p1 in Hv. cbn [fst] in Hv.
        apply fcut_before. unfold ii. lia.
Qed.
