(* Documents: for every table of the shape
     root = StringStart + ZeroOrMore(Suppress(LineEnd)) + OneOrMore(stmt) + StringEnd
   with the python-style comment as the only ignorable expression, parsing the
   concatenation of statement texts yields the concatenation of the statements'
   tokens.  Also: the end-of-line loop OneOrMore(Suppress(LineEnd)). *)
From Coq Require Import List NArith Bool Arith Lia.
From DSD Require Import Base.Str Model.Peg Proofs.PegMono Proofs.PegRules Proofs.PegStd.
Import ListNotations.

(* a node that skips WS and the comment c before matching *)
Definition std_flags (c : nat) (WS : list chr) (nd : node) : Prop :=
  nskip nd = true /\ nws nd = WS /\ nign nd = [c].

Lemma pre_fn_std c WS nd x : std_flags c WS nd -> pre_fn c WS nd x = Some (skip_ws WS (std_skip_ign WS x)).
Proof. intros (Hs & Hw & Hi). unfold pre_fn. rewrite Hi, Hs, Hw, Nat.eqb_refl. reflexivity. Qed.

Lemma pre_to_std g full c WS nd x y :
  comment_ok g c WS = true -> std_flags c WS nd -> std_pre WS x = y -> pre_to g full nd (At x) (At y).
Proof. intros Hc Hf <-. apply (pre_to_fn g full c WS Hc). apply pre_fn_std. exact Hf. Qed.

Section Lines.
  Variable g : list node.
  Variables c sl le : nat.
  Variable WS : list chr.
  Hypothesis Hc : comment_ok g c WS = true.
  Hypothesis Hsl : nth_error g sl = Some (mkNode KSuppress [le] true WS [c] true []).
  Hypothesis Hle : exists cp, nth_error g le = Some (mkNode KLineEnd [] true WS [c] cp []).
  Notation std_pre := (std_pre WS).

  (* what follows a statement: nothing but blanks / a comment up to the end of the
     input, or something that is not (after blanks / a comment) a line end *)
  Definition cont_ok (k : pstr) : Prop :=
    match std_pre k with [] => True | d :: _ => N.eqb d NL = false end.
  Definition after (k : pstr) : pos :=
    match std_pre k with [] => Past | _ :: _ => At k end.
  (* blanks, an optional comment, a newline *)
  Definition blank_line (l : pstr) : Prop := forall z, std_pre (l ++ z) = NL :: z.

  Lemma blank_line_plain b : blanks WS b -> blank_line (b ++ [NL]).
  Proof.
    intros Hb z. rewrite <- app_assoc. rewrite (std_pre_blanks WS b _ Hb). cbn [app].
    apply (std_pre_stop WS); [apply (ws_no_nl g c WS Hc)|reflexivity].
  Qed.
  Lemma blank_line_comment b cm : blanks WS b -> no_nl cm -> blank_line (b ++ HASH :: cm ++ [NL]).
  Proof.
    intros Hb Hcm z. rewrite <- app_assoc. rewrite (std_pre_blanks WS b _ Hb). cbn [app].
    rewrite <- app_assoc. cbn [app]. apply (std_pre_comment g c WS Hc). exact Hcm.
  Qed.

  Definition line_res (x : pstr) : pres :=
    match std_pre x with
    | d :: r => if N.eqb d NL then POk (At r) [] else PFail
    | [] => POk Past []
    end.

  Lemma evals_sl full x : evals g full sl true (At x) (line_res x).
  Proof.
    destruct Hle as [cp Hle'].
    eapply evals_eq.
    - eapply evals_node; [exact Hsl| |].
      + cbn. apply (pre_to_fn g full c WS Hc). apply pre_fn_std. repeat split.
      + eapply impls_wrap; [reflexivity|reflexivity|].
        eapply evals_node; [exact Hle'|cbn; reflexivity|]. apply impls_leaf. cbn. reflexivity.
    - unfold line_res, PegStd.std_pre. cbn.
      destruct (skip_ws WS (std_skip_ign WS x)) as [|d r]; [reflexivity|].
      destruct (N.eqb d NL); reflexivity.
  Qed.
  Lemma evals_sl_Past full : evals g full sl true Past PFail.
  Proof.
    destruct Hle as [cp Hle'].
    eapply evals_eq.
    - eapply evals_node; [exact Hsl| |].
      + cbn. apply (pre_to_Past g full c WS Hc). right. reflexivity.
      + eapply impls_wrap; [reflexivity|reflexivity|].
        eapply evals_node; [exact Hle'|cbn; reflexivity|]. apply impls_leaf. cbn. reflexivity.
    - reflexivity.
  Qed.

  (* the loop of OneOrMore / ZeroOrMore (Suppress(LineEnd)) over blank lines *)
  Lemma loops_lines full ls : forall k acc, Forall blank_line ls -> cont_ok k ->
    loops g full [c] sl (At (concat ls ++ k)) acc (POk (after k) acc).
  Proof.
    induction ls as [|l ls IH]; intros k acc Hls Hk.
    - cbn [concat app]. unfold cont_ok in Hk. unfold after.
      pose proof (evals_sl full (std_skip_ign WS k)) as Hs. unfold line_res in Hs.
      rewrite (std_pre_skip_ign g c WS Hc) in Hs.
      destruct (std_pre k) as [|d r] eqn:E.
      + eapply loops_step; [apply (skips_std g full c WS Hc)|exact Hs|].
        rewrite app_nil_r. eapply loops_stop; [apply (skips_std_Past g full c WS Hc)|apply evals_sl_Past].
      + rewrite Hk in Hs. eapply loops_stop; [apply (skips_std g full c WS Hc)|exact Hs].
    - inversion Hls as [|? ? Hl Hls']; subst. cbn [concat]. rewrite <- app_assoc.
      pose proof (evals_sl full (std_skip_ign WS (l ++ concat ls ++ k))) as Hs. unfold line_res in Hs.
      rewrite (std_pre_skip_ign g c WS Hc), (Hl (concat ls ++ k)) in Hs. cbn in Hs.
      eapply loops_step; [apply (skips_std g full c WS Hc)|exact Hs|].
      rewrite app_nil_r. apply IH; assumption.
  Qed.

  (* a OneOrMore(Suppress(LineEnd)) node after the last token of a statement *)
  Lemma evals_eol full m cp l ls k :
    nth_error g m = Some (mkNode (KMany true) [sl] true WS [c] cp []) ->
    blank_line l -> Forall blank_line ls -> cont_ok k ->
    evals g full m true (At (l ++ concat ls ++ k)) (POk (after k) []).
  Proof.
    intros Hm Hl Hls Hk.
    pose proof (evals_sl full (l ++ concat ls ++ k)) as Hs. unfold line_res in Hs. rewrite Hl in Hs. cbn in Hs.
    pose proof (evals_sl full (NL :: concat ls ++ k)) as Hs'. unfold line_res in Hs'.
    rewrite <- (Hl (concat ls ++ k)) in Hs' at 2. rewrite (std_pre_idem g c WS Hc), Hl in Hs'. cbn in Hs'.
    eapply evals_eq.
    - eapply evals_node; [exact Hm| |].
      + instantiate (1 := if cp then At (NL :: concat ls ++ k) else At (l ++ concat ls ++ k)).
        destruct cp; cbn; [|reflexivity].
        apply (pre_to_std g full c WS); [exact Hc|repeat split|apply Hl].
      + eapply impls_many; [reflexivity|reflexivity| |apply (loops_lines full ls k [] Hls Hk)].
        destruct cp; [exact Hs'|exact Hs].
    - reflexivity.
  Qed.
  (* ... directly at the end of the input, or before trailing blanks / a comment without newline *)
  Lemma evals_eol_eof full m cp k :
    nth_error g m = Some (mkNode (KMany true) [sl] true WS [c] cp []) ->
    std_pre k = [] ->
    evals g full m true (At k) (POk Past []).
  Proof.
    intros Hm Hk.
    pose proof (evals_sl full k) as Hs. unfold line_res in Hs. rewrite Hk in Hs.
    pose proof (evals_sl full []) as Hs'. unfold line_res in Hs'. rewrite std_pre_nil in Hs'.
    eapply evals_eq.
    - eapply evals_node; [exact Hm| |].
      + instantiate (1 := if cp then At [] else At k).
        destruct cp; cbn; [|reflexivity].
        apply (pre_to_std g full c WS); [exact Hc|repeat split|exact Hk].
      + eapply impls_many; [reflexivity|reflexivity| |].
        * destruct cp; [exact Hs'|exact Hs].
        * eapply loops_stop; [apply (skips_std_Past g full c WS Hc)|apply evals_sl_Past].
    - reflexivity.
  Qed.

  (* no line end where one is required: OneOrMore(Suppress(LineEnd)) fails *)
  Lemma evals_eol_fail full m cp x d r :
    nth_error g m = Some (mkNode (KMany true) [sl] true WS [c] cp []) ->
    std_pre x = d :: r -> N.eqb d NL = false ->
    evals g full m true (At x) PFail.
  Proof.
    intros Hm Hx Hd.
    assert (Hs : forall z, std_pre z = d :: r -> evals g full sl true (At z) PFail).
    { intros z Hz. pose proof (evals_sl full z) as Hs. unfold line_res in Hs. rewrite Hz, Hd in Hs. exact Hs. }
    eapply evals_node_fail; [exact Hm| |].
    - instantiate (1 := if cp then At (std_pre x) else At x).
      destruct cp; cbn; [|reflexivity].
      apply (pre_to_std g full c WS); [exact Hc|repeat split|reflexivity].
    - eapply (impls_many_none g full _ true); [reflexivity|reflexivity|].
      destruct cp; apply Hs; [rewrite (std_pre_idem g c WS Hc)|]; exact Hx.
  Qed.

  (* the end of a statement: a line end and further blank lines before an admissible
     continuation, or blanks / a comment up to the end of the input *)
  Definition stmt_end (E k : pstr) : Prop :=
    (exists l ls, E = l ++ concat ls /\ blank_line l /\ Forall blank_line ls /\ cont_ok k) \/
    (k = [] /\ std_pre E = []).

  Lemma evals_end full m cp E k :
    nth_error g m = Some (mkNode (KMany true) [sl] true WS [c] cp []) ->
    stmt_end E k -> evals g full m true (At (E ++ k)) (POk (after k) []).
  Proof.
    intros Hm [(l & ls & -> & Hl & Hls & Hk) | (-> & HE)].
    - rewrite <- app_assoc. apply (evals_eol full m cp); assumption.
    - rewrite app_nil_r. unfold after. rewrite std_pre_nil. apply (evals_eol_eof full m cp); assumption.
  Qed.
  Lemma end_nohead E k cs : stmt_end E k -> forallb (stopc WS) cs = true -> nohead cs (E ++ k).
  Proof.
    intros [(l & ls & -> & Hl & Hls & Hk) | (-> & HE)] Hcs.
    - destruct l as [|d l].
      + specialize (Hl []). cbn in Hl. discriminate.
      + cbn. destruct (memc d cs) eqn:E; [|reflexivity].
        pose proof (memc_forallb cs _ d Hcs E) as Hs. apply stopc_elim in Hs as (H1 & H2 & H3).
        specialize (Hl []). cbn [app] in Hl. rewrite (std_pre_stop WS d _ H1 H2) in Hl.
        injection Hl as -> _. discriminate.
    - rewrite app_nil_r. destruct E as [|d E]; [exact I|]. cbn.
      destruct (memc d cs) eqn:E'; [|reflexivity].
      pose proof (memc_forallb cs _ d Hcs E') as Hs. apply stopc_elim in Hs as (H1 & H2 & H3).
      rewrite (std_pre_stop WS d _ H1 H2) in HE. discriminate.
  Qed.
End Lines.

Section Doc.
  Variable g : list node.
  Variables root c ss zm sl le om st se : nat.
  Variable WS : list chr.
  Variable omcp : bool.
  Hypothesis Hc : comment_ok g c WS = true.
  Hypothesis Hroot : nth_error g root = Some (mkNode KAnd [ss; zm; om; se] true WS [c] true []).
  Hypothesis Hss : nth_error g ss = Some (mkNode KStringStart [] true WS [c] true []).
  Hypothesis Hzm : nth_error g zm = Some (mkNode (KMany false) [sl] true WS [c] true []).
  Hypothesis Hsl : nth_error g sl = Some (mkNode KSuppress [le] true WS [c] true []).
  Hypothesis Hle : exists cp, nth_error g le = Some (mkNode KLineEnd [] true WS [c] cp []).
  Hypothesis Hom : nth_error g om = Some (mkNode (KMany true) [st] true WS [c] omcp []).
  Hypothesis Hse : nth_error g se = Some (mkNode KStringEnd [] true WS [c] true []).
  (* the statement node fails beyond the end of the input (checked by computation per table) *)
  Hypothesis Hst_past : forall full, evals g full st true Past PFail.
  Notation std_pre := (std_pre WS).
  Notation cont_ok := (cont_ok WS).
  Notation after := (after WS).
  Notation blank_line := (blank_line WS).

  (* first character of a statement: not a blank, not a comment, not a newline *)
  Definition stmt_start (y : pstr) : Prop :=
    match y with
    | d :: _ => memc d WS = false /\ N.eqb d HASH = false /\ N.eqb d NL = false
    | [] => False
    end.
  (* the text y is a statement with tokens t: after any blanks, before any admissible
     continuation, the statement node consumes exactly y *)
  Definition stmt_ok (y : pstr) (t : list tok) : Prop :=
    forall full b k, blanks WS b -> cont_ok k ->
      evals g full st true (At (b ++ y ++ k)) (POk (after k) t).

  (* the text y, followed by any statement end, is a statement with tokens t *)
  Definition body_ok (y : pstr) (t : list tok) : Prop :=
    forall full b E k, blanks WS b -> stmt_end WS E k ->
      evals g full st true (At (b ++ y ++ E ++ k)) (POk (after k) t).
  Lemma body_stmt_ok y t l ls :
    body_ok y t -> blank_line l -> Forall blank_line ls -> stmt_ok (y ++ l ++ concat ls) t.
  Proof.
    intros Hy Hl Hls full b k Hb Hk. rewrite <- !app_assoc.
    rewrite (app_assoc l (concat ls) k). apply Hy; [exact Hb|]. left. exists l, ls. repeat split; assumption.
  Qed.

  Record item := mkItem { it_blanks : pstr; it_text : pstr; it_toks : list tok }.
  Definition item_ok (it : item) : Prop :=
    blanks WS (it_blanks it) /\ stmt_start (it_text it) /\ stmt_ok (it_text it) (it_toks it).
  Definition flatten (its : list item) : pstr := flat_map (fun it => it_blanks it ++ it_text it) its.

  Lemma std_pre_start b y k : blanks WS b -> stmt_start y -> std_pre (b ++ y ++ k) = y ++ k.
  Proof.
    intros Hb Hy. destruct y as [|d y]; [destruct Hy|]. destruct Hy as (Hw & Hh & _).
    rewrite (std_pre_blanks WS b _ Hb). cbn [app]. apply (std_pre_stop WS); assumption.
  Qed.
  (* the same, for the continuation the statement actually has in a document *)
  Definition item_shape (it : item) : Prop := blanks WS (it_blanks it) /\ stmt_start (it_text it).
  Definition item_at (it : item) (k : pstr) : Prop :=
    forall full b, blanks WS b -> evals g full st true (At (b ++ it_text it ++ k)) (POk (after k) (it_toks it)).
  Fixpoint items_ok (its : list item) (tl : pstr) : Prop :=
    match its with
    | [] => True
    | it :: r => item_shape it /\ item_at it (flatten r ++ tl) /\ items_ok r tl
    end.

  Lemma body_item_at_eof b y t E :
    body_ok y t -> std_pre E = [] -> item_at (mkItem b (y ++ E) t) [].
  Proof.
    intros Hy HE full b' Hb'. cbn [it_text it_toks]. rewrite <- app_assoc.
    apply Hy; [exact Hb'|]. right. split; [reflexivity|exact HE].
  Qed.

  Lemma cont_ok_shapes its tl : Forall item_shape its -> std_pre tl = [] -> cont_ok (flatten its ++ tl).
  Proof.
    intros Hits Htl. unfold PegDoc.cont_ok. destruct its as [|it its]; cbn [flatten flat_map app].
    - rewrite Htl. exact I.
    - inversion Hits as [|? ? (Hb & Hy) _]; subst. rewrite <- !app_assoc.
      rewrite (std_pre_start _ _ _ Hb Hy). destruct (it_text it) as [|d y]; [destruct Hy|].
      cbn. apply Hy.
  Qed.
  Lemma items_ok_of_forall its tl : Forall item_ok its -> std_pre tl = [] -> items_ok its tl.
  Proof.
    intros Hits Htl. induction Hits as [|it its (Hb & Hy & Hok) Hits IH]; cbn; [exact I|].
    split; [split; assumption|]. split; [|exact IH].
    intros full b Hbb. apply Hok; [exact Hbb|]. apply cont_ok_shapes; [|exact Htl].
    clear -Hits. induction Hits as [|? ? (Hb & Hy & _) _ IH]; constructor; [split; assumption|exact IH].
  Qed.
  Lemma after_items it its tl : item_shape it -> after (flatten (it :: its) ++ tl) = At (flatten (it :: its) ++ tl).
  Proof.
    intros (Hb & Hy). unfold PegDoc.after. cbn [flatten flat_map]. rewrite <- !app_assoc.
    rewrite (std_pre_start _ _ _ Hb Hy). destruct (it_text it) as [|d y]; [destruct Hy|]. reflexivity.
  Qed.

  (* the loop of OneOrMore(stmt) *)
  Lemma loops_stmts full its : forall tl acc, items_ok its tl -> std_pre tl = [] ->
    loops g full [c] st (after (flatten its ++ tl)) acc (POk Past (acc ++ flat_map it_toks its)).
  Proof.
    induction its as [|it its IH]; intros tl acc Hits Htl.
    - cbn [flatten flat_map app]. unfold PegDoc.after. rewrite Htl, app_nil_r.
      eapply loops_stop; [apply (skips_std_Past g full c WS Hc)|apply Hst_past].
    - destruct Hits as (Hsh & Hat & Hits').
      rewrite (after_items it its tl Hsh). destruct Hsh as (Hb & Hy).
      cbn [flatten flat_map]. rewrite <- !app_assoc.
      eapply loops_step.
      + apply (skips_std g full c WS Hc).
      + destruct (it_text it) as [|d y] eqn:Ey; [destruct Hy|]. destruct Hy as (Hw & Hh & Hn).
        cbn [app]. rewrite (std_skip_ign_stop WS _ d _ Hb Hw Hh).
        change (d :: y ++ flat_map (fun it0 => it_blanks it0 ++ it_text it0) its ++ tl)
          with ((d :: y) ++ flatten its ++ tl).
        unfold item_at in Hat. rewrite Ey in Hat. apply Hat. exact Hb.
      + cbn [flat_map]. rewrite app_assoc. apply IH; assumption.
  Qed.

  (* ---- the header: StringStart, blank / comment lines ---- *)
  Lemma header_evals pls B :
    Forall blank_line pls ->
    (exists d r, std_pre B = d :: r /\ N.eqb d NL = false) ->
    let D := concat pls ++ B in
    exists pz, (pz = At B \/ pz = At (std_pre B)) /\ evals g D zm true (At (std_pre D)) (POk pz []).
  Proof.
    intros Hpls HBne D.
    assert (HcontB : cont_ok B).
    { unfold PegDoc.cont_ok. destruct HBne as (d & r & E & Hd). rewrite E. exact Hd. }
    assert (HafterB : after B = At B).
    { unfold PegDoc.after. destruct HBne as (d & r & E & Hd). rewrite E. reflexivity. }
    destruct pls as [|l ls].
    - exists (At (std_pre B)). split; [right; reflexivity|].
      assert (ED : D = B) by reflexivity. rewrite ED.
      assert (Hs : evals g D sl true (At (std_pre B)) PFail).
      { pose proof (evals_sl g c sl le WS Hc Hsl Hle D (std_pre B)) as Hs. unfold line_res in Hs.
        rewrite (std_pre_idem g c WS Hc) in Hs. destruct HBne as (d & r & E & Hd).
        rewrite E in Hs at 2. rewrite Hd in Hs. exact Hs. }
      eapply evals_eq.
      + eapply evals_node; [exact Hzm| |].
        * cbn. apply (pre_to_std g D c WS); [exact Hc|repeat split|apply (std_pre_idem g c WS Hc)].
        * rewrite ED in Hs. eapply (impls_many_none g D _ false); [reflexivity|reflexivity|exact Hs].
      + reflexivity.
    - exists (At B). split; [left; reflexivity|].
      inversion Hpls as [|? ? Hl Hls]; subst.
      assert (ED : D = l ++ concat ls ++ B) by (unfold D; cbn [concat]; rewrite <- !app_assoc; reflexivity).
      assert (EpD : std_pre D = NL :: concat ls ++ B) by (rewrite ED; apply Hl).
      assert (Hs : evals g D sl true (At (std_pre D)) (POk (At (concat ls ++ B)) [])).
      { pose proof (evals_sl g c sl le WS Hc Hsl Hle D (std_pre D)) as Hs. unfold line_res in Hs.
        rewrite (std_pre_idem g c WS Hc) in Hs. rewrite EpD in Hs at 2. cbn in Hs. exact Hs. }
      eapply evals_eq.
      + eapply evals_node; [exact Hzm| |].
        * cbn. apply (pre_to_std g D c WS); [exact Hc|repeat split|apply (std_pre_idem g c WS Hc)].
        * eapply impls_many; [reflexivity|reflexivity|exact Hs|].
          cbn [nign]. apply (loops_lines g c sl le WS Hc Hsl Hle D ls B [] Hls HcontB).
      + rewrite <- HafterB. reflexivity.
  Qed.

  (* a document whose first statement is refused is refused *)
  Theorem document_reject_first pls b y :
    Forall blank_line pls -> blanks WS b -> stmt_start y ->
    (forall full b', blanks WS b' -> evals g full st true (At (b' ++ y)) PFail) ->
    let D := concat pls ++ b ++ y in
    evals g D root true (At D) PFail.
  Proof.
    intros Hpls Hb Hy Hfail D.
    assert (HB : std_pre (b ++ y) = y).
    { pose proof (std_pre_start b y [] Hb Hy) as H. rewrite !app_nil_r in H. exact H. }
    assert (HBne : exists d r, std_pre (b ++ y) = d :: r /\ N.eqb d NL = false).
    { rewrite HB. destruct y as [|d y]; [destruct Hy|]. exists d, y. split; [reflexivity|apply Hy]. }
    destruct (header_evals pls (b ++ y) Hpls HBne) as (pz & Hpz & Hzm').
    assert (Hom' : evals g D om true pz PFail).
    { eapply evals_node_fail; [exact Hom| |].
      - instantiate (1 := if omcp then At y else pz).
        destruct omcp; cbn; [|reflexivity].
        destruct Hpz as [-> | ->]; (apply (pre_to_std g D c WS); [exact Hc|repeat split|]).
        + exact HB.
        + rewrite HB. destruct y as [|d y]; [destruct Hy|]. destruct Hy as (Hw & Hh & _).
          apply (std_pre_stop WS); assumption.
      - eapply (impls_many_none g D _ true); [reflexivity|reflexivity|].
        destruct omcp.
        + apply (Hfail D []). reflexivity.
        + destruct Hpz as [-> | ->]; [apply Hfail; exact Hb|rewrite HB; apply (Hfail D []); reflexivity]. }
    eapply evals_node_fail; [exact Hroot| |].
    - cbn. apply (pre_to_std g D c WS); [exact Hc|repeat split|reflexivity].
    - eapply impls_and; [reflexivity|reflexivity| |].
      + eapply evals_node_ok; [exact Hss|cbn; reflexivity|].
        apply impls_string_start; [reflexivity|].
        apply (pre_to_std g D c WS); [exact Hc|repeat split|reflexivity].
      + cbn. eapply seqs_cons; [exact Hzm'|]. apply seqs_fail. exact Hom'.
  Qed.

  (* ---- the document theorem ---- *)
  Theorem document_concat_items pls its tl :
    Forall blank_line pls -> items_ok its tl -> its <> [] -> std_pre tl = [] ->
    let D := concat pls ++ flatten its ++ tl in
    evals g D root true (At D) (POk Past (flat_map it_toks its)).
  Proof.
    intros Hpls Hits Hne Htl D.
    destruct its as [|it its]; [congruence|]. clear Hne.
    destruct Hits as (Hit & Hat & Hits').
    set (B := flatten (it :: its) ++ tl) in *.
    assert (HB : std_pre B = it_text it ++ flatten its ++ tl).
    { destruct Hit as (Hb & Hy). unfold B. cbn [flatten flat_map]. rewrite <- !app_assoc.
      apply std_pre_start; assumption. }
    assert (HBne : exists d r, std_pre B = d :: r /\ N.eqb d NL = false).
    { rewrite HB. destruct Hit as (_ & Hy). destruct (it_text it) as [|d y]; [destruct Hy|].
      exists d, (y ++ flatten its ++ tl). split; [reflexivity|apply Hy]. }
    assert (HcontB : cont_ok B).
    { unfold PegDoc.cont_ok. destruct HBne as (d & r & E & Hd). rewrite E. exact Hd. }
    assert (HafterB : after B = At B) by (apply after_items; assumption).
    pose proof (header_evals pls B Hpls HBne) as Hhead. cbn zeta in Hhead. fold D in Hhead.
    destruct Hhead as (pz & Hpz & Hzm').
    (* OneOrMore(stmt) from pz *)
    assert (Hfirst : forall pz', (pz' = At B \/ pz' = At (std_pre B)) ->
              evals g D st true pz' (POk (after (flatten its ++ tl)) (it_toks it))).
    { intros pz' [->| ->].
      - destruct Hit as (Hb & Hy). unfold B. cbn [flatten flat_map]. rewrite <- !app_assoc.
        apply Hat. exact Hb.
      - rewrite HB. apply (Hat D []). reflexivity. }
    assert (Hom' : evals g D om true pz (POk Past (flat_map it_toks (it :: its)))).
    { eapply evals_eq.
      - eapply evals_node; [exact Hom| |].
        + instantiate (1 := if omcp then At (std_pre B) else pz).
          destruct omcp; cbn; [|reflexivity].
          destruct Hpz as [-> | ->]; (apply (pre_to_std g D c WS); [exact Hc|repeat split|]).
          * reflexivity.
          * apply (std_pre_idem g c WS Hc).
        + eapply impls_many; [reflexivity|reflexivity| |].
          * apply Hfirst. destruct omcp; [right; reflexivity|exact Hpz].
          * apply loops_stmts; assumption.
      - reflexivity. }
    (* the root *)
    eapply evals_eq.
    - eapply evals_node; [exact Hroot| |].
      + cbn. apply (pre_to_std g D c WS); [exact Hc|repeat split|reflexivity].
      + eapply impls_and; [reflexivity|reflexivity| |].
        * eapply evals_node_ok; [exact Hss|cbn; reflexivity|].
          apply impls_string_start; [reflexivity|].
          apply (pre_to_std g D c WS); [exact Hc|repeat split|reflexivity].
        * cbn. eapply seqs_cons; [exact Hzm'|]. eapply seqs_cons; [exact Hom'|].
          eapply seqs_cons; [|apply seqs_nil].
          eapply evals_node_ok; [exact Hse|cbn; apply (pre_to_Past g D c WS Hc); right; reflexivity|].
          apply impls_leaf. cbn. reflexivity.
    - cbn. rewrite app_nil_r. reflexivity.
  Qed.

  Theorem document_concat_gen pls its tl :
    Forall blank_line pls -> Forall item_ok its -> its <> [] -> std_pre tl = [] ->
    let D := concat pls ++ flatten its ++ tl in
    evals g D root true (At D) (POk Past (flat_map it_toks its)).
  Proof.
    intros Hpls Hits Hne Htl. apply document_concat_items; try assumption.
    apply items_ok_of_forall; assumption.
  Qed.
End Doc.
