(* C13 (shared with C12): round trip of the kernel-notation complex
     NAME = PATTERN      PATTERN := (NAME[^][*] | + | NAME[^][*]( PATTERN? ))+
   for all names, all nestings and all layouts (no concentration part). *)
From Coq Require Import List NArith Bool Arith Lia.
From DSD Require Import Base.Str Base.Val Model.Peg Model.DispatchPeg Proofs.PegMono Proofs.PegRules Proofs.PegStd
  Proofs.PegDoc Proofs.PegKw Proofs.C13Doc Proofs.PilLex Proofs.C13Ms.
From DSDGen Require Import PilGrammar.
Import ListNotations.

Notation CARET := 94%N.
Notation STAR := 42%N.
Notation LPAR := 40%N.
Notation RPAR := 41%N.
Notation PLUS := 43%N.

Definition opt_s (b : bool) (d : chr) : pstr := if b then [d] else [].
Definition sense_text (n0 : chr) (ns : pstr) (caret star : bool) : pstr :=
  n0 :: ns ++ opt_s caret CARET ++ opt_s star STAR.
(* after a domain name of a pattern: no identifier character, no ^ * ( *)
Definition sense_follow (r : pstr) : Prop := nohead (LPAR :: STAR :: CARET :: idch) r.

Lemma sense_follow_elim r : sense_follow r ->
  nohead idch r /\ nohead [CARET] r /\ nohead [STAR] r /\ nohead [LPAR] r.
Proof.
  unfold sense_follow. destruct r as [|d r]; [repeat split|]. cbn.
  intros H. apply orb_false_iff in H as [H1 H]. apply orb_false_iff in H as [H2 H].
  apply orb_false_iff in H as [H3 H]. rewrite H1, H2, H3. repeat split; assumption.
Qed.

Ltac rw_alias E := let H := fresh "Ea" in pose proof E as H; unfold chr, pstr in *; rewrite H; clear H.

(* Opt [Lit [d]] without whitespace skipping *)
Lemma ev_opt_char full o l d (flag : bool) r :
  nth_error G o = Some (mkNode KOpt [l] false WS [] true []) ->
  nth_error G l = Some (mkNode (KLit [d]) [] false WS [] true []) ->
  (flag = false -> nohead [d] r) ->
  evals G full o true (At (opt_s flag d ++ r)) (POk (At r) (if flag then [TStr [d]] else [])).
Proof.
  intros Ho Hl Hr. destruct flag; cbn [opt_s app].
  - eapply evals_eq.
    + eapply evals_node_ok; [exact Ho|apply (pre_premise_plain G full pil_c WS pil_comment_ok); split; reflexivity|].
      eapply impls_opt_some; [reflexivity|reflexivity|].
      eapply evals_eq; [apply (evals_lit_plain G full pil_c WS pil_comment_ok l false true [d] _ Hl)|].
      unfold lit_res. cbn [starts_with]. rewrite N.eqb_refl. reflexivity.
    + reflexivity.
  - eapply evals_eq.
    + eapply evals_node_ok; [exact Ho|apply (pre_premise_plain G full pil_c WS pil_comment_ok); split; reflexivity|].
      eapply impls_opt_none; [reflexivity|reflexivity|].
      eapply evals_eq; [apply (evals_lit_plain G full pil_c WS pil_comment_ok l false true [d] _ Hl)|].
      unfold lit_res. rw_alias (starts_with_nohead d [] r (Hr eq_refl)). reflexivity.
    + reflexivity.
Qed.

(* identifier [^] [*] inside Combine: And [Word; Opt ^; Opt *] *)
Lemma ev_sense_seq full an w o1 l1 o2 l2 (n0 : chr) (ns : pstr) (caret star : bool) (r : pstr) :
  nth_error G an = Some (mkNode KAnd [w; o1; o2] false WS [] true []) ->
  nth_error G w = Some (mkNode (KWord idch idch 1 0) [] false WS [] true []) ->
  nth_error G o1 = Some (mkNode KOpt [l1] false WS [] true []) ->
  nth_error G l1 = Some (mkNode (KLit [CARET]) [] false WS [] true []) ->
  nth_error G o2 = Some (mkNode KOpt [l2] false WS [] true []) ->
  nth_error G l2 = Some (mkNode (KLit [STAR]) [] false WS [] true []) ->
  memc n0 idch = true -> all_in idch ns ->
  nohead idch r -> nohead [CARET] r -> nohead [STAR] r ->
  evals G full an false (At (sense_text n0 ns caret star ++ r))
    (POk (At r) (TStr (n0 :: ns) :: (if caret then [TStr [CARET]] else []) ++ (if star then [TStr [STAR]] else []))).
Proof.
  intros Han Hw Ho1 Hl1 Ho2 Hl2 H0 Hns Hr1 Hr2 Hr3.
  unfold sense_text. norm_text.
  eapply evals_eq.
  - eapply evals_node_ok; [exact Han|cbn; reflexivity|].
    eapply impls_and; [reflexivity|reflexivity| |].
    + eapply (evals_word_plain G full pil_c WS pil_comment_ok w false true); [exact Hw|exact H0|exact Hns|].
      destruct caret; [reflexivity|]. destruct star; [reflexivity|]. exact Hr1.
    + eapply seqs_cons.
      { apply (ev_opt_char full o1 l1 CARET caret _ Ho1 Hl1). intros _. destruct star; [reflexivity|exact Hr2]. }
      eapply seqs_cons; [|apply seqs_nil].
      apply (ev_opt_char full o2 l2 STAR star _ Ho2 Hl2). intros _. exact Hr3.
  - cbn. reflexivity.
Qed.

Lemma join_sense (n0 : chr) (ns : pstr) (caret star : bool) :
  join_strs [] (flat_strs (TStr (n0 :: ns) :: (if caret then [TStr [CARET]] else []) ++ (if star then [TStr [STAR]] else [])))
  = sense_text n0 ns caret star.
Proof. unfold sense_text. destruct caret, star; cbn; rewrite ?app_nil_r; reflexivity. Qed.

(* the sense alternative: Combine [And [Word; Opt ^; Opt *]], node 231 *)
Lemma ev_sense full (x : pstr) (n0 : chr) (ns : pstr) (caret star : bool) (r : pstr) :
  spre x = sense_text n0 ns caret star ++ r ->
  memc n0 idch = true -> all_in idch ns -> sense_follow r ->
  evals G full 231 true (At x) (POk (At r) [TStr (sense_text n0 ns caret star)]).
Proof.
  intros Hx H0 Hns Hr. apply sense_follow_elim in Hr as (Hr1 & Hr2 & Hr3 & Hr4).
  eapply evals_eq.
  - eapply evals_node_ok; [lk|apply (pre_premise G full pil_c WS pil_comment_ok); repeat split|].
    unfold pre_pos. cbn [andb ncallpre]. rewrite Hx.
    eapply impls_wrap; [reflexivity|reflexivity|].
    apply (ev_sense_seq full 232 233 234 235 236 237 n0 ns caret star r); try lk; assumption.
  - cbn [finish post add_tags fold_left nkind ntags]. rewrite join_sense. reflexivity.
Qed.

(* the head of a loop: Combine [And [Combine [sense]; Suppress '(']], node 212 *)
Lemma ev_loop_head full (x : pstr) (n0 : chr) (ns : pstr) (caret star : bool) (r : pstr) :
  spre x = sense_text n0 ns caret star ++ LPAR :: r ->
  memc n0 idch = true -> all_in idch ns ->
  evals G full 212 false (At (spre x)) (POk (At r) [TStr (sense_text n0 ns caret star)]).
Proof.
  intros Hx H0 Hns. rewrite Hx.
  assert (H214 : evals G full 214 false (At (sense_text n0 ns caret star ++ LPAR :: r))
                   (POk (At (LPAR :: r)) [TStr (sense_text n0 ns caret star)])).
  { eapply evals_eq.
    - eapply evals_node_ok; [lk|cbn; reflexivity|].
      eapply impls_wrap; [reflexivity|reflexivity|].
      apply (ev_sense_seq full 215 216 217 218 219 220 n0 ns caret star (LPAR :: r)); try lk; try assumption; reflexivity.
    - cbn [finish post add_tags fold_left nkind ntags]. rewrite join_sense. reflexivity. }
  eapply evals_eq.
  - eapply evals_node_ok; [lk|cbn; reflexivity|].
    eapply impls_wrap; [reflexivity|reflexivity|].
    eapply evals_node_ok; [lk|cbn; reflexivity|].
    eapply impls_and; [reflexivity|reflexivity|exact H214|].
    eapply seqs_cons; [|apply seqs_nil].
    eapply evals_node_ok; [lk|apply (pre_premise_plain G full pil_c WS pil_comment_ok); split; reflexivity|].
    eapply impls_wrap; [reflexivity|reflexivity|].
    eapply evals_eq; [apply (evals_lit_plain G full pil_c WS pil_comment_ok 222 false true); lk|].
    unfold lit_res. cbn [starts_with]. rewrite N.eqb_refl. reflexivity.
  - cbn. rewrite ?app_nil_r. reflexivity.
Qed.
(* ... fails when no '(' follows the name, or when there is no name *)
Lemma ev_loop_head_fail_sense full (x : pstr) (n0 : chr) (ns : pstr) (caret star : bool) (r : pstr) :
  spre x = sense_text n0 ns caret star ++ r ->
  memc n0 idch = true -> all_in idch ns -> sense_follow r ->
  evals G full 211 true (At x) PFail.
Proof.
  intros Hx H0 Hns Hr. apply sense_follow_elim in Hr as (Hr1 & Hr2 & Hr3 & Hr4).
  eapply evals_node_fail; [lk|apply (pre_premise G full pil_c WS pil_comment_ok); repeat split|].
  unfold pre_pos. cbn [andb ncallpre]. rewrite Hx.
  eapply impls_and_fail; [reflexivity|reflexivity|].
  eapply evals_node_fail; [lk|cbn; reflexivity|].
  eapply impls_wrap; [reflexivity|reflexivity|].
  eapply evals_node_fail; [lk|cbn; reflexivity|].
  eapply impls_and; [reflexivity|reflexivity| |].
  - eapply evals_eq.
    + eapply evals_node_ok; [lk|cbn; reflexivity|].
      eapply impls_wrap; [reflexivity|reflexivity|].
      apply (ev_sense_seq full 215 216 217 218 219 220 n0 ns caret star r); try lk; assumption.
    + reflexivity.
  - apply seqs_fail.
    eapply evals_node_fail; [lk|apply (pre_premise_plain G full pil_c WS pil_comment_ok); split; reflexivity|].
    eapply impls_wrap; [reflexivity|reflexivity|].
    eapply evals_eq; [apply (evals_lit_plain G full pil_c WS pil_comment_ok 222 false true); lk|].
    unfold lit_res. rw_alias (starts_with_nohead LPAR [] r Hr4). reflexivity.
Qed.
Lemma ev_loop_fail_noname full x : nohead idch (spre x) -> evals G full 211 true (At x) PFail.
Proof.
  intros Hx.
  eapply evals_node_fail; [lk|apply (pre_premise G full pil_c WS pil_comment_ok); repeat split|].
  unfold pre_pos. cbn [andb ncallpre].
  eapply impls_and_fail; [reflexivity|reflexivity|].
  eapply evals_node_fail; [lk|cbn; reflexivity|].
  eapply impls_wrap; [reflexivity|reflexivity|].
  eapply evals_node_fail; [lk|cbn; reflexivity|].
  eapply impls_and_fail; [reflexivity|reflexivity|].
  eapply evals_node_fail; [lk|cbn; reflexivity|].
  eapply impls_wrap; [reflexivity|reflexivity|].
  eapply evals_node_fail; [lk|cbn; reflexivity|].
  eapply impls_and_fail; [reflexivity|reflexivity|].
  eapply (evals_word_plain_fail G full pil_c WS pil_comment_ok 216 false true); [lk|exact Hx].
Qed.
Lemma ev_sense_fail_noname full x : nohead idch (spre x) -> evals G full 231 true (At x) PFail.
Proof.
  intros Hx.
  eapply evals_node_fail; [lk|apply (pre_premise G full pil_c WS pil_comment_ok); repeat split|].
  unfold pre_pos. cbn [andb ncallpre].
  eapply impls_wrap; [reflexivity|reflexivity|].
  eapply evals_node_fail; [lk|cbn; reflexivity|].
  eapply impls_and_fail; [reflexivity|reflexivity|].
  eapply (evals_word_plain_fail G full pil_c WS pil_comment_ok 233 false true); [lk|exact Hx].
Qed.

(* ---------------------------------------------------------------- patterns *)
Inductive item :=
| ISense (b : pstr) (n0 : chr) (ns : pstr) (caret star : bool)
| IPlus (b : pstr)
| ILoop (b : pstr) (n0 : chr) (ns : pstr) (caret star : bool) (inner : list item) (bc : pstr).

Fixpoint item_body (it : item) (r : pstr) : pstr :=
  match it with
  | ISense _ n0 ns c s => sense_text n0 ns c s ++ r
  | IPlus _ => PLUS :: r
  | ILoop _ n0 ns c s inner bc =>
      sense_text n0 ns c s ++ LPAR ::
      (fix go (l : list item) : pstr :=
         match l with
         | [] => bc ++ RPAR :: r
         | i :: l' => (match i with ISense b _ _ _ _ | IPlus b | ILoop b _ _ _ _ _ _ => b end) ++ item_body i (go l')
         end) inner
  end.
Definition item_b (it : item) : pstr :=
  match it with ISense b _ _ _ _ | IPlus b | ILoop b _ _ _ _ _ _ => b end.
Definition item_text (it : item) (r : pstr) : pstr := item_b it ++ item_body it r.
Definition items_text (l : list item) (r : pstr) : pstr := fold_right item_text r l.

Lemma item_body_loop b n0 ns c s inner bc r :
  item_body (ILoop b n0 ns c s inner bc) r = sense_text n0 ns c s ++ LPAR :: items_text inner (bc ++ RPAR :: r).
Proof.
  cbn [item_body]. apply f_equal. apply f_equal. induction inner as [|i l IH]; [reflexivity|].
  cbn [items_text fold_right]. unfold item_text at 1. unfold item_b. fold (items_text l (bc ++ RPAR :: r)).
  rewrite <- IH. reflexivity.
Qed.

Fixpoint item_toks (it : item) : list tok :=
  match it with
  | ISense _ n0 ns c s => [TStr (sense_text n0 ns c s)]
  | IPlus _ => [TStr [PLUS]]
  | ILoop _ n0 ns c s inner _ =>
      [TStr (sense_text n0 ns c s);
       TList ((fix go (l : list item) : list tok := match l with [] => [] | i :: l' => item_toks i ++ go l' end) inner)]
  end.
Definition items_toks (l : list item) : list tok := flat_map item_toks l.
Lemma item_toks_loop b n0 ns c s inner bc :
  item_toks (ILoop b n0 ns c s inner bc) = [TStr (sense_text n0 ns c s); TList (items_toks inner)].
Proof.
  cbn [item_toks]. apply f_equal. apply (f_equal (fun z => [TList z])).
  induction inner as [|i l IH]; [reflexivity|]. cbn [items_toks flat_map]. fold (items_toks l). rewrite <- IH. reflexivity.
Qed.

(* well-formedness relative to the text that follows *)
Fixpoint item_wf (it : item) (r : pstr) : Prop :=
  match it with
  | ISense b n0 ns c s => blanks WS b /\ memc n0 idch = true /\ all_in idch ns /\ sense_follow r
  | IPlus b => blanks WS b
  | ILoop b n0 ns c s inner bc =>
      blanks WS b /\ memc n0 idch = true /\ all_in idch ns /\ blanks WS bc /\
      (fix go (l : list item) : Prop :=
         match l with
         | [] => True
         | i :: l' => item_wf i (items_text l' (bc ++ RPAR :: r)) /\ go l'
         end) inner
  end.
Fixpoint items_wf (l : list item) (r : pstr) : Prop :=
  match l with
  | [] => True
  | i :: l' => item_wf i (items_text l' r) /\ items_wf l' r
  end.
Lemma item_wf_loop b n0 ns c s inner bc r :
  item_wf (ILoop b n0 ns c s inner bc) r <->
  blanks WS b /\ memc n0 idch = true /\ all_in idch ns /\ blanks WS bc /\ items_wf inner (bc ++ RPAR :: r).
Proof.
  cbn [item_wf]. assert (E : forall l, (fix go (l : list item) : Prop :=
         match l with [] => True | i :: l' => item_wf i (items_text l' (bc ++ RPAR :: r)) /\ go l' end) l
         <-> items_wf l (bc ++ RPAR :: r)).
  { induction l as [|i l IH]; [reflexivity|]. cbn [items_wf]. rewrite IH. reflexivity. }
  rewrite E. reflexivity.
Qed.
Lemma item_wf_blanks it r : item_wf it r -> blanks WS (item_b it).
Proof. destruct it; cbn; tauto. Qed.

Fixpoint item_size (it : item) : nat :=
  match it with
  | ILoop _ _ _ _ _ inner _ => S ((fix go (l : list item) : nat := match l with [] => 0 | i :: l' => item_size i + go l' end) inner)
  | _ => 1
  end.
Definition items_size (l : list item) : nat := fold_right (fun i n => item_size i + n) 0 l.
Lemma item_size_loop b n0 ns c s inner bc : item_size (ILoop b n0 ns c s inner bc) = S (items_size inner).
Proof.
  cbn [item_size]. apply f_equal. induction inner as [|i l IH]; [reflexivity|].
  cbn [items_size fold_right]. fold (items_size l). rewrite <- IH. reflexivity.
Qed.

(* every item body starts with a token character *)
Lemma item_body_head it r : item_wf it r -> exists d z, item_body it r = d :: z /\ stopc d = true.
Proof.
  destruct it as [b n0 ns c s|b|b n0 ns c s inner bc].
  - intros (_ & H0 & _). exists n0, (ns ++ opt_s c CARET ++ opt_s s STAR ++ r). split; [|apply idch_stop; exact H0].
    cbn [item_body]. unfold sense_text. norm_text. reflexivity.
  - intros _. exists PLUS, r. split; reflexivity.
  - intros H. apply item_wf_loop in H as (_ & H0 & _). rewrite item_body_loop.
    eexists n0, _. split; [|apply idch_stop; exact H0]. unfold sense_text. norm_text. reflexivity.
Qed.
Lemma spre_item_text it r : item_wf it r -> spre (item_text it r) = item_body it r.
Proof.
  intros H. destruct (item_body_head it r H) as (d & z & E & Hd). unfold item_text. rewrite E.
  apply spre_blanks_stop; [apply (item_wf_blanks it r H)|exact Hd].
Qed.

(* where a pattern stops: no name and no '+' (after blanks / a comment) *)
Definition pat_stop (r : pstr) : Prop := nohead (PLUS :: idch) (spre r).
Lemma pat_stop_elim r : pat_stop r -> nohead idch (spre r) /\ nohead [PLUS] (spre r).
Proof.
  unfold pat_stop. destruct (spre r) as [|d z]; [split; exact I|]. cbn.
  intros H. apply orb_false_iff in H as [H1 H2]. rewrite H1, H2. split; reflexivity.
Qed.

Lemma ev_item_stop full x : nohead idch (spre x) -> nohead [PLUS] (spre x) -> evals G full 210 true (At x) PFail.
Proof.
  intros H1 H2.
  eapply evals_node_fail; [lk|cbn; reflexivity|]. apply impls_first; [reflexivity|]. cbn [nkids].
  eapply firsts_miss; [apply ev_loop_fail_noname; exact H1|].
  eapply firsts_miss.
  { eapply evals_eq; [apply (evals_lit G full pil_c WS pil_comment_ok 230 true true); lk|].
    cbn [andb]. unfold lit_res. rw_alias (starts_with_nohead PLUS [] _ H2). reflexivity. }
  eapply firsts_miss; [apply ev_sense_fail_noname; exact H1|]. apply firsts_nil.
Qed.
(* OneOrMore [item] and the Forward above it fail there as well *)
Lemma ev_pattern_stop full cp x : nohead idch (spre x) -> nohead [PLUS] (spre x) -> evals G full 208 cp (At (if cp then x else spre x)) PFail.
Proof.
  intros H1 H2.
  eapply evals_node_fail; [lk|apply (pre_premise G full pil_c WS pil_comment_ok); repeat split|].
  unfold pre_pos. cbn [ncallpre]. rewrite andb_true_r.
  replace (if cp then spre (if cp then x else spre x) else if cp then x else spre x) with (spre x)
    by (destruct cp; [reflexivity|reflexivity]).
  eapply impls_wrap; [reflexivity|reflexivity|].
  eapply evals_node_fail; [lk|cbn; reflexivity|].
  eapply (impls_many_none G full _ true); [reflexivity|reflexivity|].
  apply ev_item_stop; rewrite spre_idem; assumption.
Qed.

(* the blank(s) between '(' and ')' of an empty loop: Suppress(White()) *)
Lemma ws_not_exotic : forallb (fun w => negb (memc w pil_cs5)) WS = true.
Proof. vm_compute. reflexivity. Qed.
Lemma ws_white : forallb (fun w => memc w pil_cs6) WS = true.
Proof. vm_compute. reflexivity. Qed.
Lemma blanks_white b : blanks WS b -> all_in pil_cs6 b.
Proof.
  unfold blanks, all_in. induction b as [|w b IH]; [reflexivity|]. cbn [forallb]. intros H. apply andb_prop in H as [Hw H].
  rewrite (memc_forallb WS (fun w => memc w pil_cs6) w ws_white Hw), (IH H). reflexivity.
Qed.
Lemma ev_white_close full bc rest : blanks WS bc ->
  evals G full 226 true (At (bc ++ RPAR :: rest))
    (match bc with [] => PFail | _ => POk (At (RPAR :: rest)) [] end).
Proof.
  intros Hb.
  assert (Hpre : pre_fn pil_c WS (mkNode KSuppress [227] true pil_cs5 [pil_c] true []) (bc ++ RPAR :: rest)
                 = Some (bc ++ RPAR :: rest)).
  { unfold pre_fn. cbn [nign nskip nws]. rewrite Nat.eqb_refl.
    rw_alias (std_skip_ign_stop WS bc RPAR rest Hb eq_refl eq_refl). f_equal.
    destruct bc as [|w bc]; [reflexivity|]. apply skip_ws_stop.
    unfold blanks in Hb. cbn in Hb. apply andb_prop in Hb as [Hw _].
    apply negb_true_iff. apply (memc_forallb WS (fun w => negb (memc w pil_cs5)) w ws_not_exotic Hw). }
  eapply evals_eq.
  - eapply evals_node; [lk|cbn; apply (pre_to_fn G full pil_c WS pil_comment_ok); exact Hpre|].
    eapply impls_wrap; [reflexivity|reflexivity|].
    eapply evals_node; [lk|cbn; reflexivity|]. apply impls_leaf. cbv [leaf_impl nkind]. reflexivity.
  - destruct bc as [|w bc].
    + reflexivity.
    + unfold blanks in Hb. cbn in Hb. apply andb_prop in Hb as [Hw Hb].
      cbn [app]. rw_alias (run_token_run pil_cs6 pil_cs6 false w bc (RPAR :: rest)
                 (memc_forallb WS (fun w => memc w pil_cs6) w ws_white Hw) (blanks_white bc Hb) eq_refl).
      reflexivity.
Qed.

(* ---------------------------------------------------------------- the induction *)
Definition item_parses (it : item) : Prop :=
  forall full rest x, item_wf it rest -> spre x = item_body it rest ->
    evals G full 210 true (At x) (POk (At rest) (item_toks it)).

Lemma loops_items_gen full l : (forall it, In it l -> item_parses it) ->
  forall r acc, items_wf l r -> pat_stop r ->
  loops G full [pil_c] 210 (At (items_text l r)) acc (POk (At r) (acc ++ items_toks l)).
Proof.
  induction l as [|i l IH]; intros Hall r acc Hwf Hstop.
  - cbn [items_text fold_right items_toks flat_map]. rewrite app_nil_r.
    apply pat_stop_elim in Hstop as (H1 & H2).
    eapply loops_stop; [apply (skips_std G full pil_c WS pil_comment_ok)|].
    apply ev_item_stop; rewrite spre_skip_ign; assumption.
  - destruct Hwf as (Hi & Hl). cbn [items_text fold_right items_toks flat_map].
    fold (items_text l r). fold (items_toks l).
    eapply loops_step; [apply (skips_std G full pil_c WS pil_comment_ok)| |].
    + apply (Hall i (or_introl eq_refl) full (items_text l r)); [exact Hi|].
      rewrite spre_skip_ign. apply spre_item_text. exact Hi.
    + rewrite app_assoc. apply IH; [intros it Hin; apply Hall; right; exact Hin|exact Hl|exact Hstop].
Qed.

Lemma spre_item_body it r : item_wf it r -> spre (item_body it r) = item_body it r.
Proof. intros H. destruct (item_body_head it r H) as (d & z & E & Hd). rewrite E. apply spre_stop. exact Hd. Qed.

(* OneOrMore [item] *)
Lemma ev_many_gen full cp i l r y :
  item_parses i -> (forall it, In it l -> item_parses it) -> items_wf (i :: l) r -> pat_stop r ->
  spre y = item_body i (items_text l r) ->
  evals G full 209 cp (At y) (POk (At r) (items_toks (i :: l))).
Proof.
  intros Hi Hall (Hwi & Hwl) Hstop Hy.
  eapply evals_eq.
  - eapply evals_node_ok; [lk|rewrite andb_false_r; reflexivity|].
    eapply impls_many; [reflexivity|reflexivity| |].
    + apply (Hi full (items_text l r) y Hwi Hy).
    + cbn [nign]. apply (loops_items_gen full l Hall r _ Hwl Hstop).
  - reflexivity.
Qed.
(* the Forward above it *)
Lemma ev_forward_gen full i l r :
  item_parses i -> (forall it, In it l -> item_parses it) -> items_wf (i :: l) r -> pat_stop r ->
  evals G full 208 true (At (items_text (i :: l) r)) (POk (At r) (items_toks (i :: l))).
Proof.
  intros Hi Hall Hwf Hstop. pose proof Hwf as (Hwi & _).
  eapply evals_eq.
  - eapply evals_node_ok; [lk|apply (pre_premise G full pil_c WS pil_comment_ok); repeat split|].
    unfold pre_pos. cbn [andb ncallpre items_text fold_right]. fold (items_text l r).
    rewrite (spre_item_text i _ Hwi).
    eapply impls_wrap; [reflexivity|reflexivity|].
    apply (ev_many_gen full false i l r _ Hi Hall Hwf Hstop). apply spre_item_body. exact Hwi.
  - reflexivity.
Qed.

Lemma in_items_size it l : In it l -> item_size it <= items_size l.
Proof.
  induction l as [|i l IH]; [intros []|]. cbn [items_size fold_right]. fold (items_size l).
  intros [-> | H]; [lia|]. specialize (IH H). lia.
Qed.

Theorem item_parses_all : forall n it, item_size it <= n -> item_parses it.
Proof.
  induction n as [|n IH]; intros it Hsz.
  { destruct it; cbn in Hsz; lia. }
  intros full rest x Hwf Hx.
  destruct it as [b n0 ns c s|b|b n0 ns c s inner bc].
  - (* a name *)
    destruct Hwf as (Hb & H0 & Hns & Hfol). cbn [item_body] in Hx. cbn [item_toks].
    eapply evals_eq.
    + eapply evals_node_ok; [lk|cbn; reflexivity|]. apply impls_first; [reflexivity|]. cbn [nkids].
      eapply firsts_miss; [apply (ev_loop_head_fail_sense full x n0 ns c s rest Hx H0 Hns Hfol)|].
      eapply firsts_miss.
      { eapply evals_eq; [apply (evals_lit G full pil_c WS pil_comment_ok 230 true true); lk|].
        cbn [andb]. rewrite Hx. unfold lit_res, sense_text. cbn [app starts_with].
        destruct (N.eqb_spec PLUS n0) as [e|]; [rewrite <- e in H0; discriminate|reflexivity]. }
      apply firsts_hit. apply (ev_sense full x n0 ns c s rest Hx H0 Hns Hfol).
    + reflexivity.
  - (* + *)
    cbn [item_body] in Hx. cbn [item_toks].
    eapply evals_eq.
    + eapply evals_node_ok; [lk|cbn; reflexivity|]. apply impls_first; [reflexivity|]. cbn [nkids].
      eapply firsts_miss; [apply ev_loop_fail_noname; rewrite Hx; reflexivity|].
      apply firsts_hit.
      eapply evals_eq; [apply (evals_lit G full pil_c WS pil_comment_ok 230 true true); lk|].
      cbn [andb]. rewrite Hx. unfold lit_res. cbn [starts_with]. rewrite N.eqb_refl. reflexivity.
    + reflexivity.
  - (* a loop *)
    apply item_wf_loop in Hwf as (Hb & H0 & Hns & Hbc & Hinner).
    rewrite item_body_loop in Hx. rewrite item_toks_loop.
    rewrite item_size_loop in Hsz.
    assert (Hall : forall it, In it inner -> item_parses it).
    { intros it Hin. apply IH. pose proof (in_items_size it inner Hin). lia. }
    set (Z := items_text inner (bc ++ RPAR :: rest)) in *.
    assert (Hstop : pat_stop (bc ++ RPAR :: rest)).
    { unfold pat_stop. rewrite spre_blanks_stop by (try exact Hbc; reflexivity). reflexivity. }
    (* Group [Opt [pattern | White]] *)
    assert (H223 : exists q, spre q = RPAR :: rest /\
              evals G full 223 true (At Z) (POk (At q) [TList (items_toks inner)])).
    { destruct inner as [|i l].
      - (* empty loop: `x()` or `x( )` *)
        unfold Z. cbn [items_text fold_right items_toks flat_map].
        assert (Hpat : evals G full 208 true (At (bc ++ RPAR :: rest)) PFail).
        { apply (ev_pattern_stop full true (bc ++ RPAR :: rest));
            rewrite spre_blanks_stop by (try exact Hbc; reflexivity); reflexivity. }
        pose proof (ev_white_close full bc rest Hbc) as Hwh.
        destruct bc as [|w bc'].
        + exists (RPAR :: rest). split; [apply spre_stop; reflexivity|]. cbn [app] in *.
          eapply evals_eq.
          * eapply evals_node_ok; [lk|cbn; reflexivity|].
            eapply impls_wrap; [reflexivity|reflexivity|].
            eapply evals_node_ok; [lk|cbn; reflexivity|].
            eapply impls_opt_none; [reflexivity|reflexivity|].
            eapply evals_node_fail; [lk|cbn; reflexivity|]. apply impls_first; [reflexivity|]. cbn [nkids].
            eapply firsts_miss; [exact Hpat|]. eapply firsts_miss; [exact Hwh|]. apply firsts_nil.
          * reflexivity.
        + exists (RPAR :: rest). split; [apply spre_stop; reflexivity|].
          eapply evals_eq.
          * eapply evals_node_ok; [lk|cbn; reflexivity|].
            eapply impls_wrap; [reflexivity|reflexivity|].
            eapply evals_node_ok; [lk|cbn; reflexivity|].
            eapply impls_opt_some; [reflexivity|reflexivity|].
            eapply evals_node_ok; [lk|cbn; reflexivity|]. apply impls_first; [reflexivity|]. cbn [nkids].
            eapply firsts_miss; [exact Hpat|]. apply firsts_hit. exact Hwh.
          * reflexivity.
      - exists (bc ++ RPAR :: rest). split; [apply spre_blanks_stop; [exact Hbc|reflexivity]|].
        eapply evals_eq.
        + eapply evals_node_ok; [lk|cbn; reflexivity|].
          eapply impls_wrap; [reflexivity|reflexivity|].
          eapply evals_node_ok; [lk|cbn; reflexivity|].
          eapply impls_opt_some; [reflexivity|reflexivity|].
          eapply evals_node_ok; [lk|cbn; reflexivity|]. apply impls_first; [reflexivity|]. cbn [nkids].
          apply firsts_hit.
          apply (ev_forward_gen full i l (bc ++ RPAR :: rest)).
          * apply Hall. left. reflexivity.
          * intros it Hin. apply Hall. right. exact Hin.
          * exact Hinner.
          * exact Hstop.
        + reflexivity. }
    destruct H223 as (q & Hq & H223).
    eapply evals_eq.
    + eapply evals_node_ok; [lk|cbn; reflexivity|]. apply impls_first; [reflexivity|]. cbn [nkids].
      apply firsts_hit.
      eapply evals_node_ok; [lk|apply (pre_premise G full pil_c WS pil_comment_ok); repeat split|].
      unfold pre_pos. cbn [andb ncallpre].
      eapply impls_and; [reflexivity|reflexivity| |].
      * apply (ev_loop_head full x n0 ns c s Z Hx H0 Hns).
      * eapply seqs_cons; [exact H223|]. eapply seqs_cons; [|apply seqs_nil].
        eapply evals_eq; [apply (evals_slit G full pil_c WS pil_comment_ok 228 229 true true true); lk|].
        cbn [andb]. rewrite Hq. unfold lit_res. cbn [starts_with]. rewrite N.eqb_refl. reflexivity.
    + reflexivity.
Qed.

Corollary item_parses_any it : item_parses it.
Proof. apply (item_parses_all (item_size it)). lia. Qed.

(* ---------------------------------------------------------------- the statement *)
Fixpoint is_prefix (p s : pstr) : bool :=
  match p with
  | [] => true
  | c :: p' => match s with d :: s' => N.eqb c d && is_prefix p' s' | [] => false end
  end.
Lemma starts_with_not_prefix kw name r :
  is_prefix kw name = false -> all_in idch kw -> nohead idch r -> starts_with kw (name ++ r) = None.
Proof.
  revert name. induction kw as [|c kw IH]; intros name Hp Hkw Hr; [discriminate|].
  unfold all_in in Hkw. cbn [forallb] in Hkw. apply andb_prop in Hkw as [Hc Hkw].
  destruct name as [|d name]; cbn [app starts_with].
  - destruct r as [|e r]; [reflexivity|]. unfold nohead in Hr.
    destruct (N.eqb_spec c e) as [->|]; [rewrite Hr in Hc; discriminate|reflexivity].
  - cbn [is_prefix] in Hp. destruct (N.eqb c d); [|reflexivity]. cbn in Hp. apply IH; assumption.
Qed.

(* the statement keywords that head an alternative before the kernel-complex one *)
Definition pil_keywords : list pstr :=
  [ [115; 101; 113; 117; 101; 110; 99; 101];                          (* sequence *)
    [108; 101; 110; 103; 116; 104];                                   (* length *)
    [100; 111; 109; 97; 105; 110];                                    (* domain *)
    [115; 117; 112; 45; 115; 101; 113; 117; 101; 110; 99; 101];       (* sup-sequence *)
    [115; 116; 114; 97; 110; 100];                                    (* strand *)
    [99; 111; 109; 112; 108; 101; 120];                               (* complex *)
    [115; 116; 114; 117; 99; 116; 117; 114; 101];                     (* structure *)
    [107; 105; 110; 101; 116; 105; 99];                               (* kinetic *)
    [114; 101; 97; 99; 116; 105; 111; 110] ]%N.                       (* reaction *)
Definition not_keyword_led (name : pstr) : Prop :=
  forallb (fun kw => negb (is_prefix kw name)) pil_keywords = true.
Lemma keywords_idch : forallb (fun kw => forallb (fun c => memc c idch) kw) pil_keywords = true.
Proof. vm_compute. reflexivity. Qed.

Definition tag_kc : pstr := [107; 101; 114; 110; 101; 108; 45; 99; 111; 109; 112; 108; 101; 120]%N.  (* kernel-complex *)

Record kc_stmt := mkKc { kc_n0 : chr; kc_ns : pstr; kc_b2 : pstr; kc_first : item; kc_more : list item }.
Definition kc_render (s : kc_stmt) : pstr :=
  (kc_n0 s :: kc_ns s) ++ kc_b2 s ++ 61%N :: items_text (kc_first s :: kc_more s) [].
Definition kc_tree (s : kc_stmt) : tok :=
  TList [TStr tag_kc; TStr (kc_n0 s :: kc_ns s); TList (items_toks (kc_first s :: kc_more s))].
(* guard: the name does not start with a statement keyword (`domain1 = 5` is a dl-domain) *)
Definition kc_stmt_ok (s : kc_stmt) (Ek : pstr) : Prop :=
  memc (kc_n0 s) idch = true /\ all_in idch (kc_ns s) /\ not_keyword_led (kc_n0 s :: kc_ns s) /\
  blanks WS (kc_b2 s) /\ items_wf (kc_first s :: kc_more s) Ek.

Lemma items_text_app_gen l : (forall it, In it l -> forall r k, item_body it r ++ k = item_body it (r ++ k)) ->
  forall r k, items_text l r ++ k = items_text l (r ++ k).
Proof.
  induction l as [|i l IH]; intros Hall r k; [reflexivity|].
  cbn [items_text fold_right]. fold (items_text l r). fold (items_text l (r ++ k)).
  unfold item_text. rewrite <- app_assoc. rewrite (Hall i (or_introl eq_refl)).
  rewrite IH; [reflexivity|]. intros it Hin. apply Hall. right. exact Hin.
Qed.
Lemma item_body_app_n : forall n it, item_size it <= n -> forall r k, item_body it r ++ k = item_body it (r ++ k).
Proof.
  induction n as [|n IH]; intros it Hsz r k; [destruct it; cbn in Hsz; lia|].
  destruct it as [b n0 ns c s|b|b n0 ns c s inner bc].
  - cbn [item_body]. rewrite <- app_assoc. reflexivity.
  - reflexivity.
  - rewrite !item_body_loop. rewrite item_size_loop in Hsz. rewrite <- app_assoc. cbn [app].
    rewrite items_text_app_gen.
    + rewrite <- app_assoc. reflexivity.
    + intros it Hin. apply IH. pose proof (in_items_size it inner Hin). lia.
Qed.
Lemma items_text_app l r k : items_text l r ++ k = items_text l (r ++ k).
Proof. apply items_text_app_gen. intros it _. apply (item_body_app_n (item_size it)). lia. Qed.

(* text of the statement up to and including the pattern, followed by T *)
Definition kc_text (s : kc_stmt) (T : pstr) : pstr :=
  kc_n0 s :: kc_ns s ++ kc_b2 s ++ 61%N :: items_text (kc_first s :: kc_more s) T.
Definition kc_head_toks (s : kc_stmt) : list tok :=
  [TStr (kc_n0 s :: kc_ns s); TList (items_toks (kc_first s :: kc_more s))].
Definition wrap_kc (res : pres) : pres :=
  match res with POk p t => POk p [TList (TStr tag_kc :: t)] | PFail => PFail | PFuel => PFuel end.

(* the ten keyword-led alternatives before the kernel-complex one fail *)
Lemma kernel_keyword_alts_fail s full b T rest res :
  blanks WS b -> kc_stmt_ok s T -> firsts G full (202 :: rest) (At (b ++ kc_text s T)) res ->
  firsts G full (9 :: 30 :: 41 :: 49 :: 57 :: 71 :: 84 :: 101 :: 115 :: 189 :: 202 :: rest) (At (b ++ kc_text s T)) res.
Proof.
  intros Hb (H0 & Hns & Hnk & Hb2 & Hwf) Hrest. unfold kc_text in *.
  remember (items_text (kc_first s :: kc_more s) T) as R eqn:ER.
  assert (Hx : spre (b ++ kc_n0 s :: kc_ns s ++ kc_b2 s ++ 61%N :: R) = (kc_n0 s :: kc_ns s) ++ kc_b2 s ++ 61%N :: R)
    by (apply spre_blanks_stop; [exact Hb|apply idch_stop; exact H0]).
  assert (Hfol : nohead idch (kc_b2 s ++ 61%N :: R))
    by (apply nohead_blanks; [vm_compute; reflexivity|exact Hb2|reflexivity]).
  assert (Hkw : forall kw, In kw pil_keywords ->
            starts_with kw (spre (b ++ kc_n0 s :: kc_ns s ++ kc_b2 s ++ 61%N :: R)) = None).
  { intros kw Hin. rewrite Hx. apply starts_with_not_prefix.
    - unfold not_keyword_led in Hnk. rewrite forallb_forall in Hnk. apply negb_true_iff. apply Hnk. exact Hin.
    - pose proof keywords_idch as Hi. rewrite forallb_forall in Hi. apply Hi. exact Hin.
    - exact Hfol. }
  eapply firsts_miss; [eapply (evals_kw_alt_fail G full pil_c WS pil_comment_ok 9 10 11 12); [lk|lk|lk|lk|apply Hkw; cbn; auto 12]|].
  eapply firsts_miss; [eapply (evals_kw_alt_fail G full pil_c WS pil_comment_ok 30 31 32 33); [lk|lk|lk|lk|apply Hkw; cbn; auto 12]|].
  eapply firsts_miss; [eapply (evals_kw_alt_fail G full pil_c WS pil_comment_ok 41 42 43 44); [lk|lk|lk|lk|apply Hkw; cbn; auto 12]|].
  eapply firsts_miss; [eapply (evals_kw_alt_fail G full pil_c WS pil_comment_ok 49 50 51 52); [lk|lk|lk|lk|apply Hkw; cbn; auto 12]|].
  eapply firsts_miss; [eapply (evals_kw_alt_fail G full pil_c WS pil_comment_ok 57 58 59 60); [lk|lk|lk|lk|apply Hkw; cbn; auto 12]|].
  eapply firsts_miss; [eapply (evals_kw_alt_fail G full pil_c WS pil_comment_ok 71 72 73 74); [lk|lk|lk|lk|apply Hkw; cbn; auto 12]|].
  eapply firsts_miss; [eapply (evals_kw_alt_fail G full pil_c WS pil_comment_ok 84 85 86 87); [lk|lk|lk|lk|apply Hkw; cbn; auto 12]|].
  eapply firsts_miss; [eapply (evals_kw_alt_fail G full pil_c WS pil_comment_ok 101 102 103 104); [lk|lk|lk|lk|apply Hkw; cbn; auto 12]|].
  eapply firsts_miss; [eapply (evals_kw_alt_fail G full pil_c WS pil_comment_ok 115 116 117 118); [lk|lk|lk|lk|apply Hkw; cbn; auto 12]|].
  eapply firsts_miss; [eapply (evals_kw_alt_fail G full pil_c WS pil_comment_ok 189 190 191 192); [lk|lk|lk|lk|apply Hkw; cbn; auto 12]|].
  exact Hrest.
Qed.

(* the kernel-complex alternative: name, '=', the pattern up to T (where no pattern item can start), then whatever
   the optional concentration and the line end do at T *)
Lemma kernel_alt_202 s full b T res :
  blanks WS b -> kc_stmt_ok s T -> nohead idch (spre T) -> nohead [PLUS] (spre T) ->
  seqs G full [238; 260] (At T) (kc_head_toks s) res ->
  evals G full 202 true (At (b ++ kc_text s T)) (wrap_kc res).
Proof.
  intros Hb (H0 & Hns & Hnk & Hb2 & Hwf) He1 He2 Htail. unfold kc_text.
  remember (items_text (kc_first s :: kc_more s) T) as R eqn:ER.
  assert (Hx : spre (b ++ kc_n0 s :: kc_ns s ++ kc_b2 s ++ 61%N :: R) = (kc_n0 s :: kc_ns s) ++ kc_b2 s ++ 61%N :: R)
    by (apply spre_blanks_stop; [exact Hb|apply idch_stop; exact H0]).
  assert (Hfol : nohead idch (kc_b2 s ++ 61%N :: R))
    by (apply nohead_blanks; [vm_compute; reflexivity|exact Hb2|reflexivity]).
  pose proof Hwf as (Hwi & Hwl).
  eapply evals_eq.
  - eapply evals_node; [lk|apply (pre_premise G full pil_c WS pil_comment_ok); repeat split|].
    unfold pre_pos. cbn [andb ncallpre]. rewrite Hx.
    eapply impls_wrap; [reflexivity|reflexivity|].
    eapply evals_node; [lk|cbn; reflexivity|].
    eapply impls_and; [reflexivity|reflexivity| |].
    + apply (ev_ident full false _ (kc_n0 s) (kc_ns s) _ eq_refl H0 Hns Hfol).
    + eapply seqs_cons.
      { eapply evals_eq; [apply (evals_slit G full pil_c WS pil_comment_ok 204 205 true true true); lk|].
        cbn [andb]. rewrite spre_blanks_stop by (try exact Hb2; reflexivity).
        unfold lit_res. cbn [starts_with]. rewrite N.eqb_refl. reflexivity. }
      eapply seqs_cons; [|exact Htail].
      (* OneOrMore [Group [pattern]] : exactly one group *)
      eapply evals_eq.
      * eapply evals_node_ok; [lk|apply (pre_premise G full pil_c WS pil_comment_ok); repeat split|].
        unfold pre_pos. cbn [andb ncallpre].
        eapply impls_many; [reflexivity|reflexivity| |].
        -- eapply evals_node_ok; [lk|apply (pre_premise G full pil_c WS pil_comment_ok); repeat split|].
           unfold pre_pos. cbn [andb ncallpre]. rewrite spre_idem.
           eapply impls_wrap; [reflexivity|reflexivity|].
           eapply evals_node_ok; [lk|cbn; reflexivity|].
           eapply impls_wrap; [reflexivity|reflexivity|].
           apply (ev_many_gen full false (kc_first s) (kc_more s) T (spre R)).
           ++ apply item_parses_any.
           ++ intros it _. apply item_parses_any.
           ++ exact Hwf.
           ++ unfold pat_stop. destruct (spre T) as [|d z]; [exact I|]. cbn in *. rewrite He1, He2. reflexivity.
           ++ rewrite spre_idem. rewrite ER. cbn [items_text fold_right]. apply spre_item_text. exact Hwi.
        -- cbn [nign]. eapply loops_stop; [apply (skips_std G full pil_c WS pil_comment_ok)|].
           eapply evals_node_fail; [lk|apply (pre_premise G full pil_c WS pil_comment_ok); repeat split|].
           unfold pre_pos. cbn [andb ncallpre]. rewrite spre_skip_ign.
           eapply impls_wrap; [reflexivity|reflexivity|].
           apply (ev_pattern_stop full false T He1 He2).
      * reflexivity.
  - unfold wrap_kc, kc_head_toks. destruct res; reflexivity.
Qed.

(* no concentration: Opt [conc | conc] yields nothing where no '@' follows *)
Lemma ev_noconc full T : nohead [64%N] (spre T) -> evals G full 238 true (At T) (POk (At T) []).
Proof.
  intros He3. eapply evals_eq.
  - eapply evals_node_ok; [lk|rewrite andb_false_r; reflexivity|].
    eapply impls_opt_none; [reflexivity|reflexivity|].
    eapply evals_node_fail; [lk|cbn; reflexivity|]. apply impls_first; [reflexivity|]. cbn [nkids].
    eapply firsts_miss.
    { eapply (evals_kw_alt_fail G full pil_c WS pil_comment_ok 240 241 242 243); [lk|lk|lk|lk|].
      rw_alias (starts_with_nohead 64%N [] _ He3). reflexivity. }
    eapply firsts_miss; [|apply firsts_nil].
    eapply (evals_kw_alt_fail G full pil_c WS pil_comment_ok 253 254 255 256); [lk|lk|lk|lk|].
    rw_alias (starts_with_nohead 64%N [] _ He3). reflexivity.
  - reflexivity.
Qed.

Theorem roundtrip_kernel_complex s :
  forall full b E k, blanks WS b -> stmt_end E k -> kc_stmt_ok s (E ++ k) ->
  evals G full 8 true (At (b ++ kc_render s ++ E ++ k)) (POk (after WS k) [kc_tree s]).
Proof.
  intros full b E k Hb Hk Hs.
  assert (ET : b ++ kc_render s ++ E ++ k = b ++ kc_text s (E ++ k)).
  { unfold kc_render, kc_text. norm_text. rewrite items_text_app. reflexivity. }
  rewrite ET.
  assert (Hend : nohead idch (spre (E ++ k)) /\ nohead [PLUS] (spre (E ++ k)) /\ nohead [64%N] (spre (E ++ k))).
  { repeat split; apply end_nohead_spre; try exact Hk; reflexivity. }
  destruct Hend as (He1 & He2 & He3).
  eapply evals_eq.
  - eapply evals_node_ok; [lk|cbn; reflexivity|]. apply impls_first; [reflexivity|]. cbn [nkids].
    apply (kernel_keyword_alts_fail s full b (E ++ k) _ _ Hb Hs).
    apply firsts_hit.
    eapply evals_eq.
    + apply (kernel_alt_202 s full b (E ++ k) (POk (after WS k) (kc_head_toks s)) Hb Hs He1 He2).
      eapply seqs_cons; [apply (ev_noconc full _ He3)|].
      eapply seqs_cons; [|rewrite !app_nil_r; apply seqs_nil].
      apply (ev_end full 260 261 262 true); try lk; try (eexists; lk). exact Hk.
    + reflexivity.
  - unfold kc_tree. reflexivity.
Qed.

Theorem roundtrip_kernel_complex_parse s b E :
  blanks WS b -> stmt_end E [] -> kc_stmt_ok s E -> no_tab (b ++ kc_render s ++ E) ->
  exists f0, forall f, f0 <= f -> parse_pil_fuel f (b ++ kc_render s ++ E) = vals [kc_tree s].
Proof.
  intros Hb HE Hs Hnt.
  pose proof (pil_document_items_evals [] [mkItem b (kc_render s ++ E) [kc_tree s]] []) as H. cbn in H.
  rewrite !app_nil_r in H.
  assert (Hits : pil_items_ok [mkItem b (kc_render s ++ E) [kc_tree s]] []).
  { cbn. split; [split; [exact Hb|]|split; [|exact I]].
    - unfold kc_render. cbn. destruct Hs as (H0 & _). apply idch_stop in H0. apply stopc_elim in H0. exact H0.
    - intros full b' Hb'. cbn. rewrite <- app_assoc.
      apply roundtrip_kernel_complex; [exact Hb'|exact HE|rewrite app_nil_r; exact Hs]. }
  specialize (H (Forall_nil _) Hits ltac:(discriminate) eq_refl).
  destruct (evals_parse_fuel pil_grammar _ _ Hnt H) as [f0 Hf]. exists f0. intros f Hle.
  unfold parse_pil_fuel. rewrite (Hf f Hle). unfold vals. cbn. rewrite ?app_nil_r. reflexivity.
Qed.

(* non-vacuity: `C = a( b + c( ) ) d^*` + newline *)
Example kc_example :
  let inner := [ISense [32%N] 98%N [] false false; IPlus [32%N];
                ILoop [32%N] 99%N [] false false [] [32%N]] in
  let s := mkKc 67%N [] [32%N] (ILoop [32%N] 97%N [] false false inner [32%N]) [ISense [32%N] 100%N [] true true] in
  kc_stmt_ok s [NL] /\ parse_pil (kc_render s ++ [NL]) = vals [kc_tree s].
Proof.
  cbn zeta. split; [|vm_compute; reflexivity].
  unfold kc_stmt_ok. cbn [kc_n0 kc_ns kc_b2 kc_first kc_more]. repeat split; try reflexivity.
Qed.
