(* C01: singleton identity — consequences of the invariant for the user-visible
   guarantees (uniqueness, agreement of the two keys, refused requests). *)
From Coq Require Import List NArith ZArith Bool Arith Lia.
From DSD Require Import Base.Str Base.Errors Model.ComplexUtils Model.RegStr Model.Heap Model.Registry
  Proofs.RegHeap Proofs.RegInv Proofs.RegCalls Proofs.RegExt Proofs.RegC04 Proofs.RegStep.
Import ListNotations.

(* (d) one live object per name and per canonical form, per class *)
Theorem one_per_name ct st i j oi oj :
  Inv ct st -> live_obj (heap st) i oi -> live_obj (heap st) j oj ->
  o_cls oi = o_cls oj -> o_name oi = o_name oj -> i = j.
Proof. intros I Hi Hj Ec En. apply (uniq_name ct st i j oi oj I Hi Hj Ec En). Qed.

Theorem one_per_canon ct st i j oi oj :
  Inv ct st -> live_obj (heap st) i oi -> live_obj (heap st) j oj ->
  o_cls oi = o_cls oj -> o_key oi = o_key oj -> i = j.
Proof.
  intros [R _] Hi Hj Ec Ek.
  destruct (ok_obj _ _ R i oi Hi) as [_ [[_ N1] _]]. destruct (ok_obj _ _ R j oj Hj) as [_ [[_ N2] _]].
  rewrite Ec, Ek in N1. congruence.
Qed.

(* (b),(c) both keys of a live object lead to it *)
Theorem both_keys_lead_to_it ct st i o :
  Inv ct st -> live_obj (heap st) i o ->
  nlookup (o_name o) (cs_names (cget st (o_cls o))) = Some i /\
  klookup (o_key o) (cs_canon (cget st (o_cls o))) = Some i.
Proof. intros I H. destruct (live_registered ct st i o I H) as [H1 [H2 _]]. auto. Qed.

(* (a) what a registry holds is a live object of exactly that class, under its own name /
   under one of the keys registered for it at creation; no key is bound twice *)
Theorem registry_entries ct st c :
  Inv ct st -> c < length ct ->
  (forall n i, nlookup n (cs_names (cget st c)) = Some i ->
      exists o, live_obj (heap st) i o /\ o_cls o = c /\ o_name o = n) /\
  (forall k i, klookup k (cs_canon (cget st c)) = Some i ->
      exists o, live_obj (heap st) i o /\ o_cls o = c /\ In k (o_keys o)) /\
  NoDup (map fst (cs_names (cget st c))) /\ NoDup (map fst (cs_canon (cget st c))).
Proof.
  intros [R _] Hc. pose proof (ok_cls _ _ R c Hc) as K. repeat split.
  - intros n i E. apply (alookup_in str_eqb str_eqb_iff) in E. apply (ok_nv _ _ _ K n i E).
  - intros k i E. apply (alookup_in key_eqb key_eqb_iff) in E. apply (ok_cv _ _ _ K k i E).
  - apply (ok_nn _ _ _ K).
  - apply (ok_cn _ _ _ K).
Qed.

(* ---- the three-way analysis of Singleton.__call__ ---- *)
Theorem lookup_consistent cs name k o :
  nonempty name = true -> nlookup name (cs_names cs) = Some o -> klookup k (cs_canon cs) = Some o ->
  sing_lookup cs name (Some k) = LFound o.
Proof. intros Hn H1 H2. unfold sing_lookup. rewrite Hn, H1, H2, Nat.eqb_refl. reflexivity. Qed.

Theorem lookup_conflict cs name k e :
  sing_lookup cs name (Some k) = LRaise e ->
  (forall x, e = Some x -> klookup k (cs_canon cs) = Some x /\ nlookup name (cs_names cs) = None) /\
  (nonempty name = true ->
   match nlookup name (cs_names cs), klookup k (cs_canon cs) with
   | Some a, Some b => a <> b
   | None, None => False
   | _, _ => True
   end).
Proof.
  unfold sing_lookup. destruct (nonempty name).
  - destruct (nlookup name (cs_names cs)) as [a|]; destruct (klookup k (cs_canon cs)) as [b|]; try discriminate.
    + destruct (Nat.eqb a b) eqn:E; [discriminate|]. intros H. injection H as <-. split; [intros; discriminate|].
      intros _. apply Nat.eqb_neq. exact E.
    + intros H. injection H as <-. split; [intros; discriminate | auto].
    + intros H. injection H as <-. split; [|auto]. intros x E. injection E as <-. auto.
  - destruct (klookup k (cs_canon cs)); [discriminate|]. intros H. injection H as <-.
    split; [intros; discriminate | intros; discriminate].
Qed.

Theorem lookup_name_only cs name :
  nonempty name = true ->
  sing_lookup cs name None = match nlookup name (cs_names cs) with Some o => LFound o | None => LRaise None end.
Proof. intros Hn. unfold sing_lookup. rewrite Hn. reflexivity. Qed.

(* ---- `existing` is the owner of the requested canonical form ---- *)
Lemma tail_existing ct st c nm k auto extra children d kd x :
  snd (match sing_lookup (cget st c) nm (Some k) with
       | LFound o => (st, CRet o false)
       | LRaise e => (st, CErr eSingleton e)
       | LFresh => create ct st c auto nm k extra children d
       end) = CErr kd (Some x) ->
  klookup k (cs_canon (cget st c)) = Some x /\ nlookup nm (cs_names (cget st c)) = None.
Proof.
  destruct (sing_lookup (cget st c) nm (Some k)) as [o| |e] eqn:E; cbn [snd]; try discriminate.
  - unfold create. destruct (nth_error ct c) as [ci|]; [|discriminate].
    destruct (c_fail ci); unfold alloc; cbn [snd]; discriminate.
  - intros H. injection H as _ ->. apply (proj1 (lookup_conflict _ _ _ _ E) x eq_refl).
Qed.

Lemma tail_only_existing st c nm canon kd x :
  snd (match sing_lookup (cget st c) nm canon with
       | LFound o => (st, CRet o false)
       | LRaise e => (st, CErr eSingleton e)
       | LFresh => (st, CErr eBadRequest None)
       end) = CErr kd (Some x) ->
  exists k, canon = Some k /\ klookup k (cs_canon (cget st c)) = Some x.
Proof.
  destruct (sing_lookup (cget st c) nm canon) as [o| |e] eqn:E; cbn [snd]; try discriminate.
  intros H. injection H as _ ->. destruct canon as [k|].
  - exists k. split; [reflexivity|]. apply (proj1 (lookup_conflict _ _ _ _ E) x eq_refl).
  - unfold sing_lookup in E. destruct (nonempty nm); [destruct (nlookup nm _)|]; discriminate.
Qed.

Definition Owner (st : state) (c : nat) (x : nat) : Prop :=
  exists k, klookup k (cs_canon (cget st c)) = Some x.

Theorem cplx_existing ct c st seq sst name prefix kd x :
  snd (cplx_call ct c st seq sst name prefix) = CErr kd (Some x) -> Owner st c x.
Proof.
  unfold cplx_call. destruct (nth_error ct c); [|discriminate]. destruct seq as [es|].
  - destruct (resolve_name _ _ _ _ _ _); [|discriminate]. destruct sst; [|discriminate].
    destruct (negb _); [discriminate|]. destruct (Nat.eqb _ 0); [discriminate|].
    destruct (rot_loop _ _ _ _ _ _) as [[ex cdict]|]; [|discriminate].
    match goal with |- snd (match ?y with _ => _ end) = _ -> _ => destruct y as [[cn e]|] end; [|discriminate].
    intros H. apply tail_existing in H. exists (KCplx cn). tauto.
  - destruct name; [|discriminate]. intros H. apply tail_only_existing in H. destruct H as [k [E _]]. discriminate.
Qed.

Theorem strand_existing ct c st seq name prefix kd x :
  snd (strand_call ct c st seq name prefix) = CErr kd (Some x) -> Owner st c x.
Proof.
  unfold strand_call. destruct (nth_error ct c); [|discriminate]. destruct seq as [es|].
  - destruct (existsb _ _); [discriminate|]. destruct (resolve_name _ _ _ _ _ _); [|discriminate].
    intros H. apply tail_existing in H. eexists. apply H.
  - destruct name; [|discriminate]. intros H. apply tail_only_existing in H. destruct H as [k [E _]]. discriminate.
Qed.

Theorem macro_existing ct c st members name kd x :
  snd (macro_call ct c st members name) = CErr kd (Some x) -> Owner st c x.
Proof.
  unfold macro_call. destruct members as [ms|].
  - destruct (omap' _ ms); [|discriminate].
    match goal with |- snd (match ?y with _ => _ end) = _ -> _ => destruct y as [nm|] end; [|discriminate].
    destruct (find _ ms).
    + intros H. apply tail_existing in H. eexists. apply H.
    + intros H. apply tail_only_existing in H. destruct H as [k [_ E]]. exists k. exact E.
  - destruct name; [|discriminate]. intros H. apply tail_only_existing in H. destruct H as [k [E _]]. discriminate.
Qed.

Theorem reaction_existing ct c st rp rtype name kd x :
  snd (reaction_call ct c st rp rtype name) = CErr kd (Some x) -> Owner st c x.
Proof.
  unfold reaction_call. destruct rp as [[rs ps]|].
  - destruct (omap' _ rs); [|discriminate]. destruct (omap' _ ps); [|discriminate].
    match goal with |- snd (if ?b then _ else _) = _ -> _ => destruct b end; [discriminate|].
    intros H. apply tail_existing in H. eexists. apply H.
  - destruct name; [|discriminate]. destruct rtype; [discriminate|].
    intros H. apply tail_only_existing in H. destruct H as [k [E _]]. discriminate.
Qed.

Theorem dom_existing fuel ct c st name len prefix dtype kd x :
  Inv ct st -> Collected st ->
  snd (dom_call fuel ct c st name len prefix dtype) = CErr kd (Some x) -> Owner st c x.
Proof.
  intros I C. destruct fuel as [|f]; [discriminate|]. cbn [dom_call]. unfold dom_body.
  destruct (nth_error ct c); [|discriminate]. destruct (resolve_name _ _ _ _ _ _) as [nm|]; [|discriminate].
  destruct (dom_len1 _ _ _) as [len1|]; [|discriminate]. destruct (negb _); [discriminate|].
  set (rec := fun st' n l => dom_call f ct c st' (Some n) l None None).
  assert (HR : RecOK ct rec) by (intros st' n l I'; apply callok_dom_call; exact I').
  assert (HE : RecExt ct rec) by (intros st' n l I' C'; apply ext_dom_call; assumption).
  pose proof (dom_nested_ext ct rec st nm len1 HR HE I C) as [_ J].
  destruct (dom_nested rec st nm len1) as [st1 rl]. cbn [fst snd] in J.
  destruct rl as [len2|]; [|discriminate]. destruct (J len2 eq_refl) as [_ J1].
  unfold dom_finish. intros H.
  assert (O : Owner st1 c x).
  { destruct len2 as [l|]; cbn [option_map] in H.
    - apply tail_existing in H. eexists. apply H.
    - apply tail_only_existing in H. destruct H as [k [E _]]. discriminate. }
  destruct O as [k Ek]. exists k. rewrite <- (proj2 (jk_regs _ _ J1 c)). exact Ek.
Qed.

(* at the level of steps: `existing` is a live object, it owns a key of the class addressed, and the
   refused request left every live object, both registries and the slots as they were *)
Theorem step_conflict ct st o st' k e :
  Inv ct st -> Collected st -> step ct st o = (st', Raised k e) ->
  Junk st st' /\
  (forall x, e = Some x -> is_live (heap st') x = true /\ exists c, Owner st c x).
Proof.
  intros I C E. pose proof (step_raised_junk ct st o st' k e I C E) as J. split; [exact J|].
  intros x ->.
  assert (O : exists c, Owner st c x).
  { revert E. destruct o; cbn [step].
    - destruct (kind_is ct cls KindD); [|discriminate]. unfold finish.
      destruct (snd (dom_call dom_fuel ct cls st name len prefix dtype)) as [id b|k' e'] eqn:Es; [destruct b; discriminate|].
      intros H. injection H as _ _ ->. exists cls. eapply dom_existing; eauto.
    - destruct (kind_is ct cls KindC); [|discriminate]. destruct (resolve_elems st seq) as [es|]; [|discriminate].
      unfold finish. destruct (snd (cplx_call ct cls st es sst name prefix)) as [id b|k' e'] eqn:Es; [destruct b; discriminate|].
      intros H. injection H as _ _ ->. exists cls. eapply cplx_existing; eauto.
    - destruct (kind_is ct cls KindS); [|discriminate]. destruct (resolve_elems st seq) as [es|]; [|discriminate].
      unfold finish. destruct (snd (strand_call ct cls st es name prefix)) as [id b|k' e'] eqn:Es; [destruct b; discriminate|].
      intros H. injection H as _ _ ->. exists cls. eapply strand_existing; eauto.
    - destruct (kind_is ct cls KindM); [|discriminate].
      destruct members as [l|]; [destruct (resolve_slots st l) as [ids|]; [|discriminate]|]; unfold finish.
      + destruct (snd (macro_call ct cls st (Some ids) name)) as [id b|k' e'] eqn:Es; [destruct b; discriminate|].
        intros H. injection H as _ _ ->. exists cls. eapply macro_existing; eauto.
      + destruct (snd (macro_call ct cls st None name)) as [id b|k' e'] eqn:Es; [destruct b; discriminate|].
        intros H. injection H as _ _ ->. exists cls. eapply macro_existing; eauto.
    - destruct (kind_is ct cls KindR); [|discriminate]. destruct rp as [[r p]|].
      + destruct (resolve_slots st r) as [r'|]; [|discriminate]. destruct (resolve_slots st p) as [p'|]; [|discriminate].
        unfold finish. destruct (snd (reaction_call ct cls st (Some (r', p')) rtype name)) as [id b|k' e'] eqn:Es; [destruct b; discriminate|].
        intros H. injection H as _ _ ->. exists cls. eapply reaction_existing; eauto.
      + unfold finish. destruct (snd (reaction_call ct cls st None rtype name)) as [id b|k' e'] eqn:Es; [destruct b; discriminate|].
        intros H. injection H as _ _ ->. exists cls. eapply reaction_existing; eauto.
    - destruct (get_root st src) as [i|]; [|discriminate].
      destruct (hget (heap st) i) as [ob|] eqn:Eo; [|discriminate].
      destruct (o_data ob) eqn:Ed; try discriminate. unfold finish, dom_complement. rewrite Eo, Ed.
      match goal with |- context [snd ?call] => destruct (snd call) as [id b|k' e'] eqn:Es end; [destruct b; discriminate|].
      intros H. injection H as _ _ ->. exists (o_cls ob). eapply dom_existing; eauto.
    - discriminate.
    - destruct (get_root st slot) as [i|]; [|discriminate]. destruct (hget (heap st) i) as [ob|]; [|discriminate].
      destruct (query_obj ct (heap st) ob q); discriminate.
    - destruct (get_root st slot) as [i|]; [|discriminate]. destruct (hget (heap st) i) as [ob|]; [|discriminate].
      destruct (o_data ob); try discriminate; destruct (set_turns st i v) as [s [u|k']]; discriminate. }
  split; [|exact O]. destruct O as [c [key Ek]].
  assert (Hc : c < length ct).
  { destruct (Nat.lt_ge_cases c (length ct)) as [Hc|Hc]; [exact Hc|]. exfalso.
    unfold cget in Ek. rewrite nth_overflow in Ek by (rewrite (ok_len _ _ (proj1 I)); exact Hc). discriminate. }
  destruct (proj1 (proj2 (registry_entries ct st c I Hc)) key x Ek) as [ox [Hx _]].
  apply (livesub_junk_rev _ _ J) in Hx. eapply live_obj_is_live; eauto.
Qed.
