(* C13: round trip of the strand-notation complex, both forms
     structure NAME (=|:) (DOMAIN | +)+ (=|:) DOTBRACKET
     complex NAME (=|:) [newline] DOMAIN+ [newline] DOTBRACKET
   for all names, domain lists, dot-bracket strings (with their blanks) and layouts.
   The dot-bracket token is the maximal run over `( ) . +` and the space that starts
   at the first non-blank: it contains the blanks that the text has inside and after it. *)
From Coq Require Import List NArith Bool Arith Lia.
From DSD Require Import Base.Str Base.Val Model.Peg Model.DispatchPeg Proofs.PegMono Proofs.PegRules Proofs.PegStd
  Proofs.PegDoc Proofs.PegKw Proofs.C13Doc Proofs.PilLex Proofs.C13Ms Proofs.C13Cd.
From DSDGen Require Import PilGrammar.
Import ListNotations.

Ltac rw_alias E := let H := fresh "Ea" in pose proof E as H; unfold chr, pstr in *; rewrite H; clear H.

Definition dbch : list chr := pil_cs4.      (* ( ) . + and the space *)
Definition tag_sc : pstr := [115; 116; 114; 97; 110; 100; 45; 99; 111; 109; 112; 108; 101; 120]%N.   (* strand-complex *)

(* the dot-bracket: first character not a blank, then any run; what follows is not in the class *)
Record dotb := mkDotb { db_d0 : chr; db_run : pstr }.
Definition dotb_ok (d : dotb) : Prop := memc (db_d0 d) dbch = true /\ stopc (db_d0 d) = true /\ all_in dbch (db_run d).
Definition dotb_text (d : dotb) : pstr := db_d0 d :: db_run d.

Lemma ev_dotbracket full (x : pstr) d r :
  spre x = dotb_text d ++ r -> dotb_ok d -> nohead dbch r ->
  evals G full 97 true (At x) (POk (At r) [TStr (dotb_text d)]).
Proof.
  intros Hx (H0 & _ & Hrun) Hr.
  eapply (evals_word G full pil_c WS pil_comment_ok 97 true true); [lk| |exact H0|exact Hrun|exact Hr].
  cbn [andb]. exact Hx.
Qed.

(* ---------------------------------------------------------------- structure *)
Inductive sitem := SDom (b : pstr) (n0 : chr) (ns : pstr) (star : bool) | SPlus (b : pstr).
Definition sitem_text (i : sitem) (r : pstr) : pstr :=
  match i with
  | SDom b n0 ns star => b ++ n0 :: ns ++ star_s star ++ r
  | SPlus b => b ++ 43%N :: r
  end.
Definition sitems_text (l : list sitem) (r : pstr) : pstr := fold_right sitem_text r l.
Definition sitem_toks (i : sitem) : list tok :=
  match i with SDom _ n0 ns star => [TStr (n0 :: ns ++ star_s star)] | SPlus _ => [] end.
Definition sitem_wf (i : sitem) (r : pstr) : Prop :=
  match i with
  | SDom b n0 ns star => blanks WS b /\ memc n0 idch = true /\ all_in idch ns /\ dom_follow r
  | SPlus b => blanks WS b
  end.
Fixpoint sitems_wf (l : list sitem) (r : pstr) : Prop :=
  match l with [] => True | i :: l' => sitem_wf i (sitems_text l' r) /\ sitems_wf l' r end.

(* one item: domain | Suppress '+', node 108 *)
Lemma ev_sitem full x i r :
  sitem_wf i r -> spre x = spre (sitem_text i r) -> evals G full 108 true (At x) (POk (At r) (sitem_toks i)).
Proof.
  intros Hwf Hx. destruct i as [b n0 ns star|b]; cbn [sitem_text sitem_wf sitem_toks] in *.
  - destruct Hwf as (Hb & H0 & Hns & Hfol).
    eapply evals_eq.
    + eapply evals_node_ok; [lk|cbn; reflexivity|]. apply impls_first; [reflexivity|]. cbn [nkids].
      apply firsts_hit.
      eapply (ev_domain full true x n0 ns star r); [|exact H0|exact Hns|intros _; exact Hfol].
      rewrite Hx. apply spre_blanks_stop; [exact Hb|apply idch_stop; exact H0].
    + reflexivity.
  - eapply evals_eq.
    + eapply evals_node_ok; [lk|cbn; reflexivity|]. apply impls_first; [reflexivity|]. cbn [nkids].
      eapply firsts_miss.
      { apply ev_domain_fail. rewrite Hx, spre_blanks_stop by (try exact Hwf; reflexivity). reflexivity. }
      apply firsts_hit.
      eapply evals_eq; [apply (evals_slit G full pil_c WS pil_comment_ok 109 110 true true true); lk|].
      cbn [andb]. rewrite Hx, spre_blanks_stop by (try exact Hwf; reflexivity).
      unfold lit_res. cbn [starts_with]. rewrite N.eqb_refl. reflexivity.
    + reflexivity.
Qed.
Lemma ev_sitem_stop full x : nohead idch (spre x) -> nohead [43%N] (spre x) -> evals G full 108 true (At x) PFail.
Proof.
  intros H1 H2.
  eapply evals_node_fail; [lk|cbn; reflexivity|]. apply impls_first; [reflexivity|]. cbn [nkids].
  eapply firsts_miss; [apply ev_domain_fail; exact H1|].
  eapply firsts_miss; [|apply firsts_nil].
  eapply evals_eq; [apply (evals_slit G full pil_c WS pil_comment_ok 109 110 true true true); lk|].
  cbn [andb]. unfold lit_res. rw_alias (starts_with_nohead 43%N [] _ H2). reflexivity.
Qed.

Lemma loops_sitems full l : forall r acc, sitems_wf l r -> nohead idch (spre r) -> nohead [43%N] (spre r) ->
  loops G full [pil_c] 108 (At (sitems_text l r)) acc (POk (At r) (acc ++ flat_map sitem_toks l)).
Proof.
  induction l as [|i l IH]; intros r acc Hwf H1 H2.
  - cbn [sitems_text fold_right flat_map]. rewrite app_nil_r.
    eapply loops_stop; [apply (skips_std G full pil_c WS pil_comment_ok)|].
    apply ev_sitem_stop; rewrite spre_skip_ign; assumption.
  - destruct Hwf as (Hi & Hl). cbn [sitems_text fold_right flat_map]. fold (sitems_text l r).
    eapply loops_step; [apply (skips_std G full pil_c WS pil_comment_ok)| |].
    + apply (ev_sitem full _ i (sitems_text l r) Hi). apply spre_skip_ign.
    + rewrite app_assoc. apply IH; assumption.
Qed.

Record st_stmt := mkSt { st_n0 : chr; st_ns : pstr; st_first : sitem; st_more : list sitem; st_db : dotb }.
Record st_layout := mkStLayout { st_b1 : pstr; st_b2 : pstr; st_sgn : chr; st_b3 : pstr; st_sgn2 : chr; st_b4 : pstr }.
Definition st_kw : pstr := [115; 116; 114; 117; 99; 116; 117; 114; 101]%N.
Definition st_tail_text (s : st_stmt) (y : st_layout) (Ek : pstr) : pstr :=
  st_b1 y ++ st_n0 s :: st_ns s ++ st_b2 y ++ st_sgn y ::
  sitems_text (st_first s :: st_more s) (st_b3 y ++ st_sgn2 y :: st_b4 y ++ dotb_text (st_db s) ++ Ek).
Definition st_render (s : st_stmt) (y : st_layout) : pstr := st_kw ++ st_tail_text s y [].
Definition st_tree (s : st_stmt) : tok :=
  TList [TStr tag_sc; TStr (st_n0 s :: st_ns s); TList (flat_map sitem_toks (st_first s :: st_more s));
         TStr (dotb_text (st_db s))].
Definition st_ok (s : st_stmt) (y : st_layout) (Ek : pstr) : Prop :=
  memc (st_n0 s) idch = true /\ all_in idch (st_ns s) /\ dotb_ok (st_db s) /\
  blanks WS (st_b1 y) /\ blanks WS (st_b2 y) /\ blanks WS (st_b3 y) /\ blanks WS (st_b4 y) /\
  (st_sgn y = 61%N \/ st_sgn y = 58%N) /\ (st_sgn2 y = 61%N \/ st_sgn2 y = 58%N) /\
  sitems_wf (st_first s :: st_more s) (st_b3 y ++ st_sgn2 y :: st_b4 y ++ dotb_text (st_db s) ++ Ek).

Lemma sitems_text_app l r k : sitems_text l r ++ k = sitems_text l (r ++ k).
Proof.
  induction l as [|i l IH]; [reflexivity|]. cbn [sitems_text fold_right]. fold (sitems_text l r). fold (sitems_text l (r ++ k)).
  rewrite <- IH. destruct i; cbn [sitem_text]; norm_text; reflexivity.
Qed.

Theorem roundtrip_structure s y full b E k :
  st_ok s y (E ++ k) -> blanks WS b -> stmt_end E k -> nohead dbch (E ++ k) ->
  evals G full 8 true (At (b ++ st_kw ++ st_tail_text s y (E ++ k))) (POk (after WS k) [st_tree s]).
Proof.
  intros (H0 & Hns & Hdb & Hb1 & Hb2 & Hb3 & Hb4 & Hsgn & Hsgn2 & Hwf) Hb Hk Hdbr.
  unfold st_tail_text, st_kw.
  remember (st_b3 y ++ st_sgn2 y :: st_b4 y ++ dotb_text (st_db s) ++ E ++ k) as R eqn:ER.
  remember (sitems_text (st_first s :: st_more s) R) as L eqn:EL.
  assert (Hsg : stopc (st_sgn y) = true) by (destruct Hsgn as [-> | ->]; reflexivity).
  assert (Hsg2 : stopc (st_sgn2 y) = true) by (destruct Hsgn2 as [-> | ->]; reflexivity).
  assert (HR : spre R = st_sgn2 y :: st_b4 y ++ dotb_text (st_db s) ++ E ++ k)
    by (rewrite ER; apply spre_blanks_stop; [exact Hb3|exact Hsg2]).
  assert (HR1 : nohead idch (spre R)) by (rewrite HR; destruct Hsgn2 as [-> | ->]; reflexivity).
  assert (HR2 : nohead [43%N] (spre R)) by (rewrite HR; destruct Hsgn2 as [-> | ->]; reflexivity).
  pose proof Hwf as (Hwi & Hwl). try rewrite <- ER in Hwi. try rewrite <- ER in Hwl.
  eapply evals_eq.
  - eapply evals_node_ok; [lk|cbn; reflexivity|]. apply impls_first; [reflexivity|]. cbn [nkids app].
    eapply firsts_miss; [kwfail 9 10 11 12 Hb|].
    eapply firsts_miss; [kwfail 30 31 32 33 Hb|].
    eapply firsts_miss; [kwfail 41 42 43 44 Hb|].
    eapply firsts_miss; [kwfail 49 50 51 52 Hb|].
    eapply firsts_miss; [kwfail 57 58 59 60 Hb|].
    eapply firsts_miss; [kwfail 71 72 73 74 Hb|].
    eapply firsts_miss; [kwfail 84 85 86 87 Hb|].
    apply firsts_hit.
    eapply (evals_kw_alt_ok G full pil_c WS pil_comment_ok 101 102 103 104); [lk|lk|lk|lk| |].
    { rewrite spre_blanks_stop by (try exact Hb; reflexivity). cbn. reflexivity. }
    eapply seqs_cons.
    { apply (ev_ident full true _ (st_n0 s) (st_ns s)); [|exact H0|exact Hns|].
      - apply spre_blanks_stop; [exact Hb1|apply idch_stop; exact H0].
      - apply nohead_blanks; [vm_compute; reflexivity|exact Hb2|]. destruct Hsgn as [-> | ->]; reflexivity. }
    eapply seqs_cons.
    { eapply (ev_assign full 105 true _ (st_sgn y)); [lk| |exact Hsgn].
      apply spre_blanks_stop; [exact Hb2|exact Hsg]. }
    eapply seqs_cons.
    { (* Group [OneOrMore [domain | +]] *)
      eapply evals_node_ok; [lk|cbn; reflexivity|].
      eapply impls_wrap; [reflexivity|reflexivity|].
      eapply evals_node_ok; [lk|cbn; reflexivity|].
      eapply impls_many; [reflexivity|reflexivity| |].
      - rewrite EL. cbn [sitems_text fold_right]. fold (sitems_text (st_more s) R).
        apply (ev_sitem full _ (st_first s) (sitems_text (st_more s) R) Hwi). reflexivity.
      - cbn [nign]. apply (loops_sitems full (st_more s) R _ Hwl HR1 HR2). }
    eapply seqs_cons.
    { eapply (ev_assign full 111 true _ (st_sgn2 y)); [lk|exact HR|exact Hsgn2]. }
    eapply seqs_cons.
    { apply (ev_dotbracket full _ (st_db s) (E ++ k)); [|exact Hdb|exact Hdbr].
      destruct Hdb as (_ & Hd0 & _). unfold dotb_text. cbn [app].
      apply spre_blanks_stop; [exact Hb4|exact Hd0]. }
    eapply seqs_cons; [|apply seqs_nil].
    apply (ev_end full 112 113 114 true); try lk; try (eexists; lk). exact Hk.
  - unfold st_tree. cbn. rewrite ?app_nil_r. reflexivity.
Qed.

(* ---------------------------------------------------------------- complex *)
(* an optional line end inside the statement: Opt [Suppress [LineEnd]] *)
Definition optnl_text (o : option pstr) : pstr := match o with Some l => l | None => [] end.
Definition optnl_ok (o : option pstr) : Prop := match o with Some l => pil_blank_line l | None => True end.
Definition optnl_pos (o : option pstr) (rest : pstr) : pstr := match o with Some _ => rest | None => spre rest end.

Lemma ev_optnl full op sl le o rest :
  nth_error G op = Some (mkNode KOpt [sl] true WS [pil_c] true []) ->
  nth_error G sl = Some (mkNode KSuppress [le] true WS [pil_c] true []) ->
  nth_error G le = Some (mkNode KLineEnd [] true WS [pil_c] true []) ->
  optnl_ok o -> (o = None -> exists d z, spre rest = d :: z /\ N.eqb d NL = false) ->
  evals G full op true (At (optnl_text o ++ rest)) (POk (At (optnl_pos o rest)) []).
Proof.
  intros Hop Hsl Hle Ho Hnone. destruct o as [l|]; cbn [optnl_text optnl_pos app].
  - eapply evals_eq.
    + eapply evals_node_ok; [exact Hop|apply (pre_premise G full pil_c WS pil_comment_ok); repeat split|].
      unfold pre_pos. cbn [andb ncallpre]. rewrite (Ho rest).
      eapply impls_opt_some; [reflexivity|reflexivity|].
      eapply evals_node_ok; [exact Hsl|cbn; reflexivity|].
      eapply impls_wrap; [reflexivity|reflexivity|].
      eapply evals_node_ok; [exact Hle|cbn; reflexivity|]. apply impls_leaf. cbv [leaf_impl nkind]. reflexivity.
    + reflexivity.
  - destruct (Hnone eq_refl) as (d & z & Ed & Hd).
    eapply evals_eq.
    + eapply evals_node_ok; [exact Hop|apply (pre_premise G full pil_c WS pil_comment_ok); repeat split|].
      unfold pre_pos. cbn [andb ncallpre]. rewrite Ed.
      eapply impls_opt_none; [reflexivity|reflexivity|].
      eapply evals_node_fail; [exact Hsl|cbn; reflexivity|].
      eapply impls_wrap; [reflexivity|reflexivity|].
      eapply evals_node_fail; [exact Hle|cbn; reflexivity|]. apply impls_leaf. cbv [leaf_impl nkind]. rewrite Hd. reflexivity.
    + rewrite Ed. reflexivity.
Qed.

Lemma blank_line_nohead l z cs : pil_blank_line l -> forallb stopc cs = true -> nohead cs (l ++ z).
Proof.
  intros Hl Hcs. unfold pil_blank_line, blank_line in Hl. destruct l as [|d l].
  - specialize (Hl []). cbn in Hl. discriminate.
  - cbn. destruct (memc d cs) eqn:E; [|reflexivity].
    pose proof (memc_forallb cs stopc d Hcs E) as Hs. specialize (Hl z). cbn [app] in Hl.
    rewrite (spre_stop d _ Hs) in Hl. injection Hl as -> _. discriminate.
Qed.
Lemma dbch_facts d : memc d dbch = true -> stopc d = true -> memc d idch = false /\ N.eqb d 42 = false.
Proof.
  intros H1 H2.
  assert (H : (negb (stopc d) || (negb (memc d idch) && negb (N.eqb d 42))) = true).
  { revert H1. apply (memc_forallb dbch (fun d => negb (stopc d) || (negb (memc d idch) && negb (N.eqb d 42)))).
    vm_compute. reflexivity. }
  rewrite H2 in H. cbn in H. apply andb_prop in H as [Ha Hb]. split; apply negb_true_iff; assumption.
Qed.

Record cx_stmt := mkCx { cx_n0 : chr; cx_ns : pstr; cx_d0 : chr; cx_ds0 : pstr; cx_star0 : bool;
                         cx_doms : list dom; cx_db : dotb }.
Record cx_layout := mkCxLayout { cx_b1 : pstr; cx_b2 : pstr; cx_sgn : chr; cx_nl1 : option pstr; cx_b3 : pstr;
                                 cx_nl2 : option pstr; cx_b4 : pstr }.
Definition cx_kw : pstr := [99; 111; 109; 112; 108; 101; 120]%N.
Definition cx_tail_text (s : cx_stmt) (y : cx_layout) (Ek : pstr) : pstr :=
  cx_b1 y ++ cx_n0 s :: cx_ns s ++ cx_b2 y ++ cx_sgn y :: optnl_text (cx_nl1 y) ++ cx_b3 y ++
  cx_d0 s :: cx_ds0 s ++ star_s (cx_star0 s) ++
  doms_text (cx_doms s) (optnl_text (cx_nl2 y) ++ cx_b4 y ++ dotb_text (cx_db s) ++ Ek).
Definition cx_render (s : cx_stmt) (y : cx_layout) : pstr := cx_kw ++ cx_tail_text s y [].
Definition cx_first (s : cx_stmt) : pstr := cx_d0 s :: cx_ds0 s ++ star_s (cx_star0 s).
Definition cx_tree (s : cx_stmt) : tok :=
  TList [TStr tag_sc; TStr (cx_n0 s :: cx_ns s);
         TList (TStr (cx_first s) :: map (fun d => TStr (d_name d)) (cx_doms s)); TStr (dotb_text (cx_db s))].
Definition cx_ok (s : cx_stmt) (y : cx_layout) : Prop :=
  memc (cx_n0 s) idch = true /\ all_in idch (cx_ns s) /\
  memc (cx_d0 s) idch = true /\ all_in idch (cx_ds0 s) /\ Forall dom_ok (cx_doms s) /\ dotb_ok (cx_db s) /\
  blanks WS (cx_b1 y) /\ blanks WS (cx_b2 y) /\ blanks WS (cx_b3 y) /\ blanks WS (cx_b4 y) /\
  (cx_sgn y = 61%N \/ cx_sgn y = 58%N) /\ optnl_ok (cx_nl1 y) /\ optnl_ok (cx_nl2 y).

Theorem roundtrip_complex s y full b E k :
  cx_ok s y -> blanks WS b -> stmt_end E k -> nohead dbch (E ++ k) ->
  evals G full 8 true (At (b ++ cx_kw ++ cx_tail_text s y (E ++ k))) (POk (after WS k) [cx_tree s]).
Proof.
  intros (H0 & Hns & Hd0 & Hds0 & Hdoms & Hdb & Hb1 & Hb2 & Hb3 & Hb4 & Hsgn & Hnl1 & Hnl2) Hb Hk Hdbr.
  unfold cx_tail_text, cx_kw.
  pose proof Hdb as (Hdb1 & Hdb2 & Hdb3). destruct (dbch_facts _ Hdb1 Hdb2) as (Hdbi & Hdbs).
  assert (Hsg : stopc (cx_sgn y) = true) by (destruct Hsgn as [-> | ->]; reflexivity).
  remember (cx_b4 y ++ dotb_text (cx_db s) ++ E ++ k) as Q eqn:EQ.
  assert (HQ : spre Q = dotb_text (cx_db s) ++ E ++ k)
    by (rewrite EQ; unfold dotb_text; cbn [app]; apply spre_blanks_stop; [exact Hb4|exact Hdb2]).
  remember (optnl_text (cx_nl2 y) ++ Q) as R eqn:ER.
  (* what follows the domain list *)
  assert (HRf : dom_follow R /\ nohead idch (spre R)).
  { rewrite ER. destruct (cx_nl2 y) as [l2|]; cbn [optnl_text app].
    - split; [split|].
      + apply blank_line_nohead; [exact Hnl2|vm_compute; reflexivity].
      + apply blank_line_nohead; [exact Hnl2|vm_compute; reflexivity].
      + rewrite (Hnl2 Q). reflexivity.
    - split; [split|].
      + rewrite EQ. apply nohead_blanks; [vm_compute; reflexivity|exact Hb4|]. exact Hdbi.
      + rewrite EQ. apply nohead_blanks; [vm_compute; reflexivity|exact Hb4|]. unfold dotb_text, nohead, memc. cbn [app existsb].
        rewrite Hdbs. reflexivity.
      + rewrite HQ. exact Hdbi. }
  destruct HRf as (HRf & HRs).
  remember (cx_d0 s :: cx_ds0 s ++ star_s (cx_star0 s) ++ doms_text (cx_doms s) R) as D eqn:ED.
  assert (HD : forall bb, blanks WS bb -> spre (bb ++ D) = D)
    by (intros bb Hbb; rewrite ED; apply spre_blanks_stop; [exact Hbb|apply idch_stop; exact Hd0]).
  eapply evals_eq.
  - eapply evals_node_ok; [lk|cbn; reflexivity|]. apply impls_first; [reflexivity|]. cbn [nkids app].
    eapply firsts_miss; [kwfail 9 10 11 12 Hb|].
    eapply firsts_miss; [kwfail 30 31 32 33 Hb|].
    eapply firsts_miss; [kwfail 41 42 43 44 Hb|].
    eapply firsts_miss; [kwfail 49 50 51 52 Hb|].
    eapply firsts_miss; [kwfail 57 58 59 60 Hb|].
    eapply firsts_miss; [kwfail 71 72 73 74 Hb|].
    apply firsts_hit.
    eapply (evals_kw_alt_ok G full pil_c WS pil_comment_ok 84 85 86 87); [lk|lk|lk|lk| |].
    { rewrite spre_blanks_stop by (try exact Hb; reflexivity). cbn. reflexivity. }
    eapply seqs_cons.
    { apply (ev_ident full true _ (cx_n0 s) (cx_ns s)); [|exact H0|exact Hns|].
      - apply spre_blanks_stop; [exact Hb1|apply idch_stop; exact H0].
      - apply nohead_blanks; [vm_compute; reflexivity|exact Hb2|]. destruct Hsgn as [-> | ->]; reflexivity. }
    eapply seqs_cons.
    { eapply (ev_assign full 88 true _ (cx_sgn y)); [lk| |exact Hsgn].
      apply spre_blanks_stop; [exact Hb2|exact Hsg]. }
    eapply seqs_cons.
    { apply (ev_optnl full 89 90 91 (cx_nl1 y) (cx_b3 y ++ D)); try lk; [exact Hnl1|].
      intros _. rewrite (HD _ Hb3). rewrite ED. eexists _, _. split; [reflexivity|].
      apply idch_stop in Hd0. apply stopc_elim in Hd0. apply Hd0. }
    eapply seqs_cons.
    { (* Group [OneOrMore [domain]] from `b3 ++ D` or from `D` *)
      assert (Hgrp : forall bb, blanks WS bb ->
                evals G full 92 true (At (bb ++ D))
                  (POk (At R) [TList (TStr (cx_first s) :: map (fun d => TStr (d_name d)) (cx_doms s))])).
      { intros bb Hbb. rewrite ED. unfold cx_first.
        apply (ev_domain_group full 92 93 bb (cx_d0 s) (cx_ds0 s) (cx_star0 s) (cx_doms s) R); try lk; assumption. }
      destruct (cx_nl1 y) as [l1|]; cbn [optnl_pos].
      - apply Hgrp. exact Hb3.
      - rewrite (HD _ Hb3). apply (Hgrp []). reflexivity. }
    eapply seqs_cons.
    { rewrite ER. apply (ev_optnl full 94 95 96 (cx_nl2 y) Q); try lk; [exact Hnl2|].
      intros _. rewrite HQ. unfold dotb_text. cbn [app]. eexists _, _. split; [reflexivity|].
      apply stopc_elim in Hdb2. apply Hdb2. }
    eapply seqs_cons.
    { apply (ev_dotbracket full _ (cx_db s) (E ++ k)); [|exact Hdb|exact Hdbr].
      destruct (cx_nl2 y); cbn [optnl_pos]; [exact HQ|rewrite spre_idem; exact HQ]. }
    eapply seqs_cons; [|apply seqs_nil].
    apply (ev_end full 98 99 100 true); try lk; try (eexists; lk). exact Hk.
  - unfold cx_tree. cbn. rewrite ?app_nil_r. reflexivity.
Qed.

(* parse_pil_string on one statement *)
Theorem roundtrip_structure_parse s y b E :
  st_ok s y E -> blanks WS b -> stmt_end E [] -> nohead dbch E ->
  no_tab (b ++ st_kw ++ st_tail_text s y E) ->
  exists f0, forall f, f0 <= f -> parse_pil_fuel f (b ++ st_kw ++ st_tail_text s y E) = vals [st_tree s].
Proof.
  intros Hs Hb HE Hdb Hnt.
  pose proof (pil_document_items_evals [] [mkItem b (st_kw ++ st_tail_text s y E) [st_tree s]] []) as H. cbn in H.
  rewrite !app_nil_r in H.
  assert (Hits : pil_items_ok [mkItem b (st_kw ++ st_tail_text s y E) [st_tree s]] []).
  { cbn. split; [split; [exact Hb|repeat split; reflexivity]|split; [|exact I]].
    intros full b' Hb'. cbn. rewrite app_nil_r.
    pose proof (roundtrip_structure s y full b' E []) as Hr. rewrite !app_nil_r in Hr. apply Hr; assumption. }
  specialize (H (Forall_nil _) Hits ltac:(discriminate) eq_refl).
  destruct (evals_parse_fuel pil_grammar _ _ Hnt H) as [f0 Hf]. exists f0. intros f Hle.
  unfold parse_pil_fuel. rewrite (Hf f Hle). unfold vals. cbn. rewrite ?app_nil_r. reflexivity.
Qed.
Theorem roundtrip_complex_parse s y b E :
  cx_ok s y -> blanks WS b -> stmt_end E [] -> nohead dbch E ->
  no_tab (b ++ cx_kw ++ cx_tail_text s y E) ->
  exists f0, forall f, f0 <= f -> parse_pil_fuel f (b ++ cx_kw ++ cx_tail_text s y E) = vals [cx_tree s].
Proof.
  intros Hs Hb HE Hdb Hnt.
  pose proof (pil_document_items_evals [] [mkItem b (cx_kw ++ cx_tail_text s y E) [cx_tree s]] []) as H. cbn in H.
  rewrite !app_nil_r in H.
  assert (Hits : pil_items_ok [mkItem b (cx_kw ++ cx_tail_text s y E) [cx_tree s]] []).
  { cbn. split; [split; [exact Hb|repeat split; reflexivity]|split; [|exact I]].
    intros full b' Hb'. cbn. rewrite app_nil_r.
    pose proof (roundtrip_complex s y full b' E []) as Hr. rewrite !app_nil_r in Hr. apply Hr; assumption. }
  specialize (H (Forall_nil _) Hits ltac:(discriminate) eq_refl).
  destruct (evals_parse_fuel pil_grammar _ _ Hnt H) as [f0 Hf]. exists f0. intros f Hle.
  unfold parse_pil_fuel. rewrite (Hf f Hle). unfold vals. cbn. rewrite ?app_nil_r. reflexivity.
Qed.

(* non-vacuity: `complex I :` newline ` I A* ` newline `((.+ ))` newline;  `structure AB = A + B : .((+))  ` *)
Example cx_example :
  let s := mkCx 73%N [] 73%N [] false [mkDom [32%N] 65%N [] true] (mkDotb 40%N [40; 46; 43; 32; 41; 41]%N) in
  let y := mkCxLayout [32%N] [32%N] 58%N (Some [32; 10]%N) [32%N] (Some [32; 10]%N) [] in
  cx_ok s y /\ parse_pil (cx_render s y ++ [NL]) = vals [cx_tree s].
Proof.
  cbn zeta. split; [|vm_compute; reflexivity].
  unfold cx_ok. cbn [cx_n0 cx_ns cx_d0 cx_ds0 cx_doms cx_db cx_b1 cx_b2 cx_b3 cx_b4 cx_sgn cx_nl1 cx_nl2 optnl_ok].
  repeat split; try reflexivity; try (right; reflexivity);
    try (apply (pil_blank_line_plain [32%N]); reflexivity).
  repeat constructor; try reflexivity. discriminate.
Qed.
Example st_example :
  let s := mkSt 65%N [66%N] (SDom [32%N] 65%N [] false) [SPlus [32%N]; SDom [32%N] 66%N [] false]
             (mkDotb 46%N [40; 40; 43; 41; 41; 32; 32]%N) in
  let y := mkStLayout [32%N] [32%N] 61%N [32%N] 58%N [32%N] in
  st_ok s y [NL] /\ parse_pil (st_render s y ++ [NL]) = vals [st_tree s].
Proof.
  cbn zeta. split; [|vm_compute; reflexivity].
  unfold st_ok. cbn. repeat split; try reflexivity; try (left; reflexivity); right; reflexivity.
Qed.
