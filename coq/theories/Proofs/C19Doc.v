(* C19: the document theorem on the regenerated seesaw table. *)
From Coq Require Import List NArith Bool Arith Lia.
From DSD Require Import Base.Str Base.Errors Base.Val Model.Peg Model.DispatchPeg
  Proofs.PegMono Proofs.PegRules Proofs.PegStd Proofs.PegDoc Proofs.C13Doc.
From DSDGen Require Import SeesawGrammar.
Import ListNotations.

Definition ssw_ws : list chr := seesaw_cs0.
Definition ssw_c := 2.
Definition ssw_stmt := 8.     (* Group(choice of the 10 statement forms) + OneOrMore(LineEnd) *)

Lemma ssw_comment_ok : comment_ok seesaw_nodes ssw_c ssw_ws = true.
Proof. vm_compute. reflexivity. Qed.
Lemma ssw_root_shape : groot seesaw_grammar = 0 /\
  nth_error seesaw_nodes 0 = Some (mkNode KAnd [1; 4; 7; 240] true ssw_ws [ssw_c] true []).
Proof. split; vm_compute; reflexivity. Qed.
Lemma ssw_ss : nth_error seesaw_nodes 1 = Some (mkNode KStringStart [] true ssw_ws [ssw_c] true []).
Proof. vm_compute. reflexivity. Qed.
Lemma ssw_zm : nth_error seesaw_nodes 4 = Some (mkNode (KMany false) [5] true ssw_ws [ssw_c] true []).
Proof. vm_compute. reflexivity. Qed.
Lemma ssw_sl : nth_error seesaw_nodes 5 = Some (mkNode KSuppress [6] true ssw_ws [ssw_c] true []).
Proof. vm_compute. reflexivity. Qed.
Lemma ssw_le : exists cp, nth_error seesaw_nodes 6 = Some (mkNode KLineEnd [] true ssw_ws [ssw_c] cp []).
Proof. exists true. vm_compute. reflexivity. Qed.
Lemma ssw_om : nth_error seesaw_nodes 7 = Some (mkNode (KMany true) [ssw_stmt] true ssw_ws [ssw_c] true []).
Proof. vm_compute. reflexivity. Qed.
Lemma ssw_se : nth_error seesaw_nodes 240 = Some (mkNode KStringEnd [] true ssw_ws [ssw_c] true []).
Proof. vm_compute. reflexivity. Qed.
Lemma ssw_stmt_past full : evals seesaw_nodes full ssw_stmt true Past PFail.
Proof. apply (evals_of_run _ _ 40); [vm_compute; reflexivity|discriminate]. Qed.

Definition ssw_blank_line := blank_line ssw_ws.
Definition ssw_stmt_ok := stmt_ok seesaw_nodes ssw_stmt ssw_ws.
Definition ssw_item_ok := item_ok seesaw_nodes ssw_stmt ssw_ws.
Definition ssw_items_ok := items_ok seesaw_nodes ssw_stmt ssw_ws.
Definition ssw_body_ok := body_ok seesaw_nodes ssw_stmt ssw_ws.
Definition ssw_tail_ok (tl : pstr) : Prop := std_pre ssw_ws tl = [].

Theorem ssw_document_items_evals pls its tl :
  Forall ssw_blank_line pls -> ssw_items_ok its tl -> its <> [] -> ssw_tail_ok tl ->
  let D := concat pls ++ flatten its ++ tl in
  evals seesaw_nodes D 0 true (At D) (POk Past (flat_map it_toks its)).
Proof.
  exact (document_concat_items seesaw_nodes 0 ssw_c 1 4 5 6 7 ssw_stmt 240 ssw_ws true
           ssw_comment_ok (proj2 ssw_root_shape) ssw_ss ssw_zm ssw_sl ssw_le ssw_om ssw_se ssw_stmt_past pls its tl).
Qed.

Theorem ssw_document_concat pls its tl :
  Forall ssw_blank_line pls -> Forall ssw_item_ok its -> its <> [] -> ssw_tail_ok tl ->
  let D := concat pls ++ flatten its ++ tl in
  no_tab D ->
  exists f0, forall f, f0 <= f -> parse_seesaw_fuel f D = vals (flat_map it_toks its).
Proof.
  intros Hp Hi Hne Ht D HD.
  assert (H : evals seesaw_nodes D 0 true (At D) (POk Past (flat_map it_toks its))).
  { apply ssw_document_items_evals; try assumption. apply items_ok_of_forall; assumption. }
  destruct (evals_parse_fuel seesaw_grammar D _ HD H) as [f0 Hf].
  exists f0. intros f Hle. unfold parse_seesaw_fuel. rewrite (Hf f Hle). reflexivity.
Qed.

Theorem ssw_statement_parse b y E t :
  blanks ssw_ws b -> stmt_start ssw_ws y -> ssw_body_ok y t -> stmt_end ssw_ws E [] ->
  no_tab (b ++ y ++ E) ->
  exists f0, forall f, f0 <= f -> parse_seesaw_fuel f (b ++ y ++ E) = vals t.
Proof.
  intros Hb Hy Hok HE Hnt.
  pose proof (ssw_document_items_evals [] [mkItem b (y ++ E) t] []) as H. cbn in H.
  rewrite !app_nil_r in H.
  assert (Hits : ssw_items_ok [mkItem b (y ++ E) t] []).
  { cbn. split; [split; [exact Hb|]|split; [|exact I]].
    - destruct y as [|d y]; [destruct Hy|]. exact Hy.
    - intros full b' Hb'. cbn. rewrite <- app_assoc. apply Hok; assumption. }
  specialize (H (Forall_nil _) Hits ltac:(discriminate) eq_refl).
  destruct (evals_parse_fuel seesaw_grammar _ _ Hnt H) as [f0 Hf]. exists f0. intros f Hle.
  unfold parse_seesaw_fuel. rewrite (Hf f Hle). unfold vals. cbn. rewrite ?app_nil_r. reflexivity.
Qed.

Definition parse_seesaw_file (content : pstr) : val := parse_seesaw content.
Lemma ssw_parse_file_eq_string content : parse_seesaw_file content = parse_seesaw content.
Proof. reflexivity. Qed.
