(* The default fuel of parse_pil / parse_seesaw is never exhausted: the nullability, rank and
   StringStart-freedom tables are computed from the regenerated node tables and validated by
   PegTerm.term_check. *)
From Coq Require Import List NArith Bool Arith Lia.
From DSD Require Import Base.Str Base.Errors Base.Val Model.Peg Model.DispatchPeg Proofs.PegMono Proofs.PegTerm Proofs.C13Doc.
From DSDGen Require Import PilGrammar SeesawGrammar.
Import ListNotations.

Definition pil_nl : list bool := Eval vm_compute in nl_table pil_nodes.
Definition pil_sf : list bool := Eval vm_compute in sf_table pil_nodes.
Definition pil_rk : list nat := Eval vm_compute in rk_table pil_nodes pil_nl.

Lemma pil_term_check : term_check pil_grammar pil_nl pil_rk pil_sf = true.
Proof. vm_compute. reflexivity. Qed.

Lemma val_of_pres_fuel r : val_of_pres r = err eFuel -> r = PFuel.
Proof. destruct r; cbn; [discriminate| |reflexivity]. intros H. exfalso. revert H. vm_compute. discriminate. Qed.

Theorem pil_parse_string_no_fuel text : parse_string pil_grammar text <> PFuel.
Proof. exact (term_check_sound pil_grammar pil_nl pil_rk pil_sf pil_term_check text). Qed.

Theorem pil_default_fuel_suffices text : parse_pil text <> err eFuel.
Proof. intros H. apply val_of_pres_fuel in H. exact (pil_parse_string_no_fuel text H). Qed.

Definition ssw_nl : list bool := Eval vm_compute in nl_table seesaw_nodes.
Definition ssw_sf : list bool := Eval vm_compute in sf_table seesaw_nodes.
Definition ssw_rk : list nat := Eval vm_compute in rk_table seesaw_nodes ssw_nl.

Lemma ssw_term_check : term_check seesaw_grammar ssw_nl ssw_rk ssw_sf = true.
Proof. vm_compute. reflexivity. Qed.

Theorem seesaw_parse_string_no_fuel text : parse_string seesaw_grammar text <> PFuel.
Proof. exact (term_check_sound seesaw_grammar ssw_nl ssw_rk ssw_sf ssw_term_check text). Qed.

Theorem seesaw_default_fuel_suffices text : parse_seesaw text <> err eFuel.
Proof. intros H. apply val_of_pres_fuel in H. exact (seesaw_parse_string_no_fuel text H). Qed.

(* hence every "for all sufficiently large fuel" statement holds for the default fuel *)
Theorem pil_default_is_limit text v :
  (exists f0, forall f, f0 <= f -> parse_pil_fuel f text = v) -> parse_pil text = v.
Proof.
  intros [f0 H]. set (d := default_fuel pil_grammar text).
  specialize (H (Nat.max f0 d) (Nat.le_max_l _ _)). rewrite <- H. unfold parse_pil, parse_pil_fuel. f_equal. symmetry.
  apply parse_fuel_irrelevant; [exact (pil_parse_string_no_fuel text)|apply Nat.le_max_r].
Qed.
Theorem seesaw_default_is_limit text v :
  (exists f0, forall f, f0 <= f -> parse_seesaw_fuel f text = v) -> parse_seesaw text = v.
Proof.
  intros [f0 H]. set (d := default_fuel seesaw_grammar text).
  specialize (H (Nat.max f0 d) (Nat.le_max_l _ _)). rewrite <- H. unfold parse_seesaw, parse_seesaw_fuel. f_equal. symmetry.
  apply parse_fuel_irrelevant; [exact (seesaw_parse_string_no_fuel text)|apply Nat.le_max_r].
Qed.

