(* C05: release followed by a redefinition with other parameters, as one statement about operations
   (for domains; names with an unstarred base), and the refutation of the unguarded statement. *)
From Coq Require Import List NArith ZArith Bool Arith Lia.
From DSD Require Import Base.Str Base.Errors Model.ComplexUtils Model.RegStr Model.Heap Model.Registry
  Proofs.RegHeap Proofs.RegInv Proofs.RegCalls Proofs.RegExt Proofs.RegC04 Proofs.RegStep Proofs.RegC01 Proofs.RegC05
  Proofs.RegExamples Proofs.RegFull.
Import ListNotations.

Definition absent (st : state) (c : nat) (m : pstr) : Prop :=
  forall j oj, live_obj (heap st) j oj -> o_cls oj = c -> o_name oj <> m.

Lemma absent_nlookup ct st c m : Inv ct st -> c < length ct -> absent st c m -> nlookup m (cs_names (cget st c)) = None.
Proof.
  intros I Hc A. destruct (nlookup m (cs_names (cget st c))) as [j|] eqn:E; [|reflexivity]. exfalso.
  destruct (found_by_name ct st c m j I Hc E) as [o [Hl [Ec En]]]. exact (A j o Hl Ec En).
Qed.

Lemma absent_klookup ct st c m l :
  Inv ct st -> DOK ct st -> class_kind ct c = Some KindD -> absent st c m ->
  klookup (KDom m l) (cs_canon (cget st c)) = None.
Proof.
  intros I D Hk A. pose proof (class_kind_lt _ _ _ Hk) as Hc.
  destruct (klookup (KDom m l) (cs_canon (cget st c))) as [j|] eqn:E; [|reflexivity]. exfalso.
  destruct (proj1 (proj2 (registry_entries ct st c I Hc)) _ _ E) as [o [Hl [Ec Hin]]].
  destruct (dom_data ct st j o D Hl) as [lq Eq]; [rewrite Ec; exact Hk|].
  destruct (live_registered ct st j o I Hl) as [_ [_ OK]]. unfold ObjOK in OK. rewrite Eq in OK. destruct OK as [O1 O2].
  rewrite O2, O1 in Hin. destruct Hin as [Hin|[]]. injection Hin as Hn _. exact (A j o Hl Ec Hn).
Qed.

Lemma absent_collect st c m : absent st c m -> absent (collect st) c m.
Proof. intros A j oj Hl. apply (A j oj). apply livesub_collect. exact Hl. Qed.

(* a name-only request for an absent unstarred name: a refused pure look-up *)
Lemma lookup_unstarred_absent f ct c ci s x :
  Inv ct s -> nth_error ct c = Some ci -> starred x = false -> nonempty x = true -> absent s c x ->
  dom_call (S f) ct c s (Some x) None None None = (s, CErr eSingleton None).
Proof.
  intros I Eci Hs Hne A. assert (Hc : c < length ct) by (apply nth_error_Some; congruence).
  rewrite dom_call_S. unfold dom_body. rewrite Eci. cbn [resolve_name]. rewrite dom_len1_none, Hne. cbn [negb].
  unfold dom_nested. rewrite Hs. unfold dom_finish. cbn [option_map].
  unfold sing_lookup. rewrite Hne, (absent_nlookup ct s c x I Hc A). reflexivity.
Qed.

(* ... and for x* when neither x nor x* is live *)
Lemma lookup_starred_absent f ct c ci s n :
  Inv ct s -> nth_error ct c = Some ci -> starred n = true -> starred (cname_of n) = false ->
  nonempty (cname_of n) = true ->
  absent s c n -> absent s c (cname_of n) ->
  dom_call (S (S f)) ct c s (Some n) None None None = (collect s, CErr eSingleton None).
Proof.
  intros I Eci Hs Hcs Hnc An Ac. assert (Hc : c < length ct) by (apply nth_error_Some; congruence).
  assert (Hne : nonempty n = true) by (destruct n; [discriminate | reflexivity]).
  rewrite dom_call_S. unfold dom_body. rewrite Eci. cbn [resolve_name]. rewrite dom_len1_none, Hne. cbn [negb].
  unfold dom_nested. rewrite Hs.
  rewrite (lookup_unstarred_absent f ct c ci s (cname_of n) I Eci Hcs Hnc Ac). rewrite sing_true.
  unfold dom_finish. cbn [option_map]. unfold sing_lookup. rewrite Hne.
  rewrite (absent_nlookup ct (collect s) c n (inv_collect _ _ I) Hc (absent_collect _ _ _ An)). reflexivity.
Qed.

Lemma create_fnone ct st c ci auto name k extra children d :
  nth_error ct c = Some ci -> c_fail ci = FNone ->
  snd (create ct st c auto name k extra children d) = CRet (length (heap st)) true.
Proof.
  intros Ec Ef. unfold create. rewrite Ec, Ef. unfold alloc. cbn [snd].
  assert (E : heap (if auto then bump_id ct st c else st) = heap st).
  { destruct auto; [|reflexivity]. unfold bump_id. destruct (class_id ct st c); reflexivity. }
  rewrite E. reflexivity.
Qed.

Lemma finish_absent ct c ci s n l' :
  Inv ct s -> DOK ct s -> class_kind ct c = Some KindD -> nth_error ct c = Some ci -> c_fail ci = FNone ->
  nonempty n = true -> absent s c n ->
  snd (dom_finish ct c s false n (Some l')) = CRet (length (heap s)) true.
Proof.
  intros I D Hk Eci Ef Hne A. pose proof (class_kind_lt _ _ _ Hk) as Hc.
  unfold dom_finish. cbn [option_map]. unfold sing_lookup.
  rewrite Hne, (absent_nlookup ct s c n I Hc A), (absent_klookup ct s c n l' I D Hk A).
  apply (create_fnone ct s c ci); assumption.
Qed.

Theorem redefine_when_absent ct c ci s n l' :
  Good ct s -> class_kind ct c = Some KindD -> nth_error ct c = Some ci -> c_fail ci = FNone ->
  base_unstarred n -> nonempty n = true -> nonempty (cname_of n) = true ->
  absent s c n -> absent s c (cname_of n) ->
  exists id, snd (dom_call dom_fuel ct c s (Some n) (Some l') None None) = CRet id true.
Proof.
  intros G Hk Eci Ef Hb Hne Hnc An Ac. pose proof G as [I C D].
  unfold dom_fuel. rewrite (dom_call_S 7). unfold dom_body. rewrite Eci. cbn [resolve_name]. rewrite dom_len1_none, Hne. cbn [negb].
  unfold dom_nested. destruct (starred n) eqn:ES.
  - (* n = x*: look x up *)
    assert (Hcs : starred (cname_of n) = false) by (destruct Hb as [Hb|Hb]; congruence).
    rewrite (lookup_unstarred_absent 6 ct c ci s (cname_of n) I Eci Hcs Hnc Ac). rewrite sing_true. cbn [is_none].
    eexists. apply (finish_absent ct c ci (collect s) n l'); auto.
    + apply inv_collect; exact I.
    + apply dok_collect; exact D.
    + apply absent_collect; exact An.
  - (* n unstarred: look n* up *)
    pose proof (cname_unstarred n ES) as Ecn.
    assert (S1 : starred (cname_of n) = true) by (rewrite Ecn; apply starred_app).
    assert (E2 : cname_of (cname_of n) = n) by (apply cname_involutive; left; exact ES).
    assert (Hn2 : nonempty (cname_of (cname_of n)) = true) by (rewrite E2; exact Hne).
    rewrite (lookup_starred_absent 5 ct c ci s (cname_of n) I Eci S1 (eq_trans (f_equal starred E2) ES) Hn2 Ac
               (eq_ind_r (fun m => absent s c m) An E2)).
    rewrite sing_true. cbn [is_none].
    eexists. apply (finish_absent ct c ci (collect (collect s)) n l'); auto.
    + apply inv_collect, inv_collect; exact I.
    + apply dok_collect, dok_collect; exact D.
    + apply absent_collect, absent_collect; exact An.
Qed.

(* release followed by redefinition, one statement about operations *)
Theorem release_redefine ct st slot c ci n l l' i ob :
  Good ct st -> get_root st slot = Some i -> live_obj (heap st) i ob ->
  o_cls ob = c -> o_name ob = n -> o_data ob = DDom l ->
  nth_error ct c = Some ci -> c_fail ci = FNone ->
  base_unstarred n -> nonempty (cname_of n) = true ->
  ~ Reach (heap st) (root_ids (roots (set_root st slot None))) i ->
  absent st c (cname_of n) ->
  exists id, snd (step ct (fst (step ct st (ODrop slot))) (ODomain slot c (Some n) (Some l') None None)) = Created id.
Proof.
  intros G Hr Hl Ec En Ed Eci Ef Hb Hnc NR Ac. pose proof G as [I C D].
  assert (Hk : class_kind ct c = Some KindD).
  { destruct D as [_ [_ K]]. rewrite <- Ec, (K i ob Hl), Ed. reflexivity. }
  assert (Hne : nonempty n = true) by (destruct D as [_ [Z _]]; rewrite <- En; apply (Z i ob l Hl Ed)).
  set (st1 := fst (step ct st (ODrop slot))).
  assert (G1 : Good ct st1) by (apply (good_step ct st (ODrop slot) G)).
  assert (Sub : LiveSub st1 st) by (unfold st1; cbn [step fst]; intros j oj H; apply livesub_collect in H; exact H).
  assert (Dead : is_live (heap st1) i = false).
  { destruct (is_live (heap st1) i) eqn:E; [|reflexivity]. exfalso.
    apply (proj1 (release ct st slot i I)) in E. apply NR, E. }
  assert (An : absent st1 c n).
  { intros j oj Hj Ecj Enj. pose proof (Sub j oj Hj) as Hj0.
    destruct (uniq_name ct st j i oj ob I Hj0 Hl) as [E _]; [congruence | congruence|]. subst j.
    apply live_obj_is_live in Hj. congruence. }
  assert (Ac1 : absent st1 c (cname_of n)) by (intros j oj Hj; apply (Ac j oj (Sub j oj Hj))).
  destruct (redefine_when_absent ct c ci st1 n l' G1 Hk Eci Ef Hb Hne Hnc An Ac1) as [id E].
  exists id. cbn [step]. assert (KI : kind_is ct c KindD = true) by (unfold kind_is; rewrite Hk; reflexivity).
  rewrite KI. unfold finish. rewrite E. reflexivity.
Qed.

(* the unguarded statement fails for double-starred names: with a live a(5), a dropped a**(5) cannot be
   redefined as a**(7) although neither a** nor its complement a* is live: the look-up of a* builds a
   temporary a*(5) from a  (replayed on the implementation) *)
Theorem release_redefine_full_refuted : ~ release_redefine_full.
Proof.
  intros H.
  set (st := run ctD (init ctD 2) [ODomain 0 0 (Some nA) (Some 5%Z) None None; ODomain 1 0 (Some nAss) (Some 5%Z) None None]).
  assert (G : Good ctD st).
  { apply good_run; apply good_init. }
  destruct (H ctD st 1 0 (mkCinfo KindD None 8 5 15 [100%N] (Some 1%Z) FNone) nAss 5%Z 7%Z 2
              (mkObj 0 nAss (KDom nAss 5) [KDom nAss 5] true [] (DDom 5)) G) as [id E];
    try (vm_compute; reflexivity); try discriminate.
  - vm_compute. split; reflexivity.
  - intros R. vm_compute in R. remember 2 as two. inversion R as [x Hs | j x o Rj Hg Hl Hc]; subst.
    + cbn in Hs. destruct Hs as [Hs|[]]. discriminate.
    + (* no object has children *)
      destruct j as [|[|[|j]]]; vm_compute in Hg; try discriminate; injection Hg as <-; destruct Hc.
  - intros j oj [Hg Hl] _ En. destruct j as [|[|[|j]]]; vm_compute in Hg; try discriminate; injection Hg as <-;
      vm_compute in En; try discriminate; vm_compute in Hl; discriminate.
Qed.
