(* C19: round trips of the remaining statement kinds: OUTPUT, seesaw, the three conc
   forms, inputfanout, seesawOR, seesawAND; for all numbers, list lengths and blank layouts. *)
From Coq Require Import List NArith Bool Arith Lia.
From DSD Require Import Base.Str Base.Errors Base.Val Model.Peg Model.DispatchPeg Proofs.PegMono Proofs.PegRules Proofs.PegStd
  Proofs.PegDoc Proofs.PegKw Proofs.PegNum Proofs.PegList Proofs.C13Doc Proofs.C19Doc Proofs.C19Lex Proofs.C19Io Proofs.C19Args.
From DSDGen Require Import SeesawGrammar.
Import ListNotations.

Ltac norm_text := repeat (rewrite <- app_assoc || rewrite <- app_comm_cons).
(* an alternative fails at its keyword *)
Ltac kwf full i k :=
  eapply firsts_miss; [eapply (sw_alt_fail full i k); [slk|slk|rewrite (std_pre_stop WSs) by reflexivity; reflexivity]|].
Ltac comma full sc lit Hb :=
  eapply seqs_cons; [eapply (sw_slit full sc lit [44%N]); [slk|slk|apply sspre_blanks_stop; [exact Hb|reflexivity]]|].
Ltac punct full sc lit ch Hb :=
  eapply seqs_cons; [eapply (sw_slit full sc lit [ch]); [slk|slk|apply sspre_blanks_stop; [exact Hb|reflexivity]]|].
Ltac numarg full n Hb Hn :=
  eapply seqs_cons; [eapply (sw_number full true _ (n_d0 n) (n_ds n));
    [apply sspre_blanks_stop; [exact Hb|apply sdigit_stop; apply Hn]|apply Hn|apply Hn|]|].

(* ---------------------------------------------------------------- OUTPUT *)
Definition kw_output : pstr := [79; 85; 84; 80; 85; 84]%N.
Inductive outval := OVWire (w : wire) | OVFluor (f : fluor).
Definition outval_ok (v : outval) : Prop := match v with OVWire w => wire_ok w | OVFluor f => fluor_ok f end.
Definition outval_text (v : outval) : pstr := match v with OVWire w => wire_text w | OVFluor f => fluor_text f end.
Definition outval_tok (v : outval) : tok := match v with OVWire w => wire_tree w | OVFluor f => fluor_tok f end.
Definition out_render (x : ioname) (v : outval) (y : inp_layout) : pstr :=
  kw_output ++ ip_b1 y ++ 40%N :: ip_b2 y ++ ioname_text x ++ ip_b3 y ++ 41%N :: ip_b4 y ++ 61%N :: ip_b5 y ++ outval_text v.
Definition out_tree (x : ioname) (v : outval) : tok := TList [TStr kw_output; TList [TStr (ioname_text x)]; outval_tok v].

Lemma sw_ioname_out full b x r : blanks WSs b -> ioname_ok x -> nohead sidch r ->
  evals GS full 40 true (At (b ++ ioname_text x ++ r)) (POk (At r) [TList [TStr (ioname_text x)]]).
Proof.
  intros Hb Hx Hr. destruct x as [n|a0 rs]; cbn [ioname_text ioname_ok] in *.
  - destruct Hx as (H0 & Hs). unfold num_text. norm_text. eapply evals_eq.
    + eapply evals_node_ok; [slk|cbn; reflexivity|].
      eapply impls_wrap; [reflexivity|reflexivity|].
      eapply evals_node_ok; [slk|cbn; reflexivity|]. apply impls_first; [reflexivity|]. cbn [nkids].
      apply firsts_hit. apply (sw_number full true _ (n_d0 n) (n_ds n) r); [|exact H0|exact Hs|].
      * apply sspre_blanks_stop; [exact Hb|apply sdigit_stop; exact H0].
      * destruct r as [|d r]; [exact I|]. unfold nohead in *. destruct (memc d sdigit) eqn:E; [|reflexivity].
        assert (memc d sidch = true); [|congruence].
        revert E. apply (memc_forallb sdigit (fun d => memc d sidch)). vm_compute. reflexivity.
    + reflexivity.
  - destruct Hx as (H0 & Hs). norm_text. eapply evals_eq.
    + eapply evals_node_ok; [slk|cbn; reflexivity|].
      eapply impls_wrap; [reflexivity|reflexivity|].
      eapply evals_node_ok; [slk|cbn; reflexivity|]. apply impls_first; [reflexivity|]. cbn [nkids].
      eapply firsts_miss.
      { apply (sw_number_fail full true). cbn beta iota.
        rewrite sspre_blanks_stop by (try exact Hb; apply salpha_stop; exact H0). apply salpha_not_digit. exact H0. }
      apply firsts_hit.
      eapply (evals_word GS full ssw_c WSs ssw_comment_ok 18 true true _ _ _ a0 rs r); [slk| |exact H0|exact Hs|exact Hr].
      cbn [andb]. apply sspre_blanks_stop; [exact Hb|apply salpha_stop; exact H0].
    + reflexivity.
Qed.

Theorem roundtrip_output x v y : ioname_ok x -> outval_ok v -> inp_layout_ok y ->
  ssw_body_ok (out_render x v y) [out_tree x v].
Proof.
  intros Hx Hv (Hb1 & Hb2 & Hb3 & Hb4 & Hb5) full b E k Hb Hk.
  apply (sw_statement full b (out_render x v y) E k (At (E ++ k)));
    [exact Hb|unfold out_render, kw_output; cbn [app]; eexists _, _; split; reflexivity|exact Hk|
     |reflexivity|eexists; reflexivity].
  unfold out_render, kw_output. norm_text.
  kwf full 11 12.
  apply firsts_hit.
  eapply (sw_alt_ok full 36 37 _ [79; 85; 84; 80; 85; 84]%N); [slk|slk| |].
  { rewrite (std_pre_stop WSs) by reflexivity. reflexivity. }
  punct full 38 39 40%N Hb1.
  eapply seqs_cons.
  { apply (sw_ioname_out full (ip_b2 y) x _ Hb2 Hx). apply snohead_blanks; [exact ws_not_sidch|exact Hb3|reflexivity]. }
  punct full 42 43 41%N Hb3.
  punct full 44 45 61%N Hb4.
  eapply seqs_cons; [|apply seqs_nil].
  (* fluor | wire *)
  eapply evals_eq.
  - eapply evals_node_ok; [slk|cbn; reflexivity|]. apply impls_first; [reflexivity|]. cbn [nkids].
    instantiate (1 := [outval_tok v]). instantiate (1 := At (E ++ k)).
    destruct v as [w|f]; cbn [outval_text outval_tok outval_ok] in *.
    + eapply firsts_miss.
      { apply sw_fluor_fail. rewrite (std_pre_blanks WSs _ _ Hb5). unfold wire_text. cbn [app].
        rewrite (std_pre_stop WSs) by reflexivity. reflexivity. }
      apply firsts_hit. apply (sw_wire full true _ w _ Hv). cbn beta iota.
      rewrite (std_pre_blanks WSs _ _ Hb5). unfold wire_text. cbn [app]. apply (std_pre_stop WSs); reflexivity.
    + apply firsts_hit. apply (sw_fluor full _ f _ Hv).
      rewrite (std_pre_blanks WSs _ _ Hb5). unfold fluor_text, kw_fluor. cbn [app]. apply (std_pre_stop WSs); reflexivity.
  - reflexivity.
Qed.

(* ---------------------------------------------------------------- seesaw[N, {N,...}, {N|f,...}] *)
Definition kw_seesaw : pstr := [115; 101; 101; 115; 97; 119]%N.
Record ss_stmt := mkSs { ss_n : num; ss_in : nset; ss_out : oset;
                         ss_b1 : pstr; ss_b2 : pstr; ss_b3 : pstr; ss_b4 : pstr; ss_b5 : pstr; ss_b6 : pstr; ss_b7 : pstr }.
Definition ss_ok (s : ss_stmt) : Prop :=
  num_ok (ss_n s) /\ nset_ok (ss_in s) /\ oset_ok (ss_out s) /\
  blanks WSs (ss_b1 s) /\ blanks WSs (ss_b2 s) /\ blanks WSs (ss_b3 s) /\ blanks WSs (ss_b4 s) /\
  blanks WSs (ss_b5 s) /\ blanks WSs (ss_b6 s) /\ blanks WSs (ss_b7 s).
Definition ss_render (s : ss_stmt) : pstr :=
  kw_seesaw ++ ss_b1 s ++ 91%N :: ss_b2 s ++ num_text (ss_n s) ++ ss_b3 s ++ 44%N :: ss_b4 s ++ nset_text (ss_in s) ++
  ss_b5 s ++ 44%N :: ss_b6 s ++ oset_text (ss_out s) ++ ss_b7 s ++ [93%N].
Definition ss_tree (s : ss_stmt) : tok :=
  TList [TStr kw_seesaw; TList [TStr (num_text (ss_n s)); nset_tok (ss_in s); oset_tok (ss_out s)]].

Lemma set_head {elem} (txt : elem -> pstr) (s : eset elem) r : exists z, eset_text elem txt s ++ r = 123%N :: z.
Proof. unfold eset_text. eexists. reflexivity. Qed.

Theorem roundtrip_seesaw s : ss_ok s -> ssw_body_ok (ss_render s) [ss_tree s].
Proof.
  intros (Hn & Hin & Hout & Hb1 & Hb2 & Hb3 & Hb4 & Hb5 & Hb6 & Hb7) full b E k Hb Hk.
  apply (sw_statement full b (ss_render s) E k (At (E ++ k)));
    [exact Hb|unfold ss_render, kw_seesaw; cbn [app]; eexists _, _; split; reflexivity|exact Hk|
     |reflexivity|eexists; reflexivity].
  unfold ss_render, kw_seesaw, num_text. norm_text.
  kwf full 11 12. kwf full 36 37.
  apply firsts_hit.
  eapply (sw_alt_ok full 54 55 _ [115; 101; 101; 115; 97; 119]%N); [slk|slk| |].
  { rewrite (std_pre_stop WSs) by reflexivity. reflexivity. }
  punct full 56 57 91%N Hb1.
  eapply seqs_cons.
  { eapply evals_eq.
    - eapply evals_node_ok; [slk|apply (pre_premise GS full ssw_c WSs ssw_comment_ok); repeat split|].
      unfold pre_pos. cbn [andb ncallpre]. rewrite sspre_blanks_stop by (try exact Hb2; apply sdigit_stop; apply Hn).
      eapply impls_wrap; [reflexivity|reflexivity|].
      eapply evals_node_ok; [slk|cbn; reflexivity|].
      eapply impls_and; [reflexivity|reflexivity| |].
      + eapply (sw_number full false _ (n_d0 (ss_n s)) (n_ds (ss_n s))); [reflexivity|apply Hn|apply Hn|].
        apply snohead_blanks; [vm_compute; reflexivity|exact Hb3|reflexivity].
      + comma full 60 61 Hb3.
        eapply seqs_cons.
        { eapply (sw_nset full _ (ss_in s)); [exact Hin|]. rewrite (std_pre_blanks WSs _ _ Hb4).
          unfold nset_text, eset_text. cbn [app]. apply (std_pre_stop WSs); reflexivity. }
        comma full 74 75 Hb5.
        eapply seqs_cons; [|apply seqs_nil].
        eapply (sw_oset full _ (ss_out s)); [exact Hout|]. rewrite (std_pre_blanks WSs _ _ Hb6).
        unfold oset_text, eset_text. cbn [app]. apply (std_pre_stop WSs); reflexivity.
    - reflexivity. }
  eapply seqs_cons; [|apply seqs_nil].
  eapply (sw_slit full 90 91 [93%N]); [slk|slk|]. apply sspre_blanks_stop; [exact Hb7|reflexivity].
Qed.

(* ---------------------------------------------------------------- inputfanout[N, N, {N,...}] *)
Definition kw_inputfanout : pstr := [105; 110; 112; 117; 116; 102; 97; 110; 111; 117; 116]%N.
Record if_stmt := mkIf { if_n : num; if_m : num; if_in : nset;
                         if_b1 : pstr; if_b2 : pstr; if_b3 : pstr; if_b4 : pstr; if_b5 : pstr; if_b6 : pstr; if_b7 : pstr }.
Definition if_ok (s : if_stmt) : Prop :=
  num_ok (if_n s) /\ num_ok (if_m s) /\ nset_ok (if_in s) /\
  blanks WSs (if_b1 s) /\ blanks WSs (if_b2 s) /\ blanks WSs (if_b3 s) /\ blanks WSs (if_b4 s) /\
  blanks WSs (if_b5 s) /\ blanks WSs (if_b6 s) /\ blanks WSs (if_b7 s).
Definition if_render (s : if_stmt) : pstr :=
  kw_inputfanout ++ if_b1 s ++ 91%N :: if_b2 s ++ num_text (if_n s) ++ if_b3 s ++ 44%N :: if_b4 s ++ num_text (if_m s) ++
  if_b5 s ++ 44%N :: if_b6 s ++ nset_text (if_in s) ++ if_b7 s ++ [93%N].
Definition if_tree (s : if_stmt) : tok :=
  TList [TStr kw_inputfanout; TList [TStr (num_text (if_n s)); TStr (num_text (if_m s)); nset_tok (if_in s)]].

Theorem roundtrip_inputfanout s : if_ok s -> ssw_body_ok (if_render s) [if_tree s].
Proof.
  intros (Hn & Hm & Hin & Hb1 & Hb2 & Hb3 & Hb4 & Hb5 & Hb6 & Hb7) full b E k Hb Hk.
  apply (sw_statement full b (if_render s) E k (At (E ++ k)));
    [exact Hb|unfold if_render, kw_inputfanout; cbn [app]; eexists _, _; split; reflexivity|exact Hk|
     |reflexivity|eexists; reflexivity].
  unfold if_render, kw_inputfanout, num_text. norm_text.
  kwf full 11 12. kwf full 36 37. kwf full 54 55. kwf full 92 93. kwf full 125 126. kwf full 156 157. kwf full 187 188.
  apply firsts_hit.
  eapply (sw_alt_ok full 197 198 _ [105; 110; 112; 117; 116; 102; 97; 110; 111; 117; 116]%N); [slk|slk| |].
  { rewrite (std_pre_stop WSs) by reflexivity. reflexivity. }
  punct full 199 200 91%N Hb1.
  eapply seqs_cons.
  { eapply evals_eq.
    - eapply evals_node_ok; [slk|apply (pre_premise GS full ssw_c WSs ssw_comment_ok); repeat split|].
      unfold pre_pos. cbn [andb ncallpre]. rewrite sspre_blanks_stop by (try exact Hb2; apply sdigit_stop; apply Hn).
      eapply impls_wrap; [reflexivity|reflexivity|].
      eapply evals_node_ok; [slk|cbn; reflexivity|].
      eapply impls_and; [reflexivity|reflexivity| |].
      + eapply (sw_number full false _ (n_d0 (if_n s)) (n_ds (if_n s))); [reflexivity|apply Hn|apply Hn|].
        apply snohead_blanks; [vm_compute; reflexivity|exact Hb3|reflexivity].
      + comma full 203 204 Hb3.
        numarg full (if_m s) Hb4 Hm.
        { apply snohead_blanks; [vm_compute; reflexivity|exact Hb5|reflexivity]. }
        comma full 205 206 Hb5.
        eapply seqs_cons; [|apply seqs_nil].
        eapply (sw_nset full _ (if_in s)); [exact Hin|]. rewrite (std_pre_blanks WSs _ _ Hb6).
        unfold nset_text, eset_text. cbn [app]. apply (std_pre_stop WSs); reflexivity.
    - reflexivity. }
  eapply seqs_cons; [|apply seqs_nil].
  eapply (sw_slit full 207 208 [93%N]); [slk|slk|]. apply sspre_blanks_stop; [exact Hb7|reflexivity].
Qed.

(* ---------------------------------------------------------------- seesawOR / seesawAND [N, N, {..}, {..}] *)
Inductive lgkw := KwOR | KwAND.
Definition lgkw_text (k : lgkw) : pstr :=
  match k with KwOR => [115; 101; 101; 115; 97; 119; 79; 82] | KwAND => [115; 101; 101; 115; 97; 119; 65; 78; 68] end%N.
Record lg_stmt := mkLg { lg_kw : lgkw; lg_n : num; lg_m : num; lg_in1 : nset; lg_in2 : nset;
                         lg_b1 : pstr; lg_b2 : pstr; lg_b3 : pstr; lg_b4 : pstr; lg_b5 : pstr; lg_b6 : pstr;
                         lg_b7 : pstr; lg_b8 : pstr; lg_b9 : pstr }.
Definition lg_ok (s : lg_stmt) : Prop :=
  num_ok (lg_n s) /\ num_ok (lg_m s) /\ nset_ok (lg_in1 s) /\ nset_ok (lg_in2 s) /\
  blanks WSs (lg_b1 s) /\ blanks WSs (lg_b2 s) /\ blanks WSs (lg_b3 s) /\ blanks WSs (lg_b4 s) /\
  blanks WSs (lg_b5 s) /\ blanks WSs (lg_b6 s) /\ blanks WSs (lg_b7 s) /\ blanks WSs (lg_b8 s) /\ blanks WSs (lg_b9 s).
Definition lg_args_text (s : lg_stmt) (r : pstr) : pstr :=
  lg_b1 s ++ 91%N :: lg_b2 s ++ num_text (lg_n s) ++ lg_b3 s ++ 44%N :: lg_b4 s ++ num_text (lg_m s) ++
  lg_b5 s ++ 44%N :: lg_b6 s ++ nset_text (lg_in1 s) ++ lg_b7 s ++ 44%N :: lg_b8 s ++ nset_text (lg_in2 s) ++ lg_b9 s ++ 93%N :: r.
Definition lg_render (s : lg_stmt) : pstr := lgkw_text (lg_kw s) ++ lg_args_text s [].
Definition lg_tree (s : lg_stmt) : tok :=
  TList [TStr (lgkw_text (lg_kw s));
         TList [TStr (num_text (lg_n s)); TStr (num_text (lg_m s)); nset_tok (lg_in1 s); nset_tok (lg_in2 s)]].

Lemma seqs_eq full ks p acc r r' : seqs GS full ks p acc r' -> r' = r -> seqs GS full ks p acc r.
Proof. intros H <-. exact H. Qed.

Lemma seqs_lg_args full so lo gr ga c1 l1 c2 l2 c3 l3 scl lcl s r acc :
  nth_error GS so = Some (mkNode KSuppress [lo] true WSs [ssw_c] true []) ->
  nth_error GS lo = Some (mkNode (KLit [91%N]) [] true WSs [ssw_c] true []) ->
  nth_error GS gr = Some (mkNode KGroup [ga] true WSs [ssw_c] true []) ->
  nth_error GS ga = Some (mkNode KAnd [17; c1; 17; c2; 62; c3; 62] true WSs [ssw_c] true []) ->
  nth_error GS c1 = Some (mkNode KSuppress [l1] true WSs [ssw_c] true []) ->
  nth_error GS l1 = Some (mkNode (KLit [44%N]) [] true WSs [ssw_c] true []) ->
  nth_error GS c2 = Some (mkNode KSuppress [l2] true WSs [ssw_c] true []) ->
  nth_error GS l2 = Some (mkNode (KLit [44%N]) [] true WSs [ssw_c] true []) ->
  nth_error GS c3 = Some (mkNode KSuppress [l3] true WSs [ssw_c] true []) ->
  nth_error GS l3 = Some (mkNode (KLit [44%N]) [] true WSs [ssw_c] true []) ->
  nth_error GS scl = Some (mkNode KSuppress [lcl] true WSs [ssw_c] true []) ->
  nth_error GS lcl = Some (mkNode (KLit [93%N]) [] true WSs [ssw_c] true []) ->
  lg_ok s ->
  seqs GS full [so; gr; scl] (At (lg_args_text s r)) acc
    (POk (At r) (acc ++ [TList [TStr (num_text (lg_n s)); TStr (num_text (lg_m s)); nset_tok (lg_in1 s); nset_tok (lg_in2 s)]])).
Proof.
  intros Hso Hlo Hgr Hga Hc1 Hl1 Hc2 Hl2 Hc3 Hl3 Hscl Hlcl
    (Hn & Hm & Hi1 & Hi2 & Hb1 & Hb2 & Hb3 & Hb4 & Hb5 & Hb6 & Hb7 & Hb8 & Hb9).
  unfold lg_args_text, num_text. norm_text.
  eapply seqs_eq.
  eapply seqs_cons.
  { eapply (sw_slit full so lo [91%N]); [exact Hso|exact Hlo|]. apply sspre_blanks_stop; [exact Hb1|reflexivity]. }
  eapply seqs_cons.
  { eapply evals_eq.
    - eapply evals_node_ok; [exact Hgr|apply (pre_premise GS full ssw_c WSs ssw_comment_ok); repeat split|].
      unfold pre_pos. cbn [andb ncallpre]. rewrite sspre_blanks_stop by (try exact Hb2; apply sdigit_stop; apply Hn).
      eapply impls_wrap; [reflexivity|reflexivity|].
      eapply evals_node_ok; [exact Hga|cbn; reflexivity|].
      eapply impls_and; [reflexivity|reflexivity| |].
      + eapply (sw_number full false _ (n_d0 (lg_n s)) (n_ds (lg_n s))); [reflexivity|apply Hn|apply Hn|].
        apply snohead_blanks; [vm_compute; reflexivity|exact Hb3|reflexivity].
      + eapply seqs_cons.
        { eapply (sw_slit full c1 l1 [44%N]); [exact Hc1|exact Hl1|]. apply sspre_blanks_stop; [exact Hb3|reflexivity]. }
        numarg full (lg_m s) Hb4 Hm.
        { apply snohead_blanks; [vm_compute; reflexivity|exact Hb5|reflexivity]. }
        eapply seqs_cons.
        { eapply (sw_slit full c2 l2 [44%N]); [exact Hc2|exact Hl2|]. apply sspre_blanks_stop; [exact Hb5|reflexivity]. }
        eapply seqs_cons.
        { eapply (sw_nset full _ (lg_in1 s)); [exact Hi1|]. rewrite (std_pre_blanks WSs _ _ Hb6).
          unfold nset_text, eset_text. cbn [app]. apply (std_pre_stop WSs); reflexivity. }
        eapply seqs_cons.
        { eapply (sw_slit full c3 l3 [44%N]); [exact Hc3|exact Hl3|]. apply sspre_blanks_stop; [exact Hb7|reflexivity]. }
        eapply seqs_cons; [|apply seqs_nil].
        eapply (sw_nset full _ (lg_in2 s)); [exact Hi2|]. rewrite (std_pre_blanks WSs _ _ Hb8).
        unfold nset_text, eset_text. cbn [app]. apply (std_pre_stop WSs); reflexivity.
    - reflexivity. }
  eapply seqs_cons; [|apply seqs_nil].
  eapply (sw_slit full scl lcl [93%N]); [exact Hscl|exact Hlcl|]. apply sspre_blanks_stop; [exact Hb9|reflexivity].
  cbn. rewrite ?app_nil_r. reflexivity.
Qed.

Theorem roundtrip_logic_gate s : lg_ok s -> ssw_body_ok (lg_render s) [lg_tree s].
Proof.
  intros Hs full b E k Hb Hk.
  apply (sw_statement full b (lg_render s) E k (At (E ++ k)));
    [exact Hb|unfold lg_render; destruct (lg_kw s); cbn [lgkw_text app]; eexists _, _; split; reflexivity|exact Hk|
     |reflexivity|eexists; reflexivity].
  unfold lg_render. rewrite <- app_assoc.
  assert (EA : lg_args_text s [] ++ E ++ k = lg_args_text s (E ++ k)) by (unfold lg_args_text; norm_text; reflexivity).
  rewrite EA. clear EA.
  assert (Hopen : nohead [91%N] (sspre (79%N :: 82%N :: lg_args_text s (E ++ k))) /\
                  nohead [91%N] (sspre (65%N :: 78%N :: 68%N :: lg_args_text s (E ++ k)))).
  { split; rewrite (std_pre_stop WSs) by reflexivity; reflexivity. }
  destruct (lg_kw s) eqn:Ekw; cbn [lgkw_text app].
  - kwf full 11 12. kwf full 36 37.
    eapply firsts_miss.
    { eapply (sw_alt_late_fail full 54 55 _ [115; 101; 101; 115; 97; 119]%N); [slk|slk| |].
      { rewrite (std_pre_stop WSs) by reflexivity. reflexivity. }
      apply seqs_fail. eapply (sw_slit_fail full 56 57 91%N []); [slk|slk|apply Hopen]. }
    kwf full 92 93. kwf full 125 126. kwf full 156 157. kwf full 187 188. kwf full 197 198.
    apply firsts_hit.
    eapply (sw_alt_ok full 209 210 _ [115; 101; 101; 115; 97; 119; 79; 82]%N); [slk|slk| |].
    { rewrite (std_pre_stop WSs) by reflexivity. reflexivity. }
    apply (seqs_lg_args full 211 212 213 214 215 216 217 218 219 220 221 222 s (E ++ k)); try slk. exact Hs.
  - kwf full 11 12. kwf full 36 37.
    eapply firsts_miss.
    { eapply (sw_alt_late_fail full 54 55 _ [115; 101; 101; 115; 97; 119]%N); [slk|slk| |].
      { rewrite (std_pre_stop WSs) by reflexivity. reflexivity. }
      apply seqs_fail. eapply (sw_slit_fail full 56 57 91%N []); [slk|slk|apply Hopen]. }
    kwf full 92 93. kwf full 125 126. kwf full 156 157. kwf full 187 188. kwf full 197 198. kwf full 209 210.
    apply firsts_hit.
    eapply (sw_alt_ok full 223 224 _ [115; 101; 101; 115; 97; 119; 65; 78; 68]%N); [slk|slk| |].
    { rewrite (std_pre_stop WSs) by reflexivity. reflexivity. }
    apply (seqs_lg_args full 225 226 227 228 229 230 231 232 233 234 235 236 s (E ++ k)); try slk. exact Hs.
Qed.

(* ---------------------------------------------------------------- conc[wire | g[..] | th[..], NUMBER*c] *)
Definition kw_conc : pstr := [99; 111; 110; 99]%N.
Definition kw_g : pstr := [103%N].
Definition kw_th : pstr := [116; 104]%N.
Inductive ctarget := TWire (w : wire) | TGate (t : gate) | TTh (t : gate).
Definition ctarget_ok (t : ctarget) : Prop :=
  match t with TWire w => wire_ok w | TGate t | TTh t => gate_ok t end.
Definition ctarget_text (t : ctarget) : pstr :=
  match t with TWire w => wire_text w | TGate t => gate_text kw_g t | TTh t => gate_text kw_th t end.
Definition ctarget_tok (t : ctarget) : tok :=
  match t with TWire w => wire_tree w | TGate t => gate_tok kw_g t | TTh t => gate_tok kw_th t end.
Record cc_layout := mkCcLayout { cc_b1 : pstr; cc_b2 : pstr; cc_b3 : pstr; cc_b4 : pstr; cc_b5 : pstr }.
Definition cc_layout_ok (y : cc_layout) : Prop :=
  blanks WSs (cc_b1 y) /\ blanks WSs (cc_b2 y) /\ blanks WSs (cc_b3 y) /\ blanks WSs (cc_b4 y) /\ blanks WSs (cc_b5 y).
Definition cc_render (t : ctarget) (q : sconc) (y : cc_layout) : pstr :=
  kw_conc ++ cc_b1 y ++ 91%N :: cc_b2 y ++ ctarget_text t ++ cc_b3 y ++ 44%N :: cc_b4 y ++ sconc_text q ++ cc_b5 y ++ [93%N].
Definition cc_tree (t : ctarget) (q : sconc) : tok :=
  TList [TStr kw_conc; ctarget_tok t; TStr (gnum_text (sc_n q))].

(* , NUMBER * c ] *)
Lemma seqs_conc_tail full cm lcm cl lcl q y r acc :
  nth_error GS cm = Some (mkNode KSuppress [lcm] true WSs [ssw_c] true []) ->
  nth_error GS lcm = Some (mkNode (KLit [44%N]) [] true WSs [ssw_c] true []) ->
  nth_error GS cl = Some (mkNode KSuppress [lcl] true WSs [ssw_c] true []) ->
  nth_error GS lcl = Some (mkNode (KLit [93%N]) [] true WSs [ssw_c] true []) ->
  sconc_ok q -> cc_layout_ok y ->
  seqs GS full [cm; 98; 119; cl] (At (cc_b3 y ++ 44%N :: cc_b4 y ++ sconc_text q ++ cc_b5 y ++ 93%N :: r)) acc
    (POk (At r) (acc ++ [TStr (gnum_text (sc_n q))])).
Proof.
  intros Hcm Hlcm Hcl Hlcl Hq (Hb1 & Hb2 & Hb3 & Hb4 & Hb5).
  eapply seqs_eq.
  eapply seqs_cons.
  { eapply (sw_slit full cm lcm [44%N]); [exact Hcm|exact Hlcm|]. apply sspre_blanks_stop; [exact Hb3|reflexivity]. }
  apply (seqs_sconc full (cc_b4 y) q (cc_b5 y ++ 93%N :: r) [cl]); [exact Hb4|exact Hq|].
  eapply seqs_cons; [|apply seqs_nil].
  eapply (sw_slit full cl lcl [93%N]); [exact Hcl|exact Hlcl|]. apply sspre_blanks_stop; [exact Hb5|reflexivity].
  cbn. rewrite ?app_nil_r. reflexivity.
Qed.

Lemma gate_text_head kw t r : exists z, gate_text kw t ++ r = kw ++ z.
Proof. unfold gate_text. eexists. rewrite <- app_assoc. reflexivity. Qed.

Theorem roundtrip_conc t q y : ctarget_ok t -> sconc_ok q -> cc_layout_ok y ->
  ssw_body_ok (cc_render t q y) [cc_tree t q].
Proof.
  intros Ht Hq Hy full b E k Hb Hk. pose proof Hy as (Hb1 & Hb2 & Hb3 & Hb4 & Hb5).
  apply (sw_statement full b (cc_render t q y) E k (At (E ++ k)));
    [exact Hb|unfold cc_render, kw_conc; cbn [app]; eexists _, _; split; reflexivity|exact Hk|
     |reflexivity|eexists; reflexivity].
  unfold cc_render, kw_conc. norm_text. cbn [app].
  set (TL := cc_b3 y ++ 44%N :: cc_b4 y ++ sconc_text q ++ cc_b5 y ++ 93%N :: E ++ k).
  kwf full 11 12. kwf full 36 37. kwf full 54 55.
  destruct t as [w|t|t]; cbn [ctarget_text ctarget_tok ctarget_ok] in *.
  - (* a wire *)
    apply firsts_hit.
    eapply (sw_alt_ok full 92 93 _ [99; 111; 110; 99]%N); [slk|slk| |].
    { rewrite (std_pre_stop WSs) by reflexivity. reflexivity. }
    punct full 94 95 91%N Hb1.
    eapply seqs_cons.
    { eapply (sw_wire full true _ w); [exact Ht|]. cbn beta iota. rewrite (std_pre_blanks WSs _ _ Hb2).
      unfold wire_text. cbn [app]. apply (std_pre_stop WSs); reflexivity. }
    eapply seqs_eq; [apply (seqs_conc_tail full 96 97 123 124 q y (E ++ k)); try slk; assumption|reflexivity].
  - (* a gate *)
    destruct (gate_text_head kw_g t TL) as (z & Ez).
    eapply firsts_miss.
    { eapply (sw_alt_late_fail full 92 93 _ [99; 111; 110; 99]%N); [slk|slk| |].
      { rewrite (std_pre_stop WSs) by reflexivity. reflexivity. }
      punct full 94 95 91%N Hb1.
      apply seqs_fail. apply sw_wire_fail. unfold gate_text, kw_g, kw_th. cbn [app].
      rewrite sspre_blanks_stop by (try exact Hb2; reflexivity). reflexivity. }
    apply firsts_hit.
    eapply (sw_alt_ok full 125 126 _ [99; 111; 110; 99]%N); [slk|slk| |].
    { rewrite (std_pre_stop WSs) by reflexivity. reflexivity. }
    punct full 127 128 91%N Hb1.
    eapply seqs_cons.
    { eapply evals_eq.
      - eapply evals_node_ok; [slk|cbn; reflexivity|]. apply impls_first; [reflexivity|]. cbn [nkids].
        instantiate (1 := [gate_tok kw_g t]). instantiate (1 := At TL).
        destruct (gt_wire_first t) eqn:Ewf.
        + apply firsts_hit.
          eapply (sw_gate_wn kw_g 130 131 132 133 134 135 136 23 137 138 17 139 140); try slk; try reflexivity; try assumption.
          (etransitivity; [apply (std_pre_blanks WSs _ _ Hb2)|]; unfold gate_text, kw_g, kw_th; cbn [app]; rewrite ?Ewf; rewrite (std_pre_stop WSs) by reflexivity; reflexivity).
        + eapply firsts_miss.
          { eapply (sw_gate_wn_fail kw_g 130 131 132 133 134 135 136 23 137 17 139); try slk; try reflexivity; try eassumption.
            (etransitivity; [apply (std_pre_blanks WSs _ _ Hb2)|]; unfold gate_text, kw_g, kw_th; cbn [app]; rewrite ?Ewf; rewrite (std_pre_stop WSs) by reflexivity; reflexivity). }
          apply firsts_hit.
          eapply (sw_gate_nw kw_g 141 142 143 144 145 146 147 17 148 149 23 150 151); try slk; try reflexivity; try assumption.
          (etransitivity; [apply (std_pre_blanks WSs _ _ Hb2)|]; unfold gate_text, kw_g, kw_th; cbn [app]; rewrite ?Ewf; rewrite (std_pre_stop WSs) by reflexivity; reflexivity).
      - reflexivity. }
    eapply seqs_eq; [apply (seqs_conc_tail full 152 153 154 155 q y (E ++ k)); try slk; assumption|reflexivity].
  - (* a threshold *)
    destruct (gate_text_head kw_th t TL) as (z & Ez).
    eapply firsts_miss.
    { eapply (sw_alt_late_fail full 92 93 _ [99; 111; 110; 99]%N); [slk|slk| |].
      { rewrite (std_pre_stop WSs) by reflexivity. reflexivity. }
      punct full 94 95 91%N Hb1.
      apply seqs_fail. apply sw_wire_fail. unfold gate_text, kw_g, kw_th. cbn [app].
      rewrite sspre_blanks_stop by (try exact Hb2; reflexivity). reflexivity. }
    eapply firsts_miss.
    { eapply (sw_alt_late_fail full 125 126 _ [99; 111; 110; 99]%N); [slk|slk| |].
      { rewrite (std_pre_stop WSs) by reflexivity. reflexivity. }
      punct full 127 128 91%N Hb1.
      apply seqs_fail.
      eapply evals_node_fail; [slk|cbn; reflexivity|]. apply impls_first; [reflexivity|]. cbn [nkids].
      eapply firsts_miss.
      { eapply (sw_gate_kw_fail kw_g 130 131 132 133 135 139); try slk.
        unfold gate_text, kw_th. cbn [app]. rewrite sspre_blanks_stop by (try exact Hb2; reflexivity). reflexivity. }
      eapply firsts_miss; [|apply firsts_nil].
      eapply (sw_gate_kw_fail kw_g 141 142 143 144 146 150); try slk.
      unfold gate_text, kw_th. cbn [app]. rewrite sspre_blanks_stop by (try exact Hb2; reflexivity). reflexivity. }
    apply firsts_hit.
    eapply (sw_alt_ok full 156 157 _ [99; 111; 110; 99]%N); [slk|slk| |].
    { rewrite (std_pre_stop WSs) by reflexivity. reflexivity. }
    punct full 158 159 91%N Hb1.
    eapply seqs_cons.
    { eapply evals_eq.
      - eapply evals_node_ok; [slk|cbn; reflexivity|]. apply impls_first; [reflexivity|]. cbn [nkids].
        instantiate (1 := [gate_tok kw_th t]). instantiate (1 := At TL).
        destruct (gt_wire_first t) eqn:Ewf.
        + apply firsts_hit.
          eapply (sw_gate_wn kw_th 161 162 163 164 165 166 167 23 168 169 17 170 171); try slk; try reflexivity; try assumption.
          (etransitivity; [apply (std_pre_blanks WSs _ _ Hb2)|]; unfold gate_text, kw_g, kw_th; cbn [app]; rewrite ?Ewf; rewrite (std_pre_stop WSs) by reflexivity; reflexivity).
        + eapply firsts_miss.
          { eapply (sw_gate_wn_fail kw_th 161 162 163 164 165 166 167 23 168 17 170); try slk; try reflexivity; try eassumption.
            (etransitivity; [apply (std_pre_blanks WSs _ _ Hb2)|]; unfold gate_text, kw_g, kw_th; cbn [app]; rewrite ?Ewf; rewrite (std_pre_stop WSs) by reflexivity; reflexivity). }
          apply firsts_hit.
          eapply (sw_gate_nw kw_th 172 173 174 175 176 177 178 17 179 180 23 181 182); try slk; try reflexivity; try assumption.
          (etransitivity; [apply (std_pre_blanks WSs _ _ Hb2)|]; unfold gate_text, kw_g, kw_th; cbn [app]; rewrite ?Ewf; rewrite (std_pre_stop WSs) by reflexivity; reflexivity).
      - reflexivity. }
    eapply seqs_eq; [apply (seqs_conc_tail full 183 184 185 186 q y (E ++ k)); try slk; assumption|reflexivity].
Qed.
