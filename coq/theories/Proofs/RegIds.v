(* Counters (the class attribute ID): they move only when an automatically named object is
   constructed, i.e. on `Created` or on a user constructor failing after super().__init__. *)
From Coq Require Import List NArith ZArith Bool Arith Lia.
From DSD Require Import Base.Str Base.Errors Model.ComplexUtils Model.RegStr Model.Heap Model.Registry
  Proofs.RegHeap Proofs.RegInv Proofs.RegCalls Proofs.RegExt Proofs.RegC04 Proofs.RegStep.
Import ListNotations.

Definition IdsSame (st s : state) : Prop := forall b, cs_id (cget s b) = cs_id (cget st b).

Lemma ids_refl st : IdsSame st st. Proof. intros b. reflexivity. Qed.
Lemma ids_trans st s1 s2 : IdsSame st s1 -> IdsSame s1 s2 -> IdsSame st s2.
Proof. intros A B b. rewrite (B b). apply A. Qed.
Lemma ids_collect st : IdsSame st (collect st).
Proof. intros b. rewrite cget_collect. reflexivity. Qed.

(* the outcome does not involve a constructed object *)
Definition quiet (r : cout) : Prop :=
  match r with
  | CRet _ created => created = false
  | CErr k _ => k <> eUserFail
  end.

Lemma ids_cput_same st c cs : cs_id cs = cs_id (cget st c) -> IdsSame st (cput st c cs).
Proof.
  intros E b. destruct (Nat.eq_dec c b) as [<-|D].
  - destruct (Nat.lt_ge_cases c (length (classes st))) as [L|L].
    + rewrite cget_cput_same by exact L. exact E.
    + unfold cget, cput. cbn. rewrite upd_oob by exact L. reflexivity.
  - rewrite cget_cput_other by exact D. reflexivity.
Qed.

Lemma ids_create ct st c auto name k extra children d :
  (auto = false \/ quiet (snd (create ct st c auto name k extra children d))) ->
  IdsSame st (fst (create ct st c auto name k extra children d)).
Proof.
  unfold create. destruct (nth_error ct c) as [ci|]; [|intros _; apply ids_refl].
  destruct (c_fail ci) eqn:Ef; unfold alloc; cbn [fst snd quiet].
  - intros [->|Q]; [|discriminate]. unfold register. apply (ids_cput_same (mkState _ _ _)). reflexivity.
  - intros _. apply ids_refl.
  - intros [->|Q]; [|exfalso; apply Q; reflexivity].
    eapply ids_trans; [|apply ids_collect]. unfold register_extra. apply (ids_cput_same (mkState _ _ _)). reflexivity.
Qed.

Lemma ids_tail ct st c nm k auto extra children d :
  let r := match sing_lookup (cget st c) nm (Some k) with
           | LFound o => (st, CRet o false)
           | LRaise e => (st, CErr eSingleton e)
           | LFresh => create ct st c auto nm k extra children d
           end in
  (auto = false \/ quiet (snd r)) -> IdsSame st (fst r).
Proof. cbn zeta. destruct (sing_lookup _ _ _); try (intros _; apply ids_refl). apply ids_create. Qed.

Definition RecIds (rec : state -> pstr -> option Z -> state * cout) : Prop :=
  forall st n l, IdsSame st (fst (rec st n l)).

Lemma ids_dom_nested rec st nm len1 : RecIds rec -> IdsSame st (fst (dom_nested rec st nm len1)).
Proof.
  intros HR. unfold dom_nested.
  assert (T : forall s, IdsSame st s -> IdsSame st (collect s)) by (intros s O; eapply ids_trans; [exact O | apply ids_collect]).
  destruct len1 as [l|], (starred nm); try apply ids_refl.
  - pose proof (HR st (cname_of nm) None) as O1.
    destruct (rec st (cname_of nm) None) as [s1 r]. cbn [fst] in O1. destruct r as [o b|k e].
    + destruct (obj_length (heap s1) o); [destruct (Z.eqb a l)|]; cbn [fst]; auto.
    + destruct (is_singleton_err k); cbn [fst]; auto.
  - pose proof (HR st (cname_of nm) None) as O1.
    destruct (rec st (cname_of nm) None) as [s1 r]. cbn [fst] in O1. destruct r as [o b|k e].
    + destruct (obj_length (heap s1) o); cbn [fst]; auto.
      pose proof (HR (collect s1) (cname_of nm) (Some l)) as O2.
      destruct (rec (collect s1) (cname_of nm) (Some l)) as [s2 r2]. cbn [fst] in O2.
      assert (O2' : IdsSame st s2) by (eapply ids_trans; [apply T; exact O1 | exact O2]).
      destruct r2 as [o2 b2|k2 e2]; cbn [fst]; auto.
      destruct (is_singleton_err k2); cbn [fst]; auto.
    + destruct (is_singleton_err k); cbn [fst]; auto.
  - pose proof (HR st (cname_of nm) None) as O1.
    destruct (rec st (cname_of nm) None) as [s1 r]. cbn [fst] in O1. destruct r as [o b|k e].
    + destruct (obj_length (heap s1) o); cbn [fst]; auto.
    + destruct (is_singleton_err k); cbn [fst]; auto.
Qed.

Lemma ids_dom_body ct c rec st name len prefix dtype :
  RecIds rec ->
  (name <> None \/ quiet (snd (dom_body rec ct c st name len prefix dtype))) ->
  IdsSame st (fst (dom_body rec ct c st name len prefix dtype)).
Proof.
  intros HR. unfold dom_body. destruct (nth_error ct c); [|intros _; apply ids_refl].
  destruct (resolve_name _ _ _ _ _ _) as [nm|]; [|intros _; apply ids_refl].
  destruct (dom_len1 _ _ _) as [len1|]; [|intros _; apply ids_refl]. destruct (negb _); [intros _; apply ids_refl|].
  pose proof (ids_dom_nested rec st nm len1 HR) as O1.
  destruct (dom_nested rec st nm len1) as [st1 rl]. cbn [fst] in *. destruct rl as [len2|]; [|intros _; exact O1].
  intros Q. eapply ids_trans; [exact O1|]. unfold dom_finish in *. destruct len2 as [l|]; cbn [option_map] in *.
  - apply ids_tail. destruct Q as [Q|Q]; [left; destruct name; [reflexivity | congruence] | right; exact Q].
  - destruct (sing_lookup _ _ _); apply ids_refl.
Qed.

Theorem ids_dom_call fuel ct c st name len prefix dtype :
  (name <> None \/ quiet (snd (dom_call fuel ct c st name len prefix dtype))) ->
  IdsSame st (fst (dom_call fuel ct c st name len prefix dtype)).
Proof.
  revert st name len prefix dtype. induction fuel as [|f IH]; intros st name len prefix dtype Q; [apply ids_refl|].
  cbn [dom_call] in *. apply ids_dom_body; [|exact Q]. intros st' n l. apply IH. left. discriminate.
Qed.

Theorem ids_cplx_call ct c st seq sst name prefix :
  quiet (snd (cplx_call ct c st seq sst name prefix)) -> IdsSame st (fst (cplx_call ct c st seq sst name prefix)).
Proof.
  unfold cplx_call. destruct (nth_error ct c); [|intros _; apply ids_refl]. destruct seq as [es|].
  - destruct (resolve_name _ _ _ _ _ _); [|intros _; apply ids_refl]. destruct sst; [|intros _; apply ids_refl].
    destruct (negb _); [intros _; apply ids_refl|]. destruct (Nat.eqb _ 0); [intros _; apply ids_refl|].
    destruct (rot_loop _ _ _ _ _ _) as [[ex cdict]|]; [|intros _; apply ids_refl].
    match goal with |- quiet (snd (match ?y with _ => _ end)) -> _ => destruct y as [[cn e]|] end; [|intros _; apply ids_refl].
    intros Q. apply ids_tail. right. exact Q.
  - destruct name; [|intros _; apply ids_refl]. destruct (sing_lookup _ _ _); intros _; apply ids_refl.
Qed.

Theorem ids_strand_call ct c st seq name prefix :
  quiet (snd (strand_call ct c st seq name prefix)) -> IdsSame st (fst (strand_call ct c st seq name prefix)).
Proof.
  unfold strand_call. destruct (nth_error ct c); [|intros _; apply ids_refl]. destruct seq as [es|].
  - destruct (existsb _ _); [intros _; apply ids_refl|]. destruct (resolve_name _ _ _ _ _ _); [|intros _; apply ids_refl].
    intros Q. apply ids_tail. right. exact Q.
  - destruct name; [|intros _; apply ids_refl]. destruct (sing_lookup _ _ _); intros _; apply ids_refl.
Qed.

(* macrostates and reactions have no counter: never a change *)
Theorem ids_macro_call ct c st members name : IdsSame st (fst (macro_call ct c st members name)).
Proof.
  unfold macro_call. destruct members as [ms|].
  - destruct (omap' _ ms); [|apply ids_refl].
    match goal with |- IdsSame _ (fst (match ?y with _ => _ end)) => destruct y as [nm|] end; [|apply ids_refl].
    destruct (find _ ms); [apply ids_tail; left; reflexivity | destruct (sing_lookup _ _ _); apply ids_refl].
  - destruct name; [|apply ids_refl]. destruct (sing_lookup _ _ _); apply ids_refl.
Qed.

Theorem ids_reaction_call ct c st rp rtype name : IdsSame st (fst (reaction_call ct c st rp rtype name)).
Proof.
  unfold reaction_call. destruct rp as [[rs ps]|].
  - destruct (omap' _ rs); [|apply ids_refl]. destruct (omap' _ ps); [|apply ids_refl].
    match goal with |- IdsSame _ (fst (if ?b then _ else _)) => destruct b end; [apply ids_refl|].
    apply ids_tail. left. reflexivity.
  - destruct name; [|apply ids_refl]. destruct rtype; [apply ids_refl|]. destruct (sing_lookup _ _ _); apply ids_refl.
Qed.

Lemma ids_finish dst r : IdsSame (fst r) (fst (finish dst r)).
Proof.
  unfold finish. destruct (snd r); cbn [fst]; intros b; rewrite cget_collect; reflexivity.
Qed.

Lemma finish_quiet dst r st' out :
  finish dst r = (st', out) -> (forall id, out <> Created id) -> (forall e, out <> Raised eUserFail e) -> quiet (snd r).
Proof.
  unfold finish. destruct (snd r) as [id b|k e]; cbn [quiet].
  - destruct b; intros E; injection E as _ <-; intros H _; [exfalso; eapply H; reflexivity | reflexivity].
  - intros E; injection E as _ <-. intros _ H ->. eapply H. reflexivity.
Qed.

(* (e) at the level of operations: unless the outcome is `Created` or a failing user constructor,
   no counter of any class moves *)
Theorem counters_step ct st o st' out :
  step ct st o = (st', out) -> (forall id, out <> Created id) -> (forall e, out <> Raised eUserFail e) ->
  IdsSame st st'.
Proof.
  intros E H1 H2. assert (Es : st' = fst (step ct st o)) by (rewrite E; reflexivity). subst st'.
  revert E. destruct o; cbn [step].
  - destruct (kind_is ct cls KindD); [|intros _; apply ids_refl]. intros E.
    eapply ids_trans; [|apply (ids_finish dst _)].
    apply ids_dom_call. right. eapply finish_quiet; eauto.
  - destruct (kind_is ct cls KindC); [|intros _; apply ids_refl]. destruct (resolve_elems st seq) as [es|]; [|intros _; apply ids_refl].
    intros E. eapply ids_trans; [|apply (ids_finish dst _)]. apply ids_cplx_call. eapply finish_quiet; eauto.
  - destruct (kind_is ct cls KindS); [|intros _; apply ids_refl]. destruct (resolve_elems st seq) as [es|]; [|intros _; apply ids_refl].
    intros E. eapply ids_trans; [|apply (ids_finish dst _)]. apply ids_strand_call. eapply finish_quiet; eauto.
  - destruct (kind_is ct cls KindM); [|intros _; apply ids_refl].
    destruct members as [l|]; [destruct (resolve_slots st l); [|intros _; apply ids_refl]|];
      intros E; (eapply ids_trans; [|apply (ids_finish dst _)]); apply ids_macro_call.
  - destruct (kind_is ct cls KindR); [|intros _; apply ids_refl]. destruct rp as [[r p]|].
    + destruct (resolve_slots st r); [|intros _; apply ids_refl]. destruct (resolve_slots st p); [|intros _; apply ids_refl].
      intros E; (eapply ids_trans; [|apply (ids_finish dst _)]); apply ids_reaction_call.
    + intros E; (eapply ids_trans; [|apply (ids_finish dst _)]); apply ids_reaction_call.
  - destruct (get_root st src) as [i|]; [|intros _; apply ids_refl].
    destruct (hget (heap st) i) as [ob|] eqn:Eo; [|intros _; apply ids_refl].
    destruct (o_data ob) eqn:Ed; try (intros _; apply ids_refl). intros E.
    eapply ids_trans; [|apply (ids_finish dst _)]. unfold dom_complement. rewrite Eo, Ed.
    apply ids_dom_call. left. discriminate.
  - intros _. cbn [fst]. intros b. rewrite cget_collect. reflexivity.
  - destruct (get_root st slot) as [i|]; [|intros _; apply ids_refl]. destruct (hget (heap st) i) as [ob|]; [|intros _; apply ids_refl].
    destruct (query_obj ct (heap st) ob q); intros _; apply ids_refl.
  - destruct (get_root st slot) as [i|]; [|intros _; apply ids_refl]. destruct (hget (heap st) i) as [ob|] eqn:Eo; [|intros _; apply ids_refl].
    assert (T : IdsSame st (fst (set_turns st i v))).
    { unfold set_turns. rewrite Eo. destruct (o_data ob); try apply ids_refl.
      - match goal with |- context [if ?b then _ else _] => destruct b end; [apply ids_refl|].
        destruct (rot_n _ seq sst) as [[es' ss']|]; [intros b; reflexivity | apply ids_refl].
      - match goal with |- context [if ?b then _ else _] => destruct b end; apply ids_refl. }
    destruct (o_data ob); try (intros _; apply ids_refl); destruct (set_turns st i v) as [s [u|k]]; intros _; exact T.
Qed.
