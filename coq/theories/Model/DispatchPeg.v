(* Request decoding / result encoding for the two grammars. *)
From Coq Require Import String List NArith ZArith Bool Arith.
From DSD Require Import Base.Str Base.Errors Base.Val Model.DispatchCU Model.Peg.
From DSDGen Require Import PilGrammar SeesawGrammar.
Import ListNotations.
Local Open Scope string_scope.

Fixpoint val_of_tok (t : tok) : val :=
  match t with
  | TStr s => VStr s
  | TList l => VList (map val_of_tok l)
  end.

(* parse_*_string(text) = document.parseString(text).asList(), or ParseException *)
Definition val_of_pres (r : pres) : val :=
  match r with
  | POk _ toks => VList (map val_of_tok toks)
  | PFail => err eParse
  | PFuel => err eFuel
  end.

Definition parse_pil_fuel (fuel : nat) (text : pstr) : val := val_of_pres (parse_string_fuel pil_grammar fuel text).
Definition parse_seesaw_fuel (fuel : nat) (text : pstr) : val := val_of_pres (parse_string_fuel seesaw_grammar fuel text).
Definition parse_pil (text : pstr) : val := parse_pil_fuel (default_fuel pil_grammar text) text.
Definition parse_seesaw (text : pstr) : val := parse_seesaw_fuel (default_fuel seesaw_grammar text) text.

Definition dispatch_peg (op : pstr) (a : val) : option val :=
  if op_is op "parse_pil" then Some (or_bad (do s <- as_str a; Some (parse_pil s)))
  else if op_is op "parse_seesaw" then Some (or_bad (do s <- as_str a; Some (parse_seesaw s)))
  else None.
