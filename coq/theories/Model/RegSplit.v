(* ComplexS.split() on the registry machine (C09, object level): one constructor call
   cls(nseq, nsst) per component of split_complex_pt; a SingletonError that carries
   `existing` yields that object, every other error ends the generator.
   The objects yielded so far are held by the consumer (`list(c.split())`): they are
   kept as additional roots until the results are stored.  Definitions only. *)
From Coq Require Import List NArith ZArith Bool Arith.
From DSD Require Import Base.Str Base.Errors Model.ComplexUtils Model.RegStr Model.Heap Model.Registry.
Import ListNotations.

(* make_strand_table on the element list: groupby on (x != '+') *)
Fixpoint elem_strands_aux (es : list elem) (cur : list elem) : list (list elem) :=
  match es with
  | [] => match cur with [] => [] | _ => [rev cur] end
  | x :: r =>
      if str_eqb (fst x) sPlus
      then match cur with [] => elem_strands_aux r [] | _ => rev cur :: elem_strands_aux r [] end
      else elem_strands_aux r (x :: cur)
  end.
Definition elem_strands (es : list elem) : list (list elem) := elem_strands_aux es [].

Definition push_root (st : state) (i : nat) : state :=
  mkState (heap st) (classes st) (roots st ++ [Some i]).

Definition ePlus : elem := (sPlus, None).

(* the generator body: the ids yielded, or the error that ended it *)
Fixpoint split_loop (ct : ctable) (c : nat) (st : state) (parts : list (list (list elem) * tab))
    (acc : list nat) : state * res (list nat) :=
  match parts with
  | [] => (st, Ok (rev acc))
  | (stb, pt) :: r =>
      match strand_table_to_sequence ePlus stb with
      | Err k => (st, Err k)
      | Ok nseq =>
          let nsst := pair_table_to_dot_bracket cP pt in
          let '(st1, r1) := cplx_call ct c st (Some nseq) (Some nsst) None None in
          match r1 with
          | CRet id _ => split_loop ct c (push_root st1 id) r (id :: acc)
          | CErr k (Some x) =>
              if is_singleton_err k then split_loop ct c (push_root st1 x) r (x :: acc) else (st1, Err k)
          | CErr k None => (st1, Err k)
          end
      end
  end.

(* parts[k] -> slot dst + k, as far as there are slots *)
Fixpoint store_from (st : state) (dst : nat) (ids : list nat) : state :=
  match ids with
  | [] => st
  | i :: r => store_from (set_root st dst (Some i)) (S dst) r
  end.

Definition trim_roots (st : state) (n : nat) : state :=
  mkState (heap st) (classes st) (firstn n (roots st)).

Inductive xout := XOut (o : out) | Yielded (ids : list nat).

(* s[dst:dst+n] = list(s[src].split()) *)
Definition split_op (ct : ctable) (st : state) (dst src : nat) : state * xout :=
  match get_root st src with
  | None => (st, XOut Skipped)
  | Some i =>
      match hget (heap st) i with
      | None => (st, XOut Skipped)
      | Some ob =>
          match o_data ob with
          | DCplx es ss _ =>
              match make_pair_table cP [cD] ss with
              | Err k => (st, XOut (Raised k None))
              | Ok ptab =>
                  let stab := elem_strands es in
                  match split_complex_pt (S (length ptab)) stab ptab with
                  | Err k => (st, XOut (Raised k None))
                  | Ok parts =>
                      let n0 := length (roots st) in
                      match split_loop ct (o_cls ob) st parts [] with
                      | (st1, Ok ids) =>
                          (collect (store_from (trim_roots st1 n0) dst ids), Yielded ids)
                      | (st1, Err k) => (collect (trim_roots st1 n0), XOut (Raised k None))
                      end
                  end
              end
          | _ => (st, XOut Skipped)
          end
      end
  end.

(* operations extended by split *)
Inductive xop := XBase (o : op) | XSplit (dst src : nat).

Definition xstep (ct : ctable) (st : state) (o : xop) : state * xout :=
  match o with
  | XBase b => let '(s, r) := step ct st b in (s, XOut r)
  | XSplit dst src => split_op ct st dst src
  end.

Definition xrun (ct : ctable) (st : state) (ops : list xop) : state :=
  fold_left (fun s o => fst (xstep ct s o)) ops st.
