(* Object-level views of ComplexS (dsdobjects/base_classes.py) as pure functions
   of (sequence, structure): construction with empty complex registries,
   get_loop_index, is_connected, exterior_domains / enclosed_domains,
   is_domainlevel_complement and split().  Domains are represented by their
   names (all domains of one run have consistent lengths, so DomainS equality is
   equality of names).  Definitions only. *)
From Coq Require Import List NArith ZArith Bool Arith.
From DSD Require Import Base.Str Base.Errors Model.ComplexUtils.
Import ListNotations.

Definition cStar : chr := 42%N.   (* '*' *)

(* DomainS.cname: name[:-1] if name[-1] == '*' else name + '*'  (names are non-empty) *)
Definition toggle (n : pstr) : pstr :=
  match rev n with
  | c :: r => if N.eqb c cStar then rev r else n ++ [cStar]
  | [] => [cStar]
  end.

(* ------------------------------------------------------------------ *)
(* ComplexS.identifiers                                                 *)

Definition key := (list pstr * list chr)%type.
Definition key_eqb (a b : key) : bool :=
  list_eqb str_eqb (fst a) (fst b) && list_eqb N.eqb (snd a) (snd b).

Fixpoint find_key (k : key) (reg : list (key * nat)) : option nat :=
  match reg with
  | [] => None
  | (k', v) :: r => if key_eqb k k' then Some v else find_key k r
  end.

(* the loop `for e in range(len(make_strand_table(sequence)))`: look the current
   rotation up in the canonical-form registry, otherwise remember it and rotate;
   returns the object found (if any) and the rotation keys collected in cdict *)
Fixpoint ident (n : nat) (seq : list pstr) (sst : list chr) (reg : list (key * nat))
         (acc : list key) : res (option nat * list key) :=
  match n with
  | 0 => Ok (None, rev acc)
  | S k =>
      match find_key (seq, sst) reg with
      | Some i => Ok (Some i, rev acc)
      | None => dor x <- rotate_complex_once seq sst;
                ident k (fst x) (snd x) reg ((seq, sst) :: acc)
      end
  end.

Definition identifiers (seq : list pstr) (sst : list chr) (reg : list (key * nat))
  : res (option nat * list key) :=
  if negb (length seq =? length sst) then Err eObjectInit
  else let n := length (make_strand_table_list sPlus seq) in
       if n =? 0 then Err eObjectInit      (* 'no strands', right after the length test *)
       else ident n seq sst reg [].

(* ComplexS(sequence, structure) with empty complex registries *)
Definition construct (seq : list pstr) (sst : list chr) : res (list key) :=
  dor r <- identifiers seq sst []; Ok (snd r).

(* ------------------------------------------------------------------ *)
(* lazily computed tables                                               *)

Definition pair_table_of (sst : list chr) : res tab := make_pair_table cP [cD] sst.
Definition strand_table_of (seq : list pstr) : list (list pstr) := make_strand_table_list sPlus seq.

(* self.__loop_index: make_loop_index(self.pair_table), components = False *)
Definition loop_index_of (sst : list chr) : res (list (list nat) * list nat) :=
  dor pt <- pair_table_of sst; make_loop_index pt.

Definition nth2r {A} (t : list (list A)) (l : loc) : res A :=
  match nth_error t (fst l) with
  | Some r => match nth_error r (snd l) with Some v => Ok v | None => Err eIndex end
  | None => Err eIndex
  end.

Definition get_loop_index (sst : list chr) (l : loc) : res nat :=
  dor le <- loop_index_of sst; nth2r (fst le) l.

(* is_connected: SecondaryStructureError (from make_pair_table inside the
   generator or from make_loop_index) means False *)
Definition is_connected (sst : list chr) : res bool :=
  match loop_index_of sst with
  | Ok _ => Ok true
  | Err k => if str_eqb k eSSE then Ok false else Err k
  end.

(* ------------------------------------------------------------------ *)
(* exterior_domains / enclosed_domains                                  *)

Fixpoint scan_row (ext : list nat) (si di : nat) (lr : list nat) (pr : row) : list loc * list loc :=
  match lr, pr with
  | l :: lr', e :: pr' =>
      let xn := scan_row ext si (S di) lr' pr' in
      match e with
      | Some _ => xn
      | None => if existsb (Nat.eqb l) ext then ((si, di) :: fst xn, snd xn)
                else (fst xn, (si, di) :: snd xn)
      end
  | _, _ => ([], [])
  end.

Fixpoint scan_rows (ext : list nat) (si : nat) (li : list (list nat)) (pt : tab) : list loc * list loc :=
  match li, pt with
  | lr :: li', pr :: pt' =>
      let a := scan_row ext si 0 lr pr in
      let b := scan_rows ext (S si) li' pt' in
      (fst a ++ fst b, snd a ++ snd b)
  | _, _ => ([], [])
  end.

Definition ext_enc (sst : list chr) : res (list loc * list loc) :=
  dor pt <- pair_table_of sst;
  dor le <- make_loop_index pt;
  Ok (scan_rows (snd le) 0 (fst le) pt).

Definition exterior_domains (sst : list chr) : res (list loc) := dor x <- ext_enc sst; Ok (fst x).
Definition enclosed_domains (sst : list chr) : res (list loc) := dor x <- ext_enc sst; Ok (snd x).

(* ------------------------------------------------------------------ *)
(* is_domainlevel_complement                                            *)

Definition get_domain (stab : list (list pstr)) (l : loc) : res pstr := nth2r stab l.

Fixpoint dlc_row (stab : list (list pstr)) (si di : nat) (pr : row) : res bool :=
  match pr with
  | [] => Ok true
  | None :: pr' => dlc_row stab si (S di) pr'
  | Some c :: pr' =>
      dor a <- get_domain stab (si, di);
      dor b <- get_domain stab c;
      if str_eqb a (toggle b) then dlc_row stab si (S di) pr' else Ok false
  end.

Fixpoint dlc_rows (stab : list (list pstr)) (si : nat) (pt : tab) : res bool :=
  match pt with
  | [] => Ok true
  | r :: pt' => dor b <- dlc_row stab si 0 r;
                if b then dlc_rows stab (S si) pt' else Ok false
  end.

Definition is_domainlevel_complement (seq : list pstr) (sst : list chr) : res bool :=
  dor pt <- pair_table_of sst; dlc_rows (strand_table_of seq) 0 pt.

(* ------------------------------------------------------------------ *)
(* split()                                                              *)

(* objects are numbered: 0 is the complex being split, new objects get the next
   free number; `objs` gives the (sequence, structure) each object shows *)
Fixpoint lookup_obj (i : nat) (objs : list (nat * key)) : key :=
  match objs with
  | [] => ([], [])
  | (j, k) :: r => if Nat.eqb i j then k else lookup_obj i r
  end.

Record sstate := mkS { s_reg : list (key * nat); s_objs : list (nat * key); s_next : nat }.

(* self.__class__(nseq, nsst) for each part; SingletonError.existing is yielded
   when the canonical form is registered (automatic names never clash here:
   the registries hold only the complex itself and the parts made so far) *)
Fixpoint split_objs (parts : list key) (st : sstate) : res (list (nat * key) * sstate) :=
  match parts with
  | [] => Ok ([], st)
  | p :: r =>
      dor idn <- identifiers (fst p) (snd p) (s_reg st);
      match fst idn with
      | Some i =>
          dor rest <- split_objs r st;
          Ok ((i, lookup_obj i (s_objs st)) :: fst rest, snd rest)
      | None =>
          let i := s_next st in
          let st' := mkS (map (fun k => (k, i)) (snd idn) ++ s_reg st)
                         ((i, p) :: s_objs st) (S i) in
          dor rest <- split_objs r st';
          Ok ((i, p) :: fst rest, snd rest)
      end
  end.

(* split() of a freshly constructed complex, run twice; the result lists for
   each yielded object its number and (sequence, structure), and whether the
   second run yielded the same objects *)
Definition split_twice (seq : list pstr) (sst : list chr)
  : res (list (nat * key) * bool) :=
  dor ks <- construct seq sst;
  let st0 := mkS (map (fun k => (k, 0)) ks) [(0, (seq, sst))] 1 in
  dor parts <- split_complex_db seq sst;
  dor r1 <- split_objs parts st0;
  dor parts2 <- split_complex_db seq sst;
  dor r2 <- split_objs parts2 (snd r1);
  Ok (fst r1, list_eqb Nat.eqb (map fst (fst r1)) (map fst (fst r2))).

(* ------------------------------------------------------------------ *)
(* domain of the natural-number model of splice (harness use only)      *)

(* Python computes x[0] - i on integers; a table that pairs out of the spliced
   block (impossible for well-formed tables) gives a negative strand index there,
   which `loc` cannot express.  This predicate tells whether the computation of
   split_complex_pt stays within the naturals; the harness uses it to discard
   damaged tables that fall outside the model's domain. *)
Definition splice_underflow (ptab : tab) (i j : nat) : bool :=
  existsb (existsb (fun e : option loc => match e with Some x => fst x <? i | None => false end))
          (slice ptab i (S j))
  || existsb (existsb (fun e : option loc =>
                match e with Some x => (i <=? fst x) && (fst x <? S j - i) | None => false end))
             (firstn i ptab ++ skipn (S j) ptab).

Fixpoint split_in_domain (fuel : nat) (ptab : tab) : bool :=
  match fuel with
  | 0 => true
  | S fuel' =>
      match make_loop_index_comp ptab with
      | Err _ => true
      | Ok le =>
          match snd le with
          | [] => true
          | ext =>
              match split_scan (length ext) [(0, 0)] 0 ext with
              | SSplice i j =>
                  if splice_underflow ptab i j then false
                  else let '((_, ipt), (_, opt)) := splice (@nil (list unit)) ptab i j in
                       split_in_domain fuel' ipt && split_in_domain fuel' opt
              | _ => true
              end
          end
      end
  end.

(* ------------------------------------------------------------------ *)
(* split() with complexes that exist beforehand (all objects stay alive) *)

(* decimal digits of cls.ID in automatic names f'{cls.PREFIX}{cls.ID}' *)
Fixpoint dec_aux (fuel n : nat) (acc : pstr) : pstr :=
  match fuel with
  | 0 => acc
  | S f => let d := (N.of_nat (n mod 10) + 48)%N in
           if n <? 10 then d :: acc else dec_aux f (n / 10) (d :: acc)
  end.
Definition dec (n : nat) : pstr := dec_aux (S n) n [].
Definition cplx_prefix : pstr := [99%N].   (* ComplexS.PREFIX = 'c' *)

Fixpoint lookup_name (n : pstr) (m : list (pstr * nat)) : option nat :=
  match m with
  | [] => None
  | (k, v) :: r => if str_eqb n k then Some v else lookup_name n r
  end.

Record rstate := mkR {
  r_names : list (pstr * nat);      (* _instanceNames *)
  r_reg : list (key * nat);         (* _instanceCanon: every rotation key of every object *)
  r_objs : list (nat * key);        (* what each object shows *)
  r_next : nat;                     (* number of the next new object *)
  r_id : nat }.                     (* ComplexS.ID *)

Inductive ccout := CCreated (i : nat) | CReturned (i : nat) | CRaised (k : pstr) (existing : option nat).

(* Singleton.__call__ for ComplexS(seq, sst, name) *)
Definition cplx_call (st : rstate) (seq : list pstr) (sst : list chr) (name : option pstr)
  : rstate * ccout :=
  let nm := match name with Some n => n | None => cplx_prefix ++ dec (r_id st) end in
  match identifiers seq sst (r_reg st) with
  | Err k => (st, CRaised k None)
  | Ok (objC, keys) =>
      match lookup_name nm (r_names st), objC with
      | None, None =>
          let i := r_next st in
          (mkR ((nm, i) :: r_names st) (map (fun k => (k, i)) keys ++ r_reg st)
               ((i, (seq, sst)) :: r_objs st) (S i)
               (match name with Some _ => r_id st | None => S (r_id st) end),
           CCreated i)
      | None, Some oc => (st, CRaised eSingleton (Some oc))
      | Some _, None => (st, CRaised eSingleton None)
      | Some on, Some oc => if Nat.eqb on oc then (st, CReturned on) else (st, CRaised eSingleton None)
      end
  end.

(* the generator body: yields so far, and whether it ended by raising *)
Fixpoint split_gen (parts : list key) (st : rstate) : rstate * list nat * option pstr :=
  match parts with
  | [] => (st, [], None)
  | p :: r =>
      match cplx_call st (fst p) (snd p) None with
      | (st', CCreated i) | (st', CReturned i) =>
          let '(st'', ys, e) := split_gen r st' in (st'', i :: ys, e)
      | (st', CRaised k (Some ex)) =>
          if str_eqb k eSingleton
          then let '(st'', ys, e) := split_gen r st' in (st'', ex :: ys, e)
          else (st', [], Some k)
      | (st', CRaised k None) => (st', [], Some k)
      end
  end.

Definition of_ccout (o : ccout) : nat + pstr :=
  match o with CCreated i | CReturned i => inl i | CRaised k _ => inr k end.

(* a history: complexes made beforehand (sequence, structure, optional name),
   then the complex to split (same), then split() twice.  Result: the outcome of
   every constructor call, and for each of the two runs the objects yielded and
   the exception that ended it (if any), and what every object shows. *)
Fixpoint make_all (l : list (key * option pstr)) (st : rstate) : rstate * list (nat + pstr) :=
  match l with
  | [] => (st, [])
  | (k, nm) :: r =>
      let '(st1, o) := cplx_call st (fst k) (snd k) nm in
      let '(st2, os) := make_all r st1 in (st2, of_ccout o :: os)
  end.

Definition split_history (pre : list (key * option pstr)) (self : key * option pstr)
  : list (nat + pstr) * (nat + pstr) *
    option (res (list nat * option pstr) * res (list nat * option pstr)) * list (nat * key) :=
  let '(st1, outs) := make_all pre (mkR [] [] [] 0 1) in
  let '(st2, o) := cplx_call st1 (fst (fst self)) (snd (fst self)) (snd self) in
  match of_ccout o with
  | inr k => (outs, inr k, None, r_objs st2)
  | inl i =>
      let me := lookup_obj i (r_objs st2) in
      match split_complex_db (fst me) (snd me) with
      | Err k => (outs, inl i, Some (Err k, Err k), r_objs st2)
      | Ok parts =>
          let '(st3, ys1, e1) := split_gen parts st2 in
          let '(st4, ys2, e2) := split_gen parts st3 in
          (outs, inl i, Some (Ok (ys1, e1), Ok (ys2, e2)), r_objs st4)
      end
  end.
