(* The single entry point of the extracted model runner. *)
From Coq Require Import List.
From DSD Require Import Base.Str Base.Errors Base.Val Model.DispatchCU Model.DispatchLoops Model.DispatchIupac Model.DispatchRotation Model.DispatchPeg Model.DispatchRegistry Model.DispatchCompare Model.Views Model.DispatchKernel Model.DispatchLegacy Model.DispatchReader.
Import ListNotations.

Fixpoint first_some (fs : list (pstr -> val -> option val)) (op : pstr) (a : val) : val :=
  match fs with
  | [] => err eBadRequest
  | f :: r => match f op a with Some v => v | None => first_some r op a end
  end.

Definition dispatch (op : pstr) (a : val) : val :=
  first_some [dispatch_cu; dispatch_loops; dispatch_iupac; dispatch_rotation; dispatch_peg; dispatch_registry; dispatch_compare; dispatch_views; dispatch_kernel; dispatch_legacy; dispatch_reader] op a.
