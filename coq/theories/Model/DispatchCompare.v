From Coq Require Import String List NArith ZArith Bool.
From DSD Require Import Base.Str Base.Errors Base.Val Base.Sort Model.ComplexUtils Model.DispatchCU Model.Compare.
Import ListNotations.
Local Open Scope string_scope.

Definition as_ckey : val -> option ckey := as_pair as_strs as_chars.
Definition of_ckey : ckey -> val := of_pair of_strs of_chars.
Definition as_mkey : val -> option mkey := as_listof as_ckey.
Definition of_mkey : mkey -> val := of_list of_ckey.
Definition as_rkey {K} (f : val -> option K) (v : val) : option (rkey K) :=
  match v with
  | VList [a; b; c] => do a <- as_listof f a; do b <- as_listof f b; do c <- as_str c; Some (a, b, c)
  | _ => None
  end.
Definition of_bools (l : list bool) : val := of_list VBool l.
Definition as_member {K} (f : val -> option K) : val -> option (K * pstr) := as_pair f as_str.
Definition of_member {K} (f : K -> val) : (K * pstr) -> val := of_pair f VStr.

Definition do_reaction {K} (cmp : K -> K -> comparison) (asK : val -> option K) (ofK : K -> val)
  (re pr rt name : val) : option val :=
  do re <- as_listof (as_member asK) re; do pr <- as_listof (as_member asK) pr;
  do rt <- as_str rt; do name <- as_opt as_str name;
  let '(canon, n, sre, spr) := reaction_identifiers cmp re pr rt name in
  let '(cr, cp, ct) := canon in
  Some (VList [VList [of_list ofK cr; of_list ofK cp; VStr ct]; VStr n;
               of_list VStr (map snd sre); of_list VStr (map snd spr)]).

Definition of_rkey {K} (f : K -> val) (r : rkey K) : val :=
  let '(a, b, c) := r in VList [of_list f a; of_list f b; VStr c].

(* sorted(xs), min(xs), max(xs) of objects whose order is `cmp` on `key`: the stable sort of Base/Sort.v
   (C10_sorted_* theorems); what is returned are the descriptions of the objects in sorted order *)
Definition sorted_val {A K} (key : A -> K) (cmp : K -> K -> comparison) (asA : val -> option A) (ofA : A -> val)
  (xs : val) : option val :=
  do xs <- as_listof asA xs;
  let s := sort_by key cmp xs in
  (* min(): the first minimal element = the head of the stable sort; max() keeps the FIRST maximal element
     it meets (it replaces only on `>`): the first element of the stable sort that is equivalent to its last *)
  let mx := match hd_error (rev s) with
            | Some m => find (fun x => eqb cmp (key x) (key m)) s
            | None => None
            end in
  Some (VList [of_list ofA s; of_opt ofA (hd_error s); of_opt ofA mx]).

Definition dispatch_compare (op : pstr) (a : val) : option val :=
  if op_is op "sorted_domain" then Some (or_bad (
    sorted_val (@fst pstr Z) str_cmp (as_pair as_str as_int) (of_pair VStr VInt) a))
  else if op_is op "sorted_complex" then Some (or_bad (sorted_val (fun k => k) ckey_cmp as_ckey of_ckey a))
  else if op_is op "sorted_macrostate" then Some (or_bad (sorted_val (fun k => k) mkey_cmp as_mkey of_mkey a))
  else if op_is op "sorted_reaction_c" then Some (or_bad (
    sorted_val (fun k => k) (rkey_cmp ckey_cmp) (as_rkey as_ckey) (of_rkey of_ckey) a))
  else if op_is op "sorted_reaction_m" then Some (or_bad (
    sorted_val (fun k => k) (rkey_cmp mkey_cmp) (as_rkey as_mkey) (of_rkey of_mkey) a))
  else
  if op_is op "cmp_domain" then Some (or_bad (
    match a with VList [x; y] =>
      do x <- as_pair as_str as_int x; do y <- as_pair as_str as_int y; Some (of_bools (dom_ops x y))
    | _ => None end))
  else if op_is op "cmp_complex" then Some (or_bad (
    match a with VList [x; y] => do x <- as_ckey x; do y <- as_ckey y; Some (of_bools (ops ckey_cmp x y))
    | _ => None end))
  else if op_is op "cmp_macrostate" then Some (or_bad (
    match a with VList [x; y] => do x <- as_mkey x; do y <- as_mkey y; Some (of_bools (ops mkey_cmp x y))
    | _ => None end))
  else if op_is op "cmp_reaction_c" then Some (or_bad (
    match a with VList [x; y] => do x <- as_rkey as_ckey x; do y <- as_rkey as_ckey y;
      Some (of_bools (ops (rkey_cmp ckey_cmp) x y)) | _ => None end))
  else if op_is op "cmp_reaction_m" then Some (or_bad (
    match a with VList [x; y] => do x <- as_rkey as_mkey x; do y <- as_rkey as_mkey y;
      Some (of_bools (ops (rkey_cmp mkey_cmp) x y)) | _ => None end))
  else if op_is op "macro_identifiers" then Some (or_bad (
    match a with VList [ms; name] =>
      do ms <- as_listof (as_member as_ckey) ms; do name <- as_opt as_str name;
      Some (match macro_identifiers ckey_cmp ms name with
            | Ok (cs, n) => VList [of_list VStr (map snd cs); VStr n;
                                   of_opt VStr (option_map snd (representative cs n));
                                   of_nat (length cs)]
            | Err k => err k
            end)
    | _ => None end))
  else if op_is op "reaction_identifiers_c" then Some (or_bad (
    match a with VList [re; pr; rt; name] => do_reaction ckey_cmp as_ckey of_ckey re pr rt name
    | _ => None end))
  else if op_is op "reaction_identifiers_m" then Some (or_bad (
    match a with VList [re; pr; rt; name] => do_reaction mkey_cmp as_mkey of_mkey re pr rt name
    | _ => None end))
  else None.
