(* The shared heap / registry state of DESIGN.md section 6.  Definitions only.

   heap   : objects, NEWEST FIRST; the id of an object is its creation index,
            i.e. the object at the head of a heap `o :: r` has id `length r`.
            Objects never move and are never removed; `o_live` is cleared by
            `collect`.
   classes: per class id the two registries (association lists standing for the
            two WeakValueDictionaries) and the class's OWN `ID` attribute
            (None = not set on this class, the value is inherited).
   roots  : the user's variables (slots). *)
From Coq Require Import List NArith ZArith Bool Arith.
From DSD Require Import Base.Str Base.Errors Model.ComplexUtils.
Import ListNotations.

(* ------------------------------------------------------------------ *)
(* canonical forms                                                      *)

(* canonical form of a complex / strand: (names, structure) *)
Definition ckey := (list pstr * list chr)%type.

Inductive key :=
| KDom (n : pstr) (l : Z)                              (* (name, length) *)
| KCplx (c : ckey)
| KMac (l : list ckey)                                 (* sorted members *)
| KRxn (mk : bool) (r p : list (list ckey)) (t : option pstr).
  (* reactions: members are complexes (mk = false, each form a singleton list)
     or macrostates (mk = true) *)

Definition ckey_eqb (a b : ckey) : bool :=
  list_eqb str_eqb (fst a) (fst b) && list_eqb N.eqb (snd a) (snd b).

Definition opt_eqb {A} (eqb : A -> A -> bool) (a b : option A) : bool :=
  match a, b with
  | None, None => true
  | Some x, Some y => eqb x y
  | _, _ => false
  end.

Definition key_eqb (a b : key) : bool :=
  match a, b with
  | KDom n l, KDom n' l' => str_eqb n n' && Z.eqb l l'
  | KCplx c, KCplx c' => ckey_eqb c c'
  | KMac l, KMac l' => list_eqb ckey_eqb l l'
  | KRxn m r p t, KRxn m' r' p' t' =>
      Bool.eqb m m' && list_eqb (list_eqb ckey_eqb) r r' && list_eqb (list_eqb ckey_eqb) p p'
      && opt_eqb str_eqb t t'
  | _, _ => false
  end.

(* Python tuple comparison of canonical forms *)
Definition ckey_cmp : ckey -> ckey -> comparison :=
  cmp_pair (lex_cmp str_cmp) (lex_cmp N.compare).
Definition mkey_cmp : list ckey -> list ckey -> comparison := lex_cmp ckey_cmp.

(* stable insertion sort by a key (Python's sorted(key=...)) *)
Section Sort.
  Context {A K : Type} (kf : A -> K) (cmp : K -> K -> comparison).
  Fixpoint insert_by (x : A) (l : list A) : list A :=
    match l with
    | [] => [x]
    | y :: r => if cmp_ltb (cmp (kf y) (kf x)) then y :: insert_by x r else x :: l
    end.
  (* fold from the right so that equal keys keep their original order *)
  Definition sort_by (l : list A) : list A := fold_right insert_by [] l.
End Sort.

(* ------------------------------------------------------------------ *)
(* objects                                                              *)

Inductive kind := KindD | KindC | KindS | KindM | KindR.
Definition kind_eqb (a b : kind) : bool :=
  match a, b with
  | KindD, KindD | KindC, KindC | KindS, KindS | KindM, KindM | KindR, KindR => true
  | _, _ => false
  end.

(* a sequence element as the user passed it: its str() and, when it is an
   object, its id; the literal '+' is (sPlus, None) *)
Definition elem := (pstr * option nat)%type.

Inductive odata :=
| DDom (len : Z)
| DCplx (seq : list elem) (sst : list chr) (turns : Z)
| DStrand (seq : list elem)
| DMac (members : list nat) (rep : nat)            (* members in the user's order *)
| DRxn (reactants products : list nat) (rtype : option pstr).   (* sorted *)

Record obj := mkObj {
  o_cls : nat;
  o_name : pstr;
  o_key : key;               (* canonical form *)
  o_keys : list key;         (* ghost: every key registered for it at creation *)
  o_live : bool;
  o_children : list nat;     (* strong references held by the object *)
  o_data : odata
}.

Definition kill (o : obj) : obj :=
  mkObj (o_cls o) (o_name o) (o_key o) (o_keys o) false (o_children o) (o_data o).
Definition with_data (o : obj) (d : odata) : obj :=
  mkObj (o_cls o) (o_name o) (o_key o) (o_keys o) (o_live o) (o_children o) d.

(* ------------------------------------------------------------------ *)
(* class table (static) and state                                       *)

Inductive fmode := FNone | FBefore | FAfter.   (* user __init__ raising before / after super().__init__ *)

Record cinfo := mkCinfo {
  c_kind : kind;
  c_parent : option nat;      (* index of the direct base class in the table, if it is in the table *)
  c_cutoff : Z; c_short : Z; c_long : Z;   (* effective DTYPE_CUTOFF, SHORT_DOM_LEN, LONG_DOM_LEN *)
  c_prefix : pstr;            (* effective PREFIX *)
  c_id0 : option Z;           (* ID defined in the class body *)
  c_fail : fmode
}.
Definition ctable := list cinfo.

Record cstate := mkCstate {
  cs_names : list (pstr * nat);
  cs_canon : list (key * nat);
  cs_id : option Z
}.

Record state := mkState {
  heap : list obj;
  classes : list cstate;
  roots : list (option nat)
}.

Definition init (ct : ctable) (nslots : nat) : state :=
  mkState [] (map (fun ci => mkCstate [] [] (c_id0 ci)) ct) (repeat None nslots).

(* ------------------------------------------------------------------ *)
(* heap access                                                          *)

Fixpoint hget (h : list obj) (i : nat) : option obj :=
  match h with
  | [] => None
  | o :: r => if Nat.eqb i (length r) then Some o else hget r i
  end.

Fixpoint hset (h : list obj) (i : nat) (o' : obj) : list obj :=
  match h with
  | [] => []
  | o :: r => if Nat.eqb i (length r) then o' :: r else o :: hset r i o'
  end.

Definition is_live (h : list obj) (i : nat) : bool :=
  match hget h i with Some o => o_live o | None => false end.

(* ------------------------------------------------------------------ *)
(* association lists (the registries)                                   *)

Section Assoc.
  Context {K : Type} (eqb : K -> K -> bool).
  Fixpoint alookup (k : K) (l : list (K * nat)) : option nat :=
    match l with
    | [] => None
    | (k', v) :: r => if eqb k k' then Some v else alookup k r
    end.
  (* d[k] = v *)
  Fixpoint aset (k : K) (v : nat) (l : list (K * nat)) : list (K * nat) :=
    match l with
    | [] => [(k, v)]
    | (k', v') :: r => if eqb k k' then (k, v) :: r else (k', v') :: aset k v r
    end.
End Assoc.

Definition nlookup := alookup str_eqb.
Definition klookup := alookup key_eqb.
Definition nset := aset str_eqb.
Definition kset := aset key_eqb.

Definition cget (st : state) (c : nat) : cstate :=
  nth c (classes st) (mkCstate [] [] None).
Definition cput (st : state) (c : nat) (cs : cstate) : state :=
  mkState (heap st) (upd c cs (classes st)) (roots st).

(* ------------------------------------------------------------------ *)
(* collect: release everything unreachable from the roots               *)

Definition mem (i : nat) (l : list nat) : bool := existsb (Nat.eqb i) l.

(* One pass from the newest object to the oldest: children are always older
   than their holder, so when an object is visited every holder has been seen. *)
Fixpoint sweep (h : list obj) (need : list nat) : list obj :=
  match h with
  | [] => []
  | o :: r =>
      if o_live o && mem (length r) need
      then o :: sweep r (o_children o ++ need)
      else kill o :: sweep r need
  end.

Fixpoint root_ids (rs : list (option nat)) : list nat :=
  match rs with
  | [] => []
  | Some i :: r => i :: root_ids r
  | None :: r => root_ids r
  end.

Definition purge {K} (h : list obj) (l : list (K * nat)) : list (K * nat) :=
  filter (fun kv => is_live h (snd kv)) l.

Definition purge_class (h : list obj) (cs : cstate) : cstate :=
  mkCstate (purge h (cs_names cs)) (purge h (cs_canon cs)) (cs_id cs).

Definition collect (st : state) : state :=
  let h := sweep (heap st) (root_ids (roots st)) in
  mkState h (map (purge_class h) (classes st)) (roots st).

(* ------------------------------------------------------------------ *)
(* allocation                                                           *)

Definition alloc (st : state) (o : obj) : state * nat :=
  (mkState (o :: heap st) (classes st) (roots st), length (heap st)).

Definition set_root (st : state) (slot : nat) (v : option nat) : state :=
  mkState (heap st) (classes st) (upd slot v (roots st)).

Definition get_root (st : state) (slot : nat) : option nat :=
  match nth_error (roots st) slot with Some (Some i) => Some i | _ => None end.

(* ------------------------------------------------------------------ *)
(* class attribute ID: looked up through the bases, written on the class *)

Fixpoint eff_id (fuel : nat) (ct : ctable) (st : state) (c : nat) : option Z :=
  match fuel with
  | 0 => None
  | S f =>
      match cs_id (cget st c) with
      | Some z => Some z
      | None =>
          match nth_error ct c with
          | Some ci => match c_parent ci with Some p => eff_id f ct st p | None => None end
          | None => None
          end
      end
  end.
Definition class_id (ct : ctable) (st : state) (c : nat) : option Z :=
  eff_id (S (length ct)) ct st c.

Definition set_id (st : state) (c : nat) (z : Z) : state :=
  let cs := cget st c in cput st c (mkCstate (cs_names cs) (cs_canon cs) (Some z)).

(* decimal rendering of an int (format of ID in automatic names) *)
Fixpoint uint_chars (d : Decimal.uint) : pstr :=
  match d with
  | Decimal.Nil => []
  | Decimal.D0 r => 48%N :: uint_chars r
  | Decimal.D1 r => 49%N :: uint_chars r
  | Decimal.D2 r => 50%N :: uint_chars r
  | Decimal.D3 r => 51%N :: uint_chars r
  | Decimal.D4 r => 52%N :: uint_chars r
  | Decimal.D5 r => 53%N :: uint_chars r
  | Decimal.D6 r => 54%N :: uint_chars r
  | Decimal.D7 r => 55%N :: uint_chars r
  | Decimal.D8 r => 56%N :: uint_chars r
  | Decimal.D9 r => 57%N :: uint_chars r
  end.
Definition z_dec (z : Z) : pstr :=
  match Z.to_int z with
  | Decimal.Pos d => uint_chars d
  | Decimal.Neg d => 45%N :: uint_chars d
  end.
