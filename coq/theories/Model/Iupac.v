(* Model of dsdobjects/iupac_utils.py over the regenerated single-letter tables. *)
From Coq Require Import List NArith Bool Arith.
From DSD Require Import Base.Str Base.Errors Base.Val Model.ComplexUtils.
From DSDGen Require Import IupacTables.
Import ListNotations.

Fixpoint nlookup {B} (c : N) (l : list (N * B)) : option B :=
  match l with
  | [] => None
  | (k, v) :: r => if N.eqb c k then Some v else nlookup c r
  end.
Fixpoint nlookup2 {B} (x y : N) (l : list ((N * N) * B)) : option B :=
  match l with
  | [] => None
  | ((a, b), v) :: r => if N.eqb x a && N.eqb y b then Some v else nlookup2 x y r
  end.

Definition wc_tab (rna : bool) c := nlookup c (if rna then wc_rna else wc_dna).
Definition wob_tab (rna : bool) c := nlookup c (if rna then wob_rna else wob_dna).
Definition rwc_tab (rna : bool) c := nlookup c (if rna then rwc_rna else rwc_dna).
Definition rwob_tab (rna : bool) c := nlookup c (if rna then rwob_rna else rwob_dna).
(* None = KeyError, Some None = empty intersection, Some (Some c) = letter *)
Definition add_tab (rna : bool) x y := nlookup2 x y (if rna then add_rna else add_dna).

(* ''.join([table[x] for x in sequence]) : KeyError on the first unknown letter *)
Definition map_tab (t : N -> option N) (s : list chr) : res (list chr) :=
  match omap t s with Some r => Ok r | None => Err eKey end.

Definition wc_complement rna s := map_tab (wc_tab rna) s.
Definition complement rna s := map_tab (wob_tab rna) s.
(* the reverse_* functions have their own comprehension over reversed(sequence);
   their single-letter behaviour is tabulated separately (rwc/rwob) *)
Definition reverse_wc_complement rna s := map_tab (rwc_tab rna) (rev s).
Definition reverse_complement rna s := map_tab (rwob_tab rna) (rev s).

(* add_constraints: assert on the lengths, KeyError first, then ConstraintError
   when the joined string is shorter than the input *)
Fixpoint add_zip (rna : bool) (a b : list chr) : option (list (option chr)) :=
  match a, b with
  | x :: a', y :: b' =>
      match add_tab rna x y with
      | None => None
      | Some r => option_map (cons r) (add_zip rna a' b')
      end
  | _, _ => Some []
  end.

Definition add_constraints (rna : bool) (a b : list chr) : res (list chr) :=
  if negb (length a =? length b) then Err eAssert else
  match add_zip rna a b with
  | None => Err eKey
  | Some rs =>
      if existsb (fun r => match r with None => true | _ => false end) rs
      then Err eConstraint
      else Ok (flat_map (fun r => match r with Some c => [c] | None => [] end) rs)
  end.
