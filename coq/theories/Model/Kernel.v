(* Kernel notation: the reader's resolve_kernel_loops (objectio.py) on the nested
   token lists the parser produces, and kernel trees as the common source of
   (sequence, structure) pairs and token lists (C12).  Definitions only. *)
From Coq Require Import List NArith Bool Arith.
From DSD Require Import Base.Str Base.Errors Base.Val Model.ComplexUtils Model.Loops.
Import ListNotations.

(* parser output for a kernel pattern: strings and nested lists *)
Inductive ktok := KS (s : pstr) | KL (l : list ktok).

Definition last_opt {A} (l : list A) : option A := match rev l with x :: _ => Some x | [] => None end.
Definition set_last {A} (l : list A) (v : A) : list A := match rev l with _ :: r => rev (v :: r) | [] => [] end.

(* old + '*' if old[-1] != '*' else old[:-1]; old[-1] on '' raises IndexError *)
Definition complement_name (old : pstr) : res pstr :=
  match rev old with
  | [] => Err eIndex
  | c :: r => Ok (if N.eqb c cStar then rev r else old ++ [cStar])
  end.

(* resolve_kernel_loops: the loop over `loop` with accumulators sequen / struct *)
Fixpoint resolve_tok (t : ktok) (acc : list pstr * list chr) : res (list pstr * list chr) :=
  match t with
  | KS d => Ok (fst acc ++ [d], snd acc ++ [if str_eqb d sPlus then cP else cD])
  | KL l =>
      match last_opt (snd acc), last_opt (fst acc) with
      | Some _, Some old =>
          let struct1 := set_last (snd acc) cO in
          dor inner <- (fix go (l : list ktok) (a : list pstr * list chr) : res (list pstr * list chr) :=
                          match l with
                          | [] => Ok a
                          | t :: r => dor a1 <- resolve_tok t a; go r a1
                          end) l ([], []);
          dor c <- complement_name old;
          Ok (fst acc ++ fst inner ++ [c], struct1 ++ snd inner ++ [cC])
      | _, _ => Err eIndex          (* struct[-1] / sequen[-1] on an empty list *)
      end
  end.

Fixpoint resolve_list (l : list ktok) (a : list pstr * list chr) : res (list pstr * list chr) :=
  match l with
  | [] => Ok a
  | t :: r => dor a1 <- resolve_tok t a; resolve_list r a1
  end.

Definition resolve_kernel_loops (l : list ktok) : res (list pstr * list chr) := resolve_list l ([], []).

(* ---- kernel trees (first-child / next-sibling, like Dyck.dyck, with names) ---- *)
Inductive ktree := KNil | KD (d : pstr) (r : ktree) | KB (r : ktree) | KP (d : pstr) (inner r : ktree).

Fixpoint flatten (t : ktree) : list pstr * list chr :=
  match t with
  | KNil => ([], [])
  | KD d r => let b := flatten r in (d :: fst b, cD :: snd b)
  | KB r => let b := flatten r in (sPlus :: fst b, cP :: snd b)
  | KP d i r =>
      let a := flatten i in let b := flatten r in
      (d :: fst a ++ toggle d :: fst b, cO :: snd a ++ cC :: snd b)
  end.

(* what the parser returns for the rendering of a tree: a paired domain is the
   domain name followed by the list of its inner tokens *)
Fixpoint to_tokens (t : ktree) : list ktok :=
  match t with
  | KNil => []
  | KD d r => KS d :: to_tokens r
  | KB r => KS sPlus :: to_tokens r
  | KP d i r => KS d :: KL (to_tokens i) :: to_tokens r
  end.

(* names the grammar can produce for a domain: non-empty, not '+' *)
Definition name_ok (d : pstr) : bool :=
  negb (str_eqb d sPlus) && match d with [] => false | _ => true end.
Fixpoint names_ok (t : ktree) : bool :=
  match t with
  | KNil => true
  | KD d r => name_ok d && names_ok r
  | KB r => names_ok r
  | KP d i r => name_ok d && names_ok i && names_ok r
  end.

(* the kernel string of a tree: one token text per item *)
Fixpoint tree_texts (t : ktree) : list pstr :=
  match t with
  | KNil => []
  | KD d r => d :: tree_texts r
  | KB r => [cP] :: tree_texts r
  | KP d i r => (d ++ [cO]) :: tree_texts i ++ [cC] :: tree_texts r
  end.
