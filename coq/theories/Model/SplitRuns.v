(* ComplexS.split() any number of times on one object (C09, object level with registries).
   A run is one call of split(): the generator is advanced at most `limit` times (None: until it
   ends) and then abandoned; before the run ComplexS.ID may be assigned.  Nothing of an earlier
   run may survive in the object: every run is the generator body of Model/Loops.v (split_gen)
   on the components of the object, in the registry state the earlier runs left behind.
   Definitions only. *)
From Coq Require Import List NArith Bool Arith.
From DSD Require Import Base.Str Base.Errors Model.ComplexUtils Model.Loops.
Import ListNotations.

Definition set_id (st : rstate) (n : nat) : rstate :=
  mkR (r_names st) (r_reg st) (r_objs st) (r_next st) n.

(* next() is called `limit` times: the body runs up to the limit-th yield *)
Definition limit_parts (lim : option nat) (parts : list key) : list key :=
  match lim with None => parts | Some k => firstn k parts end.

Fixpoint split_runs (parts : list key) (runs : list (option nat * option nat)) (st : rstate)
  : rstate * list (list nat * option pstr) :=
  match runs with
  | [] => (st, [])
  | (lim, sid) :: r =>
      let st0 := match sid with Some n => set_id st n | None => st end in
      let '(st1, ys, e) := split_gen (limit_parts lim parts) st0 in
      let '(st2, outs) := split_runs parts r st1 in
      (st2, (ys, e) :: outs)
  end.

(* complexes made beforehand, the complex to split, then the runs.  Result as split_history:
   the outcome of every constructor call, per run the objects yielded and the exception that
   ended it (if any), and what every object shows. *)
Definition split_history_runs (pre : list (key * option pstr)) (self : key * option pstr)
    (runs : list (option nat * option nat))
  : list (nat + pstr) * (nat + pstr) * option (res (list (list nat * option pstr))) * list (nat * key) :=
  let '(st1, outs) := make_all pre (mkR [] [] [] 0 1) in
  let '(st2, o) := cplx_call st1 (fst (fst self)) (snd (fst self)) (snd self) in
  match of_ccout o with
  | inr k => (outs, inr k, None, r_objs st2)
  | inl i =>
      let me := lookup_obj i (r_objs st2) in
      match split_complex_db (fst me) (snd me) with
      | Err k => (outs, inl i, Some (Err k), r_objs st2)
      | Ok parts =>
          let '(st3, rs) := split_runs parts runs st2 in
          (outs, inl i, Some (Ok rs), r_objs st3)
      end
  end.
