(* Float-level model of utils.flint / utils.convert_units and of the rate-constant
   and concentration conversions of base_classes.py, with Python's number
   semantics (exact ints, IEEE doubles, correctly rounded int->float and int/int).
   Evaluated inside Coq (vm_compute) by the correspondence check; PrimFloat is a
   kernel primitive.  Definitions only. *)
From Coq Require Import ZArith List Bool PrimFloat Uint63 FloatOps SpecFloat.
From DSD Require Import Base.Str Base.Errors Model.ComplexUtils.
From DSDGen Require Import UnitTables.
Import ListNotations.
Open Scope Z_scope.

Inductive num := NI (z : Z) | NF (f : float).

Definition eOverflow : pstr := [79;118;101;114;102;108;111;119;69;114;114;111;114]%N.   (* "OverflowError" *)
Definition eModelRange : pstr := [77;111;100;101;108;82;97;110;103;101]%N.              (* "ModelRange" *)

(* ---- correctly rounded (nearest-even) a / b for integers, b > 0 ---- *)
Definition bitlen (z : Z) : Z := if z =? 0 then 0 else Z.log2 z + 1.

(* round the non-negative integer q (with a sticky flag for discarded lower bits)
   to 53 bits: returns (mantissa, exponent shift) *)
Definition round53 (q : Z) (sticky : bool) : Z * Z :=
  let k := bitlen q - 53 in
  if k <=? 0 then (q, 0)
  else
    let m := Z.shiftr q k in
    let rem := Z.land q (Z.ones k) in
    let half := Z.shiftl 1 (k - 1) in
    let up := (half <? rem) || ((rem =? half) && (sticky || Z.odd m)) in
    ((if up then m + 1 else m), k).

Inductive fconv := FOk (f : float) | FOverflow | FRange.

Definition ratio_to_float (a b : Z) : fconv :=
  if a =? 0 then FOk zero else
  let s := Z.abs a in
  let sh := 56 - (bitlen s - bitlen b) in          (* quotient gets 55..57 bits *)
  let num := if 0 <=? sh then Z.shiftl s sh else s in
  let den := if 0 <=? sh then b else Z.shiftl b (- sh) in
  let q := num / den in
  let r := num mod den in
  let '(m, k) := round53 q (negb (r =? 0)) in
  let e := k - sh in
  (* value = m * 2^e with m <= 2^53 *)
  if 1024 <? bitlen m + e then FOverflow
  else if (bitlen m + e =? 1024) && false then FOverflow
  else if bitlen m + e <? -1021 then FRange
  else
    let f := Z.ldexp (of_uint63 (of_Z m)) e in
    FOk (if a <? 0 then (PrimFloat.opp f) else f).

Definition int_to_float (z : Z) : fconv := ratio_to_float z 1.

(* ---- Python arithmetic on int / float ---- *)
Definition lift_f (c : fconv) (k : float -> res num) : res num :=
  match c with FOk f => k f | FOverflow => Err eOverflow | FRange => Err eModelRange end.

Definition pmul (x y : num) : res num :=
  match x, y with
  | NI a, NI b => Ok (NI (a * b))
  | NI a, NF g => lift_f (int_to_float a) (fun f => Ok (NF (PrimFloat.mul f g)))
  | NF f, NI b => lift_f (int_to_float b) (fun g => Ok (NF (PrimFloat.mul f g)))
  | NF f, NF g => Ok (NF (PrimFloat.mul f g))
  end.

Definition eZeroDivision := eZeroDiv.

Definition pdiv (x y : num) : res num :=
  match x, y with
  | NI a, NI b =>
      if b =? 0 then Err eZeroDivision
      else lift_f (if 0 <? b then ratio_to_float a b else ratio_to_float (- a) (- b)) (fun f => Ok (NF f))
  | NI a, NF g => if PrimFloat.is_zero g then Err eZeroDivision
                  else lift_f (int_to_float a) (fun f => Ok (NF (PrimFloat.div f g)))
  | NF f, NI b => if b =? 0 then Err eZeroDivision
                  else lift_f (int_to_float b) (fun g => Ok (NF (PrimFloat.div f g)))
  | NF f, NF g => if PrimFloat.is_zero g then Err eZeroDivision else Ok (NF (PrimFloat.div f g))
  end.

(* exact integer value of a finite float with integral value, and the integrality test *)
Definition sf_integral (x : spec_float) : bool :=
  match x with
  | S754_zero _ => true
  | S754_finite _ m e => (0 <=? e) || (Z.land (Zpos m) (Z.ones (- e)) =? 0)
  | _ => false
  end.
Definition sf_to_Z (x : spec_float) : Z :=
  match x with
  | S754_finite s m e =>
      let v := if 0 <=? e then Z.shiftl (Zpos m) e else Z.shiftr (Zpos m) (- e) in
      if s then - v else v
  | _ => 0
  end.

(* flint: an int is returned as it is; otherwise
   int(float(n)) if float(n) == int(float(n)) else float(n); OverflowError -> n *)
Definition flint (n : num) : res num :=
  match n with
  | NI z => Ok (NI z)
  | NF f =>
      if PrimFloat.is_nan f then Err eValue                    (* int(nan) raises ValueError *)
      else if PrimFloat.is_infinity f then Ok (NF f)           (* int(inf): OverflowError, caught *)
      else let x := Prim2SF f in
           if sf_integral x then Ok (NI (sf_to_Z x)) else Ok (NF f)
  end.

(* ---- unit tables ---- *)
Definition scale_num (s : scale) : num :=
  match s with
  | SInt z => NI z
  | SFlt m e => NF (SF2Prim (if m =? 0 then S754_zero false
                             else S754_finite (m <? 0) (Z.to_pos (Z.abs m)) e))
  end.

Fixpoint ulookup (u : pstr) (l : list (list N * scale)) : option scale :=
  match l with
  | [] => None
  | (k, v) :: r => if str_eqb u k then Some v else ulookup u r
  end.

Definition conv_in (tab : list (list N * scale)) (v : num) (sa : scale) (b : pstr) : res num :=
  (* val*conc[unit_in] is evaluated before conc[unit_out] is looked up *)
  dor x <- pmul v (scale_num sa);
  match ulookup b tab with
  | None => Err eKey
  | Some sb => dor y <- pdiv x (scale_num sb); flint y
  end.

Definition convert_units (v : num) (a b : pstr) : res num :=
  match ulookup a conc_units with
  | Some sa => conv_in conc_units v sa b
  | None =>
      match ulookup a time_units with
      | Some sa => conv_in time_units v sa b
      | None => Err eValue
      end
  end.

(* ---- rate constants ---- *)
Definition cSlash : chr := 47%N.
(* units.split('/')[1:] *)
Definition unit_parts (u : pstr) : list pstr := tl (make_strand_table_str cSlash u).

Fixpoint conv_chain (c : num) (old new : list pstr) : res num :=
  match old, new with
  | i :: old', o :: new' => dor c1 <- convert_units c o i; conv_chain c1 old' new'
  | _, _ => Ok c
  end.

(* rateformat on a reaction with constant c, units u (None = no units), n reactants *)
Definition rateformat (c : num) (u : option pstr) (n : nat) (out : pstr) : res num :=
  match u with
  | None => Err eObjectInit
  | Some u =>
      let old := unit_parts u in
      if negb (Nat.eqb (length old) n) then Err eNotImpl else
      let new := unit_parts out in
      if negb (Nat.eqb (length new) n) then Err eNotImpl else
      conv_chain c old new
  end.

(* ---- wire encoding of results as a flat list of Z (evaluated by vm_compute) ---- *)
Definition trailing_zeros (m : Z) : Z := Z.log2 (Z.land m (- m)).
Definition enc_float (f : float) : list Z :=
  match Prim2SF f with
  | S754_nan => [1; 0; 99999]
  | S754_infinity s => [1; (if s then -1 else 1); 99999]
  | S754_zero s => [1; 0; (if s then -1 else 0)]
  | S754_finite s m e =>
      let tz := trailing_zeros (Zpos m) in
      let m' := Z.shiftr (Zpos m) tz in
      [1; (if s then - m' else m'); e + tz]
  end.
Definition err_code (k : pstr) : Z :=
  if str_eqb k eKey then 1 else if str_eqb k eValue then 2 else if str_eqb k eOverflow then 3
  else if str_eqb k eZeroDivision then 4 else if str_eqb k eObjectInit then 5
  else if str_eqb k eNotImpl then 6 else if str_eqb k eAssert then 7 else 99.
Definition enc_res (r : res num) : list Z :=
  match r with
  | Ok (NI z) => [0; z]
  | Ok (NF f) => enc_float f
  | Err k => [2; err_code k]
  end.

Definition mkf (m e : Z) : num :=
  NF (if e =? 99999 then (if m =? 0 then nan else if m <? 0 then neg_infinity else infinity)
      else if m =? 0 then (if e =? 0 then zero else neg_zero)
      else SF2Prim (S754_finite (m <? 0) (Z.to_pos (Z.abs m)) e)).

(* rate_constant setter followed by the getter.  form: 0 = a plain number, 1 = a
   1-tuple, 2 = a (value, units) pair, any other value = a tuple of that length *)
Definition rate_set_get (form : Z) (n : num) (u : option pstr) : res (num * option pstr) :=
  if form =? 0 then dor c <- flint n; Ok (c, None)
  else if form =? 1 then dor c <- flint n; Ok (c, None)
  else if form =? 2 then dor c <- flint n; Ok (c, u)
  else Err eAssert.

Definition enc_units (u : option pstr) : list Z :=
  match u with None => [-1] | Some s => Z.of_nat (length s) :: map Z.of_N s end.

Inductive ucase :=
| URc (form : Z) (n : num) (u : option pstr)
| UFlint (n : num)
| UConv (v : num) (a b : pstr)
| URate (c : num) (u : option pstr) (n : nat) (out : pstr).

Definition run_case (c : ucase) : list Z :=
  match c with
  | URc form n u => match rate_set_get form n u with
                    | Ok (c, u') => enc_res (Ok c) ++ enc_units u'
                    | Err k => enc_res (Err k)
                    end
  | UFlint n => enc_res (flint n)
  | UConv v a b => enc_res (convert_units v a b)
  | URate c u n out => enc_res (rateformat c u n out)
  end.
