(* PEG interpreter over the node table dumped from the runtime pyparsing element
   graph (gen/PilGrammar.v, gen/SeesawGrammar.v).  A transcription of pyparsing
   3.3's ParserElement._parseNoCache / preParse / _skipIgnorables / postParse and
   of the parseImpl of exactly the element classes the two grammars instantiate.
   DEFINITIONS ONLY.

   Positions.  pyparsing works with an index `loc` into the input string; here a
   position is the remaining suffix (`At rest`, loc = len - |rest|), plus `Past`
   for loc = len + 1, the location LineEnd and StringEnd return at end of input
   (no element advances beyond that).  The whole input is a section variable
   because StringStart compares `loc` with `preParse(instring, 0)`.

   Fuel.  `parse` recurses on `fuel` (call depth); the loops of _MultipleMatch and
   _skipIgnorables are bounded by the fuel remaining at their call depth.
   Exhaustion is the distinguished result PFuel, never confused with PFail. *)
From Coq Require Import List NArith Bool Arith.
From DSD Require Import Base.Str.
Import ListNotations.

(* ParseResults.asList(): strings and nested lists *)
Inductive tok := TStr (s : pstr) | TList (l : list tok).

Inductive kind :=
| KAnd                                  (* And: first child without preParse, the others with *)
| KFirst                                (* MatchFirst: ordered choice *)
| KOpt                                  (* Opt: child without preParse; no default value *)
| KMany (atleast1 : bool)               (* OneOrMore (true) / ZeroOrMore (false), no stop_on *)
| KPass                                 (* Forward, DelimitedList: ParseElementEnhance.parseImpl *)
| KGroup | KSuppress | KCombine (join : pstr)   (* TokenConverters: child without preParse + postParse *)
| KLit (s : pstr)                       (* Literal / _SingleCharLiteral, s non-empty *)
| KWord (init body : list chr) (wmin wmax : nat)   (* wmax = 0: unbounded; not a keyword *)
| KWhite (cs : list chr) (wmin wmax : nat)
| KLineEnd | KStringStart | KStringEnd
| KComment.                             (* Regex('#.*'), pythonStyleComment *)

Record node := mkNode {
  nkind : kind;
  nkids : list nat;         (* children, indices into the table *)
  nskip : bool;             (* skipWhitespace *)
  nws : list chr;           (* whiteChars *)
  nign : list nat;          (* ignoreExprs, indices *)
  ncallpre : bool;          (* callPreparse *)
  ntags : list pstr         (* T(x, tag) parse actions: tokens := [tag] + tokens, in order *)
}.

Inductive pos := At (rest : pstr) | Past.
Inductive pres := POk (p : pos) (t : list tok) | PFail | PFuel.

Definition memc (c : chr) (l : list chr) : bool := existsb (N.eqb c) l.

(* same location?  (both positions are suffixes of one input) *)
Definition loc_eqb (p q : pos) : bool :=
  match p, q with
  | At a, At b => length a =? length b
  | Past, Past => true
  | _, _ => false
  end.

Fixpoint skip_ws (ws : list chr) (s : pstr) : pstr :=
  match s with
  | c :: r => if memc c ws then skip_ws ws r else s
  | [] => []
  end.
Definition pos_skip_ws (ws : list chr) (p : pos) : pos :=
  match p with At s => At (skip_ws ws s) | Past => Past end.

(* longest prefix over `cs`, at most `lim` characters when lim = Some _ *)
Fixpoint span (cs : list chr) (lim : option nat) (s : pstr) : pstr * pstr :=
  match s with
  | c :: r =>
      match lim with
      | Some 0 => ([], s)
      | _ =>
        if memc c cs
        then let (a, b) := span cs (option_map pred lim) r in (c :: a, b)
        else ([], s)
      end
  | [] => ([], [])
  end.

Fixpoint starts_with (pre s : pstr) : option pstr :=
  match pre with
  | [] => Some s
  | c :: pre' => match s with d :: s' => if N.eqb c d then starts_with pre' s' else None | [] => None end
  end.

Definition NL : chr := 10%N.
Definition HASH : chr := 35%N.

Fixpoint upto_nl (s : pstr) : pstr * pstr :=
  match s with
  | c :: r => if N.eqb c NL then ([], s) else let (a, b) := upto_nl r in (c :: a, b)
  | [] => ([], [])
  end.

(* Word.parseImpl / parseImpl_regex and White.parseImpl (chk_follow: Word only) *)
Definition run_token (init body : list chr) (wmin wmax : nat) (chk_follow : bool) (s : pstr) : pres :=
  match s with
  | c :: r =>
      if memc c init then
        let (a, b) := span body (match wmax with 0 => None | S m => Some m end) r in
        if length (c :: a) <? wmin then PFail
        else if chk_follow && negb (wmax =? 0) && (match b with d :: _ => memc d body | [] => false end) then PFail
        else POk (At b) [TStr (c :: a)]
      else PFail
  | [] => PFail
  end.

(* ParseResults._asStringList for Combine *)
Fixpoint flat_tok (t : tok) : list pstr :=
  match t with
  | TStr s => [s]
  | TList l => (fix go (l : list tok) : list pstr :=
                  match l with [] => [] | x :: r => flat_tok x ++ go r end) l
  end.
Definition flat_strs (l : list tok) : list pstr := flat_map flat_tok l.
Fixpoint join_strs (sep : pstr) (l : list pstr) : pstr :=
  match l with
  | [] => []
  | [s] => s
  | s :: r => s ++ sep ++ join_strs sep r
  end.

Definition post (k : kind) (toks : list tok) : list tok :=
  match k with
  | KGroup => [TList toks]
  | KSuppress => []
  | KCombine j => [TStr (join_strs j (flat_strs toks))]
  | _ => toks
  end.
Definition add_tags (tags : list pstr) (toks : list tok) : list tok :=
  fold_left (fun t tag => TStr tag :: t) tags toks.

(* ---- combinators, open in the recursive call P : index -> callPreParse -> pos -> result ---- *)
Section Open.
  Variable P : nat -> bool -> pos -> pres.

  (* `while 1: loc, dummy = ignore_fn(instring, loc); exprsFound = True` until ParseException *)
  Fixpoint ign_inner (n : nat) (ig : nat) (p : pos) (found : bool) : option (pos * bool) :=
    match n with
    | 0 => None
    | S n' =>
        match P ig true p with
        | POk p' _ => ign_inner n' ig p' true
        | PFail => Some (p, found)
        | PFuel => None
        end
    end.
  Fixpoint ign_pass (n : nat) (igs : list nat) (p : pos) (found : bool) : option (pos * bool) :=
    match igs with
    | [] => Some (p, found)
    | ig :: r =>
        match ign_inner n ig p found with
        | None => None
        | Some (p', fd) => ign_pass n r p' fd
        end
    end.
  (* ParserElement._skipIgnorables *)
  Fixpoint ign_outer (n : nat) (igs : list nat) (p : pos) : option pos :=
    match n with
    | 0 => None
    | S n' =>
        match ign_pass n' igs p false with
        | None => None
        | Some (p', found) =>
            if loc_eqb p' p then Some p'
            else if found then ign_outer n' igs p' else Some p'
        end
    end.
  Definition skip_ign (n : nat) (igs : list nat) (p : pos) : option pos :=
    match igs with [] => Some p | _ => ign_outer n igs p end.

  (* ParserElement.preParse *)
  Definition pre_parse (n : nat) (nd : node) (p : pos) : option pos :=
    match skip_ign n (nign nd) p with
    | None => None
    | Some p1 => Some (if nskip nd then pos_skip_ws (nws nd) p1 else p1)
    end.

  (* And.parseImpl, elements after the first *)
  Fixpoint seq_rest (ks : list nat) (p : pos) (acc : list tok) : pres :=
    match ks with
    | [] => POk p acc
    | k :: r =>
        match P k true p with
        | POk p' t => seq_rest r p' (acc ++ t)
        | e => e
        end
    end.
  (* MatchFirst.parseImpl *)
  Fixpoint first_of (ks : list nat) (p : pos) : pres :=
    match ks with
    | [] => PFail
    | k :: r =>
        match P k true p with
        | PFail => first_of r p
        | e => e
        end
    end.
  (* the `while 1` loop of _MultipleMatch.parseImpl *)
  Fixpoint many_loop (n : nat) (igs : list nat) (k : nat) (p : pos) (acc : list tok) : pres :=
    match n with
    | 0 => PFuel
    | S n' =>
        match skip_ign n' igs p with
        | None => PFuel
        | Some p1 =>
            match P k true p1 with
            | POk p' t => many_loop n' igs k p' (acc ++ t)
            | PFail => POk p acc
            | PFuel => PFuel
            end
        end
    end.

  Variable full : pstr.      (* the whole input (after expandtabs) *)

  (* parseImpl of node nd at the pre-parsed position p *)
  Definition impl (n : nat) (nd : node) (p : pos) : pres :=
    match nkind nd with
    | KAnd =>
        match nkids nd with
        | k0 :: ks =>
            match P k0 false p with
            | POk p' t => seq_rest ks p' t
            | e => e
            end
        | [] => PFail
        end
    | KFirst => first_of (nkids nd) p
    | KOpt =>
        match nkids nd with
        | k :: _ => match P k false p with PFail => POk p [] | e => e end
        | [] => PFail
        end
    | KMany one =>
        match nkids nd with
        | k :: _ =>
            match P k true p with
            | POk p' t => many_loop n (nign nd) k p' t
            | PFail => if one then PFail else POk p []
            | PFuel => PFuel
            end
        | [] => PFail
        end
    | KPass | KGroup | KSuppress | KCombine _ =>
        match nkids nd with
        | k :: _ => P k false p
        | [] => PFail
        end
    | KLit s =>
        match p with
        | At r => match starts_with s r with Some r' => POk (At r') [TStr s] | None => PFail end
        | Past => PFail
        end
    | KWord init body wmin wmax =>
        match p with At r => run_token init body wmin wmax true r | Past => PFail end
    | KWhite cs wmin wmax =>
        match p with At r => run_token cs cs wmin wmax false r | Past => PFail end
    | KLineEnd =>
        match p with
        | At (c :: r) => if N.eqb c NL then POk (At r) [TStr [NL]] else PFail
        | At [] => POk Past []
        | Past => PFail
        end
    | KStringStart =>
        if loc_eqb p (At full) then POk p []
        else match pre_parse n nd (At full) with
             | None => PFuel
             | Some q => if loc_eqb p q then POk p [] else PFail
             end
    | KStringEnd =>
        match p with
        | At (_ :: _) => PFail
        | At [] => POk Past []
        | Past => POk Past []
        end
    | KComment =>
        match p with
        | At (c :: r) => if N.eqb c HASH then let (a, b) := upto_nl r in POk (At b) [TStr (c :: a)] else PFail
        | _ => PFail
        end
    end.
End Open.

(* ParserElement._parseNoCache *)
Fixpoint parse (g : list node) (full : pstr) (fuel : nat) (i : nat) (cp : bool) (p : pos) {struct fuel} : pres :=
  match fuel with
  | 0 => PFuel
  | S f =>
      match nth_error g i with
      | None => PFail
      | Some nd =>
          match (if cp && ncallpre nd then pre_parse (parse g full f) f nd p else Some p) with
          | None => PFuel
          | Some p1 =>
              match impl (parse g full f) full f nd p1 with
              | POk p2 toks => POk p2 (add_tags (ntags nd) (post (nkind nd) toks))
              | r => r
              end
          end
      end
  end.

(* str.expandtabs(8): the column restarts after \n and \r *)
Fixpoint expandtabs_from (col : nat) (s : pstr) : pstr :=
  match s with
  | [] => []
  | c :: r =>
      if N.eqb c 9%N then
        let k := 8 - Nat.modulo col 8 in repeat 32%N k ++ expandtabs_from (col + k) r
      else if N.eqb c 10%N || N.eqb c 13%N then c :: expandtabs_from 0 r
      else c :: expandtabs_from (S col) r
  end.
Definition expandtabs (s : pstr) : pstr := expandtabs_from 0 s.

Record grammar := mkGrammar { gnodes : list node; groot : nat }.

(* every child / ignore index is inside the table, And/MatchFirst have children,
   the one-child classes have exactly one *)
Definition node_ok (len : nat) (nd : node) : bool :=
  forallb (fun k => k <? len) (nkids nd) && forallb (fun k => k <? len) (nign nd) &&
  match nkind nd with
  | KAnd | KFirst => negb (length (nkids nd) =? 0)
  | KOpt | KMany _ | KPass | KGroup | KSuppress | KCombine _ => length (nkids nd) =? 1
  | KLit s => negb (length s =? 0) && (length (nkids nd) =? 0)
  | _ => length (nkids nd) =? 0
  end.
Definition grammar_ok (G : grammar) : bool :=
  (groot G <? length (gnodes G)) && forallb (node_ok (length (gnodes G))) (gnodes G).

(* ParserElement.parse_string(text): expandtabs, then _parse(instring, 0) *)
Definition parse_string_fuel (G : grammar) (fuel : nat) (text : pstr) : pres :=
  let s := expandtabs text in parse (gnodes G) s fuel (groot G) true (At s).

(* call depth <= |table| per nesting level, nesting <= |input| *)
Definition default_fuel (G : grammar) (text : pstr) : nat :=
  (length (expandtabs text) + 2) * length (gnodes G).

Definition parse_string (G : grammar) (text : pstr) : pres :=
  parse_string_fuel G (default_fuel G text) text.
