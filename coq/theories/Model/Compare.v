(* Model of the rich comparisons / hashes of base_classes.py (C10) and of the
   sorting-based canonical forms of macrostates and reactions (C11).
   Definitions only. *)
From Coq Require Import List NArith ZArith Bool.
From DSD Require Import Base.Str Base.Errors Base.Sort Model.ComplexUtils.
Import ListNotations.

(* canonical form of a complex / strand: (domain-name tuple, structure tuple) *)
Definition ckey := (list pstr * list chr)%type.
Definition ckey_cmp : ckey -> ckey -> comparison := cmp_pair (lex_cmp str_cmp) (lex_cmp N.compare).
(* macrostate: tuple of complexes sorted by canonical form *)
Definition mkey := list ckey.
Definition mkey_cmp : mkey -> mkey -> comparison := lex_cmp ckey_cmp.
(* reaction: (sorted reactant canonical forms, sorted product canonical forms, type) *)
Definition rkey (K : Type) := (list K * list K * pstr)%type.
Definition rkey_cmp {K} (cmp : K -> K -> comparison) : rkey K -> rkey K -> comparison :=
  cmp_pair (cmp_pair (lex_cmp cmp) (lex_cmp cmp)) str_cmp.

(* the six operators  ==  !=  <  <=  >  >=  on canonical forms *)
Definition ops {K} (cmp : K -> K -> comparison) (a b : K) : list bool :=
  [eqb cmp a b; negb (eqb cmp a b); ltb cmp a b; leb cmp a b; gtb cmp a b; geb cmp a b].

(* domains: == on (name, length), order and hash on the name *)
Definition dkey := (pstr * Z)%type.
Definition dom_eqb (a b : dkey) : bool := str_eqb (fst a) (fst b) && Z.eqb (snd a) (snd b).
Definition dom_ops (a b : dkey) : list bool :=
  [dom_eqb a b; negb (dom_eqb a b); ltb str_cmp (fst a) (fst b); leb str_cmp (fst a) (fst b);
   gtb str_cmp (fst a) (fst b); geb str_cmp (fst a) (fst b)].

(* ---- C11: identifiers of MacrostateS / ReactionS on members given as
        (canonical form, name) ---- *)
Section Members.
  Context {K : Type} (cmp : K -> K -> comparison).
  Definition member := (K * pstr)%type.
  Definition sort_members (l : list member) : list member := sort_by fst cmp l.

  (* MacrostateS.identifiers with complexes given: sorted members and the name *)
  Definition macro_identifiers (l : list member) (name : option pstr) : res (list member * pstr) :=
    let cs := sort_members l in
    match name with
    | None => match cs with [] => Err eIndex | c :: _ => Ok (cs, snd c) end
    | Some n => if existsb (fun m => str_eqb n (snd m)) cs then Ok (cs, n) else Err eAssert
    end.
  (* next(x for x in complexes if x.name == name) *)
  Definition representative (cs : list member) (n : pstr) : option member :=
    find (fun m => str_eqb n (snd m)) cs.

  Fixpoint join_names (sep : pstr) (l : list pstr) : pstr :=
    match l with
    | [] => []
    | [x] => x
    | x :: r => x ++ sep ++ join_names sep r
    end.

  (* "[{}] {} -> {}".format(rtype, " + ".join(names), " + ".join(names)) *)
  Definition reaction_autoname (rtype : pstr) (re pr : list member) : pstr :=
    let plus := [32; 43; 32]%N in
    [91%N] ++ rtype ++ [93; 32]%N ++ join_names plus (map snd (sort_members re))
      ++ [32; 45; 62; 32]%N ++ join_names plus (map snd (sort_members pr)).

  (* ReactionS.identifiers: canonical form, name, and the stored (sorted) members *)
  Definition reaction_identifiers (re pr : list member) (rtype : pstr) (name : option pstr)
    : (rkey K * pstr * list member * list member) :=
    let canon := (map fst (sort_members re), map fst (sort_members pr), rtype) in
    (canon, match name with Some n => n | None => reaction_autoname rtype re pr end,
     sort_members re, sort_members pr).
End Members.
