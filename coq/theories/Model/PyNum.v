(* int() and float() of the number tokens the PIL grammar produces.

   py_int   : int(s) for a string of ASCII digits (the grammar's `number`).
   py_float : float(s) for  digits[.digits][e[+|-]digits]  (the grammar's `gorf`) and
              for 'inf'; the result is the correctly rounded binary64 value (CPython's
              float() rounds to nearest, ties to even), as the exact pair (m, e) with
              value m * 2^e in the canonical form of Base.Val.VFloat: m odd, or (0, 0),
              or (1, 99999) for +inf.
   Every other string is answered with ValueError.  (CPython accepts a few more
   spellings - surrounding blanks, a sign, underscores, '.5', 'nan', 'infinity' -
   none of which the grammar's number tokens can produce.)
   Definitions only. *)
From Coq Require Import List NArith ZArith Bool Arith.
From DSD Require Import Base.Str Base.Errors Model.ComplexUtils.
Import ListNotations.

Definition is_digit (c : chr) : bool := (N.leb 48 c && N.leb c 57)%N.
Definition digit_val (c : chr) : Z := Z.of_N (c - 48)%N.

Fixpoint digits_val (acc : Z) (s : pstr) : Z :=
  match s with
  | [] => acc
  | c :: r => digits_val (10 * acc + digit_val c)%Z r
  end.

Definition all_digits (s : pstr) : bool :=
  match s with [] => false | _ => forallb is_digit s end.

Definition py_int (s : pstr) : res Z :=
  if all_digits s then Ok (digits_val 0 s) else Err eValue.

(* ---- float ---- *)
Definition fl := (Z * Z)%type.
Definition fl_inf : fl := (1, 99999)%Z.
Definition fl_zero : fl := (0, 0)%Z.

(* split at the first character satisfying p (that character is dropped) *)
Fixpoint split_at (p : chr -> bool) (s : pstr) : pstr * option pstr :=
  match s with
  | [] => ([], None)
  | c :: r => if p c then ([], Some r)
              else let (a, b) := split_at p r in (c :: a, b)
  end.

Definition cDot : chr := 46%N.
Definition cE : chr := 101%N.
Definition cMinus : chr := 45%N.
Definition cPlusSign : chr := 43%N.

Fixpoint strip_zeros (s : pstr) : pstr :=
  match s with
  | c :: r => if N.eqb c 48%N then strip_zeros r else s
  | [] => []
  end.

(* make the mantissa odd *)
Fixpoint odd_norm (fuel : nat) (m e : Z) : fl :=
  match fuel with
  | 0 => (m, e)
  | S f => if Z.even m then odd_norm f (m / 2)%Z (e + 1)%Z else (m, e)
  end.

(* round the positive value m * 2^em (m carries a sticky bit in its lowest position and
   has at least 55 significant bits) to binary64, nearest-even, gradual underflow *)
Definition round64 (m em : Z) : fl :=
  let bits := (Z.log2 m + 1)%Z in
  let e := Z.max (em + bits - 53) (-1074) in
  let shift := (e - em)%Z in
  let q := Z.shiftr m shift in
  let rem := (m - Z.shiftl q shift)%Z in
  let half := Z.shiftl 1 (shift - 1) in
  let q' := if (half <? rem)%Z || ((half =? rem)%Z && Z.odd q) then (q + 1)%Z else q in
  if (q' =? 0)%Z then fl_zero
  else if (1024 <? Z.log2 q' + 1 + e)%Z then fl_inf
  else odd_norm 64 q' e.

(* the correctly rounded value of D * 10^E, D > 0 with nd decimal digits *)
Definition dec_to_fl (D E : Z) (nd : Z) : fl :=
  if (310 <=? E + nd - 1)%Z then fl_inf
  else if (E + nd <=? -330)%Z then fl_zero
  else
    let n := if (0 <=? E)%Z then (D * 10 ^ E)%Z else D in
    let d := if (0 <=? E)%Z then 1%Z else (10 ^ (- E))%Z in
    let s := (58 - (Z.log2 n - Z.log2 d))%Z in
    let n2 := if (0 <=? s)%Z then Z.shiftl n s else n in
    let d2 := if (0 <=? s)%Z then d else Z.shiftl d (- s) in
    let q := (n2 / d2)%Z in
    let sticky := if (q * d2 =? n2)%Z then 0%Z else 1%Z in
    round64 (2 * q + sticky) (- s - 1).

Definition py_float (s : pstr) : res fl :=
  if str_eqb s [105; 110; 102]%N then Ok fl_inf else
  let (mant, ex) := split_at (N.eqb cE) s in
  let (ip, fp) := split_at (N.eqb cDot) mant in
  let fpd := match fp with Some f => f | None => [] end in
  let exp_ok_val : option Z :=
    match ex with
    | None => Some 0%Z
    | Some x =>
        match x with
        | c :: r => if N.eqb c cMinus then (if all_digits r then Some (- digits_val 0 r)%Z else None)
                    else if N.eqb c cPlusSign then (if all_digits r then Some (digits_val 0 r) else None)
                    else if all_digits x then Some (digits_val 0 x) else None
        | [] => None
        end
    end in
  if negb (all_digits ip) then Err eValue else
  if (match fp with Some f => negb (all_digits f) | None => false end) then Err eValue else
  match exp_ok_val with
  | None => Err eValue
  | Some x =>
      let ds := strip_zeros (ip ++ fpd) in
      match ds with
      | [] => Ok fl_zero
      | _ => Ok (dec_to_fl (digits_val 0 ds) (x - Z.of_nat (length fpd)) (Z.of_nat (length ds)))
      end
  end.
