(* Reader model: when a list of statements is a consistent system, as a computation.
   Every statement has a new name, uses only what is declared before it, and denotes an object that
   differs from the earlier ones of its kind (strands: another sequence; complexes: no common rotation;
   macrostates: another set of canonical forms; reactions: another canonical form and name).
   Proofs/ReaderSysK.v: `consistentb` is sound for the proposition `Consistent` of Proofs/ReaderSysJ.v,
   and consistent systems are never refused by read_pil (Proofs/ReaderSysJ.v). *)
From Coq Require Import List NArith ZArith Bool Arith.
From DSD Require Import Base.Str Base.Errors Model.ComplexUtils Model.RegStr Model.ReaderStr Model.PyNum
  Model.Peg Model.Kernel Model.Heap Model.Registry Model.Reader Model.ReaderShape.
From DSD Require Model.Iupac.
Import ListNotations.

Definition star (x : pstr) : pstr := x ++ [Registry.cStar].

(* first match in a declaration list *)
Fixpoint assoc {A} (n : pstr) (l : list (pstr * A)) : option A :=
  match l with
  | [] => None
  | (k, v) :: r => if str_eqb n k then Some v else assoc n r
  end.

(* ---- what a list of statements declares ---- *)
Definition decl_doms (prev : list stmt) : list (pstr * Z) :=
  flat_map (fun s => match s with
                     | SDl x l => [(x, l)]
                     | SSl x sq _ => [(x, Z.of_nat (length sq))]
                     | _ => []
                     end) prev.
Definition decl_strands (prev : list stmt) : list (pstr * list pstr) :=
  flat_map (fun s => match s with SComp n ds => [(n, ds)] | _ => [] end) prev.
(* a complex in strand notation: the domain names of the named strands joined by '+' *)
Definition joinp (dss : list (list pstr)) : list pstr :=
  match dss with
  | [] => []
  | d :: r => fold_left (fun a b => a ++ [sPlus] ++ b) r d
  end.
Definition ssc_names (prev : list stmt) (ss : list pstr) : option (list pstr) :=
  match omap' (fun s => assoc s (decl_strands prev)) ss with
  | Some (d :: r) => Some (joinp (d :: r))
  | _ => None
  end.
Definition no_space (sst : list chr) : list chr := filter (fun c => negb (N.eqb c 32%N)) sst.
(* the names under which domain objects may be filed *)
Definition dom_names (prev : list stmt) : list pstr :=
  flat_map (fun xl : pstr * Z => [fst xl; star (fst xl)]) (decl_doms prev).

(* what a name of a kernel string stands for (read_pil_line, the kernel branch): '+', a declared domain, the
   domains of a declared strand (composite domain), or the complements, in reverse order, of the domains of
   the strand whose complement name it is *)
Definition res_name (prev : list stmt) (x : pstr) : option (list pstr) :=
  if str_eqb x sPlus then Some [x]
  else if existsb (str_eqb x) (dom_names prev) then Some [x]
  else match assoc x (decl_strands prev) with
       | Some (d :: ds) => Some (d :: ds)
       | Some [] => None
       | None =>
           if starred x then
             match assoc (removelast x) (decl_strands prev) with
             | Some (d :: ds) => if starred (removelast x) then None else Some (map cname_of (rev (d :: ds)))
             | _ => None
             end
           else None
       end.
Definition expand_ker (prev : list stmt) (names : list pstr) (sst : list chr) : option (list pstr * list chr) :=
  if Nat.eqb (length names) (length sst) then
    match omap' (fun xc : pstr * chr => option_map (map (fun d => (d, snd xc))) (res_name prev (fst xc))) (combine names sst) with
    | Some parts => Some (map fst (concat parts), map snd (concat parts))
    | None => None
    end
  else None.

(* the (sequence, structure) a complex statement denotes after the statements `pre` *)
Definition cplx_entry (pre : list stmt) (s : stmt) : list (pstr * (list pstr * list chr)) :=
  match s with
  | SKer n names sst _ => [(n, match expand_ker pre names sst with Some x => x | None => ([], []) end)]
  | SSC n ss sst => [(n, (match ssc_names pre ss with Some x => x | None => [] end, no_space sst))]
  | _ => []
  end.
Fixpoint decl_cplx_from (pre rest : list stmt) : list (pstr * (list pstr * list chr)) :=
  match rest with
  | [] => []
  | s :: r => cplx_entry pre s ++ decl_cplx_from (pre ++ [s]) r
  end.
Definition decl_cplx (prev : list stmt) : list (pstr * (list pstr * list chr)) := decl_cplx_from [] prev.
Definition decl_macs (prev : list stmt) : list (pstr * list pstr) :=
  flat_map (fun s => match s with SMac n xs => [(n, xs)] | _ => [] end) prev.
Definition decl_rxns (prev : list stmt) : list rinfo :=
  flat_map (fun s => match s with SRxn ri => [ri] | _ => [] end) prev.

(* ---- the pure part of ComplexS.identifiers ---- *)
Definition nstrands (names : list pstr) : nat := length (make_strand_table_list sPlus names).
(* all rotations of (names, structure) with their indices *)
Definition rot_dict (names : list pstr) (sst : list chr) : option (list (ckey * nat)) :=
  match rot_loop (nstrands names) 0 [] names sst [] with
  | Ok (None, cdict) => Some cdict
  | _ => None
  end.
Definition canon_of (cdict : list (ckey * nat)) : option (ckey * nat) :=
  match min_ckey cdict with
  | Some k => match cdict_get k cdict with Some e => Some (k, e) | None => None end
  | None => None
  end.

Definition rxn_name (t : option pstr) (re pr : list pstr) : pstr :=
  sLBr ++ fmt_opt t ++ sRBr ++ Registry.join_names sSepPlus re ++ sArrow ++ Registry.join_names sSepPlus pr.

Definition is_cond (t : option pstr) : bool := is_s t sCondensed.

(* the names under which objects of a kind may be filed *)
Definition declared (k : kind) (prev : list stmt) : list pstr :=
  match k with
  | KindD => dom_names prev
  | KindS => map fst (decl_strands prev)
  | KindC => map fst (decl_cplx prev)
  | KindM => map fst (decl_macs prev)
  | KindR => []
  end.

(* the canonical form of a declared complex, from its statement *)
Definition ckey_of (prev : list stmt) (x : pstr) : option ckey :=
  match assoc x (decl_cplx prev) with
  | Some (names, sst) =>
      match rot_dict names sst with
      | Some cdict => option_map fst (canon_of cdict)
      | None => None
      end
  | None => None
  end.

(* the canonical form of a macrostate with these members *)
Definition mac_sig (prev : list stmt) (xs : list pstr) : option (list ckey) :=
  option_map (sort_by (fun k => k) ckey_cmp) (omap' (ckey_of prev) xs).

Definition mdecl (cond : bool) (prev : list stmt) : list pstr :=
  if cond then map fst (decl_macs prev) else map fst (decl_cplx prev).

(* ---- the canonical form and the name of a reaction, from the statements ---- *)
Definition mac_sig_of (prev : list stmt) (x : pstr) : option (list ckey) :=
  match assoc x (decl_macs prev) with Some xs => mac_sig prev xs | None => None end.
Definition mform (prev : list stmt) (cond : bool) (x : pstr) : option (list ckey) :=
  if cond then mac_sig_of prev x else option_map (fun k => [k]) (ckey_of prev x).
Definition rxn_side (prev : list stmt) (cond : bool) (xs : list pstr) : option (list (pstr * list ckey)) :=
  omap' (fun x => option_map (fun ks => (x, ks)) (mform prev cond x)) xs.
Definition rxn_sig (prev : list stmt) (ri : rinfo) : option (key * pstr) :=
  let cond := is_cond (ri_type ri) in
  match rxn_side prev cond (ri_reactants ri), rxn_side prev cond (ri_products ri) with
  | Some R, Some P =>
      let sr := sort_by snd mkey_cmp R in
      let sp := sort_by snd mkey_cmp P in
      Some (KRxn cond (map snd sr) (map snd sp) (ri_type ri), rxn_name (ri_type ri) (map fst sr) (map fst sp))
  | _, _ => None
  end.

Definition mem_str (x : pstr) (l : list pstr) : bool := existsb (str_eqb x) l.

Definition rot_disjointb (prev : list stmt) (cdict : list (ckey * nat)) : bool :=
  forallb (fun d : pstr * (list pstr * list chr) =>
             match rot_dict (fst (snd d)) (snd (snd d)) with
             | Some cdict' =>
                 forallb (fun k => negb (existsb (ckey_eqb k) (map fst cdict'))) (map fst cdict)
             | None => true
             end) (decl_cplx prev).

Definition osig_eqb (a b : option (list ckey)) : bool :=
  match a, b with
  | Some x, Some y => list_eqb ckey_eqb x y
  | None, None => true
  | _, _ => false
  end.

Definition sig_differsb (a b : option (key * pstr)) : bool :=
  match a, b with
  | Some (k1, n1), Some (k2, n2) => negb (key_eqb k1 k2) && negb (str_eqb n1 n2)
  | _, _ => true
  end.

Definition admb (prev : list stmt) (s : stmt) : bool :=
  match s with
  | SDl x l =>
      negb (starred x) && nonempty x && negb (str_eqb x sPlus) && (0 <=? l)%Z && negb (mem_str x (map fst (decl_doms prev)))
  | SSl x sq chk =>
      negb (starred x) && nonempty x && negb (str_eqb x sPlus) && negb (mem_str x (map fst (decl_doms prev))) &&
      match chk with Some n => Z.eqb n (Z.of_nat (length sq)) | None => true end &&
      match Iupac.reverse_wc_complement false sq with Ok _ => true | Err _ => false end
  | SComp n ds =>
      nonempty n && negb (starred n) && negb (mem_str n (map fst (decl_strands prev))) &&
      negb (existsb (list_eqb str_eqb ds) (map snd (decl_strands prev))) &&
      forallb (fun d => mem_str d (declared KindD prev)) ds
  | SKer n names sst _ =>
      nonempty n && negb (mem_str n (map fst (decl_cplx prev))) &&
      match expand_ker prev names sst with
      | Some (names', sst') =>
          match rot_dict names' sst' with
          | Some cdict => match canon_of cdict with Some _ => rot_disjointb prev cdict | None => false end
          | None => false
          end
      | None => false
      end
  | SMac n xs =>
      nonempty n && mem_str n xs && negb (mem_str n (map fst (decl_macs prev))) &&
      forallb (fun x => mem_str x (map fst (decl_cplx prev))) xs &&
      forallb (fun d : pstr * list pstr => negb (osig_eqb (mac_sig prev (snd d)) (mac_sig prev xs))) (decl_macs prev)
  | SRxn ri =>
      is_some (ri_rate ri) && nonempty (ri_reactants ri) &&
      forallb (fun x => mem_str x (mdecl (is_cond (ri_type ri)) prev)) (ri_reactants ri) &&
      forallb (fun x => mem_str x (mdecl (is_cond (ri_type ri)) prev)) (ri_products ri) &&
      forallb (fun ri' => sig_differsb (rxn_sig prev ri') (rxn_sig prev ri)) (decl_rxns prev)
  | SSC n ss sst =>
      nonempty n && negb (mem_str n (map fst (decl_cplx prev))) &&
      forallb (fun x => nonempty x && mem_str x (map fst (decl_strands prev))) ss &&
      match ssc_names prev ss with
      | Some names =>
          Nat.eqb (length names) (length (no_space sst)) &&
          match rot_dict names (no_space sst) with
          | Some cdict => match canon_of cdict with Some _ => rot_disjointb prev cdict | None => false end
          | None => false
          end
      | None => false
      end
  | SOther => true
  end.

Fixpoint consistentb_from (prev ss : list stmt) : bool :=
  match ss with
  | [] => true
  | s :: rest => admb prev s && consistentb_from (prev ++ [s]) rest
  end.
Definition consistentb (ss : list stmt) : bool := consistentb_from [] ss.

(* the statements of a parsed document *)
Fixpoint decode_all (lines : list tok) : option (list (list tok) * list stmt) :=
  match lines with
  | [] => Some ([], [])
  | TList l :: rest =>
      match decode l, decode_all rest with
      | Ok s, Some (ls, ss) => Some (l :: ls, s :: ss)
      | _, _ => None
      end
  | TStr _ :: _ => None
  end.

(* the lines of a parsed document that `ignore` leaves (`ignore and line[0] in ignore`) *)
Fixpoint keep_lines (ig : option (list pstr)) (lines : list tok) : option (list tok) :=
  match lines with
  | [] => Some []
  | TList l :: rest =>
      match ignored ig l, keep_lines ig rest with
      | Ok true, Some k => Some k
      | Ok false, Some k => Some (TList l :: k)
      | _, _ => None
      end
  | TStr _ :: _ => None
  end.

(* ---- sessions that already hold objects: a statement re-declares what the statements `world` describe ---- *)
Definition opt_str_eqb (a b : option pstr) : bool :=
  match a, b with Some x, Some y => str_eqb x y | None, None => true | _, _ => false end.
Definition fl_eqb (a b : fl) : bool := Z.eqb (fst a) (fst b) && Z.eqb (snd a) (snd b).
Definition opt_fl_eqb (a b : option fl) : bool :=
  match a, b with Some x, Some y => fl_eqb x y | None, None => true | _, _ => false end.
(* concentration triples whose mode and unit are plain strings *)
Definition conc_eqb (a b : conc) : bool :=
  match a, b with
  | (TStr m, f, TStr u), (TStr m0, f0, TStr u0) => str_eqb m m0 && fl_eqb f f0 && str_eqb u u0
  | _, _ => false
  end.
Definition entry_eqb (a b : pstr * (list pstr * list chr)) : bool :=
  str_eqb (fst a) (fst b) && list_eqb str_eqb (fst (snd a)) (fst (snd b)) && list_eqb N.eqb (snd (snd a)) (snd (snd b)).
Definition sig2_eqb (a b : option (key * pstr)) : bool :=
  match a, b with
  | Some (k1, n1), Some (k2, n2) => key_eqb k1 k2 && str_eqb n1 n2
  | _, _ => false
  end.

Definition foundb (world : list stmt) (s : stmt) : bool :=
  match s with
  | SDl x l => existsb (fun d : pstr * Z => str_eqb x (fst d) && Z.eqb l (snd d)) (decl_doms world)
  | SSl x sq chk =>
      existsb (fun s0 => match s0 with SSl x0 sq0 _ => str_eqb x x0 && str_eqb sq sq0 | _ => false end) world &&
      match chk with Some n => Z.eqb n (Z.of_nat (length sq)) | None => true end
  | SComp n ds =>
      existsb (fun d : pstr * list pstr => str_eqb n (fst d) && list_eqb str_eqb ds (snd d)) (decl_strands world)
  | SKer n names sst conc =>
      match expand_ker world names sst with
      | Some x =>
          existsb (entry_eqb (n, x)) (decl_cplx world) &&
          match conc with
          | None => true
          | Some c => existsb (fun s0 => match s0 with
                                         | SKer n0 _ _ (Some c0) => str_eqb n n0 && conc_eqb c c0
                                         | _ => false
                                         end) world
          end
      | None => false
      end
  | SSC n ss sst =>
      forallb (fun x => mem_str x (map fst (decl_strands world))) ss &&
      match ssc_names world ss with
      | Some names => Nat.eqb (length names) (length (no_space sst)) && existsb (entry_eqb (n, (names, no_space sst))) (decl_cplx world)
      | None => false
      end
  | SMac n xs =>
      mem_str n xs && existsb (fun d : pstr * list pstr => str_eqb n (fst d) && list_eqb str_eqb xs (snd d)) (decl_macs world)
  | SRxn ri =>
      is_some (ri_rate ri) && nonempty (ri_reactants ri) &&
      forallb (fun x => mem_str x (mdecl (is_cond (ri_type ri)) world)) (ri_reactants ri) &&
      forallb (fun x => mem_str x (mdecl (is_cond (ri_type ri)) world)) (ri_products ri) &&
      existsb (fun ri0 => sig2_eqb (rxn_sig world ri0) (rxn_sig world ri) && opt_fl_eqb (ri_rate ri0) (ri_rate ri) &&
                          opt_str_eqb (ri_units ri0) (ri_units ri)) (decl_rxns world)
  | SOther => false
  end.

(* a kernel statement that re-declares a complex with another concentration: the description of the session
   with the concentration of that complex replaced (complexes declared in strand notation have none) *)
Definition set_conc_stmt (n : pstr) (c : conc) (s : stmt) : stmt :=
  match s with
  | SKer n0 names sst _ => if str_eqb n0 n then SKer n0 names sst (Some c) else s
  | _ => s
  end.
Definition refound (world : list stmt) (s : stmt) : option (list stmt) :=
  match s with
  | SKer n names sst (Some c) =>
      match expand_ker world names sst with
      | Some x =>
          if existsb (entry_eqb (n, x)) (decl_cplx world) &&
             negb (existsb (fun s0 => match s0 with SSC n0 _ _ => str_eqb n0 n | _ => false end) world)
          then Some (map (set_conc_stmt n c) world) else None
      | None => None
      end
  | _ => None
  end.

(* the statements that describe the session after the document: a statement is returned as it is, re-declares
   (foundb; refound when it sets another concentration) or is new and admissible (admb); None when a statement
   is none of these *)
Fixpoint session_from (world : list stmt) (ss : list stmt) : option (list stmt) :=
  match ss with
  | [] => Some world
  | SOther :: rest => session_from world rest
  | s :: rest =>
      if foundb world s then session_from world rest
      else match refound world s with
           | Some w => session_from w rest
           | None => if admb world s then session_from (world ++ [s]) rest else None
           end
  end.
