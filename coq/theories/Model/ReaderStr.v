(* String constants of the reader model (kept apart because importing String
   shadows list functions). *)
From Coq Require Import String.
From DSD Require Import Base.Str.

Definition tDl := str "dl-domain".
Definition tSl := str "sl-domain".
Definition tComposite := str "composite-domain".
Definition tStrandCplx := str "strand-complex".
Definition tKernel := str "kernel-complex".
Definition tMacro := str "resting-macrostate".
Definition tReaction := str "reaction".
Definition sCondensed := str "condensed".
(* a token of the wrong Python type (str where the code needs a list or the other way
   round): outside what the model transcribes; never produced by the grammar *)
Definition eBadLine := str "BadLine".
Definition eBadView := str "BadView".
Definition eOverflow := str "OverflowError".
Definition eName := str "NameError".
Definition eUnbound := str "UnboundLocalError".
