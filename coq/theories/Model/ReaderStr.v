(* String constants of the reader model (kept apart because importing String
   shadows list functions). *)
From Coq Require Import String List.
From DSD Require Import Base.Str.
Import ListNotations.

Definition tDl := str "dl-domain".
Definition tSl := str "sl-domain".
Definition tComposite := str "composite-domain".
Definition tStrandCplx := str "strand-complex".
Definition tKernel := str "kernel-complex".
Definition tMacro := str "resting-macrostate".
Definition tReaction := str "reaction".
Definition sCondensed := str "condensed".
(* a token of the wrong Python type (str where the code needs a list or the other way
   round): outside what the model transcribes; never produced by the grammar *)
Definition eBadLine := str "BadLine".
Definition eBadView := str "BadView".
Definition eOverflow := str "OverflowError".
Definition eName := str "NameError".
Definition eUnbound := str "UnboundLocalError".

(* the error kinds the library declares (C16) ... *)
Definition declared_kinds : list pstr :=
  [str "ParseException"; str "PilFormatError"; str "SingletonError"; str "ObjectInitError";
   str "SecondaryStructureError"; str "NotImplementedError"; str "AssertionError"].
(* ... and interpreter-level faults *)
Definition fault_kinds : list pstr :=
  [str "NameError"; str "TypeError"; str "AttributeError"; str "IndexError"; str "KeyError";
   str "UnboundLocalError"; str "ValueError"; str "ZeroDivisionError"; str "OverflowError"].
Definition is_fault (k : pstr) : bool := existsb (str_eqb k) fault_kinds.
Definition is_declared (k : pstr) : bool := existsb (str_eqb k) declared_kinds.
