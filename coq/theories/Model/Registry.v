(* The singleton-registry state machine (DESIGN.md section 6): Singleton.__call__
   (generic in the class) and the identifiers/__init__ pairs of the five classes
   of dsdobjects/base_classes.py, transcribed one Python function per definition.
   Definitions only. *)
From Coq Require Import List NArith ZArith Bool Arith.
From DSD Require Import Base.Str Base.Errors Model.ComplexUtils Model.RegStr Model.Heap.
Import ListNotations.

(* result of one constructor call `cls(...)` *)
Inductive cout :=
| CRet (id : nat) (created : bool)
| CErr (k : pstr) (existing : option nat).

(* ------------------------------------------------------------------ *)
(* Singleton.__call__: the three-way look-up                            *)

Inductive lres := LFound (o : nat) | LFresh | LRaise (existing : option nat).

Definition nonempty {A} (l : list A) : bool := match l with [] => false | _ => true end.

(* `name` truthy = non-empty string; a canonical form that is not None is a
   non-empty tuple whenever this point is reached *)
Definition sing_lookup (cs : cstate) (name : pstr) (canon : option key) : lres :=
  match nonempty name, canon with
  | true, Some k =>
      match nlookup name (cs_names cs), klookup k (cs_canon cs) with
      | None, None => LFresh
      | None, Some oc => LRaise (Some oc)
      | Some _, None => LRaise None
      | Some on, Some oc => if Nat.eqb on oc then LFound on else LRaise None
      end
  | true, None =>
      match nlookup name (cs_names cs) with Some o => LFound o | None => LRaise None end
  | false, Some k =>
      match klookup k (cs_canon cs) with Some o => LFound o | None => LRaise None end
  | false, None => LRaise None
  end.

(* registration: rotation keys (ComplexS.__init__), then name and canonical form *)
Definition register (st : state) (c : nat) (name : pstr) (k : key) (extra : list key) (id : nat) : state :=
  let cs := cget st c in
  cput st c (mkCstate (nset name id (cs_names cs))
                      (kset k id (fold_left (fun acc k' => kset k' id acc) extra (cs_canon cs)))
                      (cs_id cs)).
Definition register_extra (st : state) (c : nat) (extra : list key) (id : nat) : state :=
  let cs := cget st c in
  cput st c (mkCstate (cs_names cs)
                      (fold_left (fun acc k' => kset k' id acc) extra (cs_canon cs))
                      (cs_id cs)).

(* self.__class__.ID += 1 *)
Definition bump_id (ct : ctable) (st : state) (c : nat) : state :=
  match class_id ct st c with
  | Some z => set_id st c (z + 1)%Z
  | None => st
  end.

(* type.__call__: __init__ of the (possibly failing user sub-)class, then the
   registration by Singleton.__call__.  `auto` = the name was generated. *)
Definition create (ct : ctable) (st : state) (c : nat) (auto : bool) (name : pstr)
    (k : key) (extra : list key) (children : list nat) (d : odata) : state * cout :=
  match nth_error ct c with
  | None => (st, CErr eBadRequest None)
  | Some ci =>
      match c_fail ci with
      | FBefore => (st, CErr eUserFail None)
      | fm =>
          let st1 := if auto then bump_id ct st c else st in
          let '(st2, id) := alloc st1 (mkObj c name k (k :: extra) true children d) in
          match fm with
          | FAfter =>
              (* the library __init__ ran (rotation keys are registered), then the
                 user code raised: the object is unreachable and is released *)
              (collect (register_extra st2 c extra id), CErr eUserFail None)
          | _ => (register st2 c name k extra id, CRet id true)
          end
      end
  end.

(* automatic names: f'{prefix}{cls.ID}' *)
Definition resolve_name (ct : ctable) (st : state) (c : nat) (ci : cinfo)
    (name prefix : option pstr) : res pstr :=
  match name with
  | Some n => Ok n
  | None =>
      match class_id ct st c with
      | None => Err eAttribute
      | Some z => Ok (match prefix with Some p => p | None => c_prefix ci end ++ z_dec z)
      end
  end.
Definition is_none {A} (o : option A) : bool := match o with None => true | _ => false end.

(* ------------------------------------------------------------------ *)
(* DomainS                                                              *)

Definition cStar : chr := 42%N.
Definition starred (n : pstr) : bool :=
  match rev n with c :: _ => N.eqb c cStar | [] => false end.
Definition cname_of (n : pstr) : pstr := if starred n then removelast n else n ++ [cStar].

Definition truthy_s (o : option pstr) : bool := match o with Some (_ :: _) => true | _ => false end.
Definition is_s (o : option pstr) (s : pstr) : bool := match o with Some d => str_eqb d s | None => false end.

(* the `length`/`dtype` prologue of DomainS.identifiers *)
Definition dom_len1 (ci : cinfo) (len : option Z) (dtype : option pstr) : res (option Z) :=
  match len with
  | None => Ok (if is_s dtype sShort then Some (c_short ci)
                else if is_s dtype sLong then Some (c_long ci) else None)
  | Some l =>
      if truthy_s dtype && negb (Bool.eqb (is_s dtype sShort) (l <=? c_cutoff ci)%Z)
      then Err eObjectInit else Ok (Some l)
  end.

(* d.length: the plain attribute, read by DomainS.identifiers (no len(), hence no
   ValueError/OverflowError for a negative or huge length) *)
Definition obj_length (h : list obj) (i : nat) : res Z :=
  match hget h i with
  | Some o => match o_data o with
              | DDom l => Ok l
              | _ => Err eType
              end
  | None => Err eBadRequest
  end.

Definition is_singleton_err (k : pstr) : bool := str_eqb k eSingleton.

(* The three complement branches of DomainS.identifiers.  `rec st n l` is the nested
   constructor call cls(n, length = l); `collect` after every nested call whose result
   is not kept.  Returns the length that enters the canonical form. *)
Definition dom_nested (rec : state -> pstr -> option Z -> state * cout)
    (st : state) (nm : pstr) (len1 : option Z) : state * res (option Z) :=
  let cn := cname_of nm in
  match len1, starred nm with
  | None, true =>
      (* length = cls(cname, length = None).length ; except SingletonError: pass *)
      let '(s1, r) := rec st cn None in
      match r with
      | CRet o _ =>
          match obj_length (heap s1) o with
          | Ok l => (collect s1, Ok (Some l))
          | Err k => (collect s1, Err k)
          end
      | CErr k _ => if is_singleton_err k then (collect s1, Ok None) else (s1, Err k)
      end
  | Some l, false =>
      (* clength = cls(cname).length; cls(cname, length = length) *)
      let '(s1, r) := rec st cn None in
      match r with
      | CRet o _ =>
          match obj_length (heap s1) o with
          | Err k => (collect s1, Err k)
          | Ok cl =>
              let '(s2, r2) := rec (collect s1) cn (Some l) in
              match r2 with
              | CRet _ _ => (collect s2, Ok len1)
              | CErr k _ =>
                  if is_singleton_err k
                  then (collect s2, if Z.eqb cl l then Ok len1 else Err eSingleton)
                  else (s2, Err k)
              end
          end
      | CErr k _ => if is_singleton_err k then (collect s1, Ok len1) else (s1, Err k)
      end
  | Some l, true =>
      (* try: clength = cls(cname).length except SingletonError: clength = length *)
      let '(s1, r) := rec st cn None in
      match r with
      | CRet o _ =>
          match obj_length (heap s1) o with
          | Err k => (collect s1, Err k)
          | Ok cl => (collect s1, if Z.eqb cl l then Ok len1 else Err eSingleton)
          end
      | CErr k _ => if is_singleton_err k then (collect s1, Ok len1) else (s1, Err k)
      end
  | None, false => (st, Ok None)
  end.

(* Singleton.__call__ after identifiers: look-up, then type.__call__ + registration *)
Definition dom_finish (ct : ctable) (c : nat) (st1 : state) (auto : bool) (nm : pstr)
    (len2 : option Z) : state * cout :=
  match sing_lookup (cget st1 c) nm (option_map (KDom nm) len2) with
  | LFound o => (st1, CRet o false)
  | LRaise e => (st1, CErr eSingleton e)
  | LFresh =>
      match len2 with
      | Some l => create ct st1 c auto nm (KDom nm l) [] [] (DDom l)
      | None => (st1, CErr eBadRequest None)
      end
  end.

Definition dom_body (rec : state -> pstr -> option Z -> state * cout)
    (ct : ctable) (c : nat) (st : state)
    (name : option pstr) (len : option Z) (prefix dtype : option pstr) : state * cout :=
  match nth_error ct c with
  | None => (st, CErr eBadRequest None)
  | Some ci =>
  match resolve_name ct st c ci name prefix with
  | Err k => (st, CErr k None)
  | Ok nm =>
  match dom_len1 ci len dtype with
  | Err k => (st, CErr k None)
  | Ok len1 =>
  if negb (nonempty nm) then (st, CErr eIndex None) else      (* name[-1] *)
  let '(st1, rl) := dom_nested rec st nm len1 in
  match rl with
  | Err k => (st1, CErr k None)
  | Ok len2 => dom_finish ct c st1 (is_none name) nm len2
  end
  end end end.

(* cls(name, length, prefix, dtype) for a domain class.  The recursion
   identifiers -> cls(cname) -> identifiers is by fuel (real depth <= 3). *)
Fixpoint dom_call (fuel : nat) (ct : ctable) (c : nat) (st : state)
    (name : option pstr) (len : option Z) (prefix dtype : option pstr) : state * cout :=
  match fuel with
  | 0 => (st, CErr eFuel None)
  | S f =>
      dom_body (fun st' n l => dom_call f ct c st' (Some n) l None None) ct c st name len prefix dtype
  end.

Definition dom_fuel := 8.

(* d.complement / ~d : self.__class__(self.cname, self.length) *)
Definition dom_complement (ct : ctable) (st : state) (i : nat) : state * cout :=
  match hget (heap st) i with
  | Some o =>
      match o_data o with
      | DDom l => dom_call dom_fuel ct (o_cls o) st (Some (cname_of (o_name o))) (Some l) None None
      | _ => (st, CErr eType None)
      end
  | None => (st, CErr eBadRequest None)
  end.

(* ------------------------------------------------------------------ *)
(* ComplexS                                                             *)

Definition elem_ids (es : list elem) : list nat :=
  flat_map (fun e => match snd e with Some i => [i] | None => [] end) es.

Definition cdict_set := aset ckey_eqb.
Definition cdict_get := alookup ckey_eqb.

(* the rotation loop of ComplexS.identifiers; Some (k, e) = early exit *)
Fixpoint rot_loop (n e : nat) (reg : list (key * nat)) (rseq : list pstr) (rstr : list chr)
    (cdict : list (ckey * nat)) : res (option (ckey * nat) * list (ckey * nat)) :=
  match n with
  | 0 => Ok (None, cdict)
  | S n' =>
      match klookup (KCplx (rseq, rstr)) reg with
      | Some _ => Ok (Some ((rseq, rstr), e), cdict)
      | None =>
          let cdict' := cdict_set (rseq, rstr) e cdict in
          dor rr <- rotate_complex_once rseq rstr;
          rot_loop n' (S e) reg (fst rr) (snd rr) cdict'
      end
  end.

(* sorted(cdict, key = ...)[0] *)
Fixpoint min_ckey (l : list (ckey * nat)) : option ckey :=
  match l with
  | [] => None
  | (k, _) :: r =>
      match min_ckey r with
      | None => Some k
      | Some m => if cmp_ltb (ckey_cmp m k) then Some m else Some k
      end
  end.

(* rotate the element list like rotate_complex_once rotates the names *)
Definition rot_elems (es : list elem) : list elem :=
  match index_of sPlus (map fst es) with
  | None => es
  | Some p => skipn (S p) es ++ [(sPlus, None)] ++ firstn p es
  end.

Definition cplx_call (ct : ctable) (c : nat) (st : state)
    (seq : option (list elem)) (sst : option (list chr)) (name prefix : option pstr) : state * cout :=
  match nth_error ct c with
  | None => (st, CErr eBadRequest None)
  | Some ci =>
  match seq with
  | None =>
      match name with
      | None => (st, CErr eObjectInit None)
      | Some nm =>
          match sing_lookup (cget st c) nm None with
          | LFound o => (st, CRet o false)
          | LRaise e => (st, CErr eSingleton e)
          | LFresh => (st, CErr eBadRequest None)
          end
      end
  | Some es =>
      match resolve_name ct st c ci name prefix with
      | Err k => (st, CErr k None)
      | Ok nm =>
      match sst with
      | None => (st, CErr eType None)                       (* len(None) *)
      | Some ss =>
      if negb (Nat.eqb (length es) (length ss)) then (st, CErr eObjectInit None) else
      let names := map fst es in
      let n := length (make_strand_table_list sPlus names) in
      if Nat.eqb n 0 then (st, CErr eObjectInit None) else          (* 'no strands' *)
      match rot_loop n 0 (cs_canon (cget st c)) names ss [] with
      | Err k => (st, CErr k None)
      | Ok (ex, cdict) =>
          let ct_res :=
            match ex with
            | Some (k, e) => Ok (k, e)
            | None =>
                match min_ckey cdict with
                | None => Err eIndex
                | Some k => match cdict_get k cdict with Some e => Ok (k, e) | None => Err eKey end
                end
            end in
          match ct_res with
          | Err k => (st, CErr k None)
          | Ok (cn, e) =>
              let turns := wrap (- Z.of_nat e) (Z.of_nat n) in
              let rkeys := map (fun kv => KCplx (fst kv)) cdict in
              match sing_lookup (cget st c) nm (Some (KCplx cn)) with
              | LFound o => (st, CRet o false)
              | LRaise x => (st, CErr eSingleton x)
              | LFresh =>
                  create ct st c (is_none name) nm (KCplx cn) rkeys (elem_ids es) (DCplx es ss turns)
              end
          end
      end
      end end
  end end.

(* ------------------------------------------------------------------ *)
(* StrandS                                                              *)

Definition is_plus (e : elem) : bool :=
  match snd e with None => str_eqb (fst e) sPlus | Some _ => false end.

Definition strand_call (ct : ctable) (c : nat) (st : state)
    (seq : option (list elem)) (name prefix : option pstr) : state * cout :=
  match nth_error ct c with
  | None => (st, CErr eBadRequest None)
  | Some ci =>
  match seq with
  | None =>
      match name with
      | None => (st, CErr eObjectInit None)
      | Some nm =>
          match sing_lookup (cget st c) nm None with
          | LFound o => (st, CRet o false)
          | LRaise e => (st, CErr eSingleton e)
          | LFresh => (st, CErr eBadRequest None)
          end
      end
  | Some es =>
      if existsb is_plus es then (st, CErr eNotImpl None) else
      match resolve_name ct st c ci name prefix with
      | Err k => (st, CErr k None)
      | Ok nm =>
          let cn : ckey := (map fst es, map (fun _ => cStar) es) in
          match sing_lookup (cget st c) nm (Some (KCplx cn)) with
          | LFound o => (st, CRet o false)
          | LRaise x => (st, CErr eSingleton x)
          | LFresh => create ct st c (is_none name) nm (KCplx cn) [] (elem_ids es) (DStrand es)
          end
      end
  end end.

(* ------------------------------------------------------------------ *)
(* MacrostateS                                                          *)

(* canonical form of a member of a macrostate: a complex or a strand *)
Definition member_ckey (h : list obj) (i : nat) : option ckey :=
  match hget h i with
  | Some o => match o_data o, o_key o with
              | DCplx _ _ _, KCplx k => Some k
              | DStrand _, KCplx k => Some k
              | _, _ => None
              end
  | None => None
  end.
Definition obj_name (h : list obj) (i : nat) : pstr :=
  match hget h i with Some o => o_name o | None => [] end.

Fixpoint omap' {A B} (f : A -> option B) (l : list A) : option (list B) :=
  match l with
  | [] => Some []
  | x :: r => match f x, omap' f r with Some y, Some ys => Some (y :: ys) | _, _ => None end
  end.

Definition macro_call (ct : ctable) (c : nat) (st : state)
    (members : option (list nat)) (name : option pstr) : state * cout :=
  match members with
  | None =>
      match name with
      | None => (st, CErr eAssert None)
      | Some nm =>
          match sing_lookup (cget st c) nm None with
          | LFound o => (st, CRet o false)
          | LRaise e => (st, CErr eSingleton e)
          | LFresh => (st, CErr eBadRequest None)
          end
      end
  | Some ms =>
      let h := heap st in
      match omap' (fun i => option_map (fun k => (i, k)) (member_ckey h i)) ms with
      | None => (st, CErr eUnmodelled None)
      | Some mks =>
          let sorted := sort_by snd ckey_cmp mks in
          let rn : res pstr :=
            match name with
            | None => match sorted with
                      | [] => Err eIndex                         (* complexes[0] *)
                      | (i, _) :: _ => Ok (obj_name h i)
                      end
            | Some nm => if existsb (fun i => str_eqb nm (obj_name h i)) ms then Ok nm else Err eAssert
            end in
          match rn with
          | Err k => (st, CErr k None)
          | Ok nm =>
              let cn := KMac (map snd sorted) in
              match sing_lookup (cget st c) nm (Some cn) with
              | LFound o => (st, CRet o false)
              | LRaise x => (st, CErr eSingleton x)
              | LFresh =>
                  match find (fun i => str_eqb (obj_name h i) nm) ms with
                  | Some rep => create ct st c false nm cn [] ms (DMac ms rep)
                  | None => (st, CErr eBadRequest None)
                  end
              end
          end
      end
  end.

(* ------------------------------------------------------------------ *)
(* ReactionS                                                            *)

(* canonical form of a reaction member and whether it is a macrostate *)
Definition member_form (h : list obj) (i : nat) : option (bool * list ckey) :=
  match hget h i with
  | Some o => match o_data o, o_key o with
              | DCplx _ _ _, KCplx k => Some (false, [k])
              | DStrand _, KCplx k => Some (false, [k])
              | DMac _ _, KMac l => Some (true, l)
              | _, _ => None
              end
  | None => None
  end.

Fixpoint join_names (sep : pstr) (l : list pstr) : pstr :=
  match l with
  | [] => []
  | [s] => s
  | s :: r => s ++ sep ++ join_names sep r
  end.

Definition fmt_opt (t : option pstr) : pstr := match t with Some s => s | None => sNone end.

Definition reaction_call (ct : ctable) (c : nat) (st : state)
    (rp : option (list nat * list nat)) (rtype : option pstr) (name : option pstr) : state * cout :=
  match rp with
  | None =>
      match name, rtype with
      | Some nm, None =>
          match sing_lookup (cget st c) nm None with
          | LFound o => (st, CRet o false)
          | LRaise e => (st, CErr eSingleton e)
          | LFresh => (st, CErr eBadRequest None)
          end
      | _, _ => (st, CErr eType None)                 (* iterating over None *)
      end
  | Some (rs, ps) =>
      let h := heap st in
      let forms l := omap' (fun i => option_map (fun f => (i, f)) (member_form h i)) l in
      match forms rs, forms ps with
      | Some fr, Some fp =>
          let flags := map (fun x => fst (snd x)) (fr ++ fp) in
          let ism := existsb (fun b => b) flags in
          if ism && negb (forallb (fun b => b) flags) then (st, CErr eUnmodelled None) else
          let sr := sort_by (fun x => snd (snd x)) mkey_cmp fr in
          let sp := sort_by (fun x => snd (snd x)) mkey_cmp fp in
          let cn := KRxn ism (map (fun x => snd (snd x)) sr) (map (fun x => snd (snd x)) sp) rtype in
          let nm := match name with
                    | Some nm => nm
                    | None => sLBr ++ fmt_opt rtype ++ sRBr
                              ++ join_names sSepPlus (map (fun x => obj_name h (fst x)) sr)
                              ++ sArrow
                              ++ join_names sSepPlus (map (fun x => obj_name h (fst x)) sp)
                    end in
          match sing_lookup (cget st c) nm (Some cn) with
          | LFound o => (st, CRet o false)
          | LRaise x => (st, CErr eSingleton x)
          | LFresh => create ct st c false nm cn [] (rs ++ ps) (DRxn (map fst sr) (map fst sp) rtype)
          end
      | _, _ => (st, CErr eUnmodelled None)
      end
  end.

(* ------------------------------------------------------------------ *)
(* turns setter                                                         *)

Fixpoint rot_n (t : nat) (es : list elem) (ss : list chr) : res (list elem * list chr) :=
  match t with
  | 0 => Ok (es, ss)
  | S t' =>
      dor rr <- rotate_complex_once (map fst es) ss;
      rot_n t' (rot_elems es) (snd rr)
  end.

Definition set_turns (st : state) (i : nat) (v : Z) : state * res unit :=
  match hget (heap st) i with
  | Some o =>
      match o_data o with
      | DCplx es ss turns =>
          let tot := Z.of_nat (length (make_strand_table_list sPlus (map fst es))) in
          if (tot <=? 0)%Z then (st, Err eZeroDiv) else
          let t := wrap (- turns + v) tot in
          match rot_n (Z.to_nat t) es ss with
          | Ok (es', ss') =>
              (mkState (hset (heap st) i (with_data o (DCplx es' ss' (wrap v tot)))) (classes st) (roots st),
               Ok tt)
          | Err k => (st, Err k)
          end
      | DStrand es =>
          (* wrap(.., self.size) first, then list(self.structure) with structure None *)
          if Nat.eqb (length (make_strand_table_list sPlus (map fst es))) 0
          then (st, Err eZeroDiv) else (st, Err eType)
      | _ => (st, Err eAttribute)
      end
  | None => (st, Err eBadRequest)
  end.

(* ------------------------------------------------------------------ *)
(* operations                                                           *)

Inductive uelem := UPlus | USlot (s : nat) | UStr (s : pstr).
Inductive query := QName | QLen | QDtype | QSize.
Inductive qval := QS (s : pstr) | QZ (z : Z).

Inductive op :=
| ODomain (dst cls : nat) (name : option pstr) (len : option Z) (prefix dtype : option pstr)
| OComplex (dst cls : nat) (seq : option (list uelem)) (sst : option (list chr)) (name prefix : option pstr)
| OStrand (dst cls : nat) (seq : option (list uelem)) (name prefix : option pstr)
| OMacro (dst cls : nat) (members : option (list nat)) (name : option pstr)
| OReaction (dst cls : nat) (rp : option (list nat * list nat)) (rtype name : option pstr)
| OComplement (dst src : nat)
| ODrop (slot : nat)
| OQuery (slot : nat) (q : query)
| OSetTurns (slot : nat) (v : Z).

Inductive out :=
| Returned (id : nat)
| Created (id : nat)
| Raised (k : pstr) (existing : option nat)
| Skipped                         (* the op refers to an empty slot / a class of the wrong kind *)
| Value (v : qval).

Definition resolve_elem (st : state) (u : uelem) : option elem :=
  match u with
  | UPlus => Some (sPlus, None)
  | UStr s => Some (s, None)
  | USlot s => match get_root st s with
               | Some i => Some (obj_name (heap st) i, Some i)
               | None => None
               end
  end.
Definition resolve_elems (st : state) (us : option (list uelem)) : option (option (list elem)) :=
  match us with
  | None => Some None
  | Some l => option_map Some (omap' (resolve_elem st) l)
  end.
Definition resolve_slots (st : state) (l : list nat) : option (list nat) := omap' (get_root st) l.

Definition class_kind (ct : ctable) (c : nat) : option kind := option_map c_kind (nth_error ct c).
Definition kind_is (ct : ctable) (c : nat) (k : kind) : bool :=
  match class_kind ct c with Some k' => kind_eqb k k' | None => false end.

(* store the result / drop the exception, then release what became unreachable *)
Definition finish (dst : nat) (r : state * cout) : state * out :=
  match snd r with
  | CRet id created =>
      (collect (set_root (fst r) dst (Some id)), if created then Created id else Returned id)
  | CErr k e => (collect (fst r), Raised k e)
  end.

Definition query_obj (ct : ctable) (h : list obj) (o : obj) (q : query) : res qval :=
  match q with
  | QName => Ok (QS (o_name o))
  | QLen =>
      match o_data o with
      | DDom l => if (l <? 0)%Z then Err eValue else Ok (QZ l)
      | DCplx _ _ _ | DStrand _ => Err eNotImpl
      | DMac ms _ => Ok (QZ (Z.of_nat (length ms)))
      | DRxn _ _ _ => Err eType
      end
  | QDtype =>
      match o_data o, nth_error ct (o_cls o) with
      | DDom l, Some ci => Ok (QS (if (l <=? c_cutoff ci)%Z then sShort else sLong))
      | _, _ => Err eAttribute
      end
  | QSize =>
      match o_data o with
      | DCplx es _ _ | DStrand es =>
          Ok (QZ (Z.of_nat (length (make_strand_table_list sPlus (map fst es)))))
      | _ => Err eAttribute
      end
  end.

Definition step (ct : ctable) (st : state) (o : op) : state * out :=
  match o with
  | ODomain dst c name len prefix dtype =>
      if kind_is ct c KindD then finish dst (dom_call dom_fuel ct c st name len prefix dtype)
      else (st, Skipped)
  | OComplex dst c seq sst name prefix =>
      if kind_is ct c KindC then
        match resolve_elems st seq with
        | Some es => finish dst (cplx_call ct c st es sst name prefix)
        | None => (st, Skipped)
        end
      else (st, Skipped)
  | OStrand dst c seq name prefix =>
      if kind_is ct c KindS then
        match resolve_elems st seq with
        | Some es => finish dst (strand_call ct c st es name prefix)
        | None => (st, Skipped)
        end
      else (st, Skipped)
  | OMacro dst c members name =>
      if kind_is ct c KindM then
        match members with
        | None => finish dst (macro_call ct c st None name)
        | Some l => match resolve_slots st l with
                    | Some ids => finish dst (macro_call ct c st (Some ids) name)
                    | None => (st, Skipped)
                    end
        end
      else (st, Skipped)
  | OReaction dst c rp rtype name =>
      if kind_is ct c KindR then
        match rp with
        | None => finish dst (reaction_call ct c st None rtype name)
        | Some (r, p) =>
            match resolve_slots st r, resolve_slots st p with
            | Some r', Some p' => finish dst (reaction_call ct c st (Some (r', p')) rtype name)
            | _, _ => (st, Skipped)
            end
        end
      else (st, Skipped)
  | OComplement dst src =>
      match get_root st src with
      | Some i =>
          match hget (heap st) i with
          | Some ob => match o_data ob with
                       | DDom _ => finish dst (dom_complement ct st i)
                       | _ => (st, Skipped)
                       end
          | None => (st, Skipped)
          end
      | None => (st, Skipped)
      end
  | ODrop slot => (collect (set_root st slot None), Value (QZ 0))
  | OQuery slot q =>
      match get_root st slot with
      | Some i =>
          match hget (heap st) i with
          | Some ob => match query_obj ct (heap st) ob q with
                       | Ok v => (st, Value v)
                       | Err k => (st, Raised k None)
                       end
          | None => (st, Skipped)
          end
      | None => (st, Skipped)
      end
  | OSetTurns slot v =>
      match get_root st slot with
      | Some i =>
          match hget (heap st) i with
          | Some ob =>
              match o_data ob with
              | DCplx _ _ _ | DStrand _ =>
                  match set_turns st i v with
                  | (st', Ok _) => (st', Value (QZ 0))
                  | (st', Err k) => (st', Raised k None)
                  end
              | _ => (st, Skipped)     (* plain attribute assignment on other kinds: not modelled *)
              end
          | None => (st, Skipped)
          end
      | None => (st, Skipped)
      end
  end.

Definition run (ct : ctable) (st : state) (ops : list op) : state :=
  fold_left (fun s o => fst (step ct s o)) ops st.
