(* Model of the object-level rotation generators of dsdobjects/base_classes.py
   (ComplexS.rotate, ComplexS.rotate_pt, ComplexS.rotate_pairtable_loc) as pure
   functions of the stored (sequence, structure).  Definitions only.

   A ComplexS object keeps the (sequence, structure) it was constructed with as
   its current representation; every generator below reads only these two
   fields (and `size` = len(make_strand_table(sequence))). *)
From Coq Require Import List NArith ZArith Bool Arith.
From DSD Require Import Base.Str Base.Errors Model.ComplexUtils.
Import ListNotations.

Definition cplx := (list pstr * list chr)%type.

(* ComplexS.size *)
Definition size_of (seq : list pstr) : nat := length (make_strand_table_list sPlus seq).

(* k successive applications of rotate_complex_once, every intermediate result
   kept (the results after the starting point) *)
Fixpoint rot_chain (k : nat) (x : cplx) : res (list cplx) :=
  match k with
  | 0 => Ok []
  | S k' =>
      dor y <- rotate_complex_once (fst x) (snd x);
      dor r <- rot_chain k' y;
      Ok (y :: r)
  end.

(* k-fold iteration, only the last result *)
Fixpoint rot_iter (k : nat) (x : cplx) : res cplx :=
  match k with
  | 0 => Ok x
  | S k' => dor y <- rotate_complex_once (fst x) (snd x); rot_iter k' y
  end.

(* ComplexS.identifiers (empty registry): the length test, the no-strands test,
   then one rotate_complex_once per strand (each may raise) *)
Definition obj_construct (seq : list pstr) (sst : list chr) : res unit :=
  if negb (Nat.eqb (length seq) (length sst)) then Err eObjectInit
  else if Nat.eqb (size_of seq) 0 then Err eObjectInit
  else dor _ <- rot_chain (size_of seq) (seq, sst); Ok tt.

(* ComplexS.rotate(turns): the current representation, then turns-1
   applications of rotate_complex_once; turns = None means self.size.
   range(turns-1) is empty for turns <= 1. *)
Definition turns_of (seq : list pstr) (turns : option Z) : Z :=
  match turns with None => Z.of_nat (size_of seq) | Some t => t end.

Definition obj_rotate (seq : list pstr) (sst : list chr) (turns : option Z) : res (list cplx) :=
  dor r <- rot_chain (Z.to_nat (turns_of seq turns - 1)) (seq, sst);
  Ok ((seq, sst) :: r).

(* ComplexS.rotate_pt(turns): make_strand_table / make_pair_table of each element
   of rotate(turns), interleaved with the rotation steps exactly as the nested
   generators run them *)
Fixpoint rot_pt_chain (k : nat) (x : cplx) : res (list (list (list pstr) * tab)) :=
  dor pt <- make_pair_table cP [cD] (snd x);
  let here := (make_strand_table_list sPlus (fst x), pt) in
  match k with
  | 0 => Ok [here]
  | S k' =>
      dor y <- rotate_complex_once (fst x) (snd x);
      dor r <- rot_pt_chain k' y;
      Ok (here :: r)
  end.

Definition obj_rotate_pt (seq : list pstr) (sst : list chr) (turns : option Z)
  : res (list (list (list pstr) * tab)) :=
  rot_pt_chain (Z.to_nat (turns_of seq turns - 1)) (seq, sst).

(* ComplexS.rotate_pairtable_loc(loc, n) = (wrap(loc[0] - n, self.size), loc[1]) *)
Definition rotate_pairtable_loc (l : Z * Z) (n : Z) (size : nat) : Z * Z :=
  (wrap (fst l - n) (Z.of_nat size), snd l).

(* ------------------------------------------------------------------ *)
(* explicit turn counts of the two utility generators                   *)

(* rotate_complex_pt(stab, ptab, turns): `turns` is None or any Python int;
   `if turns > 0:` yields nothing for turns <= 0 *)
Definition rotate_complex_pt_turns {A} (turns : option Z) (stab : list (list A)) (ptab : tab)
  : list (list (list A) * tab) :=
  rotate_complex_pt (match turns with None => length ptab | Some t => Z.to_nat t end) stab ptab.

(* the loop body of rotate_complex_db (lists, join = False) *)
Fixpoint db_convert (l : list (list (list pstr) * tab)) : res (list cplx) :=
  match l with
  | [] => Ok []
  | (st, pt) :: r =>
      dor nseq <- strand_table_to_sequence sPlus st;
      dor rest <- db_convert r;
      Ok ((nseq, pair_table_to_dot_bracket cP pt) :: rest)
  end.

(* rotate_complex_db(seq, sst, turns) *)
Definition rotate_complex_db_turns (seq : list pstr) (sst : list chr) (turns : option Z)
  : res (list cplx) :=
  let stab := make_strand_table_list sPlus seq in
  dor ptab <- make_pair_table cP [cD] sst;
  if negb (forallb (fun xy => Nat.eqb (length (fst xy)) (length (snd xy))) (combine stab ptab))
  then Err eAssert
  else db_convert (rotate_complex_pt_turns turns stab ptab).
