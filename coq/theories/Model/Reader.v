(* The PIL reader of dsdobjects/objectio.py on parsed lines (token trees), as a client of
   the singleton-registry machine (Model/Registry.v): read_pil_line, read_reaction,
   the document loop of read_pil and the result dictionary.  Transcribed branch by
   branch; DEFINITIONS ONLY.

   State.  The registry state `state` plus the attributes the reader assigns on objects
   after construction (DomainS.sequence, ComplexS.concentration, ReactionS rate
   constant and units), kept here as association lists on object ids (ids are never
   reused).

   References.  Everything the running reader holds is a root of the registry state:
   the user's own slots (the roots present when the read starts), the objects already
   filed in the result dictionary, and the temporaries of the line being read (every
   object a constructor call returned; they are appended to the roots by `call`).
   `release` cuts the roots back and runs `collect` at the points where Python drops
   references: at the end of every line (`del obj`, `del comp`), when the first attempt
   of the kernel branch is abandoned, and when an exception leaves read_pil (all locals,
   including the result dictionary, are dropped).

   Errors.  `Err k` with k the name of the Python exception.  Every partial operation
   of the code (indexing, unpacking, float()/int() of a token, calling a None slot,
   reduce() of an empty list, attribute access) has its own error outcome.  A token of
   the wrong Python type (str where a list is needed or conversely) is answered with
   `BadLine`: such trees are outside what is transcribed (the grammar never produces
   them, cf. Proofs/ReaderShape.v). *)
From Coq Require Import List NArith ZArith Bool Arith.
From DSD Require Import Base.Str Base.Errors Model.ComplexUtils Model.RegStr Model.ReaderStr Model.PyNum
  Model.Peg Model.Kernel Model.DispatchKernel.
From DSD Require Model.Iupac.
From DSD Require Import Model.Heap Model.Registry.
From DSDGen Require Import ReaderConsts.
Import ListNotations.

(* ------------------------------------------------------------------ *)
(* configuration: the five module-level class slots (None = not set)    *)

Record cfg := mkCfg { gD : option nat; gS : option nat; gC : option nat; gM : option nat; gR : option nat }.

(* ------------------------------------------------------------------ *)
(* reader state                                                         *)

Definition conc := (tok * fl * tok)%type.      (* (mode, float value, unit) *)

Record rstate := mkR {
  r_st : state;
  r_seq : list (nat * pstr);                   (* DomainS.sequence when not None *)
  r_conc : list (nat * conc);                  (* ComplexS._concentration when not None *)
  r_rate : list (nat * (fl * option pstr))     (* ReactionS._const, _units when _const is not None *)
}.

Definition with_st (r : rstate) (st : state) : rstate := mkR st (r_seq r) (r_conc r) (r_rate r).

Section Attr.
  Context {V : Type}.
  Fixpoint attr_get (i : nat) (l : list (nat * V)) : option V :=
    match l with
    | [] => None
    | (j, v) :: r => if Nat.eqb i j then Some v else attr_get i r
    end.
  Definition attr_set (i : nat) (v : V) (l : list (nat * V)) : list (nat * V) := (i, v) :: l.
End Attr.

(* state-and-exception monad *)
Definition M (A : Type) := rstate -> rstate * res A.
Definition ret {A} (a : A) : M A := fun r => (r, Ok a).
Definition fail {A} (k : pstr) : M A := fun r => (r, Err k).
Definition lift {A} (x : res A) : M A := fun r => (r, x).
Definition bind {A B} (m : M A) (f : A -> M B) : M B :=
  fun r => match m r with
           | (r', Ok a) => f a r'
           | (r', Err k) => (r', Err k)
           end.
Notation "'dm' x <- m ; k" := (bind m (fun x => k))
  (at level 200, x pattern, m at level 100, k at level 200).

(* try: m  except <kinds p>: h   (the handler starts in the state at the raise) *)
Definition catch {A} (m : M A) (p : pstr -> bool) (h : M A) : M A :=
  fun r => match m r with
           | (r', Err k) => if p k then h r' else (r', Err k)
           | ok => ok
           end.

Fixpoint mapM {A B} (f : A -> M B) (l : list A) : M (list B) :=
  match l with
  | [] => ret []
  | x :: r => dm y <- f x; dm ys <- mapM f r; ret (y :: ys)
  end.

Definition get_state : M state := fun r => (r, Ok (r_st r)).

(* ------------------------------------------------------------------ *)
(* references                                                           *)

Definition hold (st : state) (i : nat) : state :=
  mkState (heap st) (classes st) (roots st ++ [Some i]).
Definition cut_roots (st : state) (n : nat) (keep : list nat) : state :=
  mkState (heap st) (classes st) (firstn n (roots st) ++ map Some keep).

Definition nroots : M nat := fun r => (r, Ok (length (roots (r_st r)))).
(* drop every reference taken since the roots had length n, except `keep` *)
Definition release (n : nat) (keep : list nat) : M unit :=
  fun r => (with_st r (collect (cut_roots (r_st r) n keep)), Ok tt).

(* a constructor call; the returned object is held until the next release *)
Definition call (f : state -> state * cout) : M nat :=
  fun r => let (st', c) := f (r_st r) in
           match c with
           | CRet id _ => (with_st r (hold st' id), Ok id)
           | CErr k _ => (with_st r st', Err k)
           end.

(* calling a slot that is None: TypeError ('NoneType' object is not callable) *)
Definition slot (o : option nat) : M nat := match o with Some c => ret c | None => fail eType end.

(* ------------------------------------------------------------------ *)
(* token access with Python's failure modes                             *)

Definition tnth (l : list tok) (i : nat) : res tok :=
  match nth_error l i with Some t => Ok t | None => Err eIndex end.
Definition t_str (t : tok) : res pstr := match t with TStr s => Ok s | TList _ => Err eBadLine end.
Definition t_list (t : tok) : res (list tok) := match t with TList l => Ok l | TStr _ => Err eBadLine end.
Fixpoint t_strs (l : list tok) : res (list pstr) :=
  match l with
  | [] => Ok []
  | t :: r => dor s <- t_str t; dor ss <- t_strs r; Ok (s :: ss)
  end.
Definition tag_is (t : tok) (s : pstr) : bool := match t with TStr x => str_eqb x s | TList _ => false end.

(* ------------------------------------------------------------------ *)
(* object attributes                                                    *)

Definition oname (st : state) (i : nat) : pstr := obj_name (heap st) i.
Definition elem_of (st : state) (i : nat) : elem := (oname st i, Some i).

(* obj.sequence of a strand / complex: iter(self._sequence) *)
Definition seq_of (st : state) (i : nat) : res (list elem) :=
  match hget (heap st) i with
  | Some o => match o_data o with
              | DStrand es => Ok es
              | DCplx es _ _ => Ok es
              | _ => Err eAttribute
              end
  | None => Err eBadRequest
  end.

(* isinstance(obj, cls) through the class table *)
Fixpoint subclass (fuel : nat) (ct : ctable) (c d : nat) : bool :=
  Nat.eqb c d ||
  match fuel with
  | 0 => false
  | S f => match nth_error ct c with
           | Some ci => match c_parent ci with Some p => subclass f ct p d | None => false end
           | None => false
           end
  end.
Definition isinst (ct : ctable) (st : state) (i d : nat) : bool :=
  match hget (heap st) i with
  | Some o => subclass (length ct) ct (o_cls o) d
  | None => false
  end.

(* ------------------------------------------------------------------ *)
(* the constructor calls the reader makes                               *)

Section Reader.
  Variable ct : ctable.
  Variable g : cfg.

  (* Domain(name) *)
  Definition domain_by_name (nm : pstr) : M nat :=
    dm c <- slot (gD g); call (fun st => dom_call dom_fuel ct c st (Some nm) None None None).
  (* Domain(name, length = l) *)
  Definition domain_new (nm : pstr) (l : Z) : M nat :=
    dm c <- slot (gD g); call (fun st => dom_call dom_fuel ct c st (Some nm) (Some l) None None).
  (* ~d *)
  Definition invert (i : nat) : M nat := call (fun st => dom_complement ct st i).
  (* Strand(None, name = s) *)
  Definition strand_by_name (nm : pstr) : M nat :=
    dm c <- slot (gS g); call (fun st => strand_call ct c st None (Some nm) None).
  (* Complex(None, None, x) *)
  Definition complex_by_name (nm : pstr) : M nat :=
    dm c <- slot (gC g); call (fun st => cplx_call ct c st None None (Some nm) None).
  (* Macrostate(None, x) *)
  Definition macro_by_name (nm : pstr) : M nat :=
    dm c <- slot (gM g); call (fun st => macro_call ct c st None (Some nm)).

  (* list(Strand(None, name = s).sequence) *)
  Definition strand_seq (nm : pstr) : M (list elem) :=
    dm i <- strand_by_name nm; dm st <- get_state; lift (seq_of st i).

  (* except KeyError as err: raise PilFormatError(...) *)
  Definition key_to_pil {A} (m : M A) : M A := catch m (fun k => str_eqb k eKey) (fail ePilFormat).

  Definition is_sing (k : pstr) : bool := str_eqb k eSingleton.

  (* ---------------------------------------------------------------- *)
  (* read_reaction                                                      *)

  Record rinfo := mkRinfo {
    ri_type : option pstr; ri_rate : option fl; ri_units : option pstr;
    ri_reactants : list pstr; ri_products : list pstr
  }.

  Definition read_reaction (line : list tok) : res rinfo :=
    dor l1t <- tnth line 1; dor l1 <- t_list l1t;
    (* rtype = line[1][0][0] if line[1] != [] and line[1][0] != [] else None *)
    dor rtype <- match l1 with
                 | [] => Ok None
                 | _ => dor a <- tnth l1 0; dor al <- t_list a;
                        match al with [] => Ok None | x :: _ => dor s <- t_str x; Ok (Some s) end
                 end;
    (* rate = float(line[1][1][0]) if line[1] != [] and line[1][1] != [] else None *)
    dor rate <- match l1 with
                | [] => Ok None
                | _ => dor a <- tnth l1 1; dor al <- t_list a;
                       match al with [] => Ok None | x :: _ => dor s <- t_str x; dor f <- py_float s; Ok (Some f) end
                end;
    (* error = float(line[1][1][1]) if ... and len(line[1][1]) == 2 else None  (the value is not used) *)
    dor _ <- match l1 with
             | [] => Ok tt
             | _ => dor a <- tnth l1 1; dor al <- t_list a;
                    match al with [_; y] => dor s <- t_str y; dor _ <- py_float s; Ok tt | _ => Ok tt end
             end;
    (* units = line[1][2][0] if line[1] != [] and line[1][2] != [] else None *)
    dor units <- match l1 with
                 | [] => Ok None
                 | _ => dor a <- tnth l1 2; dor al <- t_list a;
                        match al with [] => Ok None | x :: _ => dor s <- t_str x; Ok (Some s) end
                 end;
    (* ' + '.join(line[2]), ' + '.join(line[3]) *)
    dor l2t <- tnth line 2; dor l2 <- t_list l2t; dor re <- t_strs l2;
    dor l3t <- tnth line 3; dor l3 <- t_list l3t; dor pr <- t_strs l3;
    Ok (mkRinfo rtype rate units re pr).

  (* `rate is None`, or `rtype is None or rtype not in Reaction.RTYPES` *)
  Definition reaction_ignored (ri : rinfo) : bool :=
    match ri_rate ri, ri_type ri with
    | None, _ => true
    | Some _, None => true
    | Some _, Some t => negb (existsb (str_eqb t) reader_rtypes)
    end.

  (* ---------------------------------------------------------------- *)
  (* the kernel branch                                                  *)

  Inductive cell := CStr (s : pstr) | CDom (i : nat).

  Definition cell_elem (st : state) (c : cell) : elem :=
    match c with CStr s => (s, None) | CDom i => elem_of st i end.

  (* assert isinstance(sd, Domain) for an element of a strand's sequence *)
  Definition assert_domain (e : elem) : M cell :=
    dm d <- slot (gD g);       (* isinstance(sd, None): TypeError *)
    dm st <- get_state;
    match snd e with
    | Some i => if isinst ct st i d then ret (CDom i) else fail eAssert
    | None => fail eAssert
    end.

  (* ~d for an element of a strand's sequence (a str has no __invert__) *)
  Definition invert_elem (e : elem) : M elem :=
    match snd e with
    | Some i => dm j <- invert i; dm st <- get_state; ret (elem_of st j)
    | None => fail eType
    end.

  (* what replaces the name d at its position: the body of the expansion loop *)
  Definition expand_one (d : pstr) : M (list cell) :=
    catch (dm i <- domain_by_name d; ret [CDom i]) is_sing
      (dm subseq <-
         catch (strand_seq d) is_sing
           (catch (dm cn <- lift (complement_name d);
                   dm compl <- strand_seq cn;
                   mapM invert_elem (rev compl)) is_sing
              (fail ePilFormat));
       match subseq with
       | [] => ret [CStr d]                 (* the for loop over subseq does nothing *)
       | _ => mapM assert_domain subseq
       end).

  (* for e, d in enumerate(sequence): ... sequence.insert(e+i, sd); structure.insert(e+i, structure[e]).
     The elements inserted behind position e are Domain objects, which the loop skips
     (`isinstance(d, Domain)`) when its index reaches them: they go to `done` directly. *)
  Fixpoint expand_loop (todo : list (pstr * chr)) (done : list (cell * chr)) : M (list (cell * chr)) :=
    match todo with
    | [] => ret (rev done)
    | (d, s) :: r =>
        if str_eqb d sPlus then expand_loop r ((CStr d, s) :: done) else
        dm cs <- expand_one d;
        expand_loop r (rev (map (fun c => (c, s)) cs) ++ done)
    end.

  (* sequence = [Domain(x) if x != '+' else '+' for x in sequence] *)
  Definition first_attempt (names : list pstr) : M (list cell) :=
    mapM (fun x => if str_eqb x sPlus then ret (CStr x) else dm i <- domain_by_name x; ret (CDom i)) names.

  Definition kernel_sequence (names : list pstr) (sst : list chr) : M (list cell * list chr) :=
    dm n1 <- nroots;
    catch (dm cs <- first_attempt names; ret (cs, sst)) is_sing
      (dm _ <- release n1 [];                  (* the partial list is dropped *)
       if negb (Nat.eqb (length names) (length sst)) then fail eBadLine else
       dm cs <- expand_loop (combine names sst) [];
       ret (map fst cs, map snd cs)).

  (* ---------------------------------------------------------------- *)
  (* read_pil_line                                                      *)

  Inductive robj := RObj (i : nat) | RLine (l : list tok).

  Definition set_seq (i : nat) (s : pstr) : M unit :=
    fun r => (mkR (r_st r) (attr_set i s (r_seq r)) (r_conc r) (r_rate r), Ok tt).
  Definition set_conc (i : nat) (c : conc) : M unit :=
    fun r => (mkR (r_st r) (r_seq r) (attr_set i c (r_conc r)) (r_rate r), Ok tt).
  Definition set_rate (i : nat) (c : fl * option pstr) : M unit :=
    fun r => (mkR (r_st r) (r_seq r) (r_conc r) (attr_set i c (r_rate r)), Ok tt).

  Definition is_some {A} (o : option A) : bool := match o with Some _ => true | None => false end.

  Definition read_pil_line (line : list tok) : M robj :=
    dm name <- lift (tnth line 1);                                   (* name = line[1] *)
    dm tag <- lift (tnth line 0);
    if tag_is tag tDl && is_some (gD g) then
      dm v <- lift (dor t <- tnth line 2; t_str t);
      dm dlen <- lift (if str_eqb v sShort then Ok reader_short_len
                       else if str_eqb v sLong then Ok reader_long_len else py_int v);
      dm nm <- lift (t_str name);
      dm i <- domain_new nm dlen;
      ret (RObj i)
    else if tag_is tag tSl && is_some (gD g) then
      dm sq <- lift (dor t <- tnth line 2; t_str t);
      dm _ <- (if Nat.eqb (length line) 4
               then dm n <- lift (dor t <- tnth line 3; dor s <- t_str t; py_int s);
                    if Z.eqb n (Z.of_nat (length sq)) then ret tt else fail ePilFormat
               else ret tt);
      dm nm <- lift (t_str name);
      dm i <- domain_new nm (Z.of_nat (length sq));
      dm _ <- set_seq i sq;
      ret (RObj i)
    else if tag_is tag tComposite && is_some (gS g) then
      dm ds <- lift (dor t <- tnth line 2; dor l <- t_list t; t_strs l);
      dm ids <- mapM domain_by_name ds;
      dm nm <- lift (t_str name);
      dm c <- slot (gS g);
      dm st <- get_state;
      dm i <- call (fun st' => strand_call ct c st' (Some (map (elem_of st) ids)) (Some nm) None);
      ret (RObj i)
    else if tag_is tag tStrandCplx && is_some (gC g) then
      dm ss <- lift (dor t <- tnth line 2; dor l <- t_list t; t_strs l);
      dm stab <- mapM strand_seq ss;
      dm _ <- (match stab with [] => fail ePilFormat | _ => ret tt end);      (* if not st: raise PilFormatError *)
      dm sq <- lift (strand_table_to_sequence (sPlus, @None nat) stab);
      dm sst <- lift (dor t <- tnth line 3; t_str t);
      let structure := filter (fun c => negb (N.eqb c 32%N)) sst in        (* .replace(' ', '') *)
      dm nm <- lift (t_str name);
      dm c <- slot (gC g);
      dm i <- call (fun st => cplx_call ct c st (Some sq) (Some structure) (Some nm) None);
      ret (RObj i)
    else if tag_is tag tKernel && is_some (gC g) then
      dm pat <- lift (dor t <- tnth line 2; t_list t);
      dm ss <- lift (resolve_kernel_loops (map ktok_of_tok pat));
      dm cs <- kernel_sequence (fst ss) (snd ss);
      dm nm <- lift (t_str name);
      dm c <- slot (gC g);
      dm st <- get_state;
      dm i <- call (fun st' => cplx_call ct c st' (Some (map (cell_elem st) (fst cs))) (Some (snd cs)) (Some nm) None);
      dm _ <- (if 3 <? length line
               then dm l3 <- lift (dor t <- tnth line 3; t_list t);
                    match l3 with
                    | [mode; v; unit] => dm f <- lift (dor s <- t_str v; py_float s); set_conc i (mode, f, unit)
                    | _ => fail eAssert                              (* assert len(line[3]) == 3 *)
                    end
               else ret tt);
      ret (RObj i)
    else if tag_is tag tMacro && is_some (gM g) then
      dm xs <- lift (dor t <- tnth line 2; dor l <- t_list t; t_strs l);
      dm ids <- key_to_pil (mapM complex_by_name xs);
      dm nm <- lift (t_str name);
      dm c <- slot (gM g);
      dm i <- call (fun st => macro_call ct c st (Some ids) (Some nm));
      ret (RObj i)
    else if tag_is tag tReaction && is_some (gR g) then
      dm ri <- lift (read_reaction line);
      if reaction_ignored ri then ret (RLine line) else
      let by_name := if is_s (ri_type ri) sCondensed then macro_by_name else complex_by_name in
      dm rp <- key_to_pil (dm re <- mapM by_name (ri_reactants ri);
                           dm pr <- mapM by_name (ri_products ri); ret (re, pr));
      dm c <- slot (gR g);
      dm i <- call (fun st => reaction_call ct c st (Some rp) (ri_type ri) None);
      dm _ <- match ri_rate ri with Some k => set_rate i (k, ri_units ri) | None => ret tt end;
      ret (RObj i)
    else ret (RLine line).

  (* ---------------------------------------------------------------- *)
  (* read_pil                                                           *)

  Record pilout := mkOut {
    po_domains : list (pstr * nat); po_strands : list (pstr * nat);
    po_complexes : list (pstr * nat); po_macrostates : list (pstr * nat);
    po_det : list nat; po_con : list nat; po_other : list (list tok)
  }.
  Definition empty_out : pilout := mkOut [] [] [] [] [] [] [].

  (* d[k] = v *)
  Fixpoint dset (k : pstr) (v : nat) (l : list (pstr * nat)) : list (pstr * nat) :=
    match l with
    | [] => [(k, v)]
    | (k', v') :: r => if str_eqb k k' then (k, v) :: r else (k', v') :: dset k v r
    end.

  (* s.add(obj): membership by __hash__ / __eq__, i.e. by canonical form *)
  Definition set_add (st : state) (i : nat) (l : list nat) : list nat :=
    let same j := match hget (heap st) i, hget (heap st) j with
                  | Some a, Some b => key_eqb (o_key a) (o_key b)
                  | _, _ => false
                  end in
    if existsb (fun j => Nat.eqb i j || same j) l then l else l ++ [i].

  (* isinstance(obj, <slot>): TypeError when the slot is None *)
  Definition inst_slot (i : nat) (s : option nat) : M bool :=
    dm d <- slot s; dm st <- get_state; ret (isinst ct st i d).

  Definition rtype_of (st : state) (i : nat) : res (option pstr) :=
    match hget (heap st) i with
    | Some o => match o_data o with DRxn _ _ t => Ok t | _ => Err eAttribute end
    | None => Err eBadRequest
    end.

  (* the if / elif chain of the document loop; returns the new dictionary and the
     objects it now holds in addition *)
  Definition file_obj (o : robj) (acc : pilout) : M (pilout * list nat) :=
    match o with
    | RLine l =>
        (* every isinstance test is evaluated (and fails on a None slot) before the else branch *)
        dm _ <- slot (gD g); dm _ <- slot (gS g); dm _ <- slot (gC g); dm _ <- slot (gM g); dm _ <- slot (gR g);
        ret (mkOut (po_domains acc) (po_strands acc) (po_complexes acc) (po_macrostates acc)
                   (po_det acc) (po_con acc) (po_other acc ++ [l]), [])
    | RObj i =>
        dm isd <- inst_slot i (gD g);
        if isd then
          dm st <- get_state;
          let d1 := dset (oname st i) i (po_domains acc) in
          dm comp <- invert i;
          dm r <- (fun r => (r, Ok r));
          dm _ <- match attr_get i (r_seq r), attr_get comp (r_seq r) with
                  | Some s, None =>
                      match Iupac.reverse_wc_complement false s with
                      | Ok s' => set_seq comp s'
                      | Err k => if str_eqb k eKey then fail ePilFormat else fail k
                      end
                  | _, _ => ret tt
                  end;
          dm st2 <- get_state;
          ret (mkOut (dset (oname st2 comp) comp d1) (po_strands acc) (po_complexes acc) (po_macrostates acc)
                     (po_det acc) (po_con acc) (po_other acc), [i; comp])
        else
        dm iss <- inst_slot i (gS g);
        dm st <- get_state;
        if iss then
          ret (mkOut (po_domains acc) (dset (oname st i) i (po_strands acc)) (po_complexes acc) (po_macrostates acc)
                     (po_det acc) (po_con acc) (po_other acc), [i])
        else
        dm isc <- inst_slot i (gC g);
        if isc then
          ret (mkOut (po_domains acc) (po_strands acc) (dset (oname st i) i (po_complexes acc)) (po_macrostates acc)
                     (po_det acc) (po_con acc) (po_other acc), [i])
        else
        dm ism <- inst_slot i (gM g);
        if ism then
          ret (mkOut (po_domains acc) (po_strands acc) (po_complexes acc) (dset (oname st i) i (po_macrostates acc))
                     (po_det acc) (po_con acc) (po_other acc), [i])
        else
        dm isr <- inst_slot i (gR g);
        if isr then
          dm t <- lift (rtype_of st i);
          if is_s t sCondensed
          then ret (mkOut (po_domains acc) (po_strands acc) (po_complexes acc) (po_macrostates acc)
                          (po_det acc) (set_add st i (po_con acc)) (po_other acc), [i])
          else ret (mkOut (po_domains acc) (po_strands acc) (po_complexes acc) (po_macrostates acc)
                          (set_add st i (po_det acc)) (po_con acc) (po_other acc), [i])
        else fail eAssert                                  (* assert isinstance(obj, list) *)
    end.

  (* `ignore and line[0] in ignore` *)
  Definition ignored (ignore : option (list pstr)) (line : list tok) : res bool :=
    match ignore with
    | None | Some [] => Ok false
    | Some l => dor t <- tnth line 0; Ok (existsb (tag_is t) l)
    end.

  (* one round of `for line in parsed_file` *)
  Definition read_one (ignore : option (list pstr)) (lt : tok) (acc : pilout) : M pilout :=
    dm line <- lift (t_list lt);
    dm ig <- lift (ignored ignore line);
    if ig then ret acc else
    dm n0 <- nroots;
    dm o <- read_pil_line line;
    dm res <- file_obj o acc;
    dm _ <- release n0 (snd res);                              (* del comp; del obj *)
    ret (fst res).

  Fixpoint read_lines (ignore : option (list pstr)) (lines : list tok) (acc : pilout) : M pilout :=
    match lines with
    | [] => ret acc
    | l :: r => dm acc' <- read_one ignore l acc; read_lines ignore r acc'
    end.

  (* read_pil on the parsed file.  When an exception escapes, every local - the result
     dictionary included - is dropped. *)
  Definition read_pil (ignore : option (list pstr)) (lines : list tok) : M pilout :=
    fun r =>
      let n := length (roots (r_st r)) in
      match read_lines ignore lines empty_out r with
      | (r', Ok o) => (r', Ok o)
      | (r', Err k) => (with_st r' (collect (cut_roots (r_st r') n [])), Err k)
      end.

  (* read_pil_line called by the user on a parsed line: the result is held, temporaries are not *)
  Definition read_line_user (line : list tok) : M robj :=
    fun r =>
      let n := length (roots (r_st r)) in
      match read_pil_line line r with
      | (r', Ok (RObj i)) => (with_st r' (collect (cut_roots (r_st r') n [i])), Ok (RObj i))
      | (r', Ok (RLine l)) => (with_st r' (collect (cut_roots (r_st r') n [])), Ok (RLine l))
      | (r', Err k) => (with_st r' (collect (cut_roots (r_st r') n [])), Err k)
      end.
End Reader.

Definition rinit (st : state) : rstate := mkR st [] [] [].

(* the slots after set_io_objects(D, S, C, M, R) *)
Definition cfg_of (l : list nat) : option cfg :=
  match l with
  | [d; s; c; m; r] => Some (mkCfg (Some d) (Some s) (Some c) (Some m) (Some r))
  | _ => None
  end.
Definition cfg_none : cfg := mkCfg None None None None None.      (* clear_io_objects() *)

(* ------------------------------------------------------------------ *)
(* the result dictionary as the harness observes it                     *)

(* [key, length, sequence, name, class] *)
Definition dom_view (r : rstate) (kv : pstr * nat) : res (pstr * Z * option pstr * pstr * nat) :=
  match hget (heap (r_st r)) (snd kv) with
  | Some o => match o_data o with
              | DDom l => Ok (fst kv, l, attr_get (snd kv) (r_seq r), o_name o, o_cls o)
              | _ => Err eBadView
              end
  | None => Err eBadView
  end.
(* [key, names of the sequence, name] *)
Definition strand_view (r : rstate) (kv : pstr * nat) : res (pstr * list pstr * pstr) :=
  match hget (heap (r_st r)) (snd kv) with
  | Some o => match o_data o with
              | DStrand es => Ok (fst kv, map fst es, o_name o)
              | _ => Err eBadView
              end
  | None => Err eBadView
  end.
(* [key, names of the sequence, structure, concentration, name] *)
Definition cplx_view (r : rstate) (kv : pstr * nat) : res (pstr * list pstr * list chr * option conc * pstr) :=
  match hget (heap (r_st r)) (snd kv) with
  | Some o => match o_data o with
              | DCplx es ss _ => Ok (fst kv, map fst es, ss, attr_get (snd kv) (r_conc r), o_name o)
              | _ => Err eBadView
              end
  | None => Err eBadView
  end.

Definition sort_strs (l : list pstr) : list pstr := sort_by (fun x => x) str_cmp l.

(* [key, sorted member names, name] *)
Definition macro_view (r : rstate) (kv : pstr * nat) : res (pstr * list pstr * pstr) :=
  let h := heap (r_st r) in
  match hget h (snd kv) with
  | Some o => match o_data o with
              | DMac ms _ => Ok (fst kv, sort_strs (map (obj_name h) ms), o_name o)
              | _ => Err eBadView
              end
  | None => Err eBadView
  end.
(* [sorted reactant names, sorted product names, rtype, rate constant, units] *)
Definition rxn_view (r : rstate) (i : nat)
    : res (list pstr * list pstr * option pstr * option fl * option pstr) :=
  let h := heap (r_st r) in
  match hget h i with
  | Some o => match o_data o with
              | DRxn re pr t =>
                  let k := attr_get i (r_rate r) in
                  Ok (sort_strs (map (obj_name h) re), sort_strs (map (obj_name h) pr), t,
                      option_map fst k, match k with Some (_, u) => u | None => None end)
              | _ => Err eBadView
              end
  | None => Err eBadView
  end.

Fixpoint rmap {A B} (f : A -> res B) (l : list A) : res (list B) :=
  match l with
  | [] => Ok []
  | x :: r => dor y <- f x; dor ys <- rmap f r; Ok (y :: ys)
  end.

Definition rxn_key (v : list pstr * list pstr * option pstr * option fl * option pstr)
    : list pstr * (list pstr * pstr) :=
  let '(a, b, t, _, _) := v in (a, (b, match t with Some s => s | None => [] end)).
Definition rxn_cmp := cmp_pair (lex_cmp str_cmp) (cmp_pair (lex_cmp str_cmp) str_cmp).

Record pilview := mkView {
  pv_domains : list (pstr * Z * option pstr * pstr * nat);
  pv_strands : list (pstr * list pstr * pstr);
  pv_complexes : list (pstr * list pstr * list chr * option conc * pstr);
  pv_macrostates : list (pstr * list pstr * pstr);
  pv_det : list (list pstr * list pstr * option pstr * option fl * option pstr);
  pv_con : list (list pstr * list pstr * option pstr * option fl * option pstr);
  pv_other : list (list tok)
}.

Definition by_key {A} (kf : A -> pstr) (l : list A) : list A := sort_by kf str_cmp l.

Definition view (r : rstate) (o : pilout) : res pilview :=
  dor ds <- rmap (dom_view r) (po_domains o);
  dor ss <- rmap (strand_view r) (po_strands o);
  dor cs <- rmap (cplx_view r) (po_complexes o);
  dor ms <- rmap (macro_view r) (po_macrostates o);
  dor dr <- rmap (rxn_view r) (po_det o);
  dor cr <- rmap (rxn_view r) (po_con o);
  Ok (mkView (by_key (fun x => let '(k, _, _, _, _) := x in k) ds)
             (by_key (fun x => let '(k, _, _) := x in k) ss)
             (by_key (fun x => let '(k, _, _, _, _) := x in k) cs)
             (by_key (fun x => let '(k, _, _) := x in k) ms)
             (sort_by rxn_key rxn_cmp dr) (sort_by rxn_key rxn_cmp cr) (po_other o)).
