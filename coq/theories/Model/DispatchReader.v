(* Request decoding / result encoding for the reader model.
   op "read_pil_model"  [text; ignore]  ->  the result dictionary of
        set_io_objects(); read_pil(text, ignore = ignore)
      in the canonical list form of harness/impl/reader.py, or the exception kind.
      text -> Gallina PEG parse of the regenerated grammar -> Reader.read_pil over the
      registry machine started empty with the five base classes.
   op "read_pil_cfg"  [class table; class names; slots; prelude; text; ignore]  ->
      the same with user classes in the slots, an optional document read (and held)
      before, and the registries observed before and after everything is dropped.
   op "reader_consistent"  [text]  ->  whether the statements of the parsed document form a consistent
      system (Model/ReaderConsistent.v: consistentb); read_pil never refuses such a document
      (Proofs/ReaderSysJ.v), the implementation side answers whether read_pil accepted it.
   op "reader_kept_consistent"  [text; ignore]  ->  the same for the statements that `ignore` leaves
      (Proofs/ReaderSysN.v: read_pil(text, ignore = ig) is read_pil of those lines).
   op "reader_session"  [text1; text2]  ->  whether text1 is a consistent system and every statement of text2,
      read in the session that holds the result of text1, re-declares (same description; kernel statements may
      set another concentration), is returned as it is or is new and admissible (Model/ReaderConsistent.v:
      session_from); both reads then succeed and shared names map to the held objects (Proofs/ReaderSysU.v). *)
From Coq Require Import String List NArith ZArith Bool Arith.
From DSD Require Import Base.Str Base.Errors Base.Val Model.ComplexUtils Model.DispatchCU Model.RegStr
  Model.ReaderStr Model.PyNum Model.Peg Model.DispatchPeg Model.Heap Model.Registry Model.DispatchRegistry
  Model.Reader Model.ReaderShape Model.ReaderConsistent.
From DSDGen Require Import PilGrammar ReaderConsts.
Import ListNotations.
Local Open Scope string_scope.

Definition of_fl (f : fl) : val := VFloat (fst f) (snd f).
Definition of_conc (c : conc) : val :=
  let '(m, v, u) := c in VList [val_of_tok m; of_fl v; val_of_tok u].

Definition cname (cnames : list pstr) (c : nat) : val :=
  match nth_error cnames c with Some n => VStr n | None => of_nat c end.

Definition of_rxn (v : list pstr * list pstr * option pstr * option fl * option pstr) : val :=
  let '(a, b, t, k, u) := v in VList [of_strs a; of_strs b; of_opt VStr t; of_opt of_fl k; of_opt VStr u].

Definition of_view (cnames : list pstr) (v : pilview) : val :=
  VList [
    VList [VStr (str "domains");
           of_list (fun x => let '(k, l, s, n, c) := x in VList [VStr k; VInt l; of_opt VStr s; VStr n; cname cnames c])
                   (pv_domains v)];
    VList [VStr (str "strands");
           of_list (fun x => let '(k, sq, n) := x in VList [VStr k; of_strs sq; VStr n]) (pv_strands v)];
    VList [VStr (str "complexes");
           of_list (fun x => let '(k, sq, ss, c, n) := x in VList [VStr k; of_strs sq; of_chars ss; of_opt of_conc c; VStr n])
                   (pv_complexes v)];
    VList [VStr (str "macrostates");
           of_list (fun x => let '(k, ms, n) := x in VList [VStr k; of_strs ms; VStr n]) (pv_macrostates v)];
    VList [VStr (str "det_reactions"); of_list of_rxn (pv_det v)];
    VList [VStr (str "con_reactions"); of_list of_rxn (pv_con v)];
    VList [VStr (str "other"); of_list (fun l => VList (map val_of_tok l)) (pv_other v)]
  ].

Definition as_ignore (v : val) : option (option (list pstr)) := as_opt as_strs v.

(* parse_pil_string(text) *)
(* Every line the parser returns must have the shape the reader theorems assume
   (ReaderShape.line_okb); a line that has not is reported as `BadShape`, which no
   implementation outcome equals: the claim "the grammar only produces such lines" is
   checked on every document of every correspondence run. *)
Definition parse_lines (text : pstr) : res (list tok) :=
  match parse_string pil_grammar text with
  | POk _ toks => if forallb line_okb toks then Ok toks else Err (str "BadShape")
  | PFail => Err eParse
  | PFuel => Err eFuel
  end.

Definition result_val (cnames : list pstr) (x : rstate * res pilout) : val :=
  match snd x with
  | Ok o => match view (fst x) o with Ok v => of_view cnames v | Err k => err k end
  | Err k => err k
  end.

Definition read_pil_model (text : pstr) (ignore : option (list pstr)) : val :=
  match cfg_of base_slots, parse_lines text with
  | Some g, Ok lines => result_val base_cnames (read_pil base_ctable g ignore lines (rinit (init base_ctable 0)))
  | None, _ => bad_request
  | _, Err k => err k
  end.

(* sorted names registered per class *)
Definition registries (ct : ctable) (st : state) : val :=
  VList (map (fun c => of_strs (sort_strs (map fst (cs_names (cget st c))))) (seq 0 (length ct))).

Definition live_count (st : state) : nat := length (filter (fun o => o_live o) (heap st)).

(* kind, key and class of everything filed in a result dictionary *)
Definition filed (cnames : list pstr) (st : state) (o : pilout) : val :=
  let ent (k : string) (kv : pstr * nat) :=
    VList [VStr (str k); VStr (fst kv);
           match hget (heap st) (snd kv) with Some ob => cname cnames (o_cls ob) | None => VNone end] in
  let rx (k : string) (i : nat) :=
    VList [VStr (str k); VStr (oname st i);
           match hget (heap st) i with Some ob => cname cnames (o_cls ob) | None => VNone end] in
  VList (map (ent "D") (by_key fst (po_domains o)) ++ map (ent "S") (by_key fst (po_strands o)) ++
         map (ent "C") (by_key fst (po_complexes o)) ++ map (ent "M") (by_key fst (po_macrostates o)) ++
         map (rx "R") (sort_by (oname st) str_cmp (po_det o ++ po_con o))).

Definition read_pil_cfg (ct : ctable) (cnames : list pstr) (g : cfg) (prelude : option pstr)
    (text : pstr) (ignore : option (list pstr)) : val :=
  let r0 := rinit (init ct 0) in
  let pre : res (rstate * option pilout) :=
    match prelude with
    | None => Ok (r0, None)
    | Some p =>
        match parse_lines p with
        | Err k => Err k
        | Ok ls => match read_pil ct g None ls r0 with
                   | (r1, Ok o) => Ok (r1, Some o)
                   | (_, Err k) => Err k
                   end
        end
    end in
  match pre with
  | Err k => VList [VStr (str "prelude-failed"); VStr k]
  | Ok (r1, po) =>
      let regs1 := registries ct (r_st r1) in
      let x := match parse_lines text with
               | Ok ls => read_pil ct g ignore ls r1
               | Err k => (r1, Err k)
               end in
      let r2 := fst x in
      let dropped := collect (cut_roots (r_st r2) 0 []) in
      VList [result_val cnames x;
             match snd x with Ok o => filed cnames (r_st r2) o | Err _ => VNone end;
             regs1;
             registries ct (r_st r2);
             match po with Some o => result_val cnames (r2, Ok o) | None => VNone end;
             match po with Some o => filed cnames (r_st r2) o | None => VNone end;
             registries ct dropped;
             of_nat (live_count dropped)]
  end.

Definition reader_consistent (text : pstr) : val :=
  match parse_lines text with
  | Ok lines => match decode_all lines with
                | Some (_, ss) => VBool (consistentb ss)
                | None => err (str "BadShape")
                end
  | Err k => err k
  end.

Definition reader_kept_consistent (text : pstr) (ignore : option (list pstr)) : val :=
  match parse_lines text with
  | Ok lines => match keep_lines ignore lines with
                | Some kept => match decode_all kept with
                               | Some (_, ss) => VBool (consistentb ss)
                               | None => err (str "BadShape")
                               end
                | None => err (str "BadShape")
                end
  | Err k => err k
  end.

Definition reader_session (text1 text2 : pstr) : val :=
  match parse_lines text1, parse_lines text2 with
  | Ok l1, Ok l2 =>
      match decode_all l1, decode_all l2 with
      | Some (_, ss1), Some (_, ss2) =>
          VBool (consistentb ss1 && match session_from ss1 ss2 with Some _ => true | None => false end)
      | _, _ => err (str "BadShape")
      end
  | Err k, _ => err k
  | _, Err k => err k
  end.

Definition as_slots (v : val) : option cfg :=
  match v with
  | VList [d; s; c; m; r] =>
      do d <- as_opt as_nat d; do s <- as_opt as_nat s; do c <- as_opt as_nat c;
      do m <- as_opt as_nat m; do r <- as_opt as_nat r; Some (mkCfg d s c m r)
  | _ => None
  end.

Definition dispatch_reader (op : pstr) (a : val) : option val :=
  if op_is op "read_pil_model" then Some (or_bad (
    match a with VList [text; ignore] =>
      do text <- as_str text; do ignore <- as_ignore ignore; Some (read_pil_model text ignore)
    | _ => None end))
  else if op_is op "read_pil_cfg" then Some (or_bad (
    match a with VList [ct; cnames; slots; prelude; text; ignore] =>
      do ct <- as_listof as_cinfo ct; do cnames <- as_strs cnames; do g <- as_slots slots;
      do prelude <- as_opt as_str prelude; do text <- as_str text; do ignore <- as_ignore ignore;
      Some (read_pil_cfg ct cnames g prelude text ignore)
    | _ => None end))
  else if op_is op "reader_consistent" then Some (or_bad (
    match a with VList [text] => do text <- as_str text; Some (reader_consistent text)
    | _ => None end))
  else if op_is op "reader_kept_consistent" then Some (or_bad (
    match a with VList [text; ignore] =>
      do text <- as_str text; do ignore <- as_ignore ignore; Some (reader_kept_consistent text ignore)
    | _ => None end))
  else if op_is op "reader_session" then Some (or_bad (
    match a with VList [t1; t2] => do t1 <- as_str t1; do t2 <- as_str t2; Some (reader_session t1 t2)
    | _ => None end))
  else None.
