From Coq Require Import String List NArith ZArith Bool Arith.
From DSD Require Import Base.Str Base.Errors Base.Val Model.ComplexUtils Model.DispatchCU Model.Loops
  Model.Compare Model.Canon Model.Views Model.Kernel Model.Peg Model.DispatchPeg.
From DSDGen Require Import PilGrammar.
Import ListNotations.
Local Open Scope string_scope.

Fixpoint as_ktok (v : val) : option ktok :=
  match v with
  | VStr s => Some (KS s)
  | VList l => option_map KL ((fix go (l : list val) : option (list ktok) :=
                                 match l with
                                 | [] => Some []
                                 | x :: r => match as_ktok x, go r with
                                             | Some a, Some b => Some (a :: b)
                                             | _, _ => None
                                             end
                                 end) l)
  | _ => None
  end.

Fixpoint ktok_of_tok (t : tok) : ktok :=
  match t with
  | TStr s => KS s
  | TList l => KL (map ktok_of_tok l)
  end.

Definition of_ss (r : list pstr * list chr) : val := VList [of_strs (fst r); of_chars (snd r)].

(* 'X = ' + kernel_string, parsed by the PIL grammar, pattern resolved by the reader *)
Definition c12_chain (seq : list pstr) (sst : list chr) : val :=
  match kernel_string seq sst with
  | Err e => err e
  | Ok ks =>
      let text := (str "X = " ++ ks ++ [10%N])%list in
      match parse_string pil_grammar text with
      | POk _ [TList (TStr tag :: TStr name :: TList pattern :: rest)] =>
          match resolve_kernel_loops (map ktok_of_tok pattern) with
          | Ok r => VList [VStr ks; VList (map val_of_tok pattern); of_ss r; VStr tag; VStr name; of_nat (length rest)]
          | Err e => err e
          end
      | POk _ _ => err eBadRequest
      | PFail => err eParse
      | PFuel => err eFuel
      end
  end.

Definition dispatch_kernel (op : pstr) (a : val) : option val :=
  if op_is op "resolve_kernel_loops" then Some (or_bad (
    match a with VList l =>
      do ts <- omap as_ktok l; Some (of_res of_ss (resolve_kernel_loops ts))
    | _ => None end))
  else if op_is op "c12_chain" then Some (or_bad (
    match a with VList [sq; st] =>
      do sq <- as_strs sq; do st <- as_chars st; Some (c12_chain sq st)
    | _ => None end))
  else None.
