(* Request decoding / result encoding for the object-level complex views. *)
From Coq Require Import String List NArith ZArith Bool Arith.
From DSD Require Import Base.Str Base.Errors Base.Val Model.ComplexUtils Model.DispatchCU Model.Loops Model.SplitRuns.
Import ListNotations.
Local Open Scope string_scope.

Definition of_bool (b : bool) : val := VBool b.
Definition of_locs (l : list loc) : val := of_list of_loc l.
Definition of_key (k : key) : val := of_pair of_strs of_chars k.

(* the five views of one complex; a view that raises is reported in place *)
Definition views (seq : list pstr) (sst : list chr) : val :=
  VList [ of_res of_bool (is_connected sst);
          of_res (of_list of_nats) (dor le <- loop_index_of sst; Ok (fst le));
          of_res of_locs (exterior_domains sst);
          of_res of_locs (enclosed_domains sst);
          of_res of_bool (is_domainlevel_complement seq sst) ].

Definition as_item (v : val) : option (key * option pstr) :=
  match v with
  | VList [sq; sst; nm] =>
      do sq <- as_strs sq; do sst <- as_chars sst; do nm <- as_opt as_str nm; Some ((sq, sst), nm)
  | _ => None
  end.
Definition of_out (o : nat + pstr) : val := match o with inl i => of_nat i | inr k => err k end.
Definition of_run (r : res (list nat * option pstr)) : val :=
  of_res (of_pair of_nats (of_opt err)) r.
Definition of_objs (l : list (nat * key)) : val :=
  of_list (of_pair of_nat of_key) (rev l).

Definition dispatch_loops (op : pstr) (a : val) : option val :=
  if op_is op "cx_views" then Some (or_bad (
    match a with VList [sq; sst; _] =>
      do sq <- as_strs sq; do sst <- as_chars sst;
      Some (match construct sq sst with Ok _ => views sq sst | Err k => err k end)
    | _ => None end))
  else if op_is op "cx_get_loop_index" then Some (or_bad (
    match a with VList [sq; sst; l] =>
      do sq <- as_strs sq; do sst <- as_chars sst; do l <- as_loc l;
      Some (match construct sq sst with
            | Ok _ => of_res of_nat (get_loop_index sst l)
            | Err k => err k end)
    | _ => None end))
  else if op_is op "cx_split" then Some (or_bad (
    match a with VList [sq; sst] =>
      do sq <- as_strs sq; do sst <- as_chars sst;
      Some (of_res (of_pair (of_list (of_pair of_nat of_key)) of_bool) (split_twice sq sst))
    | _ => None end))
  else if op_is op "cx_split_hist" then Some (or_bad (
    match a with VList [pre; self] =>
      do pre <- as_listof as_item pre; do self <- as_item self;
      let '(outs, o, runs, objs) := split_history pre self in
      Some (VList [of_list of_out outs; of_out o;
                   of_opt (of_pair of_run of_run) runs; of_objs objs])
    | _ => None end))
  else if op_is op "cx_split_runs" then Some (or_bad (
    match a with VList [pre; self; runs] =>
      do pre <- as_listof as_item pre; do self <- as_item self;
      do runs <- as_listof (as_pair (as_opt as_nat) (as_opt as_nat)) runs;
      let '(outs, o, rs, objs) := split_history_runs pre self runs in
      Some (VList [of_list of_out outs; of_out o;
                   of_opt (of_res (of_list (of_pair of_nats (of_opt err)))) rs; of_objs objs])
    | _ => None end))
  else if op_is op "split_in_domain" then Some (or_bad (
    do pt <- as_tab a; Some (VBool (split_in_domain (S (length pt)) pt))))
  else if op_is op "toggle" then Some (or_bad (do s <- as_str a; Some (VStr (toggle s))))
  else None.
