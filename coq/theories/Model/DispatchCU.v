(* Request decoding / result encoding for the complex_utils model. *)
From Coq Require Import String List NArith ZArith Bool Arith.
From DSD Require Import Base.Str Base.Errors Base.Val Model.ComplexUtils.
Import ListNotations.
Local Open Scope string_scope.

Definition as_loc : val -> option loc := as_pair as_nat as_nat.
Definition as_row : val -> option row := as_listof (as_opt as_loc).
Definition as_tab : val -> option tab := as_listof as_row.
Definition of_loc : loc -> val := of_pair of_nat of_nat.
Definition of_row : row -> val := of_list (of_opt of_loc).
Definition of_tab : tab -> val := of_list of_row.
Definition of_res {A} (f : A -> val) (r : res A) : val :=
  match r with Ok a => f a | Err k => err k end.
Definition as_stab : val -> option (list (list pstr)) := as_listof as_strs.
Definition of_stab : list (list pstr) -> val := of_list of_strs.
Definition of_nats : list nat -> val := of_list of_nat.

Definition of_parts (l : list (list (list pstr) * tab)) : val :=
  of_list (of_pair of_stab of_tab) l.
Definition of_dbs (l : list (list pstr * list chr)) : val :=
  of_list (of_pair of_strs of_chars) l.

Definition op_is (op : pstr) (s : string) : bool := str_eqb op (str s).

Definition dispatch_cu (op : pstr) (a : val) : option val :=
  if op_is op "make_pair_table" then Some (or_bad (
    match a with VList [ss; brk; ign] =>
      do ss <- as_chars ss; do brk <- as_char brk; do ign <- as_chars ign;
      Some (of_res of_tab (make_pair_table brk ign ss))
    | _ => None end))
  else if op_is op "pair_table_to_dot_bracket" then Some (or_bad (
    match a with VList [pt; brk] =>
      do pt <- as_tab pt; do brk <- as_char brk;
      Some (of_chars (pair_table_to_dot_bracket brk pt))
    | _ => None end))
  else if op_is op "make_strand_table_list" then Some (or_bad (
    match a with VList [sq; brk] =>
      do sq <- as_strs sq; do brk <- as_str brk;
      Some (of_stab (make_strand_table_list brk sq))
    | _ => None end))
  else if op_is op "make_strand_table_str" then Some (or_bad (
    match a with VList [sq; brk] =>
      do sq <- as_chars sq; do brk <- as_char brk;
      Some (of_list of_chars (make_strand_table_str brk sq))
    | _ => None end))
  else if op_is op "strand_table_to_sequence" then Some (or_bad (
    match a with VList [st; brk] =>
      do st <- as_stab st; do brk <- as_str brk;
      Some (of_res of_strs (strand_table_to_sequence brk st))
    | _ => None end))
  else if op_is op "strand_table_join" then Some (or_bad (
    match a with VList [st; brk] =>
      do st <- as_listof as_chars st; do brk <- as_chars brk;
      Some (VStr (join_with brk st))
    | _ => None end))
  else if op_is op "make_loop_index" then Some (or_bad (
    do pt <- as_tab a;
    Some (of_res (of_pair (of_list of_nats) of_nats) (make_loop_index pt))))
  else if op_is op "make_loop_index_comp" then Some (or_bad (
    do pt <- as_tab a;
    Some (of_res (of_pair (of_list of_nats) (of_list (of_pair of_nat of_nat)))
                 (make_loop_index_comp pt))))
  else if op_is op "split_complex_pt" then Some (or_bad (
    match a with VList [st; pt] =>
      do st <- as_stab st; do pt <- as_tab pt;
      Some (of_res of_parts (split_complex_pt (S (length pt)) st pt))
    | _ => None end))
  else if op_is op "rotate_complex_pt" then Some (or_bad (
    match a with VList [st; pt; turns] =>
      do st <- as_stab st; do pt <- as_tab pt; do turns <- as_opt as_nat turns;
      Some (of_parts (rotate_complex_pt
                        (match turns with Some t => t | None => length pt end) st pt))
    | _ => None end))
  else if op_is op "rotate_complex_once" then Some (or_bad (
    match a with VList [sq; sst] =>
      do sq <- as_strs sq; do sst <- as_chars sst;
      Some (of_res (of_pair of_strs of_chars) (rotate_complex_once sq sst))
    | _ => None end))
  else if op_is op "rotate_complex_db" then Some (or_bad (
    match a with VList [sq; sst] =>
      do sq <- as_strs sq; do sst <- as_chars sst;
      Some (of_res of_dbs (rotate_complex_db sq sst))
    | _ => None end))
  else if op_is op "split_complex_db" then Some (or_bad (
    match a with VList [sq; sst] =>
      do sq <- as_strs sq; do sst <- as_chars sst;
      Some (of_res of_dbs (split_complex_db sq sst))
    | _ => None end))
  else if op_is op "wrap" then Some (or_bad (
    match a with VList [x; m] =>
      do x <- as_int x; do m <- as_int m;
      Some (if (m <=? 0)%Z then err eBadRequest else VInt (wrap x m))
    | _ => None end))
  else None.
