(* String constants of the registry model (kept apart because importing String
   shadows list functions). *)
From Coq Require Import String.
From DSD Require Import Base.Str.

Definition sShort := str "short".
Definition sLong := str "long".
Definition sNone := str "None".
Definition sStar := str "*".
Definition sSepPlus := str " + ".
Definition sArrow := str " -> ".
Definition sLBr := str "[".
Definition sRBr := str "] ".
Definition eAttribute := str "AttributeError".
Definition eUnmodelled := str "Unmodelled".
Definition eUserFail := str "UserInitError".
