(* Model of the legacy object model (core/deprecated.py): DSD_Complex canonical
   form search by in-place rotation, duplicate detection with rotation distance,
   and the legacy SequenceConstraint complements over the regenerated tables
   (C20).  Definitions only. *)
From Coq Require Import List NArith ZArith Bool Arith.
From DSD Require Import Base.Str Base.Errors Base.Sort Model.ComplexUtils Model.Compare Model.Canon Model.Iupac.
From DSDGen Require Import LegacyIupac.
Import ListNotations.

Definition eDSDObjects : pstr := [68;83;68;79;98;106;101;99;116;115;69;114;114;111;114]%N.          (* DSDObjectsError *)
Definition eDSDDup : pstr := [68;83;68;68;117;112;108;105;99;97;116;105;111;110;69;114;114;111;114]%N.  (* DSDDuplicationError *)

(* rotate_once of the legacy class is rotate_complex_once with its own error type *)
Definition legacy_rot1 (x : ckey) : res ckey :=
  match rotate_complex_once (fst x) (snd x) with
  | Ok y => Ok y
  | Err k => if str_eqb k eSSE then Err eDSDObjects else Err k
  end.

(* for e, new in enumerate(self.rotate(), 1): rotate first, then record the FIRST
   index of every variant; memory check on every new variant *)
Fixpoint first_index (k : ckey) (l : list (ckey * nat)) : option nat :=
  match l with
  | [] => None
  | (k', e) :: r => if ckey_eqb k k' then Some e else first_index k r
  end.

Inductive lres :=
| LOk (canon : ckey) (rotations : nat)
| LDup (existing : nat) (e : nat)            (* index into MEMORY, variant index at which it was found *)
| LErr (k : pstr).

Fixpoint legacy_loop (fuel e : nat) (x : ckey) (memory : list ckey) (variants : list (ckey * nat))
  : res (list (ckey * nat)) + (nat * nat) :=
  match fuel with
  | 0 => inl (Ok (rev variants))
  | S f =>
      match legacy_rot1 x with
      | Err k => inl (Err k)
      | Ok y =>
          match first_index y variants with
          | Some _ => legacy_loop f (S e) y memory variants
          | None =>
              match (fix find (m : list ckey) (i : nat) : option nat :=
                       match m with
                       | [] => None
                       | c :: r => if ckey_eqb y c then Some i else find r (S i)
                       end) memory 0 with
              | Some i => inr (i, e)
              | None => legacy_loop f (S e) y memory ((y, e) :: variants)
              end
          end
      end
  end.

Definition legacy_canonical (seq : list pstr) (st : list chr) (memory : list ckey) : lres :=
  if negb (length seq =? length st) then LErr eDSDObjects else
  let n := n_strands seq in
  match legacy_loop n 1 (seq, st) memory [] with
  | inr (i, e) => LDup i e
  | inl (Err k) => LErr k
  | inl (Ok vs) =>
      match min_key (map fst vs) with
      | None => LErr eIndex
      | Some c =>
          match first_index c vs with
          | Some e => LOk c (if e <=? n then n - e else e - n)      (* abs(e - size) *)
          | None => LErr eIndex
          end
      end
  end.

(* ---- legacy sequence constraints ---- *)
Definition lwc_tab (rna : bool) c := nlookup c (if rna then lwc_rna else lwc_dna).
Definition lwob_tab (rna : bool) c := nlookup c (if rna then lwob_rna else lwob_dna).
Definition lrwc_tab (rna : bool) c := nlookup c (if rna then lrwc_rna else lrwc_dna).
Definition lrwob_tab (rna : bool) c := nlookup c (if rna then lrwob_rna else lrwob_dna).
Definition legacy_wc rna s := map_tab (lwc_tab rna) s.
Definition legacy_wobble rna s := map_tab (lwob_tab rna) s.
Definition legacy_reverse_wc rna s := map_tab (lrwc_tab rna) (rev s).
Definition legacy_reverse_wobble rna s := map_tab (lrwob_tab rna) (rev s).
