(* Parsed lines as typed statements: `decode line` performs every pure step of
   read_pil_line on the token tree (indexing, int()/float(), resolve_kernel_loops,
   read_reaction) and names the statement; what remains of read_pil_line are the
   constructor calls (Proofs/ReaderStmt.v: exec_stmt, read_pil_line_decode).
   `line_okb` is the shape the grammar guarantees for every line it returns: the line
   decodes, and every domain name in it is x or x* with x non-empty and unstarred (the
   grammar's `domain` = identifier [*], kernel `sense` = identifier [^] [*]).
   DEFINITIONS ONLY. *)
From Coq Require Import List NArith ZArith Bool Arith.
From DSD Require Import Base.Str Base.Errors Model.ComplexUtils Model.RegStr Model.ReaderStr Model.PyNum
  Model.Peg Model.Kernel Model.DispatchKernel Model.Heap Model.Registry Model.Reader.
From DSDGen Require Import ReaderConsts.
Import ListNotations.

Inductive stmt :=
| SDl (nm : pstr) (dlen : Z)                                   (* length nm = dlen *)
| SSl (nm sq : pstr) (chk : option Z)                          (* sequence nm = sq [: chk] *)
| SComp (nm : pstr) (ds : list pstr)                           (* strand / sup-sequence *)
| SSC (nm : pstr) (ss : list pstr) (sst : pstr)                (* structure / complex *)
| SKer (nm : pstr) (names : list pstr) (sst : list chr) (cc : option conc)   (* kernel notation *)
| SMac (nm : pstr) (xs : list pstr)
| SRxn (ri : rinfo)                                            (* a reaction that is not ignored *)
| SOther.                                                       (* the line itself is returned *)

Definition decode (line : list tok) : res stmt :=
  dor name <- tnth line 1;
  dor tag <- tnth line 0;
  if tag_is tag tDl then
    dor v <- (dor t <- tnth line 2; t_str t);
    dor dlen <- (if str_eqb v sShort then Ok reader_short_len
                 else if str_eqb v sLong then Ok reader_long_len else py_int v);
    dor nm <- t_str name; Ok (SDl nm dlen)
  else if tag_is tag tSl then
    dor sq <- (dor t <- tnth line 2; t_str t);
    dor chk <- (if Nat.eqb (length line) 4
                then dor n <- (dor t <- tnth line 3; dor s <- t_str t; py_int s); Ok (Some n)
                else Ok None);
    dor nm <- t_str name; Ok (SSl nm sq chk)
  else if tag_is tag tComposite then
    dor ds <- (dor t <- tnth line 2; dor l <- t_list t; t_strs l);
    dor nm <- t_str name; Ok (SComp nm ds)
  else if tag_is tag tStrandCplx then
    dor ss <- (dor t <- tnth line 2; dor l <- t_list t; t_strs l);
    dor sst <- (dor t <- tnth line 3; t_str t);
    dor nm <- t_str name; Ok (SSC nm ss sst)
  else if tag_is tag tKernel then
    dor pat <- (dor t <- tnth line 2; t_list t);
    dor ss <- resolve_kernel_loops (map ktok_of_tok pat);
    dor nm <- t_str name;
    dor cc <- (if 3 <? length line
               then dor l3 <- (dor t <- tnth line 3; t_list t);
                    match l3 with
                    | [mode; v; unit] => dor f <- (dor s <- t_str v; py_float s); Ok (Some (mode, f, unit))
                    | _ => Err eAssert
                    end
               else Ok None);
    Ok (SKer nm (fst ss) (snd ss) cc)
  else if tag_is tag tMacro then
    dor xs <- (dor t <- tnth line 2; dor l <- t_list t; t_strs l);
    dor nm <- t_str name; Ok (SMac nm xs)
  else if tag_is tag tReaction then
    dor ri <- read_reaction line;
    if reaction_ignored ri then Ok SOther else Ok (SRxn ri)
  else Ok SOther.


(* a domain name the grammar can produce: x or x* with x non-empty and not ending in * *)
Definition nm_okb (n : pstr) : bool :=
  nonempty n && nonempty (cname_of n) && str_eqb (cname_of (cname_of n)) n.
Definition kname_okb (x : pstr) : bool := str_eqb x sPlus || nm_okb x.

Definition stmt_okb (s : stmt) : bool :=
  match s with
  | SDl nm l => nm_okb nm && (0 <=? l)%Z
  | SSl nm _ _ => nm_okb nm
  | SComp _ ds => forallb nm_okb ds
  | SKer _ names _ _ => forallb kname_okb names
  | _ => true
  end.

Definition line_okb (lt : tok) : bool :=
  match lt with
  | TList line => match decode line with Ok s => stmt_okb s | Err _ => false end
  | TStr _ => false
  end.
