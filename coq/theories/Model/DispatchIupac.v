From Coq Require Import String List NArith ZArith Bool Arith.
From DSD Require Import Base.Str Base.Errors Base.Val Model.ComplexUtils Model.DispatchCU Model.Iupac.
Import ListNotations.
Local Open Scope string_scope.

Definition of_cres (r : res (list chr)) : val := of_res VStr r.

Definition dispatch_iupac (op : pstr) (a : val) : option val :=
  let unary (f : bool -> list chr -> res (list chr)) :=
    Some (or_bad (match a with VList [s; rna] =>
      do s <- as_str s; do rna <- as_bool rna; Some (of_cres (f rna s)) | _ => None end)) in
  if op_is op "wc_complement" then unary wc_complement
  else if op_is op "complement" then unary complement
  else if op_is op "reverse_wc_complement" then unary reverse_wc_complement
  else if op_is op "reverse_complement" then unary reverse_complement
  else if op_is op "add_constraints" then Some (or_bad (
    match a with VList [x; y; rna] =>
      do x <- as_str x; do y <- as_str y; do rna <- as_bool rna;
      Some (of_cres (add_constraints rna x y))
    | _ => None end))
  else None.
