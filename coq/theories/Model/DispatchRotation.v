(* Request decoding / result encoding for the object-level rotation model. *)
From Coq Require Import String List NArith ZArith Bool Arith.
From DSD Require Import Base.Str Base.Errors Base.Val Model.ComplexUtils Model.DispatchCU Model.Rotation.
Import ListNotations.
Local Open Scope string_scope.

Definition as_zpair : val -> option (Z * Z) := as_pair as_int as_int.

(* every object-level request first constructs the ComplexS object *)
Definition dispatch_rotation (op : pstr) (a : val) : option val :=
  if op_is op "obj_rotate" then Some (or_bad (
    match a with VList [sq; sst; turns] =>
      do sq <- as_strs sq; do sst <- as_chars sst; do turns <- as_opt as_int turns;
      Some (of_res of_dbs (dor _ <- obj_construct sq sst; obj_rotate sq sst turns))
    | _ => None end))
  else if op_is op "obj_rotate_pt" then Some (or_bad (
    match a with VList [sq; sst; turns] =>
      do sq <- as_strs sq; do sst <- as_chars sst; do turns <- as_opt as_int turns;
      Some (of_res of_parts (dor _ <- obj_construct sq sst; obj_rotate_pt sq sst turns))
    | _ => None end))
  else if op_is op "obj_rotate_pairtable_loc" then Some (or_bad (
    match a with VList [sq; sst; l; n] =>
      do sq <- as_strs sq; do sst <- as_chars sst; do l <- as_zpair l; do n <- as_int n;
      Some (of_res (fun p : Z * Z => VList [VInt (fst p); VInt (snd p)])
              (dor _ <- obj_construct sq sst; Ok (rotate_pairtable_loc l n (size_of sq))))
    | _ => None end))
  else if op_is op "rotate_complex_pt_turns" then Some (or_bad (
    match a with VList [st; pt; turns] =>
      do st <- as_stab st; do pt <- as_tab pt; do turns <- as_opt as_int turns;
      Some (of_parts (rotate_complex_pt_turns turns st pt))
    | _ => None end))
  else if op_is op "rotate_complex_db_turns" then Some (or_bad (
    match a with VList [sq; sst; turns] =>
      do sq <- as_strs sq; do sst <- as_chars sst; do turns <- as_opt as_int turns;
      Some (of_res of_dbs (rotate_complex_db_turns sq sst turns))
    | _ => None end))
  else if op_is op "obj_size" then Some (or_bad (
    match a with VList [sq; sst] =>
      do sq <- as_strs sq; do sst <- as_chars sst;
      Some (of_res of_nat (dor _ <- obj_construct sq sst; Ok (size_of sq)))
    | _ => None end))
  else None.
