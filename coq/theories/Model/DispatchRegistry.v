(* Request decoding / observation encoding for the registry state machine.
   op "history": [class table; number of slots; operations; observed classes; unobserved prefix length]\n   -> one observation per observed step
   (DESIGN.md section 6, "Correspondence for histories"). *)
From Coq Require Import String List NArith ZArith Bool Arith.
From DSD Require Import Base.Str Base.Errors Base.Val Model.ComplexUtils Model.RegStr Model.Heap Model.Registry Model.RegSplit.
Import ListNotations.
Local Open Scope string_scope.

Definition op_is' (op : pstr) (s : string) : bool := str_eqb op (str s).

(* ---- decoding ---- *)
Definition as_kind (v : val) : option kind :=
  do s <- as_str v;
  if op_is' s "D" then Some KindD else if op_is' s "C" then Some KindC
  else if op_is' s "S" then Some KindS else if op_is' s "M" then Some KindM
  else if op_is' s "R" then Some KindR else None.
Definition as_fmode (v : val) : option fmode :=
  do s <- as_str v;
  if op_is' s "none" then Some FNone else if op_is' s "before" then Some FBefore
  else if op_is' s "after" then Some FAfter else None.

Definition as_cinfo (v : val) : option cinfo :=
  match v with
  | VList [k; par; cut; sh; lo; pre; id0; fm] =>
      do k <- as_kind k; do par <- as_opt as_nat par; do cut <- as_int cut; do sh <- as_int sh;
      do lo <- as_int lo; do pre <- as_str pre; do id0 <- as_opt as_int id0; do fm <- as_fmode fm;
      Some (mkCinfo k par cut sh lo pre id0 fm)
  | _ => None
  end.

Definition as_uelem (v : val) : option uelem :=
  match v with
  | VStr s => Some (UStr s)
  | VInt _ => do n <- as_nat v; Some (USlot n)
  | _ => None
  end.
Definition as_query (v : val) : option query :=
  do s <- as_str v;
  if op_is' s "name" then Some QName else if op_is' s "len" then Some QLen
  else if op_is' s "dtype" then Some QDtype else if op_is' s "size" then Some QSize else None.

Definition as_op (v : val) : option op :=
  match v with
  | VList (VStr tag :: args) =>
      if op_is' tag "dom" then
        match args with [dst; c; nm; len; pre; dt] =>
          do dst <- as_nat dst; do c <- as_nat c; do nm <- as_opt as_str nm; do len <- as_opt as_int len;
          do pre <- as_opt as_str pre; do dt <- as_opt as_str dt;
          Some (ODomain dst c nm len pre dt)
        | _ => None end
      else if op_is' tag "cplx" then
        match args with [dst; c; sq; ss; nm; pre] =>
          do dst <- as_nat dst; do c <- as_nat c; do sq <- as_opt (as_listof as_uelem) sq;
          do ss <- as_opt as_chars ss; do nm <- as_opt as_str nm; do pre <- as_opt as_str pre;
          Some (OComplex dst c sq ss nm pre)
        | _ => None end
      else if op_is' tag "strand" then
        match args with [dst; c; sq; nm; pre] =>
          do dst <- as_nat dst; do c <- as_nat c; do sq <- as_opt (as_listof as_uelem) sq;
          do nm <- as_opt as_str nm; do pre <- as_opt as_str pre;
          Some (OStrand dst c sq nm pre)
        | _ => None end
      else if op_is' tag "macro" then
        match args with [dst; c; ms; nm] =>
          do dst <- as_nat dst; do c <- as_nat c; do ms <- as_opt (as_listof as_nat) ms;
          do nm <- as_opt as_str nm;
          Some (OMacro dst c ms nm)
        | _ => None end
      else if op_is' tag "rxn" then
        match args with [dst; c; rp; rt; nm] =>
          do dst <- as_nat dst; do c <- as_nat c;
          do rp <- as_opt (as_pair (as_listof as_nat) (as_listof as_nat)) rp;
          do rt <- as_opt as_str rt; do nm <- as_opt as_str nm;
          Some (OReaction dst c rp rt nm)
        | _ => None end
      else if op_is' tag "inv" then
        match args with [dst; src] => do dst <- as_nat dst; do src <- as_nat src; Some (OComplement dst src)
        | _ => None end
      else if op_is' tag "drop" then
        match args with [s] => do s <- as_nat s; Some (ODrop s) | _ => None end
      else if op_is' tag "query" then
        match args with [s; q] => do s <- as_nat s; do q <- as_query q; Some (OQuery s q) | _ => None end
      else if op_is' tag "turns" then
        match args with [s; z] => do s <- as_nat s; do z <- as_int z; Some (OSetTurns s z) | _ => None end
      else None
  | _ => None
  end.

Definition as_xop (v : val) : option xop :=
  match v with
  | VList [VStr tag; dst; src] =>
      if op_is' tag "split" then do dst <- as_nat dst; do src <- as_nat src; Some (XSplit dst src)
      else option_map XBase (as_op v)
  | _ => option_map XBase (as_op v)
  end.

(* ---- encoding ---- *)
Fixpoint index_nat (i : nat) (l : list nat) : option nat :=
  match l with
  | [] => None
  | x :: r => if Nat.eqb i x then Some 0 else option_map S (index_nat i r)
  end.
(* objects are named by the order in which they were first handed out *)
Definition hidx (handed : list nat) (i : nat) : val :=
  match index_nat i handed with Some n => of_nat n | None => VInt (-1) end.

Definition of_ckey (k : ckey) : val := VList [of_strs (fst k); of_chars (snd k)].
Definition of_key (k : key) : val :=
  match k with
  | KDom n l => VList [VStr n; VInt l]
  | KCplx c => of_ckey c
  | KMac l => of_list of_ckey l
  | KRxn m r p t =>
      let f (x : list ckey) := if m then of_list of_ckey x
                               else match x with [c] => of_ckey c | _ => of_list of_ckey x end in
      VList [of_list f r; of_list f p; of_opt VStr t]
  end.

Definition of_data (handed : list nat) (d : odata) : val :=
  match d with
  | DDom l => VList [VStr (str "D"); VInt l]
  | DCplx es ss t => VList [VStr (str "C"); of_strs (map fst es); of_chars ss; VInt t]
  | DStrand es => VList [VStr (str "S"); of_strs (map fst es)]
  | DMac ms rep => VList [VStr (str "M"); of_list (hidx handed) ms; hidx handed rep]
  | DRxn r p t => VList [VStr (str "R"); of_list (hidx handed) r; of_list (hidx handed) p; of_opt VStr t]
  end.

Definition of_qval (v : qval) : val := match v with QS s => VStr s | QZ z => VInt z end.

Definition of_out (handed : list nat) (o : out) : val :=
  match o with
  | Returned i => VList [VStr (str "returned"); hidx handed i]
  | Created i => VList [VStr (str "created"); hidx handed i]
  | Raised k e => VList [VStr (str "raised"); VStr k; of_opt (hidx handed) e]
  | Skipped => VList [VStr (str "skipped")]
  | Value v => VList [VStr (str "value"); of_qval v]
  end.

Definition of_xout (handed : list nat) (o : xout) : val :=
  match o with
  | XOut r => of_out handed r
  | Yielded ids => VList [VStr (str "split"); of_list (hidx handed) ids]
  end.

Definition observe (ct : ctable) (watch : list nat) (st : state) (handed : list nat) (o : xout) : val :=
  let h := heap st in
  VList [
    of_xout handed o;
    of_list (of_opt (hidx handed)) (roots st);
    VList (map (fun c =>
             let cs := cget st c in
             VList [of_list (fun kv => VList [VStr (fst kv); hidx handed (snd kv)]) (cs_names cs);
                    of_list (fun kv => VList [of_key (fst kv); hidx handed (snd kv)]) (cs_canon cs);
                    of_opt VInt (class_id ct st c);
                    VBool (match cs_id cs with Some _ => true | None => false end)])
           watch);
    VList (flat_map (fun i =>
             match hget h i with
             | Some ob => if o_live ob
                          then [VList [hidx handed i; of_nat (o_cls ob); VStr (o_name ob);
                                       of_key (o_key ob); of_data handed (o_data ob)]]
                          else []
             | None => []
             end) handed);
    of_list (fun i => VBool (is_live h i)) handed
  ].

Definition hand_one (handed : list nat) (i : nat) : list nat := if mem i handed then handed else handed ++ [i].
Definition hand_out (handed : list nat) (o : xout) : list nat :=
  match o with
  | XOut (Returned i) | XOut (Created i) => hand_one handed i
  | Yielded ids => fold_left hand_one ids handed
  | _ => handed
  end.

(* the first `quiet` steps (a fixed set-up prefix) are executed but not observed *)
Fixpoint run_history (ct : ctable) (watch : list nat) (quiet : nat) (st : state) (handed : list nat)
    (ops : list xop) : list val :=
  match ops with
  | [] => []
  | o :: r =>
      let '(st', out) := xstep ct st o in
      let handed' := hand_out handed out in
      match quiet with
      | S q => run_history ct watch q st' handed' r
      | 0 => observe ct watch st' handed' out :: run_history ct watch 0 st' handed' r
      end
  end.

Definition dispatch_registry (op : pstr) (a : val) : option val :=
  if op_is' op "history" then Some (or_bad (
    match a with VList [ct; n; ops; watch; quiet] =>
      do ct <- as_listof as_cinfo ct; do n <- as_nat n; do ops <- as_listof as_xop ops;
      do watch <- as_listof as_nat watch; do quiet <- as_nat quiet;
      Some (VList (run_history ct watch quiet (init ct n) [] ops))
    | _ => None end))
  else if op_is' op "histories" then Some (or_bad (
    (* a batch of histories sharing class table, slots, observed classes and quiet prefix length *)
    match a with VList [ct; n; hs; watch; quiet] =>
      do ct <- as_listof as_cinfo ct; do n <- as_nat n; do hs <- as_listof (as_listof as_xop) hs;
      do watch <- as_listof as_nat watch; do quiet <- as_nat quiet;
      Some (VList (map (fun ops => VList (run_history ct watch quiet (init ct n) [] ops)) hs))
    | _ => None end))
  else None.
