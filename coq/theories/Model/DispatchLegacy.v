From Coq Require Import String List NArith ZArith Bool Arith.
From DSD Require Import Base.Str Base.Errors Base.Val Model.ComplexUtils Model.DispatchCU Model.Loops
  Model.Compare Model.DispatchCompare Model.Canon Model.Views Model.Iupac Model.DispatchIupac Model.Legacy.
Import ListNotations.
Local Open Scope string_scope.

Fixpoint legacy_final (n : nat) (x : ckey) : res ckey :=
  match n with 0 => Ok x | S k => dor y <- legacy_rot1 x; legacy_final k y end.

Definition of_li (r : res (list (list nat) * list nat)) : val :=
  of_res (of_pair (of_list of_nats) of_nats) r.

(* legacy is_connected builds the pair table outside the try block: an ill-formed
   structure raises, only a disconnected one yields False *)
Definition legacy_is_connected (st : list chr) : res bool :=
  dor pt <- make_pair_table cP [cD] st;
  match make_loop_index pt with
  | Ok _ => Ok true
  | Err k => if str_eqb k eSSE then Ok false else Err k
  end.

Definition legacy_bundle (sq : list pstr) (st : list chr) : val :=
  match legacy_canonical sq st [] with
  | LErr k => err k
  | LDup _ _ => err eBadRequest
  | LOk canon rots =>
      match legacy_final (n_strands sq) (sq, st) with
      | Err k => err k
      | Ok (fs, ft) =>
          VList [of_ckey canon; of_nat rots; of_strs fs; of_chars ft; of_nat (n_strands fs);
                 of_res VStr (kernel_string fs ft);
                 of_res of_tab (make_pair_table cP [cD] ft);
                 of_li (loop_index_of ft);
                 of_res VBool (legacy_is_connected ft);
                 of_res of_locs (exterior_domains ft);
                 of_res of_locs (enclosed_domains ft)]
      end
  end.

Definition dispatch_legacy (op : pstr) (a : val) : option val :=
  if op_is op "legacy_complex" then Some (or_bad (
    match a with VList [sq; st] => do sq <- as_strs sq; do st <- as_chars st; Some (legacy_bundle sq st)
    | _ => None end))
  else if op_is op "legacy_dup" then Some (or_bad (
    match a with VList [sa; ta; sb; tb] =>
      do sa <- as_strs sa; do ta <- as_chars ta; do sb <- as_strs sb; do tb <- as_chars tb;
      Some (match legacy_canonical sa ta [] with
            | LOk ca ra =>
                match legacy_canonical sb tb [ca] with
                | LOk cb rb => VList [VStr (str "created"); of_ckey cb; of_nat rb]
                | LDup _ e =>
                    let n := n_strands sb in
                    let d := if Nat.leb e n then Nat.sub n e else Nat.sub e n in
                    VList [VStr (str "duplicate"); VInt (Z.sub (Z.of_nat d) (Z.of_nat ra))]
                | LErr k => err k
                end
            | LDup _ _ => err eBadRequest
            | LErr k => err k
            end)
    | _ => None end))
  else
  let unary (f : bool -> list chr -> res (list chr)) :=
    Some (or_bad (match a with VList [s; rna] =>
      do s <- as_str s; do rna <- as_bool rna; Some (of_cres (f rna s)) | _ => None end)) in
  if op_is op "legacy_wc_complement" then unary legacy_wc
  else if op_is op "legacy_complement" then unary legacy_wobble
  else if op_is op "legacy_reverse_wc_complement" then unary legacy_reverse_wc
  else if op_is op "legacy_reverse_complement" then unary legacy_reverse_wobble
  else None.
