(* Model of the canonical-form computation of ComplexS.identifiers (the rotation
   loop without the early exit on a registered rotation, i.e. for a request none
   of whose rotations is registered), of the `turns` bookkeeping and of the
   turns setter / lazily computed views of a complex object (C02, C03).
   Definitions only. *)
From Coq Require Import List NArith ZArith Bool Arith.
From DSD Require Import Base.Str Base.Errors Base.Sort Model.ComplexUtils Model.Compare.
Import ListNotations.

Definition rot1 (x : ckey) : res ckey := rotate_complex_once (fst x) (snd x).

(* the loop `for e in range(n): record; rotate`: n rotations are performed, the
   first n representations are recorded *)
Fixpoint rot_record (n : nat) (x : ckey) : res (list ckey) :=
  match n with
  | 0 => Ok []
  | S k => dor y <- rot1 x; dor r <- rot_record k y; Ok (x :: r)
  end.

Definition n_strands (seq : list pstr) : nat := length (make_strand_table_list sPlus seq).

Definition ckey_eqb (a b : ckey) : bool := cmp_eqb (ckey_cmp a b).

(* cdict[rcplx] = e : the LAST index at which a representation occurs *)
Fixpoint last_index (k : ckey) (l : list ckey) (i : nat) (acc : option nat) : option nat :=
  match l with
  | [] => acc
  | x :: r => last_index k r (S i) (if ckey_eqb k x then Some i else acc)
  end.

(* sorted(cdict, key = lambda x: (x[0], x[1]))[0] *)
Definition min_key (l : list ckey) : option ckey :=
  match sort_by (fun x => x) ckey_cmp l with [] => None | c :: _ => Some c end.

(* canon, turns (from the canonical form to the input), rcplxs *)
Definition identifiers_fresh (seq : list pstr) (struct : list chr) : res (ckey * Z * list ckey) :=
  if negb (length seq =? length struct) then Err eObjectInit else
  let n := n_strands seq in
  if n =? 0 then Err eObjectInit else          (* 'no strands' *)
  dor rots <- rot_record n (seq, struct);
  match min_key rots with
  | None => Err eIndex
  | Some canon =>
      match last_index canon rots 0 None with
      | None => Err eIndex
      | Some e => Ok (canon, wrap (- Z.of_nat e) (Z.of_nat n), rots)
      end
  end.

Definition canon_of (seq : list pstr) (struct : list chr) : res ckey :=
  dor r <- identifiers_fresh seq struct; Ok (fst (fst r)).

(* ------------------------------------------------------------------ *)
(* one complex object: stored representation and lazily filled caches *)
Record cobj := mkc {
  o_canon : ckey; o_turns : Z; o_seq : list pstr; o_struct : list chr;
  c_stab : option (list (list pstr));
  c_ptab : option tab;
  c_li : option (list (list nat) * list nat);      (* loop index, exterior loops *)
  c_ext : option (list loc * list loc);            (* exterior, enclosed domains *)
}.

Definition new_obj (canon : ckey) (turns : Z) (seq : list pstr) (struct : list chr) : cobj :=
  mkc canon turns seq struct None None None None.

(* `if not self._x:` treats an empty list like None *)
Definition truthy {A} (o : option (list A)) : bool := match o with Some (_ :: _) => true | _ => false end.

Definition get_stab (o : cobj) : cobj * list (list pstr) :=
  if truthy (c_stab o) then (o, match c_stab o with Some s => s | None => [] end)
  else let s := make_strand_table_list sPlus (o_seq o) in
       (mkc (o_canon o) (o_turns o) (o_seq o) (o_struct o) (Some s) (c_ptab o) (c_li o) (c_ext o), s).

Definition get_ptab (o : cobj) : cobj * res tab :=
  if truthy (c_ptab o) then (o, Ok (match c_ptab o with Some s => s | None => [] end))
  else match make_pair_table cP [cD] (o_struct o) with
       | Ok t => (mkc (o_canon o) (o_turns o) (o_seq o) (o_struct o) (c_stab o) (Some t) (c_li o) (c_ext o), Ok t)
       | Err k => (o, Err k)
       end.

Definition size (o : cobj) : cobj * nat := let '(o1, s) := get_stab o in (o1, length s).

(* rotate(): the current representation, then turns-1 rotations *)
Fixpoint rot_list (n : nat) (x : ckey) : res (list ckey) :=
  match n with
  | 0 => Ok []
  | S k => dor y <- rot1 x; dor r <- rot_list k y; Ok (y :: r)
  end.
Definition cobj_rotate (o : cobj) (turns : nat) : res (list ckey) :=
  dor r <- rot_list (turns - 1) (o_seq o, o_struct o); Ok ((o_seq o, o_struct o) :: r).

(* the turns setter (after the fix: resets the lazily computed data) *)
Definition set_turns (o : cobj) (v : Z) : res cobj :=
  let '(o1, tot) := size o in
  if tot =? 0 then Err eZeroDiv else
  let t := wrap (- o_turns o1 + v) (Z.of_nat tot) in
  (* the generator is consumed up to index t only *)
  dor rots <- cobj_rotate o1 (S (Z.to_nat t));
  match nth_error rots (Z.to_nat t) with
  | Some (s, st) => Ok (mkc (o_canon o1) (wrap v (Z.of_nat tot)) s st None None None None)
  | None => Err eObjectInit
  end.
