(* Model of dsdobjects/complex_utils.py: one definition per Python function,
   keeping its control structure.  Definitions only. *)
From Coq Require Import List NArith ZArith Bool Arith.
From DSD Require Import Base.Str Base.Errors.
Import ListNotations.

Inductive res (A : Type) := Ok (a : A) | Err (k : pstr).
Arguments Ok {A} a.
Arguments Err {A} k.

Definition rbind {A B} (r : res A) (f : A -> res B) : res B :=
  match r with Ok a => f a | Err k => Err k end.
Notation "'dor' x <- r ; k" := (rbind r (fun x => k))
  (at level 200, x pattern, r at level 100, k at level 200).


Definition cO : chr := 40%N.   (* '(' *)
Definition cC : chr := 41%N.   (* ')' *)
Definition cD : chr := 46%N.   (* '.' *)
Definition cP : chr := 43%N.   (* '+' *)
Definition sPlus : pstr := [cP].

Definition loc := (nat * nat)%type.
Definition row := list (option loc).
Definition tab := list row.

Definition loc_ltb (a b : loc) : bool :=
  (fst a <? fst b) || ((fst a =? fst b) && (snd a <? snd b)).

Fixpoint upd {A} (n : nat) (v : A) (l : list A) : list A :=
  match l, n with
  | [], _ => []
  | _ :: r, 0 => v :: r
  | x :: r, S k => x :: upd k v r
  end.

(* ------------------------------------------------------------------ *)
(* make_pair_table                                                     *)

Inductive sym := SO | SC | SD | SB | SX.

(* the if/elif chain of the loop body: strand break first, then brackets,
   then the ignore set *)
Definition classify (brk : chr) (ign : list chr) (c : chr) : sym :=
  if N.eqb c brk then SB
  else if N.eqb c cO then SO
  else if N.eqb c cC then SC
  else if existsb (N.eqb c) ign then SD
  else SX.

Definition upd2 (t : tab) (p : loc) (v : option loc) : tab :=
  match nth_error t (fst p) with
  | Some r => upd (fst p) (upd (snd p) v r) t
  | None => t
  end.

(* pre = completed strands, cur = strand being filled, stk = open brackets *)
Record mst := mk { pre : tab; cur : row; stk : list loc }.

(* pair_table[loc[0]][loc[1]] = here, where the row may be the current one *)
Definition updPC (pc : tab * row) (p : loc) (v : option loc) : tab * row :=
  if fst p <? length (fst pc) then (upd2 (fst pc) p v, snd pc)
  else (fst pc, upd (snd p) v (snd pc)).

Definition step (s : mst) (c : sym) : option mst :=
  match c with
  | SB => Some (mk (pre s ++ [cur s]) [] (stk s))
  | SO => Some (mk (pre s) (cur s ++ [None]) ((length (pre s), length (cur s)) :: stk s))
  | SD => Some (mk (pre s) (cur s ++ [None]) (stk s))
  | SC => match stk s with
          | [] => None
          | p :: st =>
            let here := (length (pre s), length (cur s)) in
            let pc := updPC (pre s, cur s ++ [Some p]) p (Some here) in
            Some (mk (fst pc) (snd pc) st)
          end
  | SX => None
  end.

Fixpoint run (s : mst) (l : list sym) : option mst :=
  match l with
  | [] => Some s
  | c :: r => match step s c with Some s' => run s' r | None => None end
  end.

Definition mpt_syms (l : list sym) : option tab :=
  match run (mk [] [] []) l with
  | Some s => match stk s with [] => Some (pre s ++ [cur s]) | _ => None end
  | None => None
  end.

(* every failure of the Python function on a list of characters is a
   SecondaryStructureError (the two asserts on the parameters are part of the
   precondition: len(strand_break) == 1 is the type chr, '.' in ignore below) *)
Definition make_pair_table (brk : chr) (ign : list chr) (ss : list chr) : res tab :=
  if negb (existsb (N.eqb cD) ign) then Err eAssert
  else match mpt_syms (map (classify brk ign) ss) with
       | Some t => Ok t
       | None => Err eSSE
       end.

(* ------------------------------------------------------------------ *)
(* pair_table_to_dot_bracket                                           *)

Definition db_char (si di : nat) (e : option loc) : chr :=
  match e with
  | None => cD
  | Some p => if loc_ltb (si, di) p then cO else cC
  end.

Fixpoint db_row (si di : nat) (r : row) : list chr :=
  match r with
  | [] => []
  | e :: r' => db_char si di e :: db_row si (S di) r'
  end.

(* `if out: out += strand_break` *)
Fixpoint db_rows (brk : chr) (si : nat) (out : list chr) (t : tab) : list chr :=
  match t with
  | [] => out
  | r :: t' =>
      let out1 := match out with [] => out | _ => out ++ [brk] end in
      db_rows brk (S si) (out1 ++ db_row si 0 r) t'
  end.

Definition pair_table_to_dot_bracket (brk : chr) (t : tab) : list chr := db_rows brk 0 [] t.

(* ------------------------------------------------------------------ *)
(* strand tables                                                        *)

(* list branch: groupby on (x != strand_break), keeping the True groups *)
Fixpoint mst_list_aux (brk : pstr) (seq : list pstr) (cur : list pstr) : list (list pstr) :=
  match seq with
  | [] => match cur with [] => [] | _ => [rev cur] end
  | x :: r =>
      if str_eqb x brk
      then match cur with [] => mst_list_aux brk r [] | _ => rev cur :: mst_list_aux brk r [] end
      else mst_list_aux brk r (x :: cur)
  end.
Definition make_strand_table_list (brk : pstr) (seq : list pstr) : list (list pstr) :=
  mst_list_aux brk seq [].

(* str branch: seq.split(strand_break), empty pieces kept *)
Fixpoint split_aux (brk : chr) (seq : list chr) (cur : list chr) : list (list chr) :=
  match seq with
  | [] => [rev cur]
  | x :: r => if N.eqb x brk then rev cur :: split_aux brk r [] else split_aux brk r (x :: cur)
  end.
Definition make_strand_table_str (brk : chr) (seq : list chr) : list (list chr) :=
  split_aux brk seq [].

(* join = False: reduce(lambda a, b: a + [brk] + b, st); TypeError on [] *)
Definition strand_table_to_sequence {A} (brk : A) (st : list (list A)) : res (list A) :=
  match st with
  | [] => Err eType
  | s :: r => Ok (fold_left (fun a b => a ++ [brk] ++ b) r s)
  end.
(* join = True: brk.join(''.join(s) for s in st) *)
Fixpoint join_with {A} (brk : list A) (st : list (list A)) : list A :=
  match st with
  | [] => []
  | [s] => s
  | s :: r => s ++ brk ++ join_with brk r
  end.

(* ------------------------------------------------------------------ *)
(* make_loop_index                                                      *)

Definition nth2 (done : list (list nat)) (cur : list nat) (p : loc) : option nat :=
  if fst p <? length done
  then match nth_error done (fst p) with Some r => nth_error r (snd p) | None => None end
  else if fst p =? length done then nth_error cur (snd p) else None.

Record lst := mkl {
  l_done : list (list nat); l_cur : list nat; l_stack : list loc; l_cl : nat; l_nl : nat }.

(* one position of the inner loop *)
Definition li_pos (s : lst) (si di : nat) (e : option loc) : res lst :=
  let loc0 := (si, di) in
  let '(cl1, nl1, stack1) :=
    match e with
    | None => (l_cl s, l_nl s, l_stack s)
    | Some p => if loc_ltb loc0 p
                then (S (l_nl s), S (l_nl s), loc0 :: l_stack s)
                else (l_cl s, l_nl s, l_stack s)
    end in
  let cur1 := l_cur s ++ [cl1] in
  match e with
  | Some p =>
      if loc_ltb p loc0 then
        match stack1 with
        | [] => Err eIndex                      (* stack.pop() on an empty stack *)
        | _ :: st =>
            let cl2 := match st with
                       | [] => 0
                       | ploc :: _ => match nth2 (l_done s) cur1 ploc with Some v => v | None => 0 end
                       end in
            Ok (mkl (l_done s) cur1 st cl2 nl1)
        end
      else Ok (mkl (l_done s) cur1 stack1 cl1 nl1)
  | None => Ok (mkl (l_done s) cur1 stack1 cl1 nl1)
  end.

Fixpoint li_row (s : lst) (si di : nat) (r : row) : res lst :=
  match r with
  | [] => Ok s
  | e :: r' => dor s1 <- li_pos s si di e; li_row s1 si (S di) r'
  end.

(* outer loop; ext = exterior set in insertion order, myext = per-strand [from, to] *)
Fixpoint li_rows (components : bool) (s : lst) (si : nat) (ext : list nat)
         (myext : list (nat * nat)) (t : tab) : res (list (list nat) * list nat * list (nat * nat)) :=
  match t with
  | [] => Ok (l_done s, ext, myext)
  | r :: t' =>
      let fr := l_cl s in
      dor s1 <- li_row (mkl (l_done s) [] (l_stack s) (l_cl s) (l_nl s)) si 0 r;
      let to := l_cl s1 in
      let s2 := mkl (l_done s1 ++ [l_cur s1]) [] (l_stack s1) (l_cl s1) (l_nl s1) in
      if existsb (Nat.eqb to) ext
      then if components then li_rows components s2 (S si) ext (myext ++ [(fr, to)]) t'
           else Err eSSE
      else li_rows components s2 (S si) (ext ++ [to]) (myext ++ [(fr, to)]) t'
  end.

Definition make_loop_index_raw (components : bool) (t : tab) :=
  li_rows components (mkl [] [] [] 0 0) 0 [] [] t.

(* components = False: (loop_index, exterior set) *)
Definition make_loop_index (t : tab) : res (list (list nat) * list nat) :=
  dor x <- make_loop_index_raw false t; Ok (fst (fst x), snd (fst x)).
(* components = True: (loop_index, myext) *)
Definition make_loop_index_comp (t : tab) : res (list (list nat) * list (nat * nat)) :=
  dor x <- make_loop_index_raw true t; Ok (fst (fst x), snd x).

(* ------------------------------------------------------------------ *)
(* split_complex_pt                                                     *)

Definition slice {A} (l : list A) (i j : nat) : list A := firstn (j - i) (skipn i l).

Definition splice {A} (stab : list (list A)) (ptab : tab) (i j : nat) :=
  let innerss := slice stab i (S j) in
  let innerpt := map (map (option_map (fun x : loc => (fst x - i, snd x)))) (slice ptab i (S j)) in
  let outerss := firstn i stab ++ skipn (S j) stab in
  let outerpt := map (map (option_map (fun x : loc =>
                    (if fst x <? i then fst x else fst x - (S j - i), snd x))))
                     (firstn i ptab ++ skipn (S j) ptab) in
  ((innerss, innerpt), (outerss, outerpt)).

Fixpoint lookup (k : nat) (m : list (nat * nat)) : option nat :=
  match m with
  | [] => None
  | (k', v) :: r => if Nat.eqb k k' then Some v else lookup k r
  end.

Inductive split_action := SYield | SSplice (i j : nat) | SFail (k : pstr).

(* the for-loop over enumerate(ext), with `seen` as an association list
   (later bindings shadow earlier ones: new pairs are consed in front) *)
Fixpoint split_scan (n : nat) (seen : list (nat * nat)) (j : nat) (ext : list (nat * nat))
  : split_action :=
  match ext with
  | [] => SFail eFuel   (* ext is never empty: ptab has at least one strand; unreachable *)
  | (fr, to) :: ext' =>
      match lookup fr seen with
      | None => SFail eAssert
      | Some v =>
          if negb (Nat.eqb v j) then SFail eAssert
          else if Nat.eqb j (n - 1)
               then match lookup to seen with Some _ => SYield | None => SFail eAssert end
               else match lookup to seen with
                    | Some i => SSplice i j
                    | None => split_scan n ((to, S j) :: seen) (S j) ext'
                    end
      end
  end.

Fixpoint split_complex_pt {A} (fuel : nat) (stab : list (list A)) (ptab : tab)
  : res (list (list (list A) * tab)) :=
  match fuel with
  | 0 => Err eFuel
  | S fuel' =>
      dor le <- make_loop_index_comp ptab;
      let ext := snd le in
      match ext with
      | [] => Ok []                (* for-loop over an empty list: nothing is yielded *)
      | _ =>
        match split_scan (length ext) [(0, 0)] 0 ext with
        | SYield => Ok [(stab, ptab)]
        | SSplice i j =>
            let '((iss, ipt), (oss, opt)) := splice stab ptab i j in
            dor a <- split_complex_pt fuel' iss ipt;
            dor b <- split_complex_pt fuel' oss opt;
            Ok (a ++ b)
        | SFail k => Err k
        end
      end
  end.

(* ------------------------------------------------------------------ *)
(* wrap, rotate_complex_pt                                              *)

Definition wrap (x m : Z) : Z := ((x mod m + m) mod m)%Z.

Definition rotate_locus (n : nat) (k : Z) (x : option loc) : option loc :=
  option_map (fun p : loc => (Z.to_nat (wrap (Z.of_nat (fst p) + k) (Z.of_nat n)), snd p)) x.

Definition rot_right {A} (l : list A) : list A :=
  match rev l with [] => [] | x :: r => x :: rev r end.

(* one forced rotation: stab = [stab[-1]] + stab[:-1], loci shifted by +1 *)
Definition rotate_pt_step {A} (stab : list (list A)) (ptab : tab) : list (list A) * tab :=
  (rot_right stab, map (map (rotate_locus (length ptab) 1)) (rot_right ptab)).

(* turns given explicitly (fuel = turns); the `turns != len(ptab)` test decides
   whether the first element is rotated *)
Fixpoint rotate_complex_pt {A} (turns : nat) (stab : list (list A)) (ptab : tab)
  : list (list (list A) * tab) :=
  match turns with
  | 0 => []
  | S t =>
      let '(s1, p1) :=
        if (1 <? length ptab) && negb (Nat.eqb turns (length ptab))
        then rotate_pt_step stab ptab else (stab, ptab) in
      (s1, p1) :: rotate_complex_pt t s1 p1
  end.

(* ------------------------------------------------------------------ *)
(* rotate_complex_once                                                  *)

Fixpoint index_of (x : pstr) (l : list pstr) : option nat :=
  match l with
  | [] => None
  | y :: r => if str_eqb x y then Some 0 else option_map S (index_of x r)
  end.

(* first loop: positions 0..p-1 left to right; returns the stack of unmatched '(' *)
Fixpoint scanL (l : list chr) (i : nat) (stack : list nat) : res (list nat) :=
  match l with
  | [] => Ok stack
  | c :: r =>
      if N.eqb c cO then scanL r (S i) (i :: stack)
      else if N.eqb c cC then
        match stack with [] => Err eSSE | _ :: st => scanL r (S i) st end
      else scanL r (S i) stack
  end.

(* second loop: positions len-1 .. p+1 right to left; `l` is the reversed tail,
   `i` the index of its head; returns the stack of unmatched ')' *)
Fixpoint scanR (l : list chr) (i : nat) (stack : list nat) : res (list nat) :=
  match l with
  | [] => Ok stack
  | c :: r =>
      if N.eqb c cC then scanR r (i - 1) (i :: stack)
      else if N.eqb c cO then
        match stack with [] => Err eSSE | _ :: st => scanR r (i - 1) st end
      else scanR r (i - 1) stack
  end.

Definition set_all {A} (idx : list nat) (v : A) (l : list A) : list A :=
  fold_left (fun acc i => upd i v acc) idx l.

Definition rotate_complex_once (seq : list pstr) (sst : list chr) : res (list pstr * list chr) :=
  match index_of sPlus seq with
  | None => Ok (seq, sst)
  | Some p =>
      let seq' := skipn (S p) seq ++ [sPlus] ++ firstn p seq in
      dor st1 <- scanL (firstn p sst) 0 [];
      if length sst <? p then Err eIndex else
      let n1 := set_all st1 cC sst in
      dor st2 <- scanR (rev (skipn (S p) n1)) (length n1 - 1) [];
      let n2 := set_all st2 cO n1 in
      Ok (seq', skipn (S p) n2 ++ [cP] ++ firstn p n2)
  end.

(* rotate_complex_db (lists, default '+', join = False) with turns = None *)
Definition rotate_complex_db (seq : list pstr) (sst : list chr)
  : res (list (list pstr * list chr)) :=
  let stab := make_strand_table_list sPlus seq in
  dor ptab <- make_pair_table cP [cD] sst;
  if negb (forallb (fun xy => Nat.eqb (length (fst xy)) (length (snd xy))) (combine stab ptab))
  then Err eAssert else
  let rots := rotate_complex_pt (length ptab) stab ptab in
  (fix go (l : list (list (list pstr) * tab)) : res (list (list pstr * list chr)) :=
     match l with
     | [] => Ok []
     | (st, pt) :: r =>
         dor nseq <- strand_table_to_sequence sPlus st;
         dor rest <- go r;
         Ok ((nseq, pair_table_to_dot_bracket cP pt) :: rest)
     end) rots.

(* split_complex_db (lists, join = False) *)
Definition split_complex_db (seq : list pstr) (sst : list chr)
  : res (list (list pstr * list chr)) :=
  let stab := make_strand_table_list sPlus seq in
  dor ptab <- make_pair_table cP [cD] sst;
  dor parts <- split_complex_pt (S (length ptab)) stab ptab;
  (fix go (l : list (list (list pstr) * tab)) : res (list (list pstr * list chr)) :=
     match l with
     | [] => Ok []
     | (st, pt) :: r =>
         dor nseq <- strand_table_to_sequence sPlus st;
         dor rest <- go r;
         Ok ((nseq, pair_table_to_dot_bracket cP pt) :: rest)
     end) parts.
