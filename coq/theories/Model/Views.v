(* The views of one ComplexS object as a small state machine over Canon.cobj
   (lazily filled caches, the turns setter), and kernel_string (C03, C12).
   Definitions only. *)
From Coq Require Import String List NArith ZArith Bool Arith.
From DSD Require Import Base.Str Base.Errors Base.Val Model.ComplexUtils Model.DispatchCU Model.Compare
  Model.Canon Model.Loops.
Import ListNotations.

(* kernel_string: one token per position, joined by single blanks *)
Definition kernel_token (d : pstr) (s : chr) : pstr :=
  if N.eqb s cP then [cP]
  else if N.eqb s cC then [cC]
  else if N.eqb s cO then d ++ [cO]
  else d.
Fixpoint kernel_tokens (seq : list pstr) (sst : list chr) : list pstr :=
  match seq, sst with
  | d :: seq', s :: sst' => kernel_token d s :: kernel_tokens seq' sst'
  | _, _ => []
  end.
(* `for i in range(len(seq))` indexes sst[i]: IndexError when the structure is shorter *)
Definition kernel_string (seq : list pstr) (sst : list chr) : res pstr :=
  if length sst <? length seq then Err eIndex
  else Ok (join_names [32%N] (kernel_tokens seq sst)).

Local Open Scope string_scope.

Inductive vop :=
| VSetTurns (v : Z) | VTurns | VSeq | VStruct | VKernel | VSize | VStab | VPtab
| VStrandLen (p : nat) | VDomain (l : loc) | VPaired (a b : Z) | VLoop (l : loc)
| VExt | VEnc | VConnected | VRotate | VRotatePt | VCanon.

Definition with_ptab (o : cobj) (k : cobj -> tab -> cobj * val) : cobj * val :=
  let '(o1, r) := get_ptab o in
  match r with Ok t => k o1 t | Err e => (o1, err e) end.

(* self.__loop_index: cached (loop index, exterior loops); filling it goes through
   the pair_table property, which fills the pair-table cache as well *)
Definition get_li (o : cobj) : cobj * res (list (list nat) * list nat) :=
  match c_li o with
  | Some (x :: l, e) => (o, Ok (x :: l, e))
  | _ =>
      let '(o1, r) := get_ptab o in
      match r with
      | Err e => (o1, Err e)
      | Ok t => match make_loop_index t with
                | Ok le => (mkc (o_canon o1) (o_turns o1) (o_seq o1) (o_struct o1) (c_stab o1) (c_ptab o1)
                                (Some le) (c_ext o1), Ok le)
                | Err e => (o1, Err e)
                end
      end
  end.

(* exterior_domains fills both lists; `if not self._exterior_domains` recomputes
   when the cached list is empty *)
Definition get_ext (o : cobj) : cobj * res (list loc * list loc) :=
  match c_ext o with
  | Some (x :: l, e) => (o, Ok (x :: l, e))
  | _ =>
      let '(o1, r) := get_li o in
      match r with
      | Err e => (o1, Err e)
      | Ok le =>
          match c_ptab o1 with
          | Some t =>
              let xe := scan_rows (snd le) 0 (fst le) t in
              (mkc (o_canon o1) (o_turns o1) (o_seq o1) (o_struct o1) (c_stab o1) (c_ptab o1) (c_li o1) (Some xe), Ok xe)
          | None => (o1, Err eType)      (* self._pair_table is None: cannot happen after get_li *)
          end
      end
  end.

Definition of_locs (l : list loc) : val := of_list of_loc l.
Definition of_ckeys (l : list ckey) : val := of_list (of_pair of_strs of_chars) l.

Definition vstep (o : cobj) (op : vop) : cobj * val :=
  match op with
  | VSetTurns v => match set_turns o v with Ok o' => (o', VNone) | Err e => (o, err e) end
  | VTurns => (o, VInt (o_turns o))
  | VCanon => (o, of_pair of_strs of_chars (o_canon o))
  | VSeq => (o, of_strs (o_seq o))
  | VStruct => (o, of_chars (o_struct o))
  | VKernel => (o, of_res VStr (kernel_string (o_seq o) (o_struct o)))
  | VSize => let '(o1, n) := size o in (o1, of_nat n)
  | VStab => let '(o1, s) := get_stab o in (o1, of_stab s)
  | VPtab => with_ptab o (fun o1 t => (o1, of_tab t))
  | VStrandLen p => let '(o1, s) := get_stab o in
                    (o1, match nth_error s p with Some r => of_nat (length r) | None => err eIndex end)
  | VDomain l => let '(o1, s) := get_stab o in (o1, of_res VStr (nth2r s l))
  | VPaired a b =>
      if (a <? 0)%Z || (b <? 0)%Z then (o, err eIndex)
      else with_ptab o (fun o1 t => (o1, of_res (of_opt of_loc) (nth2r t (Z.to_nat a, Z.to_nat b))))
  | VLoop l => let '(o1, r) := get_li o in
               (o1, match r with Ok le => of_res of_nat (nth2r (fst le) l) | Err e => err e end)
  | VExt => let '(o1, r) := get_ext o in (o1, match r with Ok xe => of_locs (fst xe) | Err e => err e end)
  | VEnc => (* enclosed_domains: `if not self._enclosed_domains: _ = self.exterior_domains` *)
      match c_ext o with
      | Some (_, x :: l) => (o, of_locs (x :: l))
      | _ => let '(o1, r) := get_ext o in
             (o1, match r with Ok xe => of_locs (snd xe) | Err e => err e end)
      end
  | VConnected =>
      match c_li o with
      | Some (_ :: _, _) => (o, VBool true)
      | _ => let '(o1, r) := get_li o in
             (o1, match r with Ok _ => VBool true
                             | Err e => if str_eqb e eSSE then VBool false else err e end)
      end
  | VRotate => let '(o1, n) := size o in (o1, of_res of_ckeys (cobj_rotate o1 n))
  | VRotatePt =>
      let '(o1, n) := size o in
      (o1, match cobj_rotate o1 n with
           | Err e => err e
           | Ok l =>
               (fix go (l : list ckey) (acc : list val) : val :=
                  match l with
                  | [] => VList (rev acc)
                  | (s, t) :: r =>
                      match make_pair_table cP [cD] t with
                      | Ok pt => go r (VList [of_stab (make_strand_table_list sPlus s); of_tab pt] :: acc)
                      | Err e => err e
                      end
                  end) l []
           end)
  end.

Fixpoint vrun (o : cobj) (ops : list vop) : list val :=
  match ops with
  | [] => []
  | op :: r => let '(o1, v) := vstep o op in v :: vrun o1 r
  end.

Definition as_vop (v : val) : option vop :=
  match v with
  | VList [VStr k] =>
      if op_is k "turns" then Some VTurns else if op_is k "sequence" then Some VSeq
      else if op_is k "structure" then Some VStruct else if op_is k "kernel_string" then Some VKernel
      else if op_is k "size" then Some VSize else if op_is k "strand_table" then Some VStab
      else if op_is k "pair_table" then Some VPtab else if op_is k "exterior_domains" then Some VExt
      else if op_is k "enclosed_domains" then Some VEnc else if op_is k "is_connected" then Some VConnected
      else if op_is k "rotate" then Some VRotate else if op_is k "rotate_pt" then Some VRotatePt
      else if op_is k "canonical_form" then Some VCanon else None
  | VList [VStr k; a] =>
      if op_is k "set_turns" then do z <- as_int a; Some (VSetTurns z)
      else if op_is k "strand_length" then do n <- as_nat a; Some (VStrandLen n)
      else if op_is k "get_domain" then do l <- as_loc a; Some (VDomain l)
      else if op_is k "get_loop_index" then do l <- as_loc a; Some (VLoop l)
      else if op_is k "get_paired_loc" then do l <- as_pair as_int as_int a; Some (VPaired (fst l) (snd l))
      else None
  | _ => None
  end.

Definition dispatch_views (op : pstr) (a : val) : option val :=
  if op_is op "c02_identifiers" then Some (or_bad (
    match a with VList [sq; st] =>
      do sq <- as_strs sq; do st <- as_chars st;
      Some (of_res (fun r : ckey * Z * list ckey =>
                      VList [of_pair of_strs of_chars (fst (fst r)); VInt (snd (fst r))])
                   (identifiers_fresh sq st))
    | _ => None end))
  else if op_is op "c03_history" then Some (or_bad (
    match a with VList [sq; st; ops] =>
      do sq <- as_strs sq; do st <- as_chars st; do ops <- as_listof as_vop ops;
      Some (match identifiers_fresh sq st with
            | Ok (canon, turns, _) => VList (vrun (new_obj canon turns sq st) ops)
            | Err e => err e
            end)
    | _ => None end))
  else if op_is op "kernel_string" then Some (or_bad (
    match a with VList [sq; st] =>
      do sq <- as_strs sq; do st <- as_chars st; Some (of_res VStr (kernel_string sq st))
    | _ => None end))
  else None.
