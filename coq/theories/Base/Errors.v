(* Names of the exception kinds the models can return (as code-point strings). *)
From Coq Require Import String.
From DSD Require Import Base.Str.

Definition eSSE := str "SecondaryStructureError".
Definition eIndex := str "IndexError".
Definition eAssert := str "AssertionError".
Definition eType := str "TypeError".
Definition eKey := str "KeyError".
Definition eValue := str "ValueError".
Definition eFuel := str "OutOfFuel".
Definition eSingleton := str "SingletonError".
Definition eObjectInit := str "ObjectInitError".
Definition eNotImpl := str "NotImplementedError".
Definition eConstraint := str "ConstraintError".
Definition ePilFormat := str "PilFormatError".
Definition eParse := str "ParseException".
Definition eZeroDiv := str "ZeroDivisionError".
Definition eBadRequest := str "BadRequest".
