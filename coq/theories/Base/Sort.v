(* Stable insertion sort by a three-way comparison (the model of Python's
   sorted(..., key=...) when the key order is a good_cmp), with the facts used by
   C02/C11: the result is a sorted permutation, and sorted permutations of lists
   whose key-equal elements are equal are unique. *)
From Coq Require Import List Bool Permutation Sorted.
From DSD Require Import Base.Str.
Import ListNotations.

Section Sort.
  Context {A K : Type} (key : A -> K) (cmp : K -> K -> comparison).

  Definition kle (x y : A) : bool := cmp_leb (cmp (key x) (key y)).

  (* insert x in front of the first element that is >= x: the head of the original
     list stays in front of later key-equal elements (stability) *)
  Fixpoint insert (x : A) (l : list A) : list A :=
    match l with
    | [] => [x]
    | y :: r => if cmp_leb (cmp (key x) (key y)) then x :: l else y :: insert x r
    end.

  Fixpoint sort_by (l : list A) : list A :=
    match l with
    | [] => []
    | x :: r => insert x (sort_by r)
    end.

  Lemma insert_perm x l : Permutation (insert x l) (x :: l).
  Proof.
    induction l as [|y r IH]; cbn; [reflexivity|].
    destruct (cmp_leb (cmp (key x) (key y))); [reflexivity|].
    rewrite IH. apply perm_swap.
  Qed.

  Lemma sort_perm l : Permutation (sort_by l) l.
  Proof.
    induction l as [|x r IH]; cbn; [reflexivity|].
    rewrite insert_perm. constructor. exact IH.
  Qed.

  Context (G : good_cmp cmp).

  Definition klt_or_eq (x y : A) : Prop := kle x y = true.

  Lemma insert_sorted x l : Sorted klt_or_eq l -> Sorted klt_or_eq (insert x l).
  Proof.
    induction l as [|y r IH]; intros S; cbn.
    - constructor; constructor.
    - destruct (cmp (key x) (key y)) eqn:E; cbn.
      + constructor; [exact S|]. constructor. unfold klt_or_eq, kle. rewrite E. reflexivity.
      + constructor; [exact S|]. constructor. unfold klt_or_eq, kle. rewrite E. reflexivity.
      + inversion S as [|? ? Sr Hr]; subst. constructor; [apply IH, Sr|].
        destruct r as [|z r']; cbn.
        * constructor. unfold klt_or_eq, kle. rewrite (gc_anti _ G), E. reflexivity.
        * destruct (cmp_leb (cmp (key x) (key z))).
          -- constructor. unfold klt_or_eq, kle. rewrite (gc_anti _ G), E. reflexivity.
          -- inversion Hr; subst. constructor. assumption.
  Qed.

  Lemma sort_sorted l : Sorted klt_or_eq (sort_by l).
  Proof. induction l as [|x r IH]; cbn; [constructor|]. apply insert_sorted, IH. Qed.

  Lemma kle_trans x y z : kle x y = true -> kle y z = true -> kle x z = true.
  Proof. unfold kle. apply (leb_trans cmp G). Qed.

  Lemma sorted_strongly l : Sorted klt_or_eq l -> StronglySorted klt_or_eq l.
  Proof. apply Sorted_StronglySorted. intros x y z. apply kle_trans. Qed.

  (* elements with equal keys are equal (objects are singletons per canonical form) *)
  Definition key_inj_on (l : list A) : Prop :=
    forall x y, In x l -> In y l -> key x = key y -> x = y.

  Lemma sorted_perm_unique : forall l l',
    key_inj_on l -> Permutation l l' ->
    StronglySorted klt_or_eq l -> StronglySorted klt_or_eq l' -> l = l'.
  Proof.
    induction l as [|x r IH]; intros l' Hinj P S S'.
    - apply Permutation_nil in P. subst. reflexivity.
    - destruct l' as [|y r']; [apply Permutation_sym, Permutation_nil in P; discriminate|].
      inversion S as [|? ? Sr Hx]; subst. inversion S' as [|? ? Sr' Hy]; subst.
      assert (Hxy : x = y).
      { assert (Iy : In y (x :: r)) by (apply (Permutation_in _ (Permutation_sym P)); left; reflexivity).
        assert (Ix : In x (y :: r')) by (apply (Permutation_in _ P); left; reflexivity).
        destruct Iy as [E|Iy]; [exact E|]. destruct Ix as [E|Ix]; [symmetry; exact E|].
        rewrite Forall_forall in Hx, Hy. specialize (Hx _ Iy). specialize (Hy _ Ix).
        unfold klt_or_eq, kle in Hx, Hy.
        apply Hinj; [left; reflexivity|right; exact Iy|].
        apply (leb_antisym cmp G); assumption. }
      subst y. f_equal. apply IH.
      + intros a b Ha Hb. apply Hinj; right; assumption.
      + apply Permutation_cons_inv with (a := x). exact P.
      + exact Sr.
      + exact Sr'.
  Qed.

  Theorem sort_perm_invariant l l' :
    key_inj_on l -> Permutation l l' -> sort_by l = sort_by l'.
  Proof.
    intros Hinj P. apply sorted_perm_unique.
    - intros x y Hx Hy. apply Hinj; apply (Permutation_in _ (sort_perm l)); assumption.
    - rewrite sort_perm, P. symmetry. apply sort_perm.
    - apply sorted_strongly, sort_sorted.
    - apply sorted_strongly, sort_sorted.
  Qed.

  Theorem sort_eq_perm l l' : sort_by l = sort_by l' -> Permutation l l'.
  Proof. intros E. rewrite <- (sort_perm l), E. apply sort_perm. Qed.

  (* the head of the sorted list is a minimum *)
  Lemma sort_head_min l x r : sort_by l = x :: r -> forall y, In y l -> kle x y = true.
  Proof.
    intros E y Hy. pose proof (sorted_strongly _ (sort_sorted l)) as S. rewrite E in S.
    assert (Iy : In y (x :: r)) by (rewrite <- E; apply (Permutation_in _ (Permutation_sym (sort_perm l))); exact Hy).
    inversion S as [|? ? _ Hx]; subst. destruct Iy as [<-|Iy].
    - unfold kle. rewrite (good_refl _ G). reflexivity.
    - rewrite Forall_forall in Hx. apply Hx, Iy.
  Qed.
End Sort.
