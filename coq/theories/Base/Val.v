(* Universal value type exchanged between the harness, the extracted model
   runner and the implementation runner; decoders/encoders for model types. *)
From Coq Require Import List NArith ZArith Bool.
From DSD Require Import Base.Str Base.Errors.
Import ListNotations.

Inductive val :=
| VNone
| VBool (b : bool)
| VInt (z : Z)
| VStr (s : pstr)
| VList (l : list val)
| VFloat (m e : Z)            (* m * 2^e, canonical: m odd or (m,e) = (0,0); specials: e = 99999 *)
| VErr (kind : pstr) (args : list val).

Definition err (k : pstr) : val := VErr k [].
Definition bad_request : val := err eBadRequest.

(* option monad *)
Definition obind {A B} (o : option A) (f : A -> option B) : option B :=
  match o with Some x => f x | None => None end.
Notation "'do' x <- o ; k" := (obind o (fun x => k))
  (at level 200, x pattern, o at level 100, k at level 200).

Fixpoint omap {A B} (f : A -> option B) (l : list A) : option (list B) :=
  match l with
  | [] => Some []
  | x :: r => do y <- f x; do ys <- omap f r; Some (y :: ys)
  end.

Definition as_int (v : val) : option Z := match v with VInt z => Some z | _ => None end.
Definition as_nat (v : val) : option nat :=
  match v with VInt z => if (z <? 0)%Z then None else Some (Z.to_nat z) | _ => None end.
Definition as_str (v : val) : option pstr := match v with VStr s => Some s | _ => None end.
Definition as_bool (v : val) : option bool := match v with VBool b => Some b | _ => None end.
Definition as_list (v : val) : option (list val) := match v with VList l => Some l | _ => None end.
Definition as_char (v : val) : option chr := match v with VStr [c] => Some c | _ => None end.
(* a Python sequence of characters: a str, or a list of 1-character strs *)
Definition as_chars (v : val) : option (list chr) :=
  match v with
  | VStr s => Some s
  | VList l => omap as_char l
  | _ => None
  end.
Definition as_strs (v : val) : option (list pstr) :=
  match v with VList l => omap as_str l | _ => None end.
Definition as_opt {A} (f : val -> option A) (v : val) : option (option A) :=
  match v with VNone => Some None | _ => do x <- f v; Some (Some x) end.
Definition as_pair {A B} (f : val -> option A) (g : val -> option B) (v : val) : option (A * B) :=
  match v with VList [a; b] => do x <- f a; do y <- g b; Some (x, y) | _ => None end.
Definition as_listof {A} (f : val -> option A) (v : val) : option (list A) :=
  match v with VList l => omap f l | _ => None end.

Definition of_nat (n : nat) : val := VInt (Z.of_nat n).
Definition of_chars (l : list chr) : val := VList (map (fun c => VStr [c]) l).
Definition of_strs (l : list pstr) : val := VList (map VStr l).
Definition of_opt {A} (f : A -> val) (o : option A) : val :=
  match o with Some x => f x | None => VNone end.
Definition of_pair {A B} (f : A -> val) (g : B -> val) (p : A * B) : val :=
  VList [f (fst p); g (snd p)].
Definition of_list {A} (f : A -> val) (l : list A) : val := VList (map f l).

Definition or_bad (o : option val) : val := match o with Some v => v | None => bad_request end.
