(* Strings as lists of Unicode code points (N); Python's str comparison is
   lexicographic by code point, tuple comparison is lexicographic by element.
   Definitions only + the order lemmas used by C02/C10/C11. *)
From Coq Require Import List NArith ZArith Bool Lia String Ascii.
Import ListNotations.

Definition chr := N.
Definition pstr := list chr.

Definition str (s : string) : pstr := map N_of_ascii (list_ascii_of_string s).

Fixpoint list_eqb {A} (eqb : A -> A -> bool) (a b : list A) : bool :=
  match a, b with
  | [], [] => true
  | x :: a', y :: b' => eqb x y && list_eqb eqb a' b'
  | _, _ => false
  end.

Definition str_eqb : pstr -> pstr -> bool := list_eqb N.eqb.

(* three-way lexicographic comparison, generic in the element comparison *)
Fixpoint lex_cmp {A} (cmp : A -> A -> comparison) (a b : list A) : comparison :=
  match a, b with
  | [], [] => Eq
  | [], _ :: _ => Lt
  | _ :: _, [] => Gt
  | x :: a', y :: b' =>
      match cmp x y with
      | Eq => lex_cmp cmp a' b'
      | c => c
      end
  end.

Definition str_cmp : pstr -> pstr -> comparison := lex_cmp N.compare.

Definition cmp_pair {A B} (ca : A -> A -> comparison) (cb : B -> B -> comparison)
  (x y : A * B) : comparison :=
  match ca (fst x) (fst y) with
  | Eq => cb (snd x) (snd y)
  | c => c
  end.

Definition cmp_ltb (c : comparison) : bool := match c with Lt => true | _ => false end.
Definition cmp_leb (c : comparison) : bool := match c with Gt => false | _ => true end.
Definition cmp_eqb (c : comparison) : bool := match c with Eq => true | _ => false end.

(* A comparison function is a "good order" when it is a total order whose Eq is
   Leibniz equality. *)
Record good_cmp {A} (cmp : A -> A -> comparison) : Prop := {
  gc_eq : forall x y, cmp x y = Eq <-> x = y;
  gc_anti : forall x y, cmp y x = CompOpp (cmp x y);
  gc_trans : forall x y z, cmp x y = Lt -> cmp y z = Lt -> cmp x z = Lt;
}.

Lemma good_N : good_cmp N.compare.
Proof.
  split.
  - intros; apply N.compare_eq_iff.
  - intros; apply N.compare_antisym.
  - intros x y z H1 H2. rewrite N.compare_lt_iff in *. lia.
Qed.

Lemma good_Z : good_cmp Z.compare.
Proof.
  split.
  - intros; apply Z.compare_eq_iff.
  - intros; apply Z.compare_antisym.
  - intros x y z H1 H2. rewrite Z.compare_lt_iff in *. lia.
Qed.

Lemma good_refl {A} (cmp : A -> A -> comparison) : good_cmp cmp -> forall x, cmp x x = Eq.
Proof. intros G x. apply (gc_eq _ G). reflexivity. Qed.

Lemma good_lex {A} (cmp : A -> A -> comparison) : good_cmp cmp -> good_cmp (lex_cmp cmp).
Proof.
  intros G. split.
  - induction x as [|a x IH]; destruct y as [|b y]; cbn; try (split; congruence).
    destruct (cmp a b) eqn:E.
    + apply (gc_eq _ G) in E. subst b. rewrite IH. split; congruence.
    + split; [discriminate|]. intros H; injection H as -> ->.
      rewrite (good_refl _ G) in E. discriminate.
    + split; [discriminate|]. intros H; injection H as -> ->.
      rewrite (good_refl _ G) in E. discriminate.
  - induction x as [|a x IH]; destruct y as [|b y]; cbn; auto.
    rewrite (gc_anti _ G a b). destruct (cmp a b); cbn; auto.
  - induction x as [|a x IH]; destruct y as [|b y]; destruct z as [|c z]; cbn; try congruence.
    destruct (cmp a b) eqn:E1; try discriminate.
    + apply (gc_eq _ G) in E1. subst b. destruct (cmp a c) eqn:E2; try congruence. apply IH.
    + intros _. destruct (cmp b c) eqn:E2; try discriminate.
      * apply (gc_eq _ G) in E2. subst c. rewrite E1. reflexivity.
      * rewrite (gc_trans _ G a b c E1 E2). reflexivity.
Qed.

Lemma good_pair {A B} (ca : A -> A -> comparison) (cb : B -> B -> comparison) :
  good_cmp ca -> good_cmp cb -> good_cmp (cmp_pair ca cb).
Proof.
  intros GA GB. split.
  - intros [a b] [a' b']; unfold cmp_pair; cbn.
    destruct (ca a a') eqn:E.
    + apply (gc_eq _ GA) in E. subst a'. rewrite (gc_eq _ GB). split; congruence.
    + split; [discriminate|]. intros H; injection H as -> ->.
      rewrite (good_refl _ GA) in E. discriminate.
    + split; [discriminate|]. intros H; injection H as -> ->.
      rewrite (good_refl _ GA) in E. discriminate.
  - intros [a b] [a' b']; unfold cmp_pair; cbn.
    rewrite (gc_anti _ GA a a'). destruct (ca a a'); cbn; auto. apply (gc_anti _ GB).
  - intros [a b] [a' b'] [a'' b'']; unfold cmp_pair; cbn.
    destruct (ca a a') eqn:E1; try discriminate.
    + apply (gc_eq _ GA) in E1. subst a'. destruct (ca a a''); try congruence. apply (gc_trans _ GB).
    + intros _. destruct (ca a' a'') eqn:E2; try discriminate.
      * apply (gc_eq _ GA) in E2. subst a''. rewrite E1. reflexivity.
      * rewrite (gc_trans _ GA a a' a'' E1 E2). reflexivity.
Qed.

Lemma good_str : good_cmp str_cmp.
Proof. apply good_lex, good_N. Qed.

(* consequences used for the preorder properties *)
Section Order.
  Context {A} (cmp : A -> A -> comparison) (G : good_cmp cmp).
  Definition ltb x y := cmp_ltb (cmp x y).
  Definition leb x y := cmp_leb (cmp x y).
  Definition gtb x y := cmp_ltb (cmp y x).
  Definition geb x y := cmp_leb (cmp y x).
  Definition eqb x y := cmp_eqb (cmp x y).

  Lemma cmp_gt_lt x y : cmp x y = Gt <-> cmp y x = Lt.
  Proof. rewrite (gc_anti _ G x y). destruct (cmp x y); cbn; split; congruence. Qed.

  Lemma leb_total x y : leb x y = true \/ leb y x = true.
  Proof.
    unfold leb. rewrite (gc_anti _ G x y). destruct (cmp x y); cbn; auto.
  Qed.

  Lemma ltb_irrefl x : ltb x x = false.
  Proof. unfold ltb. rewrite (good_refl _ G). reflexivity. Qed.

  Lemma ltb_trans x y z : ltb x y = true -> ltb y z = true -> ltb x z = true.
  Proof.
    unfold ltb. destruct (cmp x y) eqn:E1; try discriminate.
    destruct (cmp y z) eqn:E2; try discriminate. intros _ _.
    rewrite (gc_trans _ G x y z E1 E2). reflexivity.
  Qed.

  Lemma leb_trans x y z : leb x y = true -> leb y z = true -> leb x z = true.
  Proof.
    unfold leb. destruct (cmp x y) eqn:E1; try discriminate; intros _.
    - apply (gc_eq _ G) in E1. subst y. auto.
    - destruct (cmp y z) eqn:E2; try discriminate; intros _.
      + apply (gc_eq _ G) in E2. subst z. rewrite E1. reflexivity.
      + rewrite (gc_trans _ G x y z E1 E2). reflexivity.
  Qed.

  Lemma leb_ltb x y : leb x y = negb (ltb y x).
  Proof. unfold leb, ltb. rewrite (gc_anti _ G x y). destruct (cmp x y); reflexivity. Qed.

  Lemma leb_iff x y : leb x y = true <-> ltb x y = true \/ x = y.
  Proof.
    unfold leb, ltb. destruct (cmp x y) eqn:E; cbn.
    - apply (gc_eq _ G) in E. tauto.
    - tauto.
    - split; [discriminate|]. intros [H|H]; [discriminate|]. subst y.
      rewrite (good_refl _ G) in E. discriminate.
  Qed.

  Lemma leb_antisym x y : leb x y = true -> leb y x = true -> x = y.
  Proof.
    unfold leb. rewrite (gc_anti _ G x y). destruct (cmp x y) eqn:E; cbn; try discriminate.
    intros _ _. apply (gc_eq _ G). exact E.
  Qed.

  Lemma eqb_iff x y : eqb x y = true <-> x = y.
  Proof. unfold eqb. rewrite <- (gc_eq _ G). destruct (cmp x y); cbn; split; congruence. Qed.
End Order.

Lemma list_eqb_iff {A} (eqb : A -> A -> bool) :
  (forall x y, eqb x y = true <-> x = y) -> forall a b, list_eqb eqb a b = true <-> a = b.
Proof.
  intros H. induction a as [|x a IH]; destruct b as [|y b]; cbn; try (split; congruence).
  rewrite andb_true_iff, H, IH. split; [intros [-> ->]; reflexivity | intros E; injection E; auto].
Qed.

Lemma str_eqb_iff a b : str_eqb a b = true <-> a = b.
Proof. apply list_eqb_iff. apply N.eqb_eq. Qed.
