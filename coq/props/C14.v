(* C14 — the PIL reader builds exactly the declared system (with the reader clauses of
   C15 and C16, which rest on the same model).
   Only property theorems: each is closed by `exact` and followed by Print Assumptions.

   `read_pil ct g ignore lines` is the model of objectio.read_pil on the parsed file
   (Model/Reader.v), a client of the singleton-registry machine with class table ct and
   the five configured class slots g; `g cd cs cc cm cr` are the slots after
   set_io_objects(D, S, C, M, R).  `RGood` is the session invariant (registry invariant +
   every object an instance of exactly one configured class with data of its kind): it
   holds in the empty session (C14_session_starts_good) and after every read
   (C14_reader_keeps_session_good).  `line_okb` is the shape of the token trees the grammar
   returns (Model/ReaderShape.v); `cfg_okb` says the five slots hold different classes of the
   table and no class of a later slot is a subclass of an earlier slot's class. *)
From Coq Require Import List NArith ZArith.
From DSD Require Import Base.Str Base.Errors Model.ComplexUtils Model.ReaderStr Model.Peg Model.Heap Model.Registry
  Model.Reader Model.ReaderShape Proofs.RegInv Proofs.ReaderBasic Proofs.ReaderStmt Proofs.ReaderHeap Proofs.ReaderInv
  Proofs.ReaderHoare Proofs.ReaderNoFault Proofs.ReaderThms Proofs.ReaderBuilds Proofs.ReaderExamples.
From DSD Require Import Base.Val Model.ReaderConsistent Model.DispatchReader Proofs.ReaderSysA Proofs.ReaderSysI
  Proofs.ReaderSysJ Proofs.ReaderSysK Proofs.ReaderSysL.
From DSD Require Model.Iupac.
From DSDGen Require Import ReaderConsts.
Import ListNotations.

(* ---- a line on its own = that line in a document ---- *)
(* for every decodable line, read_pil_line is the typed statement executed (every pure step -
   indexing, int(), float(), resolve_kernel_loops, read_reaction - done beforehand) *)
Theorem C14_read_pil_line_is_exec_of_decoded_statement : forall ct g line s,
  cfg_full g -> decode line = Ok s -> forall r, read_pil_line ct g line r = exec_stmt ct g line s r.
Proof. exact read_pil_line_decode. Qed.
Print Assumptions C14_read_pil_line_is_exec_of_decoded_statement.

(* the object read_pil_line returns is the object the user gets when reading the line alone and
   the object the document loop files: alive in both, same class / name / canonical form / data *)
Theorem C14_line_eq_document_line : forall ct cd cs cc cm cr,
  cfg_okb ct cd cs cc cm cr = true ->
  forall line r r1 i,
  line_okb (TList line) = true -> RGood ct cd cs cc cm cr r ->
  read_pil_line ct (g cd cs cc cm cr) line r = (r1, Ok (RObj i)) ->
  (exists r2, read_line_user ct (g cd cs cc cm cr) line r = (r2, Ok (RObj i)) /\
              is_live (heap (r_st r2)) i = true /\ same_obj r1 r2 i) /\
  (forall acc r3 acc', read_one ct (g cd cs cc cm cr) None (TList line) acc r = (r3, Ok acc') ->
              is_live (heap (r_st r3)) i = true /\ same_obj r1 r3 i).
Proof. exact line_eq_document_line. Qed.
Print Assumptions C14_line_eq_document_line.

(* ---- ignore ---- *)
(* statement kinds listed in `ignore` are skipped: the read is the read of the document
   without those statements (and without `ignore`), in every state, for every configuration *)
Theorem C14_ignore_skips : forall ct g ig lines r,
  read_pil ct g ig lines r = read_pil ct g None (filter (fun l => negb (line_ignored ig l)) lines) r.
Proof. exact ignore_skips_read_pil. Qed.
Print Assumptions C14_ignore_skips.

Theorem C14_ignored_kind_listed : forall ig tag rest,
  existsb (str_eqb tag) ig = true -> line_ignored (Some ig) (TList (TStr tag :: rest)) = true.
Proof. exact line_ignored_tag. Qed.
Print Assumptions C14_ignored_kind_listed.

Theorem C14_ignored_kind_not_listed : forall ig tag rest,
  existsb (str_eqb tag) ig = false -> line_ignored (Some ig) (TList (TStr tag :: rest)) = false.
Proof. exact line_ignored_other. Qed.
Print Assumptions C14_ignored_kind_not_listed.

(* ---- C16: no interpreter-level fault ---- *)
Theorem C14_session_starts_good : forall ct cd cs cc cm cr n, RGood ct cd cs cc cm cr (rinit (init ct n)).
Proof. exact rgood_init. Qed.
Print Assumptions C14_session_starts_good.

Theorem C14_reader_keeps_session_good : forall ct cd cs cc cm cr,
  cfg_okb ct cd cs cc cm cr = true ->
  forall ig lines r, forallb line_okb lines = true -> RGood ct cd cs cc cm cr r ->
  RGood ct cd cs cc cm cr (fst (read_pil ct (g cd cs cc cm cr) ig lines r)).
Proof. exact reader_keeps_good. Qed.
Print Assumptions C14_reader_keeps_session_good.

(* read_pil of any list of well-shaped lines, in any good session, with any usable class
   configuration: a dictionary, or an exception whose kind is none of NameError, TypeError,
   AttributeError, IndexError, KeyError, UnboundLocalError, ValueError, ZeroDivisionError,
   OverflowError *)
Theorem C14_reader_no_fault : forall ct cd cs cc cm cr,
  cfg_okb ct cd cs cc cm cr = true ->
  forall ig lines r, forallb line_okb lines = true -> RGood ct cd cs cc cm cr r ->
  forall r' k, read_pil ct (g cd cs cc cm cr) ig lines r = (r', Err k) -> is_fault k = false.
Proof. exact reader_no_fault. Qed.
Print Assumptions C14_reader_no_fault.

Theorem C14_reader_no_fault_base_classes : forall ig lines,
  forallb line_okb lines = true ->
  forall r' k, read_pil base_ctable base_g ig lines (rinit (init base_ctable 0)) = (r', Err k) -> is_fault k = false.
Proof. exact reader_no_fault_base. Qed.
Print Assumptions C14_reader_no_fault_base_classes.

Theorem C14_base_configuration_usable : cfg_of base_slots = Some base_g /\ cfg_okb base_ctable 0 2 1 3 4 = true.
Proof. exact base_cfg_usable. Qed.
Print Assumptions C14_base_configuration_usable.

(* ---- C16: ignored reactions do not abort ---- *)
Theorem C14_ignored_reaction_decodes_to_other : forall line ri,
  tnth line 0 = Ok (TStr tReaction) -> read_reaction line = Ok ri -> reaction_ignored ri = true ->
  decode line = Ok SOther.
Proof. exact ignored_reactions_survive. Qed.
Print Assumptions C14_ignored_reaction_decodes_to_other.

Theorem C14_ignored_line_survives : forall ct cd cs cc cm cr line acc r,
  decode line = Ok SOther ->
  read_one ct (g cd cs cc cm cr) None (TList line) acc r =
    (with_st r (collect (r_st r)),
     Ok (mkOut (po_domains acc) (po_strands acc) (po_complexes acc) (po_macrostates acc)
               (po_det acc) (po_con acc) (po_other acc ++ [line]))).
Proof. exact ignored_line_survives. Qed.
Print Assumptions C14_ignored_line_survives.

(* ---- C16: a failed read leaves previously held objects valid ---- *)
Theorem C14_failed_read_keeps_held : forall ct cd cs cc cm cr,
  cfg_okb ct cd cs cc cm cr = true ->
  forall ig lines r r' k, forallb line_okb lines = true -> RGood ct cd cs cc cm cr r ->
  read_pil ct (g cd cs cc cm cr) ig lines r = (r', Err k) ->
  roots (r_st r') = roots (r_st r) /\
  forall s i, nth_error (roots (r_st r)) s = Some (Some i) ->
    exists o o', hget (heap (r_st r)) i = Some o /\ hget (heap (r_st r')) i = Some o' /\ okill o o' /\
                 o_live o' = true /\ Registered (r_st r') i o'.
Proof. exact failed_read_keeps_held. Qed.
Print Assumptions C14_failed_read_keeps_held.

(* ---- C15: configured classes ---- *)
Theorem C14_reader_classes : forall ct cd cs cc cm cr,
  cfg_okb ct cd cs cc cm cr = true ->
  forall ig lines r, forallb line_okb lines = true -> RGood ct cd cs cc cm cr r ->
  let st' := r_st (fst (read_pil ct (g cd cs cc cm cr) ig lines r)) in
  (forall i o, hget (heap st') i = Some o -> cls_kind_ok cd cs cc cm cr o) /\
  (forall c n i, c < length ct -> In (n, i) (cs_names (cget st' c)) -> cls_at (heap st') i = Some c) /\
  (forall c k i, c < length ct -> In (k, i) (cs_canon (cget st' c)) -> cls_at (heap st') i = Some c).
Proof. exact reader_classes. Qed.
Print Assumptions C14_reader_classes.

(* outside such sessions the clause fails: with a strand built from a domain of a user subclass
   already held, reading `X = s*` creates a* in that subclass (object 2, class 5 of the table,
   not a configured slot) *)
Theorem C14_reader_classes_refuted_in_mixed_sessions : created_outside_slots = [(2, 5, [97; 42]%N)].
Proof. exact reader_classes_refuted. Qed.
Print Assumptions C14_reader_classes_refuted_in_mixed_sessions.

(* ---- the complement of a sequenced domain ---- *)
Theorem C14_complement_sequence : forall ct g i d acc r r1 comp sq,
  gD g = Some d -> isinst ct (r_st r) i d = true ->
  invert ct i r = (r1, Ok comp) ->
  attr_get i (r_seq r1) = Some sq -> attr_get comp (r_seq r1) = None ->
  match Iupac.reverse_wc_complement false sq with
  | Ok s' =>
      exists acc', file_obj ct g (RObj i) acc r =
                   (mkR (r_st r1) (attr_set comp s' (r_seq r1)) (r_conc r1) (r_rate r1), Ok (acc', [i; comp]))
  | Err _ => file_obj ct g (RObj i) acc r = (r1, Err ePilFormat)
  end.
Proof. exact complement_sequence. Qed.
Print Assumptions C14_complement_sequence.

(* ---- the reader builds the declared domains ---- *)
(* one `length` / `sequence` statement, read in any good session (hence at any position of a
   document): the dictionary gets the entries name -> i and complement name -> j; i has exactly
   the declared name, length and the configured class, j the complementary name and the same
   length; both stay alive; the sequence attributes after the line are those before plus the
   declared sequence on i and, when j had none, its reverse Watson-Crick complement on j *)
Theorem C14_reader_builds_domain_line : forall ct cd cs cc cm cr,
  cfg_okb ct cd cs cc cm cr = true ->
  forall line s nm l sq acc r r' acc',
  decode line = Ok s -> dom_stmt s = Some (nm, l, sq) -> stmt_ok s -> RGood ct cd cs cc cm cr r ->
  read_one ct (g cd cs cc cm cr) None (TList line) acc r = (r', Ok acc') ->
  exists i j,
    acc' = with_domains acc (dset (cname_of nm) j (dset nm i (po_domains acc))) /\
    IsDom cd (heap (r_st r')) i nm (Some l) /\ IsDom cd (heap (r_st r')) j (cname_of nm) (Some l) /\
    is_live (heap (r_st r')) i = true /\ is_live (heap (r_st r')) j = true /\
    r_seq r' = seq_after i j (seq_decl i sq (r_seq r)) /\
    (forall x, attr_get i (seq_decl i sq (r_seq r)) = Some x -> attr_get j (seq_decl i sq (r_seq r)) = None ->
               exists y, Iupac.reverse_wc_complement false x = Ok y) /\
    r_conc r' = r_conc r /\ r_rate r' = r_rate r /\ RGood ct cd cs cc cm cr r' /\ RExt r r'.
Proof. exact reader_builds_domain_line. Qed.
Print Assumptions C14_reader_builds_domain_line.

(* ANY document: every statement well-shaped (doc_line: it decodes and satisfies stmt_ok), the
   domain declarations among them with pairwise different names (none the complement of
   another), statements of the other kinds anywhere in between, in any order, read in a session
   without sequence attributes.  If read_pil returns a dictionary, its `domains` field has
   exactly the declared names and their complements as keys, and every declared domain /
   complement has exactly the declared length, sequence (complement: reverse Watson-Crick
   complement), name and class: statements of other kinds never touch the field or the
   sequence attributes (frame) *)
Theorem C14_reader_builds_domains : forall ct cd cs cc cm cr,
  cfg_okb ct cd cs cc cm cr = true ->
  forall lines ods r r' o,
  Forall2 doc_line lines ods -> NoDup (flat_map d_names (decls_of ods)) ->
  RGood ct cd cs cc cm cr r -> r_seq r = [] ->
  read_lines ct (g cd cs cc cm cr) None lines empty_out r = (r', Ok o) ->
  map fst (po_domains o) = flat_map d_names (decls_of ods) /\
  Forall (entry_ok cd r' (po_domains o)) (decls_of ods).
Proof. exact reader_builds_domains_doc. Qed.
Print Assumptions C14_reader_builds_domains.

Theorem C14_other_statements_leave_domains_alone : forall ct cd cs cc cm cr,
  cfg_okb ct cd cs cc cm cr = true ->
  forall line s acc r r' acc',
  decode line = Ok s -> dom_stmt s = None -> stmt_ok s -> RGood ct cd cs cc cm cr r ->
  read_one ct (g cd cs cc cm cr) None (TList line) acc r = (r', Ok acc') ->
  po_domains acc' = po_domains acc /\ r_seq r' = r_seq r /\ RGood ct cd cs cc cm cr r' /\ RExt r r'.
Proof. exact nondom_frame. Qed.
Print Assumptions C14_other_statements_leave_domains_alone.

(* ---- the reader builds the declared strands ---- *)
(* one `strand` / `sup-sequence` statement, read in any good session: the dictionary gets
   name -> i; i is a live instance of exactly the configured strand class with that name whose
   sequence has exactly the listed domain names, and every element is the domain object that
   is the registered singleton of its name in the configured domain class (the identical
   object `Domain(name)` returns); no attribute of any other object changes *)
Theorem C14_reader_builds_strand_line : forall ct cd cs cc cm cr,
  cfg_okb ct cd cs cc cm cr = true ->
  forall line nm ds acc r r' acc',
  decode line = Ok (SComp nm ds) -> Forall nm_ok ds -> nonempty nm = true -> RGood ct cd cs cc cm cr r ->
  read_one ct (g cd cs cc cm cr) None (TList line) acc r = (r', Ok acc') ->
  exists i ob es,
    acc' = with_strands acc (dset nm i (po_strands acc)) /\
    hget (heap (r_st r')) i = Some ob /\ o_live ob = true /\ o_cls ob = cs /\ o_name ob = nm /\
    o_data ob = DStrand es /\ map fst es = ds /\
    Forall (ElemIs cd (r_st r')) es /\
    r_seq r' = r_seq r /\ r_conc r' = r_conc r /\ r_rate r' = r_rate r /\ RGood ct cd cs cc cm cr r' /\ RExt r r'.
Proof. exact reader_builds_strand_line. Qed.
Print Assumptions C14_reader_builds_strand_line.

(* ---- reactions: type, filing, rate constant and units ---- *)
(* one reaction statement with a rate and a known type (decode gives SRxn), read in any good
   session: the reaction object is a live instance of exactly the configured reaction class whose
   type is the declared one; it is added to con_reactions when the declared type is `condensed`
   and to det_reactions otherwise (the other set is untouched); its rate constant is float() of
   the declared number and its units the declared units; nothing else is assigned *)
Theorem C14_reader_builds_reaction_line : forall ct cd cs cc cm cr,
  cfg_okb ct cd cs cc cm cr = true ->
  forall line ri k acc r r' acc',
  decode line = Ok (SRxn ri) -> ri_rate ri = Some k -> RGood ct cd cs cc cm cr r ->
  read_one ct (g cd cs cc cm cr) None (TList line) acc r = (r', Ok acc') ->
  exists i ob a c st1,
    hget (heap (r_st r')) i = Some ob /\ o_live ob = true /\ o_cls ob = cr /\ o_data ob = DRxn a c (ri_type ri) /\
    acc' = (if is_s (ri_type ri) sCondensed
            then with_rxns acc (po_det acc) (set_add st1 i (po_con acc))
            else with_rxns acc (set_add st1 i (po_det acc)) (po_con acc)) /\
    r_rate r' = (i, (k, ri_units ri)) :: r_rate r /\ r_seq r' = r_seq r /\ r_conc r' = r_conc r /\
    RGood ct cd cs cc cm cr r' /\ RExt r r'.
Proof. exact reader_builds_reaction_line. Qed.
Print Assumptions C14_reader_builds_reaction_line.

(* ---- kernel-notation complexes: name, class, concentration triple ---- *)
(* one kernel-notation statement, read in any good session: the complex filed under its name is a
   live instance of exactly the configured complex class with that name; with `@mode value unit`
   its concentration is exactly (mode, float(value), unit), without it is not assigned *)
Theorem C14_reader_builds_kernel_name_and_concentration : forall ct cd cs cc cm cr,
  cfg_okb ct cd cs cc cm cr = true ->
  forall line nm names sst cc0 acc r r' acc',
  decode line = Ok (SKer nm names sst cc0) -> Forall kname_ok names -> nonempty nm = true -> RGood ct cd cs cc cm cr r ->
  read_one ct (g cd cs cc cm cr) None (TList line) acc r = (r', Ok acc') ->
  exists i ob,
    hget (heap (r_st r')) i = Some ob /\ o_live ob = true /\ o_cls ob = cc /\ o_name ob = nm /\
    acc' = with_complexes acc (dset nm i (po_complexes acc)) /\
    r_conc r' = match cc0 with Some x => (i, x) :: r_conc r | None => r_conc r end /\
    r_seq r' = r_seq r /\ r_rate r' = r_rate r /\ RGood ct cd cs cc cm cr r' /\ RExt r r'.
Proof. exact reader_builds_kernel_conc. Qed.
Print Assumptions C14_reader_builds_kernel_name_and_concentration.

(* ---- kernel-notation complexes: sequence and structure ---- *)
From DSD Require Import Model.Kernel Proofs.ReaderKernel.

(* one kernel statement whose complex name is not yet taken (`names` / `sst` = what
   resolve_kernel_loops gives for the pattern), read in any good session.  The complex filed under
   the name is new; its sequence and structure are the expansion `out` of (names, sst): `+` stays,
   a domain name becomes the domain singleton of that name, a composite-domain (strand) name
   becomes the strand's elements, the complement of a composite-domain name becomes the
   complements of the elements in reverse order, and the structure character of a name is repeated
   for every element it expands to (ExpnH / CellForH).  Up to the state ra in which the names were
   resolved only domain objects were created, afterwards only this complex. *)
Theorem C14_reader_builds_kernel_complex : forall ct cd cs cc cm cr,
  cfg_okb ct cd cs cc cm cr = true ->
  forall line nm names sst cc0 acc r r' acc',
  decode line = Ok (SKer nm names sst cc0) -> Forall kname_ok names -> length names = length sst ->
  nonempty nm = true -> RGood ct cd cs cc cm cr r ->
  nlookup nm (cs_names (cget (r_st r) cc)) = None ->
  read_one ct (g cd cs cc cm cr) None (TList line) acc r = (r', Ok acc') ->
  exists i ob out t ra,
    hget (heap (r_st r')) i = Some ob /\ o_live ob = true /\ o_cls ob = cc /\ o_name ob = nm /\
    acc' = with_complexes acc (dset nm i (po_complexes acc)) /\
    ExpnH cd cs (heap (r_st r')) (combine names sst) out /\
    o_data ob = DCplx (map (cell_elem (r_st r')) (map fst out)) (map snd out) t /\
    RGood ct cd cs cc cm cr ra /\ Expn cd cs ra (combine names sst) out /\
    HExt dom_data (heap (r_st r)) (heap (r_st ra)) /\ HExt cplx_data (heap (r_st ra)) (heap (r_st r')) /\
    RGood ct cd cs cc cm cr r' /\ RExt r r'.
Proof. exact reader_builds_kernel_complex. Qed.
Print Assumptions C14_reader_builds_kernel_complex.

(* over declared domains only (no strand carries one of the names or its complement): exactly the
   sequence and the structure that resolve_kernel_loops gives for the pattern *)
Theorem C14_reader_builds_kernel_complex_plain : forall ct cd cs cc cm cr,
  cfg_okb ct cd cs cc cm cr = true ->
  forall line nm names sst cc0 acc r r' acc',
  decode line = Ok (SKer nm names sst cc0) -> Forall kname_ok names -> length names = length sst ->
  nonempty nm = true -> RGood ct cd cs cc cm cr r ->
  nlookup nm (cs_names (cget (r_st r) cc)) = None -> Forall (no_strand cs r) names ->
  read_one ct (g cd cs cc cm cr) None (TList line) acc r = (r', Ok acc') ->
  exists i ob es t,
    hget (heap (r_st r')) i = Some ob /\ o_live ob = true /\ o_cls ob = cc /\ o_name ob = nm /\
    acc' = with_complexes acc (dset nm i (po_complexes acc)) /\
    o_data ob = DCplx es sst t /\ Forall2 (PlainElem cd (heap (r_st r'))) names es /\ map fst es = names /\
    RGood ct cd cs cc cm cr r' /\ RExt r r'.
Proof. exact reader_builds_kernel_complex_plain. Qed.
Print Assumptions C14_reader_builds_kernel_complex_plain.

(* with C12: the line `name = kernel_string(t)` of a kernel tree t files a complex whose sequence
   and structure are the flattening of t *)
Theorem C14_reader_builds_kernel_tree : forall ct cd cs cc cm cr,
  cfg_okb ct cd cs cc cm cr = true ->
  forall nm t acc r r' acc',
  names_ok t = true -> Forall kname_ok (fst (flatten t)) -> nonempty nm = true ->
  RGood ct cd cs cc cm cr r ->
  nlookup nm (cs_names (cget (r_st r) cc)) = None -> Forall (no_strand cs r) (fst (flatten t)) ->
  read_one ct (g cd cs cc cm cr) None (TList (kernel_line nm t)) acc r = (r', Ok acc') ->
  exists i ob es tu,
    hget (heap (r_st r')) i = Some ob /\ o_live ob = true /\ o_cls ob = cc /\ o_name ob = nm /\
    acc' = with_complexes acc (dset nm i (po_complexes acc)) /\
    o_data ob = DCplx es (snd (flatten t)) tu /\ map fst es = fst (flatten t) /\
    Forall2 (PlainElem cd (heap (r_st r'))) (fst (flatten t)) es /\
    RGood ct cd cs cc cm cr r' /\ RExt r r'.
Proof. exact reader_builds_kernel_tree. Qed.
Print Assumptions C14_reader_builds_kernel_tree.

(* ---- strand-notation complexes, macrostate members, reaction members ---- *)
From Coq Require Import Permutation.
From DSD Require Import Proofs.ReaderMore.

(* `structure X = s1 + s2 : ..` and `complex X = / s1 s2 / ..` (one typed statement SSC): under a free
   complex name the filed complex is new; its sequence is the concatenation of the sequences of the
   strands registered under the listed names joined by `+`, its structure the dot-bracket string
   without blanks *)
Theorem C14_reader_builds_strand_complex : forall ct cd cs cc cm cr,
  cfg_okb ct cd cs cc cm cr = true ->
  forall line nm ss sst acc r r' acc',
  decode line = Ok (SSC nm ss sst) -> Forall (fun s => nonempty s = true) ss -> nonempty nm = true ->
  RGood ct cd cs cc cm cr r ->
  nlookup nm (cs_names (cget (r_st r) cc)) = None ->
  read_one ct (g cd cs cc cm cr) None (TList line) acc r = (r', Ok acc') ->
  exists i ob stab sq t,
    hget (heap (r_st r')) i = Some ob /\ o_live ob = true /\ o_cls ob = cc /\ o_name ob = nm /\
    acc' = with_complexes acc (dset nm i (po_complexes acc)) /\
    Forall2 (fun s es => SeqH cs (heap (r_st r')) s es) ss stab /\
    strand_table_to_sequence (sPlus, @None nat) stab = Ok sq /\
    o_data ob = DCplx sq (filter (fun c => negb (N.eqb c 32%N)) sst) t /\
    RGood ct cd cs cc cm cr r' /\ RExt r r'.
Proof. exact reader_builds_strand_complex. Qed.
Print Assumptions C14_reader_builds_strand_complex.

(* macrostates: under a free name the filed macrostate is new; its members are, in the listed order, the
   live registered complex singletons of the listed names; the representative carries the name *)
Theorem C14_reader_builds_macrostate : forall ct cd cs cc cm cr,
  cfg_okb ct cd cs cc cm cr = true ->
  forall line nm xs acc r r' acc',
  decode line = Ok (SMac nm xs) -> Forall (fun x => nonempty x = true) xs -> nonempty nm = true ->
  RGood ct cd cs cc cm cr r ->
  nlookup nm (cs_names (cget (r_st r) cm)) = None ->
  read_one ct (g cd cs cc cm cr) None (TList line) acc r = (r', Ok acc') ->
  exists i ob ids rep,
    hget (heap (r_st r')) i = Some ob /\ o_live ob = true /\ o_cls ob = cm /\ o_name ob = nm /\
    acc' = with_macros acc (dset nm i (po_macrostates acc)) /\
    o_data ob = DMac ids rep /\ Forall2 (MemberIs cc (r_st r')) xs ids /\
    In rep ids /\ obj_name (heap (r_st r')) rep = nm /\
    RGood ct cd cs cc cm cr r' /\ RExt r r'.
Proof. exact reader_builds_macrostate. Qed.
Print Assumptions C14_reader_builds_macrostate.

(* reactions: the reaction object is the one whose rate constant the statement sets; when it did not
   exist before the statement its reactants / products are permutations (the sort by canonical form)
   of the live registered singletons of the listed names - macrostates for `condensed`, complexes
   otherwise *)
Theorem C14_reader_builds_reaction_members : forall ct cd cs cc cm cr,
  cfg_okb ct cd cs cc cm cr = true ->
  forall line ri k acc r r' acc',
  decode line = Ok (SRxn ri) -> ri_rate ri = Some k ->
  Forall (fun x => nonempty x = true) (ri_reactants ri ++ ri_products ri) -> RGood ct cd cs cc cm cr r ->
  read_one ct (g cd cs cc cm cr) None (TList line) acc r = (r', Ok acc') ->
  exists i ob,
    hget (heap (r_st r')) i = Some ob /\ o_live ob = true /\ o_cls ob = cr /\
    r_rate r' = (i, (k, ri_units ri)) :: r_rate r /\
    (length (heap (r_st r)) <= i ->
     exists a c re pr,
       o_data ob = DRxn a c (ri_type ri) /\ Permutation a re /\ Permutation c pr /\
       Forall2 (MemberIs (member_cls cc cm ri) (r_st r')) (ri_reactants ri) re /\
       Forall2 (MemberIs (member_cls cc cm ri) (r_st r')) (ri_products ri) pr).
Proof. exact reader_builds_reaction_members. Qed.
Print Assumptions C14_reader_builds_reaction_members.

(* ---- the assembled statement: consistent systems ----
   `adm prev s` (Proofs/ReaderSysJ.v): the statement s may follow the statements prev - its name is new
   (domains: unstarred, non-empty, length >= 0, a valid nucleotide sequence if one is given), everything it
   uses is declared in prev (strands: domains x or x* of declared x; kernel complexes: such domains, declared
   strands or their complement names; complexes in strand notation: declared strands; macrostates:
   declared complexes, one of which carries the name; reactions: macrostates if `condensed`, complexes
   otherwise, at least one reactant), and the object it denotes differs from the earlier ones of its kind
   (strands: another domain sequence; complexes: no rotation in common, rot_disjoint; macrostates: another
   sorted list of canonical forms, mac_sig; reactions: another canonical form and another name, rxn_sig).
   `Consistent ss`: every statement is admissible after the ones before it.  `consistentb` is the same as a
   computation (Model/ReaderConsistent.v); the op "reader_consistent" evaluates it on every generated
   system of the correspondence run.
   `Built r out s` (Proofs/ReaderSysA.v): the exact objects statement s has built in the heap of r, filed
   in `out` under its name - domains: x and x* with the declared length (and sequence / reverse
   complement); strands: the listed domain objects; complexes: the elements, the structure, every rotation
   as a key, the smallest as canonical form, the concentration; macrostates: the listed complexes, the
   sorted canonical forms; reactions: members sorted by canonical form, type, rate constant and units.
   `Reads lines ss r out`: every statement is Built, every key of the result belongs to a statement, every
   filed reaction belongs to a reaction statement, and `other` is the list of the remaining lines.
   The (sequence, structure) a complex statement denotes is computed from the statements before it
   (Model/ReaderConsistent.v): expand_ker for kernel strings - a name is '+', a declared domain, the domains of
   a declared strand (composite domain) or the reversed complements of the domains of the strand whose
   complement name it is, each with the structure character of its position; ssc_names for strand notation -
   the domain names of the named strands joined by '+'.  rd_cplx: the complex filed under the name has exactly
   that sequence (as domain objects / '+') and structure, every rotation as a key and the smallest as
   canonical form. *)
Theorem C14_consistent_system_never_refused : forall ct cd cs cc cm cr,
  cfg_okb ct cd cs cc cm cr = true ->
  (forall c, In c [cd; cs; cc; cm; cr] -> exists ci, nth_error ct c = Some ci /\ c_fail ci = FNone) ->
  forall lines ss,
  Forall2 (fun l s => decode l = Ok s) lines ss -> Consistent ss ->
  exists r out, read_pil ct (g cd cs cc cm cr) None (map TList lines) (rinit (init ct 0)) = (r, Ok out) /\
                Reads cd cs cc cm cr lines ss r out.
Proof. exact consistent_system_never_refused. Qed.
Print Assumptions C14_consistent_system_never_refused.

(* one statement: read in a session that satisfies the invariant of a consistent prefix, an admissible
   statement is read without error and the invariant holds for the longer prefix *)
Theorem C14_admissible_statement_is_read : forall ct cd cs cc cm cr,
  cfg_okb ct cd cs cc cm cr = true ->
  (forall c, In c [cd; cs; cc; cm; cr] -> exists ci, nth_error ct c = Some ci /\ c_fail ci = FNone) ->
  forall prev r acc line s,
  SInv cd cs cc cm cr ct prev r acc -> decode line = Ok s -> adm prev s ->
  exists r' acc', read_one ct (g cd cs cc cm cr) None (TList line) acc r = (r', Ok acc') /\
    SInv cd cs cc cm cr ct (prev ++ [s]) r' acc' /\
    po_other acc' = po_other acc ++ match s with SOther => [line] | _ => [] end.
Proof. exact step_stmt. Qed.
Print Assumptions C14_admissible_statement_is_read.

Theorem C14_consistentb_sound : forall ss, consistentb ss = true -> Consistent ss.
Proof. exact consistentb_sound. Qed.
Print Assumptions C14_consistentb_sound.

(* the assembled reader_builds: the statements of the parsed document computed by decode_all, their
   consistency computed by consistentb *)
Theorem C14_reader_builds : forall ct cd cs cc cm cr,
  cfg_okb ct cd cs cc cm cr = true ->
  (forall c, In c [cd; cs; cc; cm; cr] -> exists ci, nth_error ct c = Some ci /\ c_fail ci = FNone) ->
  forall lines ls ss,
  decode_all lines = Some (ls, ss) -> consistentb ss = true ->
  exists r out, read_pil ct (g cd cs cc cm cr) None lines (rinit (init ct 0)) = (r, Ok out) /\
                Reads cd cs cc cm cr ls ss r out.
Proof. exact reader_builds. Qed.
Print Assumptions C14_reader_builds.

(* frame: each dictionary of the result holds exactly the declared names of its kind (a domain declares its name and the complement name) *)
Theorem C14_result_keys_are_the_declared_names : forall cd cs cc cm cr ls ss r out k n,
  Reads cd cs cc cm cr ls ss r out -> k <> KindR ->
  (In n (map fst (dict_of k out)) <-> In n (declared k ss)).
Proof. exact reads_keys_exact. Qed.
Print Assumptions C14_result_keys_are_the_declared_names.

(* any declaration-respecting order: if the system `sys` is written in the consistent order ss, every
   statement of sys has built its objects and the keys of the result are the names sys declares *)
Theorem C14_reader_builds_any_order : forall ct cd cs cc cm cr,
  cfg_okb ct cd cs cc cm cr = true ->
  (forall c, In c [cd; cs; cc; cm; cr] -> exists ci, nth_error ct c = Some ci /\ c_fail ci = FNone) ->
  forall lines ls ss sys,
  Permutation sys ss -> decode_all lines = Some (ls, ss) -> consistentb ss = true ->
  exists r out, read_pil ct (g cd cs cc cm cr) None lines (rinit (init ct 0)) = (r, Ok out) /\
    (forall s, In s sys -> Built cd cs cc cm cr r out s) /\
    (forall k n, k <> KindR -> (In n (map fst (dict_of k out)) <-> exists s, In s sys /\ In n (declared k [s]))).
Proof. exact reader_builds_any_order. Qed.
Print Assumptions C14_reader_builds_any_order.

(* with the library's own classes in the slots *)
Theorem C14_reader_builds_base : forall lines ls ss,
  decode_all lines = Some (ls, ss) -> consistentb ss = true ->
  exists r out, read_pil base_ctable base_g None lines (rinit (init base_ctable 0)) = (r, Ok out) /\
    Reads 0 2 1 3 4 ls ss r out.
Proof. exact reader_builds_base. Qed.
Print Assumptions C14_reader_builds_base.

(* what the op "reader_consistent" answers on the generated systems is the hypothesis of the theorem *)
Theorem C14_reader_consistent_accepts : forall text,
  reader_consistent text = VBool true ->
  exists lines r out, parse_lines text = Ok lines /\
    read_pil base_ctable base_g None lines (rinit (init base_ctable 0)) = (r, Ok out).
Proof. exact reader_consistent_accepts. Qed.
Print Assumptions C14_reader_consistent_accepts.

(* not vacuous: a document with every kind of statement is consistent *)
Theorem C14_example_system_is_consistent : reader_consistent ex_sys = VBool true.
Proof. exact ex_sys_consistent. Qed.
Print Assumptions C14_example_system_is_consistent.

(* ================= ignore at document level; sessions that already hold objects (ReaderSysN/P/Q/R/T/U/V) ================= *)
From Coq Require Import List NArith ZArith.
From DSD Require Import Base.Str Base.Errors Base.Val Model.ComplexUtils Model.ReaderStr Model.Peg Model.Heap Model.Registry
  Model.Reader Model.ReaderShape Model.ReaderConsistent Model.DispatchReader Proofs.ReaderInv Proofs.ReaderThms
  Proofs.ReaderSysA Proofs.ReaderSysJ Proofs.ReaderSysL Proofs.ReaderSysN Proofs.ReaderSysT Proofs.ReaderSysU.
From DSDGen Require Import ReaderConsts.
Import ListNotations.

(* ---- ignore, at the level of the document ---- *)
(* keep_lines ig lines (Model/ReaderConsistent.v): the lines that `ignore and line[0] in ignore` leaves.
   read_pil(text, ignore = ig) is read_pil of those lines - in every session, errors included *)
Theorem C14_read_pil_ignore_is_read_pil_of_kept_lines : forall ct g ig lines kept r,
  keep_lines ig lines = Some kept -> read_pil ct g ig lines r = read_pil ct g None kept r.
Proof. exact read_pil_ignore. Qed.
Print Assumptions C14_read_pil_ignore_is_read_pil_of_kept_lines.

(* the assembled statement with ignore: side condition = the remaining statements form a consistent system *)
Theorem C14_reader_builds_ignore : forall ct cd cs cc cm cr,
  cfg_okb ct cd cs cc cm cr = true ->
  (forall c, In c [cd; cs; cc; cm; cr] -> exists ci, nth_error ct c = Some ci /\ c_fail ci = FNone) ->
  forall ig lines kept ls ss,
  keep_lines ig lines = Some kept -> decode_all kept = Some (ls, ss) -> consistentb ss = true ->
  exists r out, read_pil ct (g cd cs cc cm cr) ig lines (rinit (init ct 0)) = (r, Ok out) /\
                read_pil ct (g cd cs cc cm cr) None kept (rinit (init ct 0)) = (r, Ok out) /\
                Reads cd cs cc cm cr ls ss r out.
Proof. exact reader_builds_ignore. Qed.
Print Assumptions C14_reader_builds_ignore.

Theorem C14_reader_kept_consistent_accepts : forall text ig,
  reader_kept_consistent text ig = VBool true ->
  exists lines r out, parse_lines text = Ok lines /\
    read_pil base_ctable base_g ig lines (rinit (init base_ctable 0)) = (r, Ok out).
Proof. exact reader_kept_consistent_accepts. Qed.
Print Assumptions C14_reader_kept_consistent_accepts.

(* not vacuous: the example system read with ignore = [reaction, resting-macrostate] *)
Theorem C14_example_ignore : ex_ignored_ok = true /\ reader_kept_consistent ex_sys (Some ex_ignore) = VBool true.
Proof. exact ex_ignore_consistent. Qed.
Print Assumptions C14_example_ignore.

(* ---- sessions that already hold objects ----
   SInv world r accU (Proofs/ReaderSysA.v): the session r is described by the statements `world` - every live
   object is the exact object of a statement, filed in the dictionary accU of everything the session knows;
   it holds in the empty session and after every read of this theorem (C14_fresh_read_leaves_a_described_session).
   session_from world ss (Model/ReaderConsistent.v) = Some world': every statement of the document is returned as
   it is, re-declares something of the session with the same description (foundb; a kernel statement may set another
   concentration: refound replaces it in the description) or is new and admissible (admb).
   Later0: the heap is only extended and every name keeps its object; Sub out accU': the result files objects of
   the session; KeysOK ss out: under exactly the names the document declares. *)
Theorem C14_reader_builds_session : forall ct cd cs cc cm cr,
  cfg_okb ct cd cs cc cm cr = true ->
  (forall c, In c [cd; cs; cc; cm; cr] -> exists ci, nth_error ct c = Some ci /\ c_fail ci = FNone) ->
  forall world r accU lines ls ss world',
  SInv cd cs cc cm cr ct world r accU -> decode_all lines = Some (ls, ss) -> session_from world ss = Some world' ->
  exists r' out accU', read_pil ct (g cd cs cc cm cr) None lines r = (r', Ok out) /\
    SInv cd cs cc cm cr ct world' r' accU' /\ Later0 r accU r' accU' /\ Sub out accU' /\ KeysOK ss out /\
    po_other out = other_lines ls ss.
Proof. exact reader_builds_session. Qed.
Print Assumptions C14_reader_builds_session.

(* a declared name that the session knows maps to the object the session holds: identical, not a copy *)
Theorem C14_session_same_object : forall r accU r' accU' out ss k n i,
  Later0 r accU r' accU' -> Sub out accU' -> KeysOK ss out -> k <> KindR ->
  In n (declared k ss) -> dlookup n (dict_of k accU) = Some i -> dlookup n (dict_of k out) = Some i.
Proof. exact session_same_object. Qed.
Print Assumptions C14_session_same_object.

(* the concentration of a complex is the one of its kernel statement in the description of the session: after a
   re-declaration with another triple, the newly declared one *)
Theorem C14_session_concentration : forall ct cd cs cc cm cr world' r' accU' n names sst c,
  SInv cd cs cc cm cr ct world' r' accU' -> In (SKer n names sst (Some c)) world' ->
  exists i, dlookup n (po_complexes accU') = Some i /\ attr_get i (r_conc r') = Some c.
Proof. exact session_concentration. Qed.
Print Assumptions C14_session_concentration.

(* one re-declaring kernel statement: read, the complex is the held one and carries the declared triple *)
Theorem C14_redeclared_concentration_is_set : forall ct cd cs cc cm cr,
  cfg_okb ct cd cs cc cm cr = true ->
  (forall c, In c [cd; cs; cc; cm; cr] -> exists ci, nth_error ct c = Some ci /\ c_fail ci = FNone) ->
  forall world r accU line s w,
  SInv cd cs cc cm cr ct world r accU -> decode line = Ok s -> refound world s = Some w ->
  exists r' d, (forall accR, read_one ct (g cd cs cc cm cr) None (TList line) accR r = (r', Ok (apply_delta d accR))) /\
    SInv cd cs cc cm cr ct w r' accU /\ Later0 r accU r' accU /\ InSession accU d /\ ShapeOf s d /\
    exists n names sst c i, s = SKer n names sst (Some c) /\ d = FKind KindC n i /\ attr_get i (r_conc r') = Some c.
Proof. exact refound_stmt. Qed.
Print Assumptions C14_redeclared_concentration_is_set.

(* the sessions the theorem is about exist: what reading a consistent document in the empty session leaves *)
Theorem C14_fresh_read_leaves_a_described_session : forall ct cd cs cc cm cr,
  cfg_okb ct cd cs cc cm cr = true ->
  (forall c, In c [cd; cs; cc; cm; cr] -> exists ci, nth_error ct c = Some ci /\ c_fail ci = FNone) ->
  forall lines ls ss,
  decode_all lines = Some (ls, ss) -> consistentb ss = true ->
  exists r out, read_pil ct (g cd cs cc cm cr) None lines (rinit (init ct 0)) = (r, Ok out) /\
                SInv cd cs cc cm cr ct ss r out.
Proof. exact fresh_read_session. Qed.
Print Assumptions C14_fresh_read_leaves_a_described_session.

(* two documents one after the other, the result of the first held *)
Theorem C14_reader_builds_second_read : forall ct cd cs cc cm cr,
  cfg_okb ct cd cs cc cm cr = true ->
  (forall c, In c [cd; cs; cc; cm; cr] -> exists ci, nth_error ct c = Some ci /\ c_fail ci = FNone) ->
  forall lines1 ls1 ss1 lines2 ls2 ss2 world',
  decode_all lines1 = Some (ls1, ss1) -> consistentb ss1 = true ->
  decode_all lines2 = Some (ls2, ss2) -> session_from ss1 ss2 = Some world' ->
  exists r1 out1 r2 out2 accU2,
    read_pil ct (g cd cs cc cm cr) None lines1 (rinit (init ct 0)) = (r1, Ok out1) /\
    read_pil ct (g cd cs cc cm cr) None lines2 r1 = (r2, Ok out2) /\
    SInv cd cs cc cm cr ct world' r2 accU2 /\ Later0 r1 out1 r2 accU2 /\ Sub out2 accU2 /\ KeysOK ss2 out2 /\
    (forall k n i, k <> KindR -> In n (declared k ss2) -> dlookup n (dict_of k out1) = Some i ->
                   dlookup n (dict_of k out2) = Some i).
Proof. exact reader_builds_second_read. Qed.
Print Assumptions C14_reader_builds_second_read.

Theorem C14_reader_session_accepts : forall text1 text2,
  reader_session text1 text2 = VBool true ->
  exists lines1 lines2 ss2 r1 out1 r2 out2,
    parse_lines text1 = Ok lines1 /\ parse_lines text2 = Ok lines2 /\ (exists ls2, decode_all lines2 = Some (ls2, ss2)) /\
    read_pil base_ctable base_g None lines1 (rinit (init base_ctable 0)) = (r1, Ok out1) /\
    read_pil base_ctable base_g None lines2 r1 = (r2, Ok out2) /\
    (forall k n i, k <> KindR -> In n (declared k ss2) -> dlookup n (dict_of k out1) = Some i ->
                   dlookup n (dict_of k out2) = Some i).
Proof. exact reader_session_accepts. Qed.
Print Assumptions C14_reader_session_accepts.

(* not vacuous: the example system read twice; a second document that re-declares, uses and extends the first; a
   third that re-declares X with another concentration (the description afterwards has the new triple only) *)
Theorem C14_example_sessions :
  reader_session ex_sys ex_sys = VBool true /\ reader_session ex_sys ex_second = VBool true /\
  reader_session ex_sys ex_third = VBool true /\ third_conc_ok = true.
Proof. exact (conj ex_reread (conj ex_second_read ex_third_read)). Qed.
Print Assumptions C14_example_sessions.
