(* C14 — the PIL reader builds exactly the declared system.
   Only property theorems: each is closed by `exact` and followed by Print Assumptions.
   `read_pil ct g ignore lines` is the model of objectio.read_pil on the parsed file
   (Model/Reader.v) over the singleton-registry machine with class table ct and the five
   configured class slots g. *)
From Coq Require Import List NArith ZArith.
From DSD Require Import Base.Str Base.Errors Model.ComplexUtils Model.Peg Model.Heap Model.Registry Model.Reader
  Proofs.ReaderBasic.
Import ListNotations.

(* statement kinds listed in `ignore` are skipped: the read is the read of the document
   without those statements (and without `ignore`), in every state and for every class
   configuration *)
Theorem C14_ignore_skips : forall ct g ig lines r,
  read_pil ct g ig lines r = read_pil ct g None (filter (fun l => negb (line_ignored ig l)) lines) r.
Proof. exact ignore_skips_read_pil. Qed.
Print Assumptions C14_ignore_skips.

Theorem C14_ignored_kind : forall ig tag rest,
  (existsb (str_eqb tag) ig = true -> line_ignored (Some ig) (TList (TStr tag :: rest)) = true) /\
  (existsb (str_eqb tag) ig = false -> line_ignored (Some ig) (TList (TStr tag :: rest)) = false).
Proof. exact (fun ig tag rest => conj (line_ignored_tag ig tag rest) (line_ignored_other ig tag rest)). Qed.
Print Assumptions C14_ignored_kind.
