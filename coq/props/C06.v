(* C06 — Dot-bracket, pair-table and strand-table conversions are exact and
   validating.  Only property theorems: each is closed by `exact` and followed
   by Print Assumptions. *)
From Coq Require Import List NArith.
From DSD Require Import Base.Str Base.Errors Model.ComplexUtils Proofs.Db Proofs.Assoc Proofs.C06.
Import ListNotations.

(* make_pair_table accepts exactly the well-formed structures ... *)
Theorem C06_accepts_iff_wellformed : forall brk ign s,
  dot_ignored ign ->
  ((exists t, make_pair_table brk ign s = Ok t) <-> wfc brk ign s = true).
Proof. exact mpt_accepts_iff_wf. Qed.
Print Assumptions C06_accepts_iff_wellformed.

(* ... and rejects every other one with SecondaryStructureError, nothing else *)
Theorem C06_rejects_with_SecondaryStructureError : forall brk ign s,
  dot_ignored ign -> wfc brk ign s = false -> make_pair_table brk ign s = Err eSSE.
Proof. exact mpt_rejects_with_sse. Qed.
Print Assumptions C06_rejects_with_SecondaryStructureError.

(* the table has the shape of the structure: one row per strand (str.split at the
   break character), one entry per position *)
Theorem C06_table_shape : forall brk ign s t,
  make_pair_table brk ign s = Ok t ->
  map (@length _) t = map (@length _) (make_strand_table_str brk s).
Proof. exact mpt_shape. Qed.
Print Assumptions C06_table_shape.

(* the pairing of the returned table is a symmetric involution without fixpoints *)
Theorem C06_pairing_symmetric : forall brk ign s t a b,
  make_pair_table brk ign s = Ok t ->
  get t a = Some (Some b) -> get t b = Some (Some a) /\ a <> b.
Proof. exact mpt_symmetric. Qed.
Print Assumptions C06_pairing_symmetric.

(* ... and properly nested: a pair opened inside another closes inside it *)
Theorem C06_pairing_nested : forall brk ign s t a b c e,
  make_pair_table brk ign s = Ok t ->
  get t a = Some (Some b) -> get t c = Some (Some e) ->
  lt_loc a b -> lt_loc c e -> lt_loc a c -> lt_loc c b -> lt_loc e b.
Proof. exact mpt_nested. Qed.
Print Assumptions C06_pairing_nested.

(* pair_table_to_dot_bracket returns exactly the original string (hence the
   table has the shape of the string and matches its brackets position by
   position); the guard `no_leading_break` is implied by non-empty strands *)
Theorem C06_dot_bracket_roundtrip : forall brk ign s,
  brk_ok brk -> dot_ignored ign -> over_alphabet brk s -> no_leading_break brk s ->
  wfc brk ign s = true ->
  exists t, make_pair_table brk ign s = Ok t /\ pair_table_to_dot_bracket brk t = s.
Proof. exact db_roundtrip_chars. Qed.
Print Assumptions C06_dot_bracket_roundtrip.

(* strand tables, list form: both directions *)
Theorem C06_strand_table_of_sequence : forall brk st,
  st <> [] -> Forall (fun s => s <> [] /\ break_free brk s) st ->
  exists sq, strand_table_to_sequence brk st = Ok sq /\ make_strand_table_list brk sq = st.
Proof. exact strand_table_of_sequence. Qed.
Print Assumptions C06_strand_table_of_sequence.

Theorem C06_sequence_of_strand_table : forall brk sq,
  nonempty_strands brk sq true = true ->
  strand_table_to_sequence brk (make_strand_table_list brk sq) = Ok sq.
Proof. exact sequence_of_strand_table. Qed.
Print Assumptions C06_sequence_of_strand_table.

(* strand tables, string form (str.split / str.join): both directions *)
Theorem C06_join_split_string : forall brk s,
  join_with [brk] (make_strand_table_str brk s) = s.
Proof. exact join_split_str. Qed.
Print Assumptions C06_join_split_string.

Theorem C06_split_join_string : forall brk st,
  st <> [] -> Forall (Forall (fun x => x <> brk)) st ->
  make_strand_table_str brk (join_with [brk] st) = st.
Proof. exact split_join_str. Qed.
Print Assumptions C06_split_join_string.
