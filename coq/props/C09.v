(* C09 — Splitting yields exactly the connected components.  Only property
   theorems: each is closed by `exact` and followed by Print Assumptions. *)
From Coq Require Import List NArith.
From DSD Require Import Base.Str Base.Errors Model.ComplexUtils Proofs.Split.
Import ListNotations.

Theorem C09_splice_shares_out_strands : forall (stab : list (list pstr)) ptab i j,
  i <= j -> j < length stab ->
  let '((iss, _), (oss, _)) := splice stab ptab i j in
  length iss = S j - i /\ length oss = length stab - (S j - i).
Proof. exact (@splice_lengths pstr). Qed.
Print Assumptions C09_splice_shares_out_strands.
