(* C09 — Splitting yields exactly the connected components.  Only property
   theorems: each is closed by `exact` and followed by Print Assumptions.

   tab_of d is the pair table of the well-formed structure render d (C06/C08);
   ends d lists the loop directly containing each strand break followed by loop 0
   (the outer ends); NoDup (ends d) is make_loop_index's connectivity criterion. *)
From Coq Require Import List NArith Permutation Sorted.
From DSD Require Import Base.Str Base.Errors Model.ComplexUtils Dyck.Dyck
  Proofs.Db Proofs.Loops Proofs.Split.
Import ListNotations.

(* a connected complex is returned unchanged *)
Theorem C09_split_connected_id : forall (stab : list (list pstr)) d fuel,
  NoDup (ends d) -> split_complex_pt (S fuel) stab (tab_of d) = Ok [(stab, tab_of d)].
Proof. exact (@split_connected_id pstr). Qed.
Print Assumptions C09_split_connected_id.

(* the recursion never runs out of fuel with fuel = S (number of strands), on any table *)
Theorem C09_split_no_fuel : forall fuel (stab : list (list pstr)) ptab k,
  length ptab < fuel -> split_complex_pt fuel stab ptab = Err k -> k <> eFuel.
Proof. exact (@split_no_fuel pstr). Qed.
Print Assumptions C09_split_no_fuel.

(* the parts' strands are a partition of the input strands, each part in
   increasing original order, content unchanged (for every table on which the
   function returns) *)
Theorem C09_split_partition : forall (stab : list (list pstr)) ptab fuel parts,
  length stab = length ptab ->
  split_complex_pt fuel stab ptab = Ok parts ->
  exists idxs,
    map fst parts = map (sel stab) idxs /\
    Permutation (concat idxs) (seq 0 (length stab)) /\
    Forall (StronglySorted lt) idxs.
Proof. exact (@split_partition pstr). Qed.
Print Assumptions C09_split_partition.
