(* C09 — Splitting yields exactly the connected components.  Only property
   theorems: each is closed by `exact` and followed by Print Assumptions.

   tab_of d is the pair table of the well-formed structure render d (every table
   returned by make_pair_table has this form: C06/C08); nbreaks d + 1 is its
   number of strands; ends d lists the loop directly containing each strand
   break followed by loop 0; NoDup (ends d) <-> connected (tab_of d) (C08).
   sel stab ix = the strands of stab with the indices ix, in that order.
   part_ok T sub pt: pt is T restricted to the strands `sub` and re-indexed
   (same shape; unpaired stays unpaired; every pair of a strand of `sub` has its
   partner in `sub` and appears re-indexed: no pair lost, none introduced). *)
From Coq Require Import List NArith Permutation Sorted.
From DSD Require Import Base.Str Base.Errors Model.ComplexUtils Model.Loops Dyck.Dyck
  Proofs.SplitObj Proofs.Db Proofs.Assoc Proofs.Loops Proofs.LoopsConn Proofs.Split Proofs.SplitTree Proofs.SplitComp.
Import ListNotations.

(* a connected complex is returned unchanged *)
Theorem C09_split_connected_id : forall (stab : list (list pstr)) d fuel,
  NoDup (ends d) -> split_complex_pt (S fuel) stab (tab_of d) = Ok [(stab, tab_of d)].
Proof. exact (@split_connected_id pstr). Qed.
Print Assumptions C09_split_connected_id.

(* the recursion never runs out of fuel with fuel = S (number of strands), on any table *)
Theorem C09_split_no_fuel : forall fuel (stab : list (list pstr)) ptab k,
  length ptab < fuel -> split_complex_pt fuel stab ptab = Err k -> k <> eFuel.
Proof. exact (@split_no_fuel pstr). Qed.
Print Assumptions C09_split_no_fuel.

(* ... and on a well-formed structure it returns (no error at all) *)
Theorem C09_split_wellformed_returns : forall d (stab : list (list pstr)),
  length stab = length (tab_of d) ->
  exists parts, split_complex_pt (S (length (tab_of d))) stab (tab_of d) = Ok parts.
Proof. exact (@split_wf_ok pstr). Qed.
Print Assumptions C09_split_wellformed_returns.

(* split_partition on every table on which the function returns: the parts'
   strands are a partition of the input strands, each part in increasing
   original order, content unchanged *)
Theorem C09_split_partition : forall (stab : list (list pstr)) ptab fuel parts,
  length stab = length ptab ->
  split_complex_pt fuel stab ptab = Ok parts ->
  exists idxs,
    map fst parts = map (sel stab) idxs /\
    Permutation (concat idxs) (seq 0 (length stab)) /\
    Forall (StronglySorted lt) idxs.
Proof. exact (@split_partition pstr). Qed.
Print Assumptions C09_split_partition.

(* split_partition + split_pairs for all well-formed structures, one witness:
   part k = (strands idxs[k], table restricted and re-indexed to idxs[k]) *)
Theorem C09_split_parts_and_pairs : forall d (stab : list (list pstr)) fuel,
  length stab = S (nbreaks d) -> S (nbreaks d) < fuel ->
  exists idxs pts,
    split_complex_pt fuel stab (tab_of d) = Ok (combine (map (sel stab) idxs) pts) /\
    Forall2 (part_ok (tab_of d)) idxs pts /\
    Permutation (concat idxs) (seq 0 (S (nbreaks d))) /\
    Forall (StronglySorted lt) idxs.
Proof. exact (@split_parts pstr). Qed.
Print Assumptions C09_split_parts_and_pairs.

(* split_components: every part is well-formed (a tree table), connected, and
   its strands are exactly one connectivity class of the input *)
Theorem C09_split_components : forall d (stab : list (list pstr)) fuel,
  length stab = S (nbreaks d) -> S (nbreaks d) < fuel ->
  exists idxs pts,
    split_complex_pt fuel stab (tab_of d) = Ok (combine (map (sel stab) idxs) pts) /\
    Forall2 (fun sub pt =>
               (exists d', pt = tab_of d') /\ connected pt /\ sub <> [] /\
               forall s, In s sub -> forall t,
                 (conn (edge (tab_of d)) s t <-> In t sub)) idxs pts.
Proof. exact (@split_components pstr). Qed.
Print Assumptions C09_split_components.

(* the dot-bracket wrapper: on a well-formed structure whose sequence has one
   strand per strand of the structure, split_complex_db returns, and its result
   is the strand-wise / table-wise rendering of the parts of split_complex_pt
   (good_part = part_ok + the part is the table of a connected tree) *)
Theorem C09_split_db_wrapper : forall seq sst d,
  make_pair_table cP [cD] sst = Ok (tab_of d) ->
  length (make_strand_table_list sPlus seq) = S (nbreaks d) ->
  let stab := make_strand_table_list sPlus seq in
  exists idxs pts out,
    split_complex_pt (S (length (tab_of d))) stab (tab_of d) = Ok (combine (map (sel stab) idxs) pts) /\
    Forall2 (good_part (tab_of d)) idxs pts /\
    split_complex_db seq sst = Ok out /\
    Forall2 (fun p o => strand_table_to_sequence sPlus (fst p) = Ok (fst o) /\
                        snd o = pair_table_to_dot_bracket cP (snd p))
            (combine (map (sel stab) idxs) pts) out.
Proof. exact split_db_spec. Qed.
Print Assumptions C09_split_db_wrapper.

(* ---- object level with registries (Model/Loops.v: cplx_call, split_history) ---- *)

(* a constructor call made by split() raises SingletonError or what identifiers raised, and changes nothing *)
Theorem C09_object_call_raises : forall st seq sst name st' k ex,
  cplx_call st seq sst name = (st', CRaised k ex) ->
  st' = st /\ (k = eSingleton \/ identifiers seq sst (r_reg st) = Err k).
Proof. exact cplx_call_raises. Qed.
Print Assumptions C09_object_call_raises.

(* an object returned, or handed over through SingletonError.existing (which split()
   yields), is the registered owner of a rotation of the requested component *)
Theorem C09_object_existing_is_owner : forall st seq sst name st' i,
  (cplx_call st seq sst name = (st', CReturned i) \/
   cplx_call st seq sst name = (st', CRaised eSingleton (Some i))) ->
  st' = st /\ exists k, find_key k (r_reg st) = Some i.
Proof. exact cplx_call_existing. Qed.
Print Assumptions C09_object_existing_is_owner.

(* "splitting twice yields identical objects" does NOT hold in every history:
   the first run can advance ComplexS.ID so that the next automatic name is the
   name of another live complex (witness replayed on the implementation) *)
Theorem C09_split_twice_identical_refuted : ~ split_twice_same_full.
Proof. exact split_twice_same_refuted. Qed.
Print Assumptions C09_split_twice_identical_refuted.
