(* C08 — Loop indices, connectivity and exterior domains follow the loop
   decomposition.  Only property theorems: each is closed by `exact` and followed
   by Print Assumptions. *)
From Coq Require Import List NArith.
From DSD Require Import Base.Str Base.Errors Model.ComplexUtils Model.Loops Proofs.Loops.
Import ListNotations.

Theorem C08_is_connected_iff_loop_index : forall sst,
  is_connected sst = Ok true <-> exists le, loop_index_of sst = Ok le.
Proof. exact is_connected_true. Qed.
Print Assumptions C08_is_connected_iff_loop_index.
