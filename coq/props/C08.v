(* C08 — Loop indices, connectivity and exterior domains follow the loop
   decomposition.  Only property theorems: each is closed by `exact` and followed
   by Print Assumptions.

   Reading guide: a well-formed structure is the rendering of a dyck tree d and
   make_pair_table returns tab_of d (first theorem, from C06).  On trees,
   loops_of d is the pre-order loop numbering (0 outermost; both partners of a
   pair carry the loop they enclose; an unpaired position the loop of its
   innermost enclosing pair), bl d 0 0 lists the loop directly containing each
   strand break and ends d = bl d 0 0 ++ [0] adds the loop of the outer ends. *)
From Coq Require Import List NArith.
From DSD Require Import Base.Str Base.Errors Model.ComplexUtils Model.Loops Dyck.Dyck
  Proofs.Db Proofs.Assoc Proofs.C06 Proofs.Loops Proofs.LoopsConn Proofs.LoopsObj Proofs.LoopsSem.
Import ListNotations.

(* every accepted structure is the rendering of a tree, the table is that tree's table *)
Theorem C08_accepted_structures_are_trees : forall brk ign s t,
  make_pair_table brk ign s = Ok t ->
  exists d, map (classify brk ign) s = render d /\ t = tab_of d.
Proof. exact mpt_ok_tree. Qed.
Print Assumptions C08_accepted_structures_are_trees.

(* li_spec, components = True: never raises; loop index = loop decomposition,
   per-strand intervals = consecutive break loops starting and ending with loop 0 *)
Theorem C08_loop_index_components : forall d,
  make_loop_index_comp (tab_of d) = Ok (loops_of d, chain 0 (ends d)).
Proof. exact li_spec_comp. Qed.
Print Assumptions C08_loop_index_components.

(* li_spec + ext_spec, components = False: when no loop holds two strand breaks
   (the outer ends counting as breaks of loop 0) the result is the loop
   decomposition and the exterior loops are exactly the loops directly
   containing a break, plus loop 0 *)
Theorem C08_loop_index_and_exterior : forall d,
  NoDup (ends d) -> make_loop_index (tab_of d) = Ok (loops_of d, ends d).
Proof. exact li_spec_ok. Qed.
Print Assumptions C08_loop_index_and_exterior.

(* ... otherwise it raises SecondaryStructureError, nothing else *)
Theorem C08_loop_index_rejects : forall d,
  ~ NoDup (ends d) -> make_loop_index (tab_of d) = Err eSSE.
Proof. exact li_spec_err. Qed.
Print Assumptions C08_loop_index_rejects.

Theorem C08_loop_index_accepts_iff : forall d,
  (exists r, make_loop_index (tab_of d) = Ok r) <-> NoDup (ends d).
Proof. exact li_accepts_iff. Qed.
Print Assumptions C08_loop_index_accepts_iff.

Theorem C08_is_connected_iff_loop_index : forall sst,
  is_connected sst = Ok true <-> exists le, loop_index_of sst = Ok le.
Proof. exact is_connected_true. Qed.
Print Assumptions C08_is_connected_iff_loop_index.

(* connected_iff: make_loop_index does not raise exactly when the strand graph
   (vertices = strands, edges = base pairs; `connected` is the reflexive,
   symmetric, transitive closure, defined without reference to the code) is
   connected *)
Theorem C08_connected_iff : forall d,
  (exists r, make_loop_index (tab_of d) = Ok r) <-> connected (tab_of d).
Proof. exact connected_iff. Qed.
Print Assumptions C08_connected_iff.

Theorem C08_disconnected_raises : forall d,
  ~ connected (tab_of d) -> make_loop_index (tab_of d) = Err eSSE.
Proof. exact disconnected_sse. Qed.
Print Assumptions C08_disconnected_raises.

(* object level: is_connected is graph connectivity *)
Theorem C08_is_connected_spec : forall sst d,
  make_pair_table cP [cD] sst = Ok (tab_of d) ->
  (is_connected sst = Ok true <-> connected (tab_of d)) /\
  (is_connected sst = Ok false <-> ~ connected (tab_of d)).
Proof. exact is_connected_spec. Qed.
Print Assumptions C08_is_connected_spec.

Theorem C08_get_loop_index_spec : forall sst d a,
  make_pair_table cP [cD] sst = Ok (tab_of d) -> NoDup (ends d) ->
  get_loop_index sst a = match getl (loops_of d) a with Some l => Ok l | None => Err eIndex end.
Proof. exact get_loop_index_spec. Qed.
Print Assumptions C08_get_loop_index_spec.

(* ext_dom_spec: exterior / enclosed domains of a connected complex are exactly
   the unpaired positions inside / outside exterior loops *)
Theorem C08_exterior_enclosed_domains : forall sst d,
  make_pair_table cP [cD] sst = Ok (tab_of d) -> NoDup (ends d) ->
  exists xs ns,
    exterior_domains sst = Ok xs /\ enclosed_domains sst = Ok ns /\
    forall a,
      (In a xs <-> get (tab_of d) a = Some None /\
                   exists l, getl (loops_of d) a = Some l /\ In l (ends d)) /\
      (In a ns <-> get (tab_of d) a = Some None /\
                   exists l, getl (loops_of d) a = Some l /\ ~ In l (ends d)).
Proof. exact ext_dom_spec. Qed.
Print Assumptions C08_exterior_enclosed_domains.

Theorem C08_exterior_domains_disconnected : forall sst d,
  make_pair_table cP [cD] sst = Ok (tab_of d) -> ~ NoDup (ends d) ->
  exterior_domains sst = Err eSSE /\ enclosed_domains sst = Err eSSE.
Proof. exact ext_dom_disconnected. Qed.
Print Assumptions C08_exterior_domains_disconnected.

(* dlc_spec: true exactly when every pair joins a domain with its complement
   (`named`: every paired position carries a domain, e.g. because the sequence
   has the strand lengths of the structure: same_shape_named) *)
Theorem C08_domainlevel_complement : forall seq sst pt,
  make_pair_table cP [cD] sst = Ok pt -> named (strand_table_of seq) pt ->
  exists b, is_domainlevel_complement seq sst = Ok b /\
            (b = true <-> all_complementary (strand_table_of seq) pt).
Proof. exact dlc_spec. Qed.
Print Assumptions C08_domainlevel_complement.

Theorem C08_same_shape_named : forall stab d,
  map (@length pstr) stab = map (@length (option loc)) (tab_of d) -> named stab (tab_of d).
Proof. exact same_shape_named. Qed.
Print Assumptions C08_same_shape_named.

(* ---- what loops_of d says, position by position (numbering-free reading) ---- *)

(* the loop index has the shape of the pair table *)
Theorem C08_loops_shape : forall d a,
  (exists n, getl (loops_of d) a = Some n) <-> (exists v, get (tab_of d) a = Some v).
Proof. exact loops_shape. Qed.
Print Assumptions C08_loops_shape.

(* both partners of a pair carry the same loop number *)
Theorem C08_loops_partners : forall d a b,
  get (tab_of d) a = Some (Some b) ->
  exists n, getl (loops_of d) a = Some n /\ getl (loops_of d) b = Some n.
Proof. exact loops_partners. Qed.
Print Assumptions C08_loops_partners.

(* `opens d p` lists the positions whose partner comes later (opening brackets), in text order *)
Theorem C08_opening_positions : forall d p,
  opens d p = map fst (filter (fun kv => match snd kv with Some b => loc_ltb (fst kv) b | None => false end)
                              (aents d p)).
Proof. exact opens_spec. Qed.
Print Assumptions C08_opening_positions.

(* loops are numbered in the order of their opening bracket: the k-th one carries k + 1 *)
Theorem C08_loops_numbered_by_opening_bracket : forall d k o,
  nth_error (opens d (0, 0)) k = Some o -> getl (loops_of d) o = Some (S k).
Proof. exact loops_opening. Qed.
Print Assumptions C08_loops_numbered_by_opening_bracket.

(* an unpaired position carries 0 if no pair encloses it, otherwise the number of
   the innermost enclosing pair (the enclosing pair that opens last) *)
Theorem C08_loops_unpaired : forall d a,
  get (tab_of d) a = Some None ->
  (getl (loops_of d) a = Some 0 /\ forall o, ~ enclosing d o a) \/
  (exists o n, enclosing d o a /\ getl (loops_of d) o = Some n /\ getl (loops_of d) a = Some n /\
               forall o', enclosing d o' a -> le_loc o' o).
Proof. exact loops_unpaired. Qed.
Print Assumptions C08_loops_unpaired.

(* ext_spec, numbering-free: the k-th exterior loop recorded by make_loop_index
   (ends d = bl d 0 0 ++ [0]) is the loop of the innermost pair inside which the
   break after strand k lies, or loop 0 when no pair spans that break; there is
   one such entry per strand break and a final 0 for the outer ends *)
Theorem C08_exterior_loop_of_break : forall d k l,
  nth_error (bl d 0 0) k = Some l ->
  (l = 0 /\ forall o, ~ spanning d o k) \/
  (exists o, spanning d o k /\ getl (loops_of d) o = Some l /\
             forall o', spanning d o' k -> le_loc o' o).
Proof. exact break_loop_spec. Qed.
Print Assumptions C08_exterior_loop_of_break.

Theorem C08_one_exterior_entry_per_break : forall d,
  length (bl d 0 0) = length (tab_of d) - 1.
Proof. exact break_count. Qed.
Print Assumptions C08_one_exterior_entry_per_break.
