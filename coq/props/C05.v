(* C05 — Object lifetime on the heap graph of the model (strong children, roots = the user's slots).
   Only property theorems: each is closed by `exact` and followed by Print Assumptions. *)
From Coq Require Import List NArith ZArith.
From DSD Require Import Base.Str Base.Errors Model.ComplexUtils Model.RegStr Model.Heap Model.Registry
  Proofs.RegHeap Proofs.RegInv Proofs.RegCalls Proofs.RegExt Proofs.RegC04 Proofs.RegStep Proofs.RegC01 Proofs.RegC05 Proofs.RegExamples Proofs.RegFull Proofs.RegRelease.
Import ListNotations.

(* in every state between two operations of every history: live <-> reachable from a slot *)
Theorem C05_live_iff_reachable : forall ct n ops i,
  let st := run ct (init ct n) ops in is_live (heap st) i = true <-> Reachable st i.
Proof. exact live_iff_reachable_everywhere. Qed.
Print Assumptions C05_live_iff_reachable.

(* live <-> registered under its name and its canonical form *)
Theorem C05_registered_iff_live : forall ct st i o,
  Inv ct st -> hget (heap st) i = Some o -> o_cls o < length ct ->
  (o_live o = true <->
   nlookup (o_name o) (cs_names (cget st (o_cls o))) = Some i /\
   klookup (o_key o) (cs_canon (cget st (o_cls o))) = Some i).
Proof. exact registered_iff_live. Qed.
Print Assumptions C05_registered_iff_live.

(* no_loss *)
Theorem C05_no_loss : forall ct st i, Inv ct st -> Reachable st i -> is_live (heap st) i = true.
Proof. exact no_loss. Qed.
Print Assumptions C05_no_loss.

(* what a collection keeps *)
Theorem C05_collect_spec : forall st i,
  HeapOK st -> (is_live (heap (collect st)) i = true <-> is_live (heap st) i = true /\ Reachable st i).
Proof. exact collect_spec. Qed.
Print Assumptions C05_collect_spec.

(* release: after a drop exactly what the remaining slots reach survives; the rest has no entry left *)
Theorem C05_release : forall ct st slot i,
  Inv ct st ->
  let st' := fst (step ct st (ODrop slot)) in
  (is_live (heap st') i = true <->
   is_live (heap st) i = true /\ Reach (heap st) (root_ids (roots (set_root st slot None))) i) /\
  (is_live (heap st') i = false ->
   forall c, (forall n, nlookup n (cs_names (cget st' c)) <> Some i) /\
             (forall k, klookup k (cs_canon (cget st' c)) <> Some i)).
Proof. exact release. Qed.
Print Assumptions C05_release.

(* ... and a free name / canonical form is defined anew by the next request (non-failing class) *)
Theorem C05_redefine_after_release : forall ct st c ci auto nm k extra children d,
  nth_error ct c = Some ci -> c_fail ci = FNone -> sing_lookup (cget st c) nm (Some k) = LFresh ->
  exists st1, create ct st c auto nm k extra children d =
              (register (fst (alloc st1 (mkObj c nm k (k :: extra) true children d))) c nm k extra (length (heap st)),
               CRet (length (heap st)) true).
Proof. exact redefine_after_release. Qed.
Print Assumptions C05_redefine_after_release.

(* refused requests (any kind of error) retain nothing *)
Theorem C05_refused_no_retention : forall ct st o st' k e,
  Inv ct st -> Collected st -> step ct st o = (st', Raised k e) ->
  roots st' = roots st /\
  (forall i ob, live_obj (heap st') i ob <-> live_obj (heap st) i ob) /\
  (forall i, Reachable st' i <-> Reachable st i) /\
  (forall c, cs_names (cget st' c) = cs_names (cget st c) /\ cs_canon (cget st' c) = cs_canon (cget st c)).
Proof. exact refused_no_retention. Qed.
Print Assumptions C05_refused_no_retention.

(* queries and the turns setter add no edge *)
Theorem C05_query_no_change : forall ct st slot q, fst (step ct st (OQuery slot q)) = st.
Proof. exact query_no_change. Qed.
Print Assumptions C05_query_no_change.

Theorem C05_set_turns_no_edge : forall ct st slot v,
  let st' := fst (step ct st (OSetTurns slot v)) in
  roots st' = roots st /\ classes st' = classes st /\
  (forall i, option_map (fun o => (o_live o, o_children o, o_name o, o_key o)) (hget (heap st') i) =
             option_map (fun o => (o_live o, o_children o, o_name o, o_key o)) (hget (heap st) i)).
Proof. exact set_turns_no_edge. Qed.
Print Assumptions C05_set_turns_no_edge.

(* release and redefinition as one statement about operations: after the drop that makes the domain
   unreachable, a request with its name and any length (0 included) is Created (names with an unstarred
   non-empty base, complement not live, non-failing class) *)
Theorem C05_release_redefine : forall ct st slot c ci n l l' i ob,
  Good ct st -> get_root st slot = Some i -> live_obj (heap st) i ob ->
  o_cls ob = c -> o_name ob = n -> o_data ob = DDom l ->
  nth_error ct c = Some ci -> c_fail ci = FNone ->
  base_unstarred n -> nonempty (cname_of n) = true ->
  ~ Reach (heap st) (root_ids (roots (set_root st slot None))) i ->
  absent st c (cname_of n) ->
  exists id, snd (step ct (fst (step ct st (ODrop slot))) (ODomain slot c (Some n) (Some l') None None)) = Created id.
Proof. exact release_redefine. Qed.
Print Assumptions C05_release_redefine.

(* the guard on the name is necessary: with a live a(5), a dropped a**(5) cannot be redefined as a**(7) *)
Theorem C05_release_redefine_refuted_for_double_star : ~ release_redefine_full.
Proof. exact release_redefine_full_refuted. Qed.
Print Assumptions C05_release_redefine_refuted_for_double_star.
