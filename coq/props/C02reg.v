(* C02 at registry level (to be appended to props/C02.v): requests for rotations of a live complex,
   and independence of the stored canonical form from the registry.
   Only property theorems: each is closed by `exact` and followed by Print Assumptions.
   ROK (Proofs/RegC02.v) = every key recorded for a live object is bound to it, and a live complex has a
   well-formed representation, ALL its rotations among its keys, no other keys, and stores the canonical
   form of its orbit.  It holds in every reachable state of histories whose complex requests are
   well-formed, aligned, with non-empty strands (cplx_guard / guarded). *)
From Coq Require Import List NArith ZArith.
From DSD Require Import Base.Str Base.Errors Model.ComplexUtils Model.Rotation Model.Compare Model.Canon
  Proofs.RotOrbit Proofs.RotGen Proofs.C02.
From DSD Require Import Model.RegStr Model.Heap Model.Registry
  Proofs.RegHeap Proofs.RegInv Proofs.RegCalls Proofs.RegC04 Proofs.RegStep Proofs.RegC02 Proofs.RegC02b.
Import ListNotations.

Theorem C02_ROK_reachable : forall ct n ops, guarded ct (init ct n) ops -> ROK (run ct (init ct n) ops).
Proof. exact rok_reachable. Qed.
Print Assumptions C02_ROK_reachable.

Theorem C02_ROK_step : forall ct st o, Inv ct st -> ROK st -> cplx_guard st o -> ROK (fst (step ct st o)).
Proof. exact rok_step. Qed.
Print Assumptions C02_ROK_step.

(* every rotation of a live complex is registered and bound to it (all n of them: a complex is only
   ever created after the full loop; an early exit never creates) *)
Theorem C02_all_rotations_registered : forall st i o es ss t k,
  ROK st -> live_obj (heap st) i o -> o_data o = DCplx es ss t ->
  goodNE (map fst es, ss) /\
  klookup (KCplx (Nat.iter k rotT (map fst es, ss))) (cs_canon (cget st (o_cls o))) = Some i.
Proof. exact all_rotations_registered. Qed.
Print Assumptions C02_all_rotations_registered.

(* request_rotation_same_object: a Construct request for ANY rotation of a live complex o changes nothing
   and answers by the requested / automatic name nm alone: *)
Theorem C02_request_rotation_same_object : forall ct st c ci i o es0 ss0 t0 k es ss name prefix nm,
  ROK st -> live_obj (heap st) i o -> o_cls o = c -> o_data o = DCplx es0 ss0 t0 ->
  nth_error ct c = Some ci ->
  (map fst es, ss) = Nat.iter k rotT (map fst es0, ss0) ->
  resolve_name ct st c ci name prefix = Ok nm ->
  cplx_call ct c st (Some es) (Some ss) name prefix = (st, answer (cget st c) nm i).
Proof. exact request_rotation_same_object. Qed.
Print Assumptions C02_request_rotation_same_object.

(* ... Returned o for o's own name; SingletonError(existing = o) for a free name (given or automatic);
   SingletonError without existing only when the name is bound to another live object; never Created *)
Theorem C02_request_rotation_outcomes : forall ct st c ci i o es0 ss0 t0 k es ss name prefix nm,
  Inv ct st -> ROK st -> live_obj (heap st) i o -> o_cls o = c -> o_data o = DCplx es0 ss0 t0 ->
  nth_error ct c = Some ci ->
  (map fst es, ss) = Nat.iter k rotT (map fst es0, ss0) ->
  resolve_name ct st c ci name prefix = Ok nm -> nonempty nm = true ->
  let r := cplx_call ct c st (Some es) (Some ss) name prefix in
  fst r = st /\
  (nm = o_name o -> snd r = CRet i false) /\
  (nlookup nm (cs_names (cget st c)) = None -> snd r = CErr eSingleton (Some i)) /\
  (forall j, nlookup nm (cs_names (cget st c)) = Some j -> j <> i -> snd r = CErr eSingleton None) /\
  (forall id, snd r <> CRet id true).
Proof. exact request_rotation_outcomes. Qed.
Print Assumptions C02_request_rotation_outcomes.

(* the same for the whole operation *)
Theorem C02_step_request_rotation : forall ct st c ci i o es0 ss0 t0 k us es ss name prefix nm dst,
  ROK st -> live_obj (heap st) i o -> o_cls o = c -> o_data o = DCplx es0 ss0 t0 ->
  nth_error ct c = Some ci -> c_kind ci = KindC ->
  resolve_elems st (Some us) = Some (Some es) ->
  (map fst es, ss) = Nat.iter k rotT (map fst es0, ss0) ->
  resolve_name ct st c ci name prefix = Ok nm ->
  snd (step ct st (OComplex dst c (Some us) (Some ss) name prefix)) = out_of (answer (cget st c) nm i).
Proof. exact step_request_rotation. Qed.
Print Assumptions C02_step_request_rotation.

(* canon_independent_of_registry: a newly created complex stores exactly what identifiers_fresh computes
   without any registry (canonical form, turns, rotation keys); no hypothesis on the input *)
Theorem C02_canon_independent_of_registry : forall ct c st es ss name prefix id,
  snd (cplx_call ct c st (Some es) (Some ss) name prefix) = CRet id true ->
  exists cn t rots o,
    Canon.identifiers_fresh (map fst es) ss = Ok (cn, t, rots) /\
    hget (heap (fst (cplx_call ct c st (Some es) (Some ss) name prefix))) id = Some o /\
    o_cls o = c /\ o_key o = KCplx cn /\ o_data o = DCplx es ss t /\ o_live o = true /\
    (forall y, In (KCplx y) (o_keys o) <-> y = cn \/ In y rots).
Proof. exact canon_independent_of_registry. Qed.
Print Assumptions C02_canon_independent_of_registry.

Theorem C02_created_canon_is_canon_T : forall ct c st es ss name prefix id,
  snd (cplx_call ct c st (Some es) (Some ss) name prefix) = CRet id true ->
  exists o, hget (heap (fst (cplx_call ct c st (Some es) (Some ss) name prefix))) id = Some o /\
            canon_T (map fst es, ss) = Some (match o_key o with KCplx cn => cn | _ => ([], []) end).
Proof. exact created_canon_is_canon_T. Qed.
Print Assumptions C02_created_canon_is_canon_T.
