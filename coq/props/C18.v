(* C18 — unit and rate-constant conversion.  conc_units / time_units /
   grammar_* are regenerated from the code on every run (gen/UnitTables.v);
   scaleQ is the specification (ideal decimal scales). *)
From Coq Require Import ZArith QArith List.
From DSD Require Import Base.Str Base.Errors Model.ComplexUtils Model.UnitsF Proofs.C18.
From DSDGen Require Import UnitTables.
Import ListNotations.

Theorem C18_scales_are_nearest_doubles : forall u s,
  In (u, s) (conc_units ++ time_units) ->
  exists q, scaleQ u = Some q /\ scale_ok s q = true.
Proof. exact generated_scales_are_nearest_doubles. Qed.
Print Assumptions C18_scales_are_nearest_doubles.

Theorem C18_grammar_rate_units_convertible :
  forallb (known_in conc_units) grammar_cunits = true /\
  forallb (known_in time_units) grammar_tunits = true /\
  grammar_cunits <> [] /\ grammar_tunits <> [].
Proof. exact grammar_units_convertible. Qed.
Print Assumptions C18_grammar_rate_units_convertible.

Theorem C18_families_disjoint :
  forallb (fun us => negb (known_in time_units (fst us))) conc_units = true.
Proof. exact families_disjoint. Qed.
Print Assumptions C18_families_disjoint.

Theorem C18_unknown_unit_raises : forall v a b,
  ulookup a conc_units = None -> ulookup a time_units = None ->
  convert_units v a b = Err eValue.
Proof. exact convert_unknown_unit. Qed.
Print Assumptions C18_unknown_unit_raises.

Theorem C18_mixed_family_raises : forall v a b,
  (ulookup a conc_units <> None /\ ulookup b conc_units = None) \/
  (ulookup a conc_units = None /\ ulookup a time_units <> None /\ ulookup b time_units = None) ->
  exists k, convert_units v a b = Err k /\ (k = eKey \/ k = eOverflow \/ k = eModelRange).
Proof. exact convert_mixed_family. Qed.
Print Assumptions C18_mixed_family_raises.

Theorem C18_number_only_within_a_family : forall v a b r,
  convert_units v a b = Ok r ->
  (ulookup a conc_units <> None /\ ulookup b conc_units <> None) \/
  (ulookup a time_units <> None /\ ulookup b time_units <> None).
Proof. exact convert_ok_same_family. Qed.
Print Assumptions C18_number_only_within_a_family.

(* exact layer: identity, composition, inversion *)
Theorem C18_exact_identity : forall v s, ~ (s == 0)%Q -> (convQ v s s == v)%Q.
Proof. exact convQ_id. Qed.
Print Assumptions C18_exact_identity.
Theorem C18_exact_composition : forall v sa sb sc, ~ (sb == 0)%Q -> ~ (sc == 0)%Q ->
  (convQ (convQ v sa sb) sb sc == convQ v sa sc)%Q.
Proof. exact convQ_compose. Qed.
Print Assumptions C18_exact_composition.
Theorem C18_exact_inversion : forall v sa sb, ~ (sa == 0)%Q -> ~ (sb == 0)%Q ->
  (convQ (convQ v sa sb) sb sa == v)%Q.
Proof. exact convQ_invert. Qed.
Print Assumptions C18_exact_inversion.

(* rate constants: one inverse factor per unit, and the conversion round-trips *)
Theorem C18_rateformat_one_factor_per_unit : forall old new c,
  Forall nz old -> (chainQ c old new == c * factorQ old new)%Q.
Proof. exact rateformatQ_factor. Qed.
Print Assumptions C18_rateformat_one_factor_per_unit.
Theorem C18_rateformat_roundtrip : forall old new c,
  length old = length new -> Forall nz old -> Forall nz new ->
  (chainQ (chainQ c old new) new old == c)%Q.
Proof. exact rateformatQ_roundtrip. Qed.
Print Assumptions C18_rateformat_roundtrip.
Theorem C18_rateformat_arity : forall c u n out r,
  rateformat c (Some u) n out = Ok r ->
  length (unit_parts u) = n /\ length (unit_parts out) = n.
Proof. exact rateformat_arity. Qed.
Print Assumptions C18_rateformat_arity.

(* ---- float level (Proofs/C18F.v) ---- *)
From Coq Require Import Qabs Qpower.
From Coq Require PrimFloat FloatOps SpecFloat.
From DSD Require Import Proofs.C18F.

(* flint on a finite float: a numerically equal value, an int exactly when it is integral *)
Theorem C18_flint_float : forall f,
  PrimFloat.is_nan f = false -> PrimFloat.is_infinity f = false ->
  match flint (NF f) with
  | Ok (NI z) => (SF2Q (FloatOps.Prim2SF f) == inject_Z z)%Q
  | Ok (NF g) => g = f /\ forall z, ~ (SF2Q (FloatOps.Prim2SF f) == inject_Z z)%Q
  | Err _ => False
  end.
Proof. exact flint_float_spec. Qed.
Print Assumptions C18_flint_float.

(* every Python int, of any size, is returned unchanged *)
Theorem C18_flint_int : forall z, flint (NI z) = Ok (NI z).
Proof. exact flint_int_spec. Qed.
Print Assumptions C18_flint_int.

Theorem C18_flint_small_int : forall z, (Z.abs z <= 2 ^ 53)%Z -> flint (NI z) = Ok (NI z).
Proof. exact flint_small_int. Qed.
Print Assumptions C18_flint_small_int.

(* the correctly rounded int -> float conversion (int * float inside convert_units) is exact below 2^53;
   uses the standard library's FloatAxioms.Prim2SF_SF2Prim *)
Theorem C18_int_to_float_small_exact : forall z, z <> 0%Z -> (Z.abs z < 2 ^ 53)%Z ->
  exists f, int_to_float z = FOk f /\ sf_to_Z (FloatOps.Prim2SF f) = z.
Proof. exact int_to_float_small_exact. Qed.
Print Assumptions C18_int_to_float_small_exact.

(* convert_units on a float: within 3 * 2^-53 of the exact conversion when neither
   intermediate (x = v * scale a, y = x / scale b) overflows or leaves the normal range.
   Depends on the standard library's real-number and primitive-float axioms (via Flocq). *)
Theorem C18_conv_float_mid : forall v a b r, convert_units (NF v) a b = Ok r ->
  exists x y, conv_mid v a b = Some (x, y) /\ flint (NF y) = Ok r.
Proof. exact convert_units_mid. Qed.
Print Assumptions C18_conv_float_mid.

Theorem C18_conv_float_close : forall v a b sa sb r x y,
  scaleQ a = Some sa -> scaleQ b = Some sb ->
  convert_units (NF v) a b = Ok r ->
  conv_mid v a b = Some (x, y) ->
  (Qpower 2 (-1022) < Qabs (F2Q x))%Q -> (Qpower 2 (-1022) < Qabs (F2Q y))%Q ->
  (Qabs (numQ r - F2Q v * sa / sb) <= (3 # 9007199254740992) * Qabs (F2Q v * sa / sb))%Q.
Proof. exact conv_float_close. Qed.
Print Assumptions C18_conv_float_close.

Theorem C18_conv_float_close_range : forall v a b sa sb r,
  PrimFloat.is_nan v = false -> PrimFloat.is_infinity v = false ->
  scaleQ a = Some sa -> scaleQ b = Some sb ->
  convert_units (NF v) a b = Ok r ->
  ((F2Q v == 0) \/ (Qpower 2 (-900) <= Qabs (F2Q v) /\ Qabs (F2Q v) <= Qpower 2 900))%Q ->
  (Qabs (numQ r - F2Q v * sa / sb) <= (3 # 9007199254740992) * Qabs (F2Q v * sa / sb))%Q.
Proof. exact conv_float_close_range. Qed.
Print Assumptions C18_conv_float_close_range.

(* the unconditional statement conv_float_close_full of Proofs/C18.v does not hold:
   a product that underflows to a subnormal loses relative accuracy *)
Theorem C18_conv_float_close_needs_no_underflow : ~ conv_float_close_full.
Proof. exact conv_float_close_full_refuted. Qed.
Print Assumptions C18_conv_float_close_needs_no_underflow.
