(* C18 — unit and rate-constant conversion.  conc_units / time_units /
   grammar_* are regenerated from the code on every run (gen/UnitTables.v);
   scaleQ is the specification (ideal decimal scales). *)
From Coq Require Import ZArith QArith List.
From DSD Require Import Base.Str Base.Errors Model.ComplexUtils Model.UnitsF Proofs.C18.
From DSDGen Require Import UnitTables.
Import ListNotations.

Theorem C18_scales_are_nearest_doubles : forall u s,
  In (u, s) (conc_units ++ time_units) ->
  exists q, scaleQ u = Some q /\ scale_ok s q = true.
Proof. exact generated_scales_are_nearest_doubles. Qed.
Print Assumptions C18_scales_are_nearest_doubles.

Theorem C18_grammar_rate_units_convertible :
  forallb (known_in conc_units) grammar_cunits = true /\
  forallb (known_in time_units) grammar_tunits = true /\
  grammar_cunits <> [] /\ grammar_tunits <> [].
Proof. exact grammar_units_convertible. Qed.
Print Assumptions C18_grammar_rate_units_convertible.

Theorem C18_families_disjoint :
  forallb (fun us => negb (known_in time_units (fst us))) conc_units = true.
Proof. exact families_disjoint. Qed.
Print Assumptions C18_families_disjoint.

Theorem C18_unknown_unit_raises : forall v a b,
  ulookup a conc_units = None -> ulookup a time_units = None ->
  convert_units v a b = Err eValue.
Proof. exact convert_unknown_unit. Qed.
Print Assumptions C18_unknown_unit_raises.

Theorem C18_mixed_family_raises : forall v a b,
  (ulookup a conc_units <> None /\ ulookup b conc_units = None) \/
  (ulookup a conc_units = None /\ ulookup a time_units <> None /\ ulookup b time_units = None) ->
  exists k, convert_units v a b = Err k /\ (k = eKey \/ k = eOverflow \/ k = eModelRange).
Proof. exact convert_mixed_family. Qed.
Print Assumptions C18_mixed_family_raises.

Theorem C18_number_only_within_a_family : forall v a b r,
  convert_units v a b = Ok r ->
  (ulookup a conc_units <> None /\ ulookup b conc_units <> None) \/
  (ulookup a time_units <> None /\ ulookup b time_units <> None).
Proof. exact convert_ok_same_family. Qed.
Print Assumptions C18_number_only_within_a_family.

(* exact layer: identity, composition, inversion *)
Theorem C18_exact_identity : forall v s, ~ (s == 0)%Q -> (convQ v s s == v)%Q.
Proof. exact convQ_id. Qed.
Print Assumptions C18_exact_identity.
Theorem C18_exact_composition : forall v sa sb sc, ~ (sb == 0)%Q -> ~ (sc == 0)%Q ->
  (convQ (convQ v sa sb) sb sc == convQ v sa sc)%Q.
Proof. exact convQ_compose. Qed.
Print Assumptions C18_exact_composition.
Theorem C18_exact_inversion : forall v sa sb, ~ (sa == 0)%Q -> ~ (sb == 0)%Q ->
  (convQ (convQ v sa sb) sb sa == v)%Q.
Proof. exact convQ_invert. Qed.
Print Assumptions C18_exact_inversion.

(* rate constants: one inverse factor per unit, and the conversion round-trips *)
Theorem C18_rateformat_one_factor_per_unit : forall old new c,
  Forall nz old -> (chainQ c old new == c * factorQ old new)%Q.
Proof. exact rateformatQ_factor. Qed.
Print Assumptions C18_rateformat_one_factor_per_unit.
Theorem C18_rateformat_roundtrip : forall old new c,
  length old = length new -> Forall nz old -> Forall nz new ->
  (chainQ (chainQ c old new) new old == c)%Q.
Proof. exact rateformatQ_roundtrip. Qed.
Print Assumptions C18_rateformat_roundtrip.
Theorem C18_rateformat_arity : forall c u n out r,
  rateformat c (Some u) n out = Ok r ->
  length (unit_parts u) = n /\ length (unit_parts out) = n.
Proof. exact rateformat_arity. Qed.
Print Assumptions C18_rateformat_arity.
