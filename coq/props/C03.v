(* C03 — a complex's views always describe its current rotation (turns).
   One complex object `cobj` = identity fields (canon, turns), the stored
   representation (seq, struct) and the four lazily filled caches; `vstep o op`
   performs one public operation (the turns setter or a view query, each with its
   `if not self._x:` cache discipline) and returns the new object and the value
   observed; `vrun` lists the observations of a history, `vstate` is the object
   after it.  `goodNE x` = aligned, well-formed, non-empty strands; `rotT` = one
   strand rotation (rotate_complex_once, total on good input).
   `ViewOK o`: (seq, struct) = rotT^turns canon, 0 <= turns < n, and every
   populated cache equals the function of the CURRENT (seq, struct) it caches. *)
From Coq Require Import List NArith ZArith Bool.
From DSD Require Import Base.Str Base.Errors Base.Val Model.ComplexUtils Model.Rotation Model.Compare Model.Canon
  Model.Loops Model.DispatchCU Model.Views
  Proofs.RotOrbit Proofs.RotGen Proofs.C03.
Import ListNotations.

Theorem C03_viewok_after_construction : forall sq st canon turns rots,
  goodNE (sq, st) -> identifiers_fresh sq st = Ok (canon, turns, rots) ->
  ViewOK (new_obj canon turns sq st).
Proof. exact viewok_after_construction. Qed.
Print Assumptions C03_viewok_after_construction.

Theorem C03_viewok_preserved_by_every_operation : forall o op,
  ViewOK o -> ViewOK (fst (vstep o op)).
Proof. exact viewok_preserved. Qed.
Print Assumptions C03_viewok_preserved_by_every_operation.

Theorem C03_viewok_along_every_history : forall ops o,
  ViewOK o -> ViewOK (vstate o ops).
Proof. exact viewok_run. Qed.
Print Assumptions C03_viewok_along_every_history.

Theorem C03_vrun_lists_the_observations_along_vstate : forall o pre op,
  vrun o (pre ++ [op]) = vrun o pre ++ [snd (vstep (vstate o pre) op)].
Proof. exact vrun_app. Qed.
Print Assumptions C03_vrun_lists_the_observations_along_vstate.

Theorem C03_set_turns_moves_to_the_vth_rotation : forall o v, ViewOK o ->
  let n := nstr (o_struct o) in
  exists o', set_turns o v = Ok o' /\
    o_turns o' = wrap v (Z.of_nat n) /\
    o_canon o' = o_canon o /\
    (o_seq o', o_struct o') = Nat.iter (Z.to_nat (wrap v (Z.of_nat n))) rotT (o_canon o) /\
    c_stab o' = None /\ c_ptab o' = None /\ c_li o' = None /\ c_ext o' = None.
Proof. exact set_turns_spec. Qed.
Print Assumptions C03_set_turns_moves_to_the_vth_rotation.

Theorem C03_wrap_is_the_residue : forall x m, (0 < m)%Z -> wrap x m = (x mod m)%Z.
Proof. exact wrap_mod. Qed.
Print Assumptions C03_wrap_is_the_residue.

Theorem C03_canonical_form_fixed_along_every_history : forall ops o,
  ViewOK o -> o_canon (vstate o ops) = o_canon o.
Proof. exact history_canon_fixed. Qed.
Print Assumptions C03_canonical_form_fixed_along_every_history.

Theorem C03_views_describe_current_rotation : forall o op, ViewOK o ->
  snd (vstep o op) = snd (vstep (new_obj (o_canon o) (o_turns o) (o_seq o) (o_struct o)) op).
Proof. exact views_describe_current_rotation. Qed.
Print Assumptions C03_views_describe_current_rotation.

Theorem C03_views_after_every_history_describe_current_rotation : forall o pre op, ViewOK o ->
  let o' := vstate o pre in
  snd (vstep o' op) = snd (vstep (new_obj (o_canon o') (o_turns o') (o_seq o') (o_struct o')) op).
Proof. exact history_views_current. Qed.
Print Assumptions C03_views_after_every_history_describe_current_rotation.

Theorem C03_view_values : forall o, ViewOK o ->
  let sq := o_seq o in let st := o_struct o in
  let stab := make_strand_table_list sPlus sq in
  (sq, st) = Nat.iter (Z.to_nat (o_turns o)) rotT (o_canon o) /\
  snd (vstep o VSize) = of_nat (nstr st) /\
  snd (vstep o VStab) = of_stab stab /\
  snd (vstep o VPtab) = of_tab (tabT st) /\
  make_pair_table cP [cD] st = Ok (tabT st) /\
  (forall p, snd (vstep o (VStrandLen p))
             = match nth_error stab p with Some r => of_nat (length r) | None => err eIndex end) /\
  (forall l, snd (vstep o (VDomain l)) = of_res VStr (nth2r stab l)) /\
  (forall a b, snd (vstep o (VPaired a b))
               = if (a <? 0)%Z || (b <? 0)%Z then err eIndex
                 else of_res (of_opt of_loc) (nth2r (tabT st) (Z.to_nat a, Z.to_nat b))) /\
  (forall l, snd (vstep o (VLoop l))
             = match loop_index_of st with Ok le => of_res of_nat (nth2r (fst le) l) | Err e => err e end) /\
  snd (vstep o VExt) = match ext_enc st with Ok xe => of_locs (fst xe) | Err e => err e end /\
  snd (vstep o VEnc) = match ext_enc st with Ok xe => of_locs (snd xe) | Err e => err e end /\
  snd (vstep o VConnected) = conn_val (loop_index_of st) /\
  snd (vstep o VRotate) = of_ckeys (rotations (sq, st)).
Proof. exact view_values. Qed.
Print Assumptions C03_view_values.
