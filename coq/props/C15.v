(* C15 — placeholder until the registry theorems land (replaced below). *)
From Coq Require Import List NArith ZArith.
From DSD Require Import Base.Str Base.Errors Model.ComplexUtils Model.RegStr Model.Heap Model.Registry
  Proofs.RegistryBasic.
Import ListNotations.

Theorem C15_init_empty : forall ct n, heap (init ct n) = [] /\ length (classes (init ct n)) = length ct.
Proof. exact init_shape. Qed.
Print Assumptions C15_init_empty.
