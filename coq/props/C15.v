(* C15 — Subclass registries are independent; failing user constructors leave no trace.
   (The reader-slot part of C15 is stated elsewhere.)
   Only property theorems: each is closed by `exact` and followed by Print Assumptions. *)
From Coq Require Import List NArith ZArith.
From DSD Require Import Base.Str Base.Errors Model.ComplexUtils Model.RegStr Model.Heap Model.Registry
  Proofs.RegHeap Proofs.RegInv Proofs.RegCalls Proofs.RegExt Proofs.RegC04 Proofs.RegStep Proofs.RegC15.
Import ListNotations.

(* frame: an operation addressing class a leaves, for every other class b (base class, subclass, sibling),
   both registries as they were except for entries of objects that died, and b's own ID untouched *)
Theorem C15_frame : forall ct st o a b,
  Inv ct st -> Collected st -> op_class st o = Some a -> b <> a -> Framed st (fst (step ct st o)) b.
Proof. exact frame_step. Qed.
Print Assumptions C15_frame.

(* during the call itself nothing of another class is touched at all *)
Theorem C15_frame_call : forall ct c st s b,
  Inv ct s -> Ext st s -> Only c st s -> b <> c ->
  cs_names (cget s b) = cs_names (cget st b) /\ cs_canon (cget s b) = cs_canon (cget st b) /\
  cs_id (cget s b) = cs_id (cget st b).
Proof. exact frame_of. Qed.
Print Assumptions C15_frame_call.

(* every object a constructor call creates (temporaries included) belongs to the class called *)
Theorem C15_objects_belong_to_the_class_called : forall fuel ct c st name len prefix dtype,
  Only c st (fst (dom_call fuel ct c st name len prefix dtype)).
Proof. exact only_dom_call. Qed.
Print Assumptions C15_objects_belong_to_the_class_called.

Theorem C15_complex_objects_belong_to_the_class_called : forall ct c st seq sst name prefix,
  Only c st (fst (cplx_call ct c st seq sst name prefix)).
Proof. exact only_cplx_call. Qed.
Print Assumptions C15_complex_objects_belong_to_the_class_called.

(* registries hold objects of exactly their class *)
Theorem C15_registry_values_have_the_class : forall ct st, Inv ct st ->
  forall c, c < length ct -> ClassOK (heap st) c (cget st c).
Proof. exact (fun ct st I => ok_cls ct st (proj1 I)). Qed.
Print Assumptions C15_registry_values_have_the_class.

(* a constructor that fails inside a user subclass (before or after super().__init__) never creates,
   and the refused request leaves no trace: same slots, registries, live objects *)
Theorem C15_failing_ctor_no_trace : forall ct st o a ci st' out,
  Inv ct st -> Collected st -> op_class st o = Some a -> nth_error ct a = Some ci -> c_fail ci <> FNone ->
  step ct st o = (st', out) ->
  (forall id, out <> Created id) /\ (forall k e, out = Raised k e -> Junk st st').
Proof. exact failing_ctor_no_trace. Qed.
Print Assumptions C15_failing_ctor_no_trace.

(* ---- reader slots: every object produced by the reader is an instance of exactly the configured class
   (in sessions satisfying the session invariant); refuted in mixed sessions (known finding) ---- *)
From Coq Require Import List NArith ZArith.
From DSD Require Import Base.Str Base.Errors Model.ComplexUtils Model.ReaderStr Model.Peg Model.Heap Model.Registry
  Model.Reader Model.ReaderShape Proofs.RegInv Proofs.ReaderBasic Proofs.ReaderStmt Proofs.ReaderHeap Proofs.ReaderInv
  Proofs.ReaderHoare Proofs.ReaderNoFault Proofs.ReaderThms Proofs.ReaderExamples.
From DSDGen Require Import ReaderConsts.
Import ListNotations.

Theorem C15_reader_classes : forall ct cd cs cc cm cr,
  cfg_okb ct cd cs cc cm cr = true ->
  forall ig lines r, forallb line_okb lines = true -> RGood ct cd cs cc cm cr r ->
  let st' := r_st (fst (read_pil ct (g cd cs cc cm cr) ig lines r)) in
  (forall i o, hget (heap st') i = Some o -> cls_kind_ok cd cs cc cm cr o) /\
  (forall c n i, c < length ct -> In (n, i) (cs_names (cget st' c)) -> cls_at (heap st') i = Some c) /\
  (forall c k i, c < length ct -> In (k, i) (cs_canon (cget st' c)) -> cls_at (heap st') i = Some c).
Proof. exact reader_classes. Qed.
Print Assumptions C15_reader_classes.

Theorem C15_reader_classes_refuted_in_mixed_sessions : created_outside_slots = [(2, 5, [97; 42]%N)].
Proof. exact reader_classes_refuted. Qed.
Print Assumptions C15_reader_classes_refuted_in_mixed_sessions.

