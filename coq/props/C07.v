(* C07 — Strand rotation is a structure-preserving relabelling.  Only property
   theorems: each is closed by `exact` and followed by Print Assumptions.

   Vocabulary (defined in Proofs/Rot*.v, independent of the rotation code):
     wf sst            the depth-counter well-formedness of C06 over ( ) . +
     aligned seq sst   the '+' entries of the sequence are exactly the '+' of the structure
     good x            aligned (fst x) (snd x) /\ wf (snd x)
     nstr sst          number of strands = 1 + number of '+'
     rot_left          [x0; x1; ...] |-> [x1; ...; x0]
     relabel n k       rotate_locus n k on every entry of a pair table
     rot_iter k        k-fold rotate_complex_once (model of the loop in ComplexS.rotate) *)
From Coq Require Import List NArith ZArith.
From DSD Require Import Base.Str Base.Errors Model.ComplexUtils Model.Rotation
  Proofs.RotLoc Proofs.RotTree Proofs.RotPairs Proofs.RotOnce Proofs.RotOrbit.
Import ListNotations.

(* rotate_complex_once never fails on a well-formed aligned complex and returns a
   well-formed aligned complex *)
Theorem C07_rot_once_wf : forall seq sst, aligned seq sst -> wf sst ->
  exists seq' sst', rotate_complex_once seq sst = Ok (seq', sst') /\ aligned seq' sst' /\ wf sst'.
Proof. exact rot_once_wf_lemma. Qed.
Print Assumptions C07_rot_once_wf.

(* the first strand moves behind the others, content unchanged; the strand table is
   cyclically shifted *)
Theorem C07_rot_once_strands : forall s0 rest sst seq' sst',
  Forall (fun x => x <> sPlus) s0 ->
  rotate_complex_once (s0 ++ sPlus :: rest) sst = Ok (seq', sst') ->
  seq' = rest ++ sPlus :: s0 /\
  (s0 <> [] ->
   make_strand_table_list sPlus seq' = rot_left (make_strand_table_list sPlus (s0 ++ sPlus :: rest))).
Proof. exact rot_once_strands_lemma. Qed.
Print Assumptions C07_rot_once_strands.

(* a single strand is returned unchanged *)
Theorem C07_rot_once_single_strand : forall seq sst seq' sst',
  Forall (fun x => x <> sPlus) seq -> rotate_complex_once seq sst = Ok (seq', sst') ->
  seq' = seq /\ sst' = sst.
Proof. exact rot_once_seq_single. Qed.
Print Assumptions C07_rot_once_single_strand.

(* the pair table of the rotated structure is the cyclically shifted table of the
   original with every locus (si, di) replaced by ((si + n - 1) mod n, di): the same
   set of base pairs under the strand re-indexing *)
Theorem C07_rot_once_pairs : forall seq sst, aligned seq sst -> wf sst ->
  exists seq' sst' T,
    rotate_complex_once seq sst = Ok (seq', sst') /\
    make_pair_table cP [cD] sst = Ok T /\
    make_pair_table cP [cD] sst' = Ok (relabel (length T) (-1) (rot_left T)).
Proof. exact rot_once_pairs_lemma. Qed.
Print Assumptions C07_rot_once_pairs.

(* n rotations of an n-stranded complex restore the original *)
Theorem C07_rot_once_order_n : forall x, good x -> rot_iter (nstr (snd x)) x = Ok x.
Proof. exact rot_orbit. Qed.
Print Assumptions C07_rot_once_order_n.

(* rotation is a bijection on well-formed aligned complexes and keeps the number of strands *)
Theorem C07_rot_once_injective : forall x y z, good x -> good y -> once x = Ok z -> once y = Ok z -> x = y.
Proof. exact rot_once_injective. Qed.
Print Assumptions C07_rot_once_injective.

Theorem C07_rot_once_surjective : forall z, good z -> exists x, good x /\ once x = Ok z.
Proof. exact rot_once_surjective. Qed.
Print Assumptions C07_rot_once_surjective.

Theorem C07_rot_once_strand_count : forall x y, good x -> once x = Ok y -> nstr (snd y) = nstr (snd x).
Proof. exact rot_once_nstr. Qed.
Print Assumptions C07_rot_once_strand_count.

(* ComplexS.rotate_pairtable_loc: one turn sends strand si to (si + n - 1) mod n,
   turns add up, n turns are the identity, and it is the relabelling that one
   step of rotate_complex_once induces on pair-table loci *)
Theorem C07_rotate_loc_spec : forall (size : nat), (0 < size)%nat ->
  (forall si di, (0 <= si < Z.of_nat size)%Z ->
     rotate_pairtable_loc (si, di) 1 size = ((si + Z.of_nat size - 1) mod Z.of_nat size, di)%Z) /\
  (forall l n, (0 <= fst (rotate_pairtable_loc l n size) < Z.of_nat size)%Z) /\
  (forall l n m, rotate_pairtable_loc l (n + m) size
                 = rotate_pairtable_loc (rotate_pairtable_loc l n size) m size) /\
  (forall l, (0 <= fst l < Z.of_nat size)%Z -> rotate_pairtable_loc l (Z.of_nat size) size = l) /\
  (forall si di : nat, (si < size)%nat ->
     rotate_locus size (-1) (Some (si, di))
     = Some (Z.to_nat (fst (rotate_pairtable_loc (Z.of_nat si, Z.of_nat di) 1 size)), di)).
Proof. exact rotate_loc_spec_lemma. Qed.
Print Assumptions C07_rotate_loc_spec.
