(* C07 — Strand rotation is a structure-preserving relabelling.  Only property
   theorems: each is closed by `exact` and followed by Print Assumptions.

   Vocabulary (defined in Proofs/Rot*.v, independent of the rotation code):
     wf sst            the depth-counter well-formedness of C06 over ( ) . +
     aligned seq sst   the '+' entries of the sequence are exactly the '+' of the structure
     good x            aligned (fst x) (snd x) /\ wf (snd x)
     nstr sst          number of strands = 1 + number of '+'
     rot_left          [x0; x1; ...] |-> [x1; ...; x0]
     relabel n k       rotate_locus n k on every entry of a pair table
     rot_iter k        k-fold rotate_complex_once (model of the loop in ComplexS.rotate)
     NE seq            every strand of the sequence is non-empty (str.split semantics)
     goodNE x          good x /\ NE (fst x): the quantifier of the property
     rotT              rotate_complex_once as a total function (identity on error; never
                       taken on good input, see C07_rot_iter_total)
     tabs x            (make_strand_table (fst x), make_pair_table (snd x))
     stepP             one forced step of rotate_complex_pt on (strand table, pair table)
     rotations x       [x; rotT x; ...; rotT^(n-1) x],  n = nstr (snd x)
     back n k          (n - k) mod n *)
From Coq Require Import List NArith ZArith.
From DSD Require Import Proofs.Assoc Model.Canon.
From DSD Require Import Base.Str Base.Errors Model.ComplexUtils Model.Rotation
  Proofs.RotLoc Proofs.RotTree Proofs.RotPairs Proofs.RotOnce Proofs.RotOrbit Proofs.RotStrands
  Proofs.RotGen Proofs.RotTurns.
Import ListNotations.

(* rotate_complex_once never fails on a well-formed aligned complex and returns a
   well-formed aligned complex *)
Theorem C07_rot_once_wf : forall seq sst, aligned seq sst -> wf sst ->
  exists seq' sst', rotate_complex_once seq sst = Ok (seq', sst') /\ aligned seq' sst' /\ wf sst'.
Proof. exact rot_once_wf_lemma. Qed.
Print Assumptions C07_rot_once_wf.

(* the first strand moves behind the others, content unchanged; the strand table is
   cyclically shifted *)
Theorem C07_rot_once_strands : forall s0 rest sst seq' sst',
  Forall (fun x => x <> sPlus) s0 ->
  rotate_complex_once (s0 ++ sPlus :: rest) sst = Ok (seq', sst') ->
  seq' = rest ++ sPlus :: s0 /\
  (s0 <> [] ->
   make_strand_table_list sPlus seq' = rot_left (make_strand_table_list sPlus (s0 ++ sPlus :: rest))).
Proof. exact rot_once_strands_lemma. Qed.
Print Assumptions C07_rot_once_strands.

(* a single strand is returned unchanged *)
Theorem C07_rot_once_single_strand : forall seq sst seq' sst',
  Forall (fun x => x <> sPlus) seq -> rotate_complex_once seq sst = Ok (seq', sst') ->
  seq' = seq /\ sst' = sst.
Proof. exact rot_once_seq_single. Qed.
Print Assumptions C07_rot_once_single_strand.

(* the pair table of the rotated structure is the cyclically shifted table of the
   original with every locus (si, di) replaced by ((si + n - 1) mod n, di): the same
   set of base pairs under the strand re-indexing *)
Theorem C07_rot_once_pairs : forall seq sst, aligned seq sst -> wf sst ->
  exists seq' sst' T,
    rotate_complex_once seq sst = Ok (seq', sst') /\
    make_pair_table cP [cD] sst = Ok T /\
    make_pair_table cP [cD] sst' = Ok (relabel (length T) (-1) (rot_left T)).
Proof. exact rot_once_pairs_lemma. Qed.
Print Assumptions C07_rot_once_pairs.

(* the same read pointwise: a is paired with b (resp. unpaired) in the original iff
   rho a is paired with rho b (resp. unpaired) in the rotation, rho = rotate_locus n (-1),
   the map reported by rotate_pairtable_loc(., 1) (see C07_rotate_loc_spec) *)
Theorem C07_rot_once_pairs_pointwise : forall seq sst, aligned seq sst -> wf sst ->
  exists seq' sst' T T',
    rotate_complex_once seq sst = Ok (seq', sst') /\
    make_pair_table cP [cD] sst = Ok T /\ make_pair_table cP [cD] sst' = Ok T' /\
    length T' = length T /\
    forall a b, fst a < length T ->
      (get T a = Some (Some b) ->
       get T' (rloc (length T) (-1) a) = Some (Some (rloc (length T) (-1) b))) /\
      (get T a = Some None -> get T' (rloc (length T) (-1) a) = Some None).
Proof. exact rot_once_pairs_pointwise. Qed.
Print Assumptions C07_rot_once_pairs_pointwise.

(* n rotations of an n-stranded complex restore the original *)
Theorem C07_rot_once_order_n : forall x, good x -> rot_iter (nstr (snd x)) x = Ok x.
Proof. exact rot_orbit. Qed.
Print Assumptions C07_rot_once_order_n.

(* rotation is a bijection on well-formed aligned complexes and keeps the number of strands *)
Theorem C07_rot_once_injective : forall x y z, good x -> good y -> once x = Ok z -> once y = Ok z -> x = y.
Proof. exact rot_once_injective. Qed.
Print Assumptions C07_rot_once_injective.

Theorem C07_rot_once_surjective : forall z, good z -> exists x, good x /\ once x = Ok z.
Proof. exact rot_once_surjective. Qed.
Print Assumptions C07_rot_once_surjective.

Theorem C07_rot_once_strand_count : forall x y, good x -> once x = Ok y -> nstr (snd y) = nstr (snd x).
Proof. exact rot_once_nstr. Qed.
Print Assumptions C07_rot_once_strand_count.

(* ComplexS.rotate_pairtable_loc: one turn sends strand si to (si + n - 1) mod n,
   turns add up, n turns are the identity, and it is the relabelling that one
   step of rotate_complex_once induces on pair-table loci *)
Theorem C07_rotate_loc_spec : forall (size : nat), (0 < size)%nat ->
  (forall si di, (0 <= si < Z.of_nat size)%Z ->
     rotate_pairtable_loc (si, di) 1 size = ((si + Z.of_nat size - 1) mod Z.of_nat size, di)%Z) /\
  (forall l n, (0 <= fst (rotate_pairtable_loc l n size) < Z.of_nat size)%Z) /\
  (forall l n m, rotate_pairtable_loc l (n + m) size
                 = rotate_pairtable_loc (rotate_pairtable_loc l n size) m size) /\
  (forall l, (0 <= fst l < Z.of_nat size)%Z -> rotate_pairtable_loc l (Z.of_nat size) size = l) /\
  (forall si di : nat, (si < size)%nat ->
     rotate_locus size (-1) (Some (si, di))
     = Some (Z.to_nat (fst (rotate_pairtable_loc (Z.of_nat si, Z.of_nat di) 1 size)), di)).
Proof. exact rotate_loc_spec_lemma. Qed.
Print Assumptions C07_rotate_loc_spec.

(* iterated rotation never fails on a well-formed aligned complex *)
Theorem C07_rot_iter_total : forall k x, good x -> rot_iter k x = Ok (Nat.iter k rotT x).
Proof. exact rot_iter_rotT. Qed.
Print Assumptions C07_rot_iter_total.

(* rotate_complex_pt's step is the inverse relabelling: on tables ... *)
Theorem C07_rot_pt_step_inverse_tables : forall n (st : list (list pstr)) T,
  0 < n -> length T = n -> tab_below n T ->
  rotate_pt_step (rot_left st) (step_tab n T) = (st, T) /\
  step_tab n (snd (rotate_pt_step st T)) = T.
Proof. exact pt_step_inverse_tab. Qed.
Print Assumptions C07_rot_pt_step_inverse_tables.

(* ... and on complexes: one step of rotate_complex_pt applied to the tables of the
   rotated complex gives back the tables of the original (the two families rotate
   in opposite directions) *)
Theorem C07_rot_pt_step_inverse : forall x, goodNE x -> stepP (tabs (rotT x)) = tabs x.
Proof. exact stepP_tabs. Qed.
Print Assumptions C07_rot_pt_step_inverse.

(* the constructor model accepts every complex of the quantifier (so the object-level
   generators below are what the dispatched operations compute) *)
Theorem C07_constructor_accepts : forall sq sst, goodNE (sq, sst) -> obj_construct sq sst = Ok tt.
Proof. exact obj_construct_ok. Qed.
Print Assumptions C07_constructor_accepts.

(* generators without a turn count: ComplexS.rotate() yields exactly the n rotations
   starting with the current representation ... *)
Theorem C07_generators_obj_rotate : forall seq sst, goodNE (seq, sst) ->
  obj_rotate seq sst None = Ok (rotations (seq, sst)).
Proof. exact obj_rotate_spec. Qed.
Print Assumptions C07_generators_obj_rotate.

(* ... ComplexS.rotate_pt() their strand and pair tables ... *)
Theorem C07_generators_obj_rotate_pt : forall seq sst, goodNE (seq, sst) ->
  obj_rotate_pt seq sst None = Ok (map tabs (rotations (seq, sst))).
Proof. exact obj_rotate_pt_spec. Qed.
Print Assumptions C07_generators_obj_rotate_pt.

(* ... rotate_complex_pt(stab, ptab) the same n table pairs in the opposite direction:
   its k-th element belongs to the ((n - k) mod n)-th rotation ... *)
Theorem C07_generators_rotate_complex_pt : forall x, goodNE x ->
  let n := nstr (snd x) in
  rotate_complex_pt n (fst (tabs x)) (snd (tabs x))
  = map (fun k => tabs (Nat.iter (back n k) rotT x)) (List.seq 0 n).
Proof. exact rotate_complex_pt_rotations. Qed.
Print Assumptions C07_generators_rotate_complex_pt.

(* ... and rotate_complex_db(seq, sst) the n rotations themselves, again with
   k-th element = ((n - k) mod n)-th element of rotate() *)
Theorem C07_generators_rotate_complex_db : forall sq sst, goodNE (sq, sst) ->
  let n := nstr sst in
  rotate_complex_db sq sst = Ok (map (fun k => Nat.iter (back n k) rotT (sq, sst)) (List.seq 0 n)).
Proof. exact rotate_complex_db_spec. Qed.
Print Assumptions C07_generators_rotate_complex_db.

(* ------------------------------------------------------------------ *)
(* Explicit turn counts (every Python int).  Vocabulary (Proofs/RotTurns.v):
     rcount t n k   forced steps carried by the k-th element of rotate_complex_pt(turns=t):
                    k if n <= t and t - n <= k, else k + 1  (the level turns = n is never rotated)
     inv n j        (n - j mod n) mod n: j forced steps of the pt family = inv n j
                    applications of rotate_complex_once
     obj_count t    S (Z.to_nat (t - 1)) = max(t, 1) *)

(* rotate_complex_pt(stab, ptab, turns): t = max(turns, 0) elements (n for None), the k-th
   carrying rcount t n k steps, on ANY tables with at least two rows ... *)
Theorem C07_turns_pt_tables : forall t (st : list (list pstr)) pt, 1 < length pt ->
  rotate_complex_pt t st pt
  = map (fun k => Nat.iter (rcount t (length pt) k) stepP (st, pt)) (List.seq 0 t).
Proof. exact rotate_complex_pt_turns_many. Qed.
Print Assumptions C07_turns_pt_tables.

(* ... and t unrotated copies for at most one row *)
Theorem C07_turns_pt_tables_single : forall t (st : list (list pstr)) pt, length pt <= 1 ->
  rotate_complex_pt t st pt = map (fun _ => (st, pt)) (List.seq 0 t).
Proof. exact rotate_complex_pt_turns_single. Qed.
Print Assumptions C07_turns_pt_tables_single.

(* on the tables of a complex: the k-th element is the table pair of the
   (inv n (rcount t n k))-fold rotate_complex_once; turns = None, negative, 0, < n, n, > n *)
Theorem C07_turns_rotate_complex_pt : forall x (turns : option Z), goodNE x ->
  let n := nstr (snd x) in
  let t := match turns with None => n | Some z => Z.to_nat z end in
  rotate_complex_pt_turns turns (fst (tabs x)) (snd (tabs x))
  = map (fun k => tabs (Nat.iter (inv n (rcount t n k)) rotT x)) (List.seq 0 t).
Proof. exact rotate_complex_pt_turns_Z. Qed.
Print Assumptions C07_turns_rotate_complex_pt.

(* rotate_complex_db(seq, sst, turns): never fails, same enumeration *)
Theorem C07_turns_rotate_complex_db : forall sq sst (turns : option Z), goodNE (sq, sst) ->
  let n := nstr sst in
  let t := match turns with None => n | Some z => Z.to_nat z end in
  rotate_complex_db_turns sq sst turns
  = Ok (map (fun k => Nat.iter (inv n (rcount t n k)) rotT (sq, sst)) (List.seq 0 t)).
Proof. exact rotate_complex_db_turns_spec. Qed.
Print Assumptions C07_turns_rotate_complex_db.

(* the three regimes of rcount, and periodicity of the step count *)
Theorem C07_turns_rcount : forall t n k,
  (t < n -> rcount t n k = S k) /\ rcount n n k = k /\
  (n <= t -> k < t - n -> rcount t n k = S k) /\ (n <= t -> t - n <= k -> rcount t n k = k).
Proof.
  exact (fun t n k => conj (rcount_below t n k) (conj (rcount_exact n k)
           (conj (rcount_above_early t n k) (rcount_above_late t n k)))).
Qed.
Print Assumptions C07_turns_rcount.

Theorem C07_turns_period : forall n j, inv n (j + n) = inv n j.
Proof. exact inv_period. Qed.
Print Assumptions C07_turns_period.

(* the model with turns = None is the rotate_complex_db of the C06/C07 model, and the
   explicit count n is the turns = None enumeration (both utility generators) *)
Theorem C07_turns_db_none : forall sq sst, rotate_complex_db_turns sq sst None = rotate_complex_db sq sst.
Proof. exact rotate_complex_db_turns_None. Qed.
Print Assumptions C07_turns_db_none.

Theorem C07_turns_db_n_is_none : forall sq sst, goodNE (sq, sst) ->
  rotate_complex_db_turns sq sst (Some (Z.of_nat (nstr sst))) = rotate_complex_db sq sst.
Proof. exact rotate_complex_db_turns_n. Qed.
Print Assumptions C07_turns_db_n_is_none.

Theorem C07_turns_pt_n_is_none : forall x, goodNE x ->
  rotate_complex_pt_turns (Some (Z.of_nat (nstr (snd x)))) (fst (tabs x)) (snd (tabs x))
  = rotate_complex_pt_turns None (fst (tabs x)) (snd (tabs x)).
Proof. exact rotate_complex_pt_turns_n. Qed.
Print Assumptions C07_turns_pt_n_is_none.

(* ComplexS.rotate(turns=t) / rotate_pt(turns=t): max(t, 1) elements, the k-th being the
   k-fold rotate_complex_once (resp. its tables) *)
Theorem C07_turns_obj_rotate : forall sq sst (t : Z), goodNE (sq, sst) ->
  obj_rotate sq sst (Some t) = Ok (map (fun k => Nat.iter k rotT (sq, sst)) (List.seq 0 (obj_count t))).
Proof. exact obj_rotate_turns_spec. Qed.
Print Assumptions C07_turns_obj_rotate.

Theorem C07_turns_obj_rotate_pt : forall sq sst (t : Z), goodNE (sq, sst) ->
  obj_rotate_pt sq sst (Some t)
  = Ok (map (fun k => tabs (Nat.iter k rotT (sq, sst))) (List.seq 0 (obj_count t))).
Proof. exact obj_rotate_pt_turns_spec. Qed.
Print Assumptions C07_turns_obj_rotate_pt.

Theorem C07_turns_obj_n_is_none : forall sq sst, goodNE (sq, sst) ->
  obj_rotate sq sst (Some (Z.of_nat (nstr sst))) = obj_rotate sq sst None /\
  obj_rotate_pt sq sst (Some (Z.of_nat (nstr sst))) = obj_rotate_pt sq sst None.
Proof. exact obj_rotate_turns_n. Qed.
Print Assumptions C07_turns_obj_n_is_none.

(* the object family is periodic with period n *)
Theorem C07_turns_obj_periodic : forall x k, good x ->
  Nat.iter (k + nstr (snd x)) rotT x = Nat.iter k rotT x /\
  Nat.iter k rotT x = Nat.iter (k mod nstr (snd x)) rotT x.
Proof. exact obj_rotate_periodic. Qed.
Print Assumptions C07_turns_obj_periodic.

(* the object record of Model/Canon.v (C02/C03) computes the same generator *)
Theorem C07_turns_cobj_rotate : forall o (t : nat), goodNE (Canon.o_seq o, Canon.o_struct o) ->
  Canon.cobj_rotate o t
  = Ok (map (fun k => Nat.iter k rotT (Canon.o_seq o, Canon.o_struct o)) (List.seq 0 (S (t - 1)))).
Proof. exact cobj_rotate_spec. Qed.
Print Assumptions C07_turns_cobj_rotate.
