(* C07 — Strand rotation is a structure-preserving relabelling.  Only property
   theorems: each is closed by `exact` and followed by Print Assumptions. *)
From Coq Require Import List NArith ZArith.
From DSD Require Import Base.Str Base.Errors Model.ComplexUtils Model.Rotation Proofs.RotLoc.
Import ListNotations.

(* ComplexS.rotate_pairtable_loc: one turn sends strand si to (si + n - 1) mod n,
   turns add up, n turns are the identity, and it is the relabelling that one
   step of rotate_complex_once induces on pair-table loci *)
Theorem C07_rotate_loc_spec : forall (size : nat), (0 < size)%nat ->
  (forall si di, (0 <= si < Z.of_nat size)%Z ->
     rotate_pairtable_loc (si, di) 1 size = ((si + Z.of_nat size - 1) mod Z.of_nat size, di)%Z) /\
  (forall l n, (0 <= fst (rotate_pairtable_loc l n size) < Z.of_nat size)%Z) /\
  (forall l n m, rotate_pairtable_loc l (n + m) size
                 = rotate_pairtable_loc (rotate_pairtable_loc l n size) m size) /\
  (forall l, (0 <= fst l < Z.of_nat size)%Z -> rotate_pairtable_loc l (Z.of_nat size) size = l) /\
  (forall si di : nat, (si < size)%nat ->
     rotate_locus size (-1) (Some (si, di))
     = Some (Z.to_nat (fst (rotate_pairtable_loc (Z.of_nat si, Z.of_nat di) 1 size)), di)).
Proof. exact rotate_loc_spec_lemma. Qed.
Print Assumptions C07_rotate_loc_spec.
