(* C16 — static clause: no function of the package can fail with NameError,
   because every global name it references is defined.  global_refs and
   module_names are regenerated from the bytecode of the current tree. *)
From Coq Require Import NArith List.
From DSD Require Import Proofs.C16Globals.
From DSDGen Require Import GlobalNames.
Import ListNotations.

Theorem C16_every_referenced_global_is_defined : forall m line n,
  In (m, line, n) global_refs ->
  exists ns, mlookup m module_names = Some ns /\ In n ns.
Proof. exact globals_defined. Qed.
Print Assumptions C16_every_referenced_global_is_defined.

(* ---- dynamic clauses, on the reader model (Model/Reader.v, Proofs/Reader*.v): `line_okb` is the shape of the
   token trees the grammar returns, `RGood` the session invariant, `cfg_okb` a usable class configuration ---- *)
From Coq Require Import List NArith ZArith.
From DSD Require Import Base.Str Base.Errors Model.ComplexUtils Model.ReaderStr Model.Peg Model.Heap Model.Registry
  Model.Reader Model.ReaderShape Proofs.RegInv Proofs.ReaderBasic Proofs.ReaderStmt Proofs.ReaderHeap Proofs.ReaderInv
  Proofs.ReaderHoare Proofs.ReaderNoFault Proofs.ReaderThms Proofs.ReaderExamples.
From DSDGen Require Import ReaderConsts.
Import ListNotations.

Theorem C16_session_starts_good : forall ct cd cs cc cm cr n, RGood ct cd cs cc cm cr (rinit (init ct n)).
Proof. exact rgood_init. Qed.
Print Assumptions C16_session_starts_good.

Theorem C16_reader_keeps_session_good : forall ct cd cs cc cm cr,
  cfg_okb ct cd cs cc cm cr = true ->
  forall ig lines r, forallb line_okb lines = true -> RGood ct cd cs cc cm cr r ->
  RGood ct cd cs cc cm cr (fst (read_pil ct (g cd cs cc cm cr) ig lines r)).
Proof. exact reader_keeps_good. Qed.
Print Assumptions C16_reader_keeps_session_good.

Theorem C16_reader_no_fault : forall ct cd cs cc cm cr,
  cfg_okb ct cd cs cc cm cr = true ->
  forall ig lines r, forallb line_okb lines = true -> RGood ct cd cs cc cm cr r ->
  forall r' k, read_pil ct (g cd cs cc cm cr) ig lines r = (r', Err k) -> is_fault k = false.
Proof. exact reader_no_fault. Qed.
Print Assumptions C16_reader_no_fault.

Theorem C16_reader_no_fault_base_classes : forall ig lines,
  forallb line_okb lines = true ->
  forall r' k, read_pil base_ctable base_g ig lines (rinit (init base_ctable 0)) = (r', Err k) -> is_fault k = false.
Proof. exact reader_no_fault_base. Qed.
Print Assumptions C16_reader_no_fault_base_classes.

Theorem C16_base_configuration_usable : cfg_of base_slots = Some base_g /\ cfg_okb base_ctable 0 2 1 3 4 = true.
Proof. exact base_cfg_usable. Qed.
Print Assumptions C16_base_configuration_usable.

Theorem C16_ignored_reaction_decodes_to_other : forall line ri,
  tnth line 0 = Ok (TStr tReaction) -> read_reaction line = Ok ri -> reaction_ignored ri = true ->
  decode line = Ok SOther.
Proof. exact ignored_reactions_survive. Qed.
Print Assumptions C16_ignored_reaction_decodes_to_other.

Theorem C16_ignored_line_survives : forall ct cd cs cc cm cr line acc r,
  decode line = Ok SOther ->
  read_one ct (g cd cs cc cm cr) None (TList line) acc r =
    (with_st r (collect (r_st r)),
     Ok (mkOut (po_domains acc) (po_strands acc) (po_complexes acc) (po_macrostates acc)
               (po_det acc) (po_con acc) (po_other acc ++ [line]))).
Proof. exact ignored_line_survives. Qed.
Print Assumptions C16_ignored_line_survives.

Theorem C16_failed_read_keeps_held : forall ct cd cs cc cm cr,
  cfg_okb ct cd cs cc cm cr = true ->
  forall ig lines r r' k, forallb line_okb lines = true -> RGood ct cd cs cc cm cr r ->
  read_pil ct (g cd cs cc cm cr) ig lines r = (r', Err k) ->
  roots (r_st r') = roots (r_st r) /\
  forall s i, nth_error (roots (r_st r)) s = Some (Some i) ->
    exists o o', hget (heap (r_st r)) i = Some o /\ hget (heap (r_st r')) i = Some o' /\ okill o o' /\
                 o_live o' = true /\ Registered (r_st r') i o'.
Proof. exact failed_read_keeps_held. Qed.
Print Assumptions C16_failed_read_keeps_held.


(* ---- every token tree the parser can return is well-shaped: the hypothesis `forallb line_okb lines` of the
   theorems above holds for everything read_pil can receive from the grammar (Proofs/PilShape.v) ---- *)
From DSD Require Import Model.DispatchReader Proofs.PilShape Proofs.PilShapeReader.
From DSDGen Require Import PilGrammar.

Theorem C16_grammar_shape : forall f text p toks,
  parse_string_fuel pil_grammar f text = POk p toks -> forallb line_okb toks = true.
Proof. exact pil_grammar_shape. Qed.
Print Assumptions C16_grammar_shape.

Theorem C16_parse_lines_eq : forall text, parse_lines text =
  match parse_string pil_grammar text with POk _ toks => Ok toks | _ => Err eParse end.
Proof. exact parse_lines_eq. Qed.
Print Assumptions C16_parse_lines_eq.
