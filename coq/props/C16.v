(* C16 — static clause: no function of the package can fail with NameError,
   because every global name it references is defined.  global_refs and
   module_names are regenerated from the bytecode of the current tree. *)
From Coq Require Import NArith List.
From DSD Require Import Proofs.C16Globals.
From DSDGen Require Import GlobalNames.
Import ListNotations.

Theorem C16_every_referenced_global_is_defined : forall m line n,
  In (m, line, n) global_refs ->
  exists ns, mlookup m module_names = Some ns /\ In n ns.
Proof. exact globals_defined. Qed.
Print Assumptions C16_every_referenced_global_is_defined.
