(* C04 — Domain complementarity: involutive, unique, always of equal length.
   Only property theorems: each is closed by `exact` and followed by Print Assumptions.
   The model: Model/Registry.v (DomainS.identifiers with its nested constructor calls,
   __init__, complement, dtype; arbitrary class table = arbitrary class constants). *)
From Coq Require Import List NArith ZArith.
From DSD Require Import Base.Str Base.Errors Model.ComplexUtils Model.RegStr Model.Heap Model.Registry
  Proofs.RegistryBasic Proofs.RegHeap Proofs.RegInv Proofs.RegCalls Proofs.RegExt Proofs.RegC04 Proofs.RegStep
  Proofs.RegC04b Proofs.RegExamples Proofs.RegFull Proofs.RegRelease Proofs.RegInvert Proofs.RegFuel.
Import ListNotations.

(* CompOK: x and x* (x unstarred) live in one class have equal lengths.  It holds initially ... *)
Theorem C04_CompOK_init : forall ct n, Good ct (init ct n).
Proof. exact good_init. Qed.
Print Assumptions C04_CompOK_init.

(* ... is preserved by EVERY step of EVERY operation on EVERY class (any order of creation, look-up,
   complement, drop), for arbitrary class constants and arbitrary lengths: zero, negative and default
   lengths included, no guard  (Good = registry invariant + collected + CompOK + non-empty names + kinds) ... *)
Theorem C04_CompOK_step : forall ct st o,
  Good ct st -> Good ct (fst (step ct st o)).
Proof. exact good_step. Qed.
Print Assumptions C04_CompOK_step.

(* ... hence holds in every reachable state *)
Theorem C04_CompOK_reachable : forall ct n ops, Good ct (run ct (init ct n) ops).
Proof. exact good_reachable. Qed.
Print Assumptions C04_CompOK_reachable.

(* the restriction to names with an unstarred base cannot be dropped: the faithful model refutes the
   statement for x* / x** (the witness replays on the implementation) *)
Theorem C04_CompOK_refuted_for_double_star :
  exists ops, ~ CompOK_any_base (run ctD (init ctD 2) ops).
Proof. exact CompOK_refuted_for_double_star. Qed.
Print Assumptions C04_CompOK_refuted_for_double_star.

(* ~d: what it returns has the toggled name, d's length and d's class *)
Theorem C04_invert_spec : forall ct st i ob l o b,
  Good ct st -> live_obj (heap st) i ob -> o_data ob = DDom l ->
  snd (dom_complement ct st i) = CRet o b ->
  exists oo, live_obj (heap (fst (dom_complement ct st i))) o oo /\
             o_cls oo = o_cls ob /\ o_name oo = cname_of (o_name ob) /\ o_data oo = DDom l.
Proof. exact invert_spec. Qed.
Print Assumptions C04_invert_spec.

(* ~~d is d *)
Theorem C04_invert_involutive : forall ct st i ob l o oo o2 b2,
  Good ct st -> live_obj (heap st) i ob -> o_data ob = DDom l -> base_unstarred (o_name ob) ->
  live_obj (heap st) o oo -> o_cls oo = o_cls ob -> o_name oo = cname_of (o_name ob) -> o_data oo = DDom l ->
  snd (dom_complement ct st o) = CRet o2 b2 -> o2 = i.
Proof. exact invert_involutive. Qed.
Print Assumptions C04_invert_involutive.

(* the complement is unique: one live object per name in a class *)
Theorem C04_complement_unique : forall ct st i j oi oj,
  Inv ct st -> live_obj (heap st) i oi -> live_obj (heap st) j oj ->
  o_cls oi = o_cls oj -> o_name oi = o_name oj -> i = j /\ oi = oj.
Proof. exact uniq_name. Qed.
Print Assumptions C04_complement_unique.

(* d.dtype is 'short' exactly when the length is at most the class cutoff (any class constants) *)
Theorem C04_dtype_short_iff : forall ct h o l ci,
  o_data o = DDom l -> nth_error ct (o_cls o) = Some ci ->
  (query_obj ct h o QDtype = Ok (QS sShort) <-> (l <= c_cutoff ci)%Z).
Proof. exact dtype_short_iff. Qed.
Print Assumptions C04_dtype_short_iff.

(* dtype-only requests receive the class default lengths *)
Theorem C04_dtype_only_default : forall ci,
  dom_len1 ci None (Some sShort) = Ok (Some (c_short ci)) /\
  dom_len1 ci None (Some sLong) = Ok (Some (c_long ci)) /\
  dom_len1 ci None None = Ok None.
Proof. exact dtype_only_default. Qed.
Print Assumptions C04_dtype_only_default.

(* contradictory dtype and length are rejected with ObjectInitError, consistent ones accepted *)
Theorem C04_dtype_conflict : forall ci l,
  ((l <= c_cutoff ci)%Z -> dom_len1 ci (Some l) (Some sLong) = Err eObjectInit) /\
  ((l > c_cutoff ci)%Z -> dom_len1 ci (Some l) (Some sShort) = Err eObjectInit) /\
  ((l <= c_cutoff ci)%Z -> dom_len1 ci (Some l) (Some sShort) = Ok (Some l)) /\
  ((l > c_cutoff ci)%Z -> dom_len1 ci (Some l) (Some sLong) = Ok (Some l)).
Proof. exact dtype_conflict. Qed.
Print Assumptions C04_dtype_conflict.

(* ... and the refused request changes nothing *)
Theorem C04_dtype_conflict_no_change : forall fuel ct c st ci name l dtype prefix nm,
  nth_error ct c = Some ci ->
  resolve_name ct st c ci name prefix = Ok nm ->
  dom_len1 ci (Some l) dtype = Err eObjectInit ->
  dom_call (S fuel) ct c st name (Some l) prefix dtype = (st, CErr eObjectInit None).
Proof. exact dtype_conflict_no_change. Qed.
Print Assumptions C04_dtype_conflict_no_change.

(* ~d is never refused: in every Good state, for a live domain d (of any length: identifiers reads the
   attribute `length`, not len()) whose name has an unstarred, non-empty base, in a non-failing class, ~d
   returns or creates (with C04_invert_spec: the right object) *)
Theorem C04_invert_never_refused : forall ct st dst src i ob l ci,
  Good ct st -> get_root st src = Some i -> live_obj (heap st) i ob -> o_data ob = DDom l ->
  base_unstarred (o_name ob) -> nonempty (cname_of (o_name ob)) = true ->
  nth_error ct (o_cls ob) = Some ci -> c_fail ci = FNone ->
  exists o, snd (step ct st (OComplement dst src)) = Returned o \/ snd (step ct st (OComplement dst src)) = Created o.
Proof. exact invert_never_refused. Qed.
Print Assumptions C04_invert_never_refused.

(* the fuel of the identifiers <-> cls(...) recursion: k trailing stars need fuel k + 3; the fuel 8 used by
   `step` never runs out for (resolved) names with at most five trailing stars *)
Theorem C04_no_fuel : forall f ct c st name len prefix dtype k e,
  (forall ci nm len1, nth_error ct c = Some ci -> resolve_name ct st c ci name prefix = Ok nm ->
                      dom_len1 ci len dtype = Ok len1 -> need nm len1 <= S f) ->
  snd (dom_call (S f) ct c st name len prefix dtype) = CErr k e -> k <> eFuel.
Proof. exact no_fuel. Qed.
Print Assumptions C04_no_fuel.

Theorem C04_fuel_suffices : forall ct c st name len prefix dtype k e,
  (forall ci nm, nth_error ct c = Some ci -> resolve_name ct st c ci name prefix = Ok nm -> stars nm <= 5) ->
  snd (dom_call dom_fuel ct c st name len prefix dtype) = CErr k e -> k <> eFuel.
Proof. exact fuel_suffices. Qed.
Print Assumptions C04_fuel_suffices.
