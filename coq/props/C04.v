(* C04 — Domain complementarity: involutive, unique, always of equal length.
   Only property theorems: each is closed by `exact` and followed by Print Assumptions. *)
From Coq Require Import List NArith ZArith.
From DSD Require Import Base.Str Base.Errors Model.ComplexUtils Model.RegStr Model.Heap Model.Registry
  Proofs.RegistryBasic.
Import ListNotations.

(* d.dtype is 'short' exactly when the length is at most the class cutoff (any class constants) *)
Theorem C04_dtype_short_iff : forall ct h o l ci,
  o_data o = DDom l -> nth_error ct (o_cls o) = Some ci ->
  (query_obj ct h o QDtype = Ok (QS sShort) <-> (l <= c_cutoff ci)%Z).
Proof. exact dtype_short_iff. Qed.
Print Assumptions C04_dtype_short_iff.

(* dtype-only requests receive the class default lengths *)
Theorem C04_dtype_only_default : forall ci,
  dom_len1 ci None (Some sShort) = Ok (Some (c_short ci)) /\
  dom_len1 ci None (Some sLong) = Ok (Some (c_long ci)) /\
  dom_len1 ci None None = Ok None.
Proof. exact dtype_only_default. Qed.
Print Assumptions C04_dtype_only_default.

(* contradictory dtype and length are rejected with ObjectInitError, consistent ones accepted *)
Theorem C04_dtype_conflict : forall ci l,
  ((l <= c_cutoff ci)%Z -> dom_len1 ci (Some l) (Some sLong) = Err eObjectInit) /\
  ((l > c_cutoff ci)%Z -> dom_len1 ci (Some l) (Some sShort) = Err eObjectInit) /\
  ((l <= c_cutoff ci)%Z -> dom_len1 ci (Some l) (Some sShort) = Ok (Some l)) /\
  ((l > c_cutoff ci)%Z -> dom_len1 ci (Some l) (Some sLong) = Ok (Some l)).
Proof. exact dtype_conflict. Qed.
Print Assumptions C04_dtype_conflict.

(* ... and the refused request changes nothing *)
Theorem C04_dtype_conflict_no_change : forall fuel ct c st ci name l dtype prefix nm,
  nth_error ct c = Some ci ->
  resolve_name ct st c ci name prefix = Ok nm ->
  dom_len1 ci (Some l) dtype = Err eObjectInit ->
  dom_call (S fuel) ct c st name (Some l) prefix dtype = (st, CErr eObjectInit None).
Proof. exact dtype_conflict_no_change. Qed.
Print Assumptions C04_dtype_conflict_no_change.
