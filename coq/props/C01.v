(* C01 — Singleton identity: one live object per name and per canonical form.
   Only property theorems: each is closed by `exact` and followed by Print Assumptions.
   RegOK/HeapOK are the invariants of Proofs/RegInv.v; Inv = RegOK /\ HeapOK. *)
From Coq Require Import List NArith ZArith.
From DSD Require Import Base.Str Base.Errors Model.ComplexUtils Model.RegStr Model.Heap Model.Registry
  Proofs.RegHeap Proofs.RegInv Proofs.RegCalls Proofs.RegExt Proofs.RegC04 Proofs.RegStep Proofs.RegC01 Proofs.RegIds Proofs.RegIds2 Proofs.RegExamples Proofs.RegFull.
Import ListNotations.

Theorem C01_RegOK_init : forall ct n, Inv ct (init ct n).
Proof. exact inv_init. Qed.
Print Assumptions C01_RegOK_init.

(* preserved by every step: all five classes, subclasses, failing constructors, every operation *)
Theorem C01_RegOK_step : forall ct st o, Inv ct st -> Inv ct (fst (step ct st o)).
Proof. exact inv_step. Qed.
Print Assumptions C01_RegOK_step.

Theorem C01_RegOK_reachable : forall ct n ops, Inv ct (run ct (init ct n) ops).
Proof. exact inv_reachable. Qed.
Print Assumptions C01_RegOK_reachable.

(* (d) at most one live object per name and per canonical form in a class *)
Theorem C01_one_live_object_per_name : forall ct st i j oi oj,
  Inv ct st -> live_obj (heap st) i oi -> live_obj (heap st) j oj ->
  o_cls oi = o_cls oj -> o_name oi = o_name oj -> i = j.
Proof. exact one_per_name. Qed.
Print Assumptions C01_one_live_object_per_name.

Theorem C01_one_live_object_per_canonical_form : forall ct st i j oi oj,
  Inv ct st -> live_obj (heap st) i oi -> live_obj (heap st) j oj ->
  o_cls oi = o_cls oj -> o_key oi = o_key oj -> i = j.
Proof. exact one_per_canon. Qed.
Print Assumptions C01_one_live_object_per_canonical_form.

(* (b),(c) both keys lead to the same object *)
Theorem C01_both_keys_lead_to_the_object : forall ct st i o,
  Inv ct st -> live_obj (heap st) i o ->
  nlookup (o_name o) (cs_names (cget st (o_cls o))) = Some i /\
  klookup (o_key o) (cs_canon (cget st (o_cls o))) = Some i.
Proof. exact both_keys_lead_to_it. Qed.
Print Assumptions C01_both_keys_lead_to_the_object.

(* (a) registries hold live objects of exactly their class, under their own name / one of the keys
   registered for them at creation (rotations of the input, for complexes); no key is bound twice *)
Theorem C01_registry_entries : forall ct st c,
  Inv ct st -> c < length ct ->
  (forall n i, nlookup n (cs_names (cget st c)) = Some i ->
      exists o, live_obj (heap st) i o /\ o_cls o = c /\ o_name o = n) /\
  (forall k i, klookup k (cs_canon (cget st c)) = Some i ->
      exists o, live_obj (heap st) i o /\ o_cls o = c /\ In k (o_keys o)) /\
  NoDup (map fst (cs_names (cget st c))) /\ NoDup (map fst (cs_canon (cget st c))).
Proof. exact registry_entries. Qed.
Print Assumptions C01_registry_entries.

(* construct_consistent: name and canonical form resolve to the same live object => that object *)
Theorem C01_construct_consistent : forall cs name k o,
  nonempty name = true -> nlookup name (cs_names cs) = Some o -> klookup k (cs_canon cs) = Some o ->
  sing_lookup cs name (Some k) = LFound o.
Proof. exact lookup_consistent. Qed.
Print Assumptions C01_construct_consistent.

(* construct_conflict, at the look-up: a refusal means exactly one key resolves or they resolve to
   different objects; `existing`, when set, is the owner of the canonical form and the name is free *)
Theorem C01_construct_conflict_lookup : forall cs name k e,
  sing_lookup cs name (Some k) = LRaise e ->
  (forall x, e = Some x -> klookup k (cs_canon cs) = Some x /\ nlookup name (cs_names cs) = None) /\
  (nonempty name = true ->
   match nlookup name (cs_names cs), klookup k (cs_canon cs) with
   | Some a, Some b => a <> b
   | None, None => False
   | _, _ => True
   end).
Proof. exact lookup_conflict. Qed.
Print Assumptions C01_construct_conflict_lookup.

(* construct_conflict, for whole operations (all classes, any raised kind incl. ObjectInitError,
   NotImplementedError, AssertionError, a failing user constructor): the state is the same up to dead
   temporaries (same slots, same registries, same live objects) and `existing` is a live canon owner *)
Theorem C01_construct_conflict : forall ct st o st' k e,
  Inv ct st -> Collected st -> step ct st o = (st', Raised k e) ->
  Junk st st' /\
  (forall x, e = Some x -> is_live (heap st') x = true /\ exists c, Owner st c x).
Proof. exact step_conflict. Qed.
Print Assumptions C01_construct_conflict.

Theorem C01_unchanged_means : forall st s,
  Junk st s ->
  roots s = roots st /\
  (forall c, cs_names (cget s c) = cs_names (cget st c) /\ cs_canon (cget s c) = cs_canon (cget st c)) /\
  (forall i o, live_obj (heap s) i o <-> live_obj (heap st) i o).
Proof. exact junk_observables. Qed.
Print Assumptions C01_unchanged_means.

(* name_only: a name-only request is a pure look-up of the name registry *)
Theorem C01_name_only : forall cs name,
  nonempty name = true ->
  sing_lookup cs name None = match nlookup name (cs_names cs) with Some o => LFound o | None => LRaise None end.
Proof. exact lookup_name_only. Qed.
Print Assumptions C01_name_only.

(* (e) counters: unless the outcome is `Created` or a user constructor failed, no class counter moves *)
Theorem C01_counters : forall ct st o st' out,
  step ct st o = (st', out) -> (forall id, out <> Created id) -> (forall e, out <> Raised eUserFail e) ->
  IdsSame st st'.
Proof. exact counters_step. Qed.
Print Assumptions C01_counters.

(* (e) exact: one step moves at most the counter of the class addressed, by +1 from the value that
   class sees (its own ID or the inherited one), and only when an object was constructed *)
Theorem C01_counters_exact : forall ct st o c,
  let s' := fst (step ct st o) in
  cs_id (cget s' c) = cs_id (cget st c) \/
  (exists z, class_id ct st c = Some z /\ cs_id (cget s' c) = Some (z + 1)%Z /\
             constructed (snd (step ct st o)) = true).
Proof. exact counters_exact. Qed.
Print Assumptions C01_counters_exact.

(* name_only for domains, whole operations: the only object a name-only request creates is x* from a
   live x, with x's length (names whose base is unstarred) ... *)
Theorem C01_name_only_domain : forall ct st dst c n st' id,
  Good ct st -> base_unstarred n ->
  step ct st (ODomain dst c (Some n) None None None) = (st', Created id) ->
  starred n = true /\
  exists p op l oo, live_obj (heap st) p op /\ o_cls op = c /\ o_name op = cname_of n /\ o_data op = DDom l /\
                    hget (heap st') id = Some oo /\ o_data oo = DDom l /\ o_name oo = n /\ o_cls oo = c.
Proof. exact name_only_domain. Qed.
Print Assumptions C01_name_only_domain.

(* ... and the guard is necessary: DomainS('a', 5); DomainS('a**') creates a** through a temporary a* *)
Theorem C01_name_only_domain_refuted_for_double_star : ~ name_only_domain_full.
Proof. exact name_only_domain_full_refuted. Qed.
Print Assumptions C01_name_only_domain_refuted_for_double_star.
