(* C01 — Singleton identity: one live object per name and per canonical form.
   Only property theorems: each is closed by `exact` and followed by Print Assumptions.
   RegOK/HeapOK are the invariants of Proofs/RegInv.v; Inv = RegOK /\ HeapOK. *)
From Coq Require Import List NArith ZArith.
From DSD Require Import Base.Str Base.Errors Model.ComplexUtils Model.RegStr Model.Heap Model.Registry
  Proofs.RegHeap Proofs.RegInv Proofs.RegCalls Proofs.RegExt Proofs.RegC04 Proofs.RegStep Proofs.RegC01 Proofs.RegIds.
Import ListNotations.

Theorem C01_RegOK_init : forall ct n, Inv ct (init ct n).
Proof. exact inv_init. Qed.
Print Assumptions C01_RegOK_init.

(* preserved by every step: all five classes, subclasses, failing constructors, every operation *)
Theorem C01_RegOK_step : forall ct st o, Inv ct st -> Inv ct (fst (step ct st o)).
Proof. exact inv_step. Qed.
Print Assumptions C01_RegOK_step.

Theorem C01_RegOK_reachable : forall ct n ops, Inv ct (run ct (init ct n) ops).
Proof. exact inv_reachable. Qed.
Print Assumptions C01_RegOK_reachable.

(* (d) at most one live object per name and per canonical form in a class *)
Theorem C01_one_live_object_per_name : forall ct st i j oi oj,
  Inv ct st -> live_obj (heap st) i oi -> live_obj (heap st) j oj ->
  o_cls oi = o_cls oj -> o_name oi = o_name oj -> i = j.
Proof. exact one_per_name. Qed.
Print Assumptions C01_one_live_object_per_name.

Theorem C01_one_live_object_per_canonical_form : forall ct st i j oi oj,
  Inv ct st -> live_obj (heap st) i oi -> live_obj (heap st) j oj ->
  o_cls oi = o_cls oj -> o_key oi = o_key oj -> i = j.
Proof. exact one_per_canon. Qed.
Print Assumptions C01_one_live_object_per_canonical_form.

(* (b),(c) both keys lead to the same object *)
Theorem C01_both_keys_lead_to_the_object : forall ct st i o,
  Inv ct st -> live_obj (heap st) i o ->
  nlookup (o_name o) (cs_names (cget st (o_cls o))) = Some i /\
  klookup (o_key o) (cs_canon (cget st (o_cls o))) = Some i.
Proof. exact both_keys_lead_to_it. Qed.
Print Assumptions C01_both_keys_lead_to_the_object.

(* (a) registries hold live objects of exactly their class, under their own name / one of the keys
   registered for them at creation (rotations of the input, for complexes); no key is bound twice *)
Theorem C01_registry_entries : forall ct st c,
  Inv ct st -> c < length ct ->
  (forall n i, nlookup n (cs_names (cget st c)) = Some i ->
      exists o, live_obj (heap st) i o /\ o_cls o = c /\ o_name o = n) /\
  (forall k i, klookup k (cs_canon (cget st c)) = Some i ->
      exists o, live_obj (heap st) i o /\ o_cls o = c /\ In k (o_keys o)) /\
  NoDup (map fst (cs_names (cget st c))) /\ NoDup (map fst (cs_canon (cget st c))).
Proof. exact registry_entries. Qed.
Print Assumptions C01_registry_entries.

(* construct_consistent: name and canonical form resolve to the same live object => that object *)
Theorem C01_construct_consistent : forall cs name k o,
  nonempty name = true -> nlookup name (cs_names cs) = Some o -> klookup k (cs_canon cs) = Some o ->
  sing_lookup cs name (Some k) = LFound o.
Proof. exact lookup_consistent. Qed.
Print Assumptions C01_construct_consistent.

(* construct_conflict, at the look-up: a refusal means exactly one key resolves or they resolve to
   different objects; `existing`, when set, is the owner of the canonical form and the name is free *)
Theorem C01_construct_conflict_lookup : forall cs name k e,
  sing_lookup cs name (Some k) = LRaise e ->
  (forall x, e = Some x -> klookup k (cs_canon cs) = Some x /\ nlookup name (cs_names cs) = None) /\
  (nonempty name = true ->
   match nlookup name (cs_names cs), klookup k (cs_canon cs) with
   | Some a, Some b => a <> b
   | None, None => False
   | _, _ => True
   end).
Proof. exact lookup_conflict. Qed.
Print Assumptions C01_construct_conflict_lookup.

(* construct_conflict, for whole operations (all classes, any raised kind incl. ObjectInitError,
   NotImplementedError, AssertionError, a failing user constructor): the state is the same up to dead
   temporaries (same slots, same registries, same live objects) and `existing` is a live canon owner *)
Theorem C01_construct_conflict : forall ct st o st' k e,
  Inv ct st -> Collected st -> step ct st o = (st', Raised k e) ->
  Junk st st' /\
  (forall x, e = Some x -> is_live (heap st') x = true /\ exists c, Owner st c x).
Proof. exact step_conflict. Qed.
Print Assumptions C01_construct_conflict.

Theorem C01_unchanged_means : forall st s,
  Junk st s ->
  roots s = roots st /\
  (forall c, cs_names (cget s c) = cs_names (cget st c) /\ cs_canon (cget s c) = cs_canon (cget st c)) /\
  (forall i o, live_obj (heap s) i o <-> live_obj (heap st) i o).
Proof. exact junk_observables. Qed.
Print Assumptions C01_unchanged_means.

(* name_only: a name-only request is a pure look-up of the name registry *)
Theorem C01_name_only : forall cs name,
  nonempty name = true ->
  sing_lookup cs name None = match nlookup name (cs_names cs) with Some o => LFound o | None => LRaise None end.
Proof. exact lookup_name_only. Qed.
Print Assumptions C01_name_only.

(* (e) counters: unless the outcome is `Created` or a user constructor failed, no class counter moves *)
Theorem C01_counters : forall ct st o st' out,
  step ct st o = (st', out) -> (forall id, out <> Created id) -> (forall e, out <> Raised eUserFail e) ->
  IdsSame st st'.
Proof. exact counters_step. Qed.
Print Assumptions C01_counters.
