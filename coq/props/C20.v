(* C20 — the legacy API (core/deprecated.py) computes the same answers as the
   current one.  lwc_*/lwob_* are regenerated from the legacy SequenceConstraint
   on every run (gen/LegacyIupac.v). *)
From Coq Require Import List NArith ZArith.
From DSD Require Import Base.Str Base.Errors Model.ComplexUtils Model.Rotation Model.Compare Model.Canon Model.Iupac
  Model.Legacy Proofs.RotOrbit Proofs.RotGen Proofs.C02 Proofs.C20.
Import ListNotations.

(* the in-place rotation search of DSD_Complex finds the canonical form of ComplexS *)
Theorem C20_legacy_canonical_form_is_the_current_one : forall x, goodNE x ->
  exists c r, legacy_canonical (fst x) (snd x) [] = LOk c r /\ canon_T x = Some c.
Proof. exact legacy_canonical_form_eq. Qed.
Print Assumptions C20_legacy_canonical_form_is_the_current_one.

(* with complex A registered, a request B is reported as a duplicate exactly when it
   is rotation-equivalent to A, i.e. when the current API would resolve it to A *)
Theorem C20_legacy_duplicate_detection : forall A B ca, goodNE A -> goodNE B -> canon_T A = Some ca ->
  ((exists i e, legacy_canonical (fst B) (snd B) [ca] = LDup i e) <-> canon_T B = Some ca).
Proof. exact legacy_duplicate_iff. Qed.
Print Assumptions C20_legacy_duplicate_detection.

(* legacy sequence constraints agree with iupac_utils wherever both are defined *)
Theorem C20_legacy_complements_agree : forall rna s,
  (forall a b, legacy_wc rna s = Ok a -> wc_complement rna s = Ok b -> a = b) /\
  (forall a b, legacy_wobble rna s = Ok a -> complement rna s = Ok b -> a = b) /\
  (forall a b, legacy_reverse_wc rna s = Ok a -> reverse_wc_complement rna s = Ok b -> a = b) /\
  (forall a b, legacy_reverse_wobble rna s = Ok a -> reverse_complement rna s = Ok b -> a = b).
Proof. exact legacy_complements_agree. Qed.
Print Assumptions C20_legacy_complements_agree.

(* the rotation distance the legacy complex records (`DSD_Complex.rotations`) denotes the same thing as `ComplexS.turns`:
   that many turns of the (common) canonical form give the presented representation, and it is smaller than the
   number of strands (Proofs/C20Rot.v) *)
From DSD Require Import Proofs.C20Rot.
Theorem C20_legacy_rotations_denote_the_presented_representation : forall x, goodNE x ->
  exists c r, legacy_canonical (fst x) (snd x) [] = LOk c r /\ canon_T x = Some c /\
              Nat.iter r rotT c = x /\ r < nstr (snd x).
Proof. exact legacy_rotations_vs_turns. Qed.
Print Assumptions C20_legacy_rotations_denote_the_presented_representation.

(* the distance reported with a duplicate: A registered (canonical form ca, `rotations` ra), a request B found to be its
   duplicate at variant e.  DSDDuplicationError.rotations = (size - e) - ra; wrapped into 0..size-1 (as the legacy
   rotate_pairtable_loc wraps it) it is the number of turns that leads from A's representation to B's, and
   `existing` is the registered object (index 0 of the memory) *)
Theorem C20_legacy_duplicate_distance : forall A B ca ra i e, goodNE A -> goodNE B ->
  legacy_canonical (fst A) (snd A) [] = LOk ca ra ->
  legacy_canonical (fst B) (snd B) [ca] = LDup i e ->
  let n := nstr (snd B) in
  i = 0 /\ 1 <= e <= n /\ nstr (snd A) = n /\
  B = Nat.iter (Z.to_nat (wrap (Z.of_nat (n - e) - Z.of_nat ra) (Z.of_nat n))) rotT A.
Proof. exact legacy_dup_rotations. Qed.
Print Assumptions C20_legacy_duplicate_distance.
