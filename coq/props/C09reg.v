(* C09 at object level on the registry machine (to be appended to props/C09.v): ComplexS.split().
   Only property theorems: each is closed by `exact` and followed by Print Assumptions. *)
From Coq Require Import List NArith ZArith.
From DSD Require Import Base.Str Base.Errors Model.ComplexUtils Model.Rotation Proofs.RotOrbit Proofs.RotGen Proofs.C02.
From DSD Require Import Model.RegStr Model.Heap Model.Registry Model.RegSplit
  Proofs.RegHeap Proofs.RegInv Proofs.RegCalls Proofs.RegC04 Proofs.RegStep Proofs.RegC02 Proofs.RegC09 Proofs.RegC09b Proofs.RegC09c.
Import ListNotations.

(* an automatically named request for a well-formed complex: it yields the owner of the canonical form
   (found or created), or it is refused with SingletonError without `existing`, nothing changed,
   EXACTLY when the automatic name prefix+ID is bound to a live object that is not that owner
   (this includes the recorded finding: the owner exists, no new object is needed, yet the name clashes) *)
Theorem C09_unnamed_request_outcome : forall ct st c ci es ss nm,
  Inv ct st -> ROK st -> DOK ct st -> class_kind ct c = Some KindC ->
  nth_error ct c = Some ci -> c_fail ci = FNone ->
  goodNE (map fst es, ss) ->
  resolve_name ct st c ci None None = Ok nm -> nonempty nm = true ->
  let r := cplx_call ct c st (Some es) (Some ss) None None in
  let y := (map fst es, ss) in
  (forall x, yielded (snd r) = Some x -> owner_of (fst r) c y x) /\
  (yielded (snd r) = None ->
     snd r = CErr eSingleton None /\ fst r = st /\
     exists j, nlookup nm (cs_names (cget st c)) = Some j /\
               klookup (KCplx y) (cs_canon (cget st c)) <> Some j) /\
  (forall j, nlookup nm (cs_names (cget st c)) = Some j ->
             klookup (KCplx y) (cs_canon (cget st c)) <> Some j -> snd r = CErr eSingleton None).
Proof. exact unnamed_request_outcome. Qed.
Print Assumptions C09_unnamed_request_outcome.

(* a registered rotation of a well-formed request means the request itself is registered, to the same object *)
Theorem C09_rotation_registered_all : forall ct st c y k i,
  Inv ct st -> ROK st -> DOK ct st -> class_kind ct c = Some KindC -> goodNE y ->
  klookup (KCplx (Nat.iter k rotT y)) (cs_canon (cget st c)) = Some i ->
  klookup (KCplx y) (cs_canon (cget st c)) = Some i.
Proof. exact rotation_registered_all. Qed.
Print Assumptions C09_rotation_registered_all.

(* split(): every yielded object is the canon owner of its component (the live one if there is one, a new
   one otherwise); the only way it raises is SingletonError without `existing`, at the first component whose
   automatic name is taken by a live complex that does not own it; the invariants hold afterwards *)
Theorem C09_split_objects : forall ct st dst src i ob ci parts,
  Inv ct st -> ROK st -> DOK ct st -> SplitReady ct st src i ob ci parts ->
  let r := split_op ct st dst src in
  Inv ct (fst r) /\ ROK (fst r) /\ DOK ct (fst r) /\ Collected (fst r) /\
  exists s' ys,
    Inv ct s' /\ roots s' = roots st ++ map Some ys /\ KeepsO st s' /\
    match snd r with
    | Yielded ids =>
        ids = ys /\ Forall2 (fun p x => owner_of s' (o_cls ob) (comp_of p) x) parts ids /\
        fst r = collect (store_from (trim_roots s' (length (roots st))) dst ids)
    | XOut (Raised k e) =>
        k = eSingleton /\ e = None /\
        exists done p rest, parts = done ++ p :: rest /\
                            Forall2 (fun p x => owner_of s' (o_cls ob) (comp_of p) x) done ys /\
                            refused_at ct (o_cls ob) ci s' (comp_of p) /\
                            fst r = collect (trim_roots s' (length (roots st)))
    | XOut _ => False
    end.
Proof. exact split_op_sound. Qed.
Print Assumptions C09_split_objects.

(* histories with split keep the full invariant *)
Theorem C09_histories_with_split : forall ct st ops,
  XGood ct st -> xguarded ct st ops -> XGood ct (xrun ct st ops).
Proof. exact xgood_run. Qed.
Print Assumptions C09_histories_with_split.

(* the components computed from the strand table and the pair table of ANY live complex are well-formed,
   aligned, have non-empty strands and consist of elements the source holds (split never fails before the
   first constructor call): the guard of C09_split_objects follows from the invariant *)
Theorem C09_split_parts_ready : forall st i ob es ss t,
  ROK st -> live_obj (heap st) i ob -> o_data ob = DCplx es ss t ->
  exists ptab parts,
    make_pair_table cP [cD] ss = Ok ptab /\
    split_complex_pt (S (length ptab)) (elem_strands es) ptab = Ok parts /\
    GoodParts (o_children ob) parts.
Proof. exact split_parts_ready. Qed.
Print Assumptions C09_split_parts_ready.

(* C09_split_objects for every live complex of a non-failing class (PREFIX non-empty, counter defined) *)
Theorem C09_split_objects_live : forall ct st dst src i ob ci es ss t,
  Inv ct st -> ROK st -> DOK ct st ->
  get_root st src = Some i -> hget (heap st) i = Some ob -> o_data ob = DCplx es ss t ->
  ClassGood ct (o_cls ob) ci -> (exists z, class_id ct st (o_cls ob) = Some z) ->
  let r := split_op ct st dst src in
  Inv ct (fst r) /\ ROK (fst r) /\ DOK ct (fst r) /\ Collected (fst r) /\
  exists parts s' ys,
    (exists ptab, make_pair_table cP [cD] ss = Ok ptab /\
                  split_complex_pt (S (length ptab)) (elem_strands es) ptab = Ok parts) /\
    GoodParts (o_children ob) parts /\
    Inv ct s' /\ roots s' = roots st ++ map Some ys /\ KeepsO st s' /\
    match snd r with
    | Yielded ids =>
        ids = ys /\ Forall2 (fun p x => owner_of s' (o_cls ob) (comp_of p) x) parts ids /\
        fst r = collect (store_from (trim_roots s' (length (roots st))) dst ids)
    | XOut (Raised k e) =>
        k = eSingleton /\ e = None /\
        exists done p rest, parts = done ++ p :: rest /\
                            Forall2 (fun p x => owner_of s' (o_cls ob) (comp_of p) x) done ys /\
                            refused_at ct (o_cls ob) ci s' (comp_of p) /\
                            fst r = collect (trim_roots s' (length (roots st)))
    | XOut _ => False
    end.
Proof. exact split_objects_live. Qed.
Print Assumptions C09_split_objects_live.
