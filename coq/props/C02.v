(* C02 — complex identity is invariant under strand rotation; the canonical form
   is the minimal rotation.  `goodNE x` = aligned, well-formed, non-empty strands;
   `rotT` = one strand rotation (rotate_complex_once, total on good input);
   identifiers_fresh = ComplexS.identifiers for a request none of whose
   rotations is registered.  The registry-level clauses (a rotation of a LIVE
   complex resolves to that object) are stated in C01. *)
From Coq Require Import List NArith ZArith.
From DSD Require Import Base.Str Base.Errors Base.Sort Model.ComplexUtils Model.Rotation Model.Compare Model.Canon
  Proofs.RotOrbit Proofs.RotGen Proofs.C02.
Import ListNotations.

Theorem C02_canonical_form_is_a_minimal_rotation : forall seq st canon turns rots,
  identifiers_fresh seq st = Ok (canon, turns, rots) ->
  rot_record (n_strands seq) (seq, st) = Ok rots /\
  In canon rots /\ forall r, In r rots -> leb ckey_cmp canon r = true.
Proof. exact canon_is_minimal_rotation. Qed.
Print Assumptions C02_canonical_form_is_a_minimal_rotation.

Theorem C02_identifiers_total_and_minimal_over_the_orbit : forall x, goodNE x ->
  exists canon e,
    identifiers_fresh (fst x) (snd x)
      = Ok (canon, wrap (- Z.of_nat e) (Z.of_nat (nstr (snd x))), rotations x) /\
    e < nstr (snd x) /\ canon = Nat.iter e rotT x /\
    forall j, leb ckey_cmp canon (Nat.iter j rotT x) = true.
Proof. exact identifiers_fresh_total. Qed.
Print Assumptions C02_identifiers_total_and_minimal_over_the_orbit.

Theorem C02_turns_rotations_from_canonical_form_to_input : forall x canon turns rots, goodNE x ->
  identifiers_fresh (fst x) (snd x) = Ok (canon, turns, rots) ->
  (0 <= turns < Z.of_nat (nstr (snd x)))%Z /\ Nat.iter (Z.to_nat turns) rotT canon = x.
Proof. exact turns_correct. Qed.
Print Assumptions C02_turns_rotations_from_canonical_form_to_input.

Theorem C02_canonical_form_independent_of_supplied_rotation : forall k x, goodNE x ->
  canon_T (Nat.iter k rotT x) = canon_T x.
Proof. exact canon_orbit_invariant. Qed.
Print Assumptions C02_canonical_form_independent_of_supplied_rotation.

Theorem C02_equal_canonical_forms_only_within_an_orbit : forall x y, goodNE x -> goodNE y ->
  canon_T x = canon_T y -> exists k, y = Nat.iter k rotT x.
Proof. exact canon_equal_same_orbit. Qed.
Print Assumptions C02_equal_canonical_forms_only_within_an_orbit.
