(* C19 — seesaw grammar: parsing inverts rendering.
   Only property theorems: each is closed by `exact` and followed by Print Assumptions.
   `seesaw_grammar` is regenerated on every run from the runtime pyparsing element graph. *)
From Coq Require Import List NArith.
From DSD Require Import Base.Str Base.Errors Base.Val Model.Peg Model.DispatchPeg
  Proofs.PegMono Proofs.PegStd Proofs.PegDoc Proofs.C13Base Proofs.C13Doc Proofs.C19Doc.
From DSDGen Require Import SeesawGrammar.
Import ListNotations.

Theorem C19_grammar_table_closed : grammar_ok seesaw_grammar = true.
Proof. exact seesaw_grammar_closed. Qed.
Print Assumptions C19_grammar_table_closed.

(* documents parse as the concatenation of their statements *)
Theorem C19_document_concat : forall pls its tl,
  Forall ssw_blank_line pls -> Forall ssw_item_ok its -> its <> [] -> ssw_tail_ok tl ->
  let D := concat pls ++ flatten its ++ tl in
  no_tab D ->
  exists f0, forall f, f0 <= f -> parse_seesaw_fuel f D = vals (flat_map it_toks its).
Proof. exact ssw_document_concat. Qed.
Print Assumptions C19_document_concat.

Theorem C19_result_independent_of_fuel : forall text f f',
  parse_string_fuel seesaw_grammar f text <> PFuel -> f <= f' ->
  parse_string_fuel seesaw_grammar f' text = parse_string_fuel seesaw_grammar f text.
Proof. exact (parse_fuel_irrelevant seesaw_grammar). Qed.
Print Assumptions C19_result_independent_of_fuel.

Theorem C19_parse_file_eq_string : forall content, parse_seesaw_file content = parse_seesaw content.
Proof. exact ssw_parse_file_eq_string. Qed.
Print Assumptions C19_parse_file_eq_string.
