(* C19 — seesaw grammar: parsing inverts rendering.
   Only property theorems: each is closed by `exact` and followed by Print Assumptions.
   `seesaw_grammar` is regenerated on every run from the runtime pyparsing element graph. *)
From Coq Require Import List NArith.
From DSD Require Import Base.Str Base.Errors Base.Val Model.Peg Model.DispatchPeg
  Proofs.PegMono Proofs.PegStd Proofs.PegDoc Proofs.C13Base Proofs.C13Doc Proofs.C19Doc Proofs.C19Lex Proofs.C19Io Proofs.PegNum Proofs.C19Args Proofs.C19Stm Proofs.C19Rej Proofs.C19Rej2 Proofs.C19Ex Proofs.PegTerm Proofs.C13Fuel Proofs.PegCover Proofs.C13Cover.
From DSDGen Require Import SeesawGrammar.
Import ListNotations.

Theorem C19_grammar_table_closed : grammar_ok seesaw_grammar = true.
Proof. exact seesaw_grammar_closed. Qed.
Print Assumptions C19_grammar_table_closed.

(* documents parse as the concatenation of their statements *)
Theorem C19_document_concat : forall pls its tl,
  Forall ssw_blank_line pls -> Forall ssw_item_ok its -> its <> [] -> ssw_tail_ok tl ->
  let D := concat pls ++ flatten its ++ tl in
  no_tab D ->
  exists f0, forall f, f0 <= f -> parse_seesaw_fuel f D = vals (flat_map it_toks its).
Proof. exact ssw_document_concat. Qed.
Print Assumptions C19_document_concat.

Theorem C19_result_independent_of_fuel : forall text f f',
  parse_string_fuel seesaw_grammar f text <> PFuel -> f <= f' ->
  parse_string_fuel seesaw_grammar f' text = parse_string_fuel seesaw_grammar f text.
Proof. exact (parse_fuel_irrelevant seesaw_grammar). Qed.
Print Assumptions C19_result_independent_of_fuel.

Theorem C19_parse_file_eq_string : forall content, parse_seesaw_file content = parse_seesaw content.
Proof. exact ssw_parse_file_eq_string. Qed.
Print Assumptions C19_parse_file_eq_string.

(* Round trip, reporter[N, N]: all digit strings, blanks around every token, every statement end *)
Theorem C19_roundtrip_reporter : forall n1 n2 y, num_ok n1 -> num_ok n2 -> rep_layout_ok y ->
  ssw_body_ok (rep_render n1 n2 y) [rep_tree n1 n2].
Proof. exact roundtrip_reporter. Qed.
Print Assumptions C19_roundtrip_reporter.

Theorem C19_roundtrip_reporter_parse_string : forall n1 n2 y b E,
  num_ok n1 -> num_ok n2 -> rep_layout_ok y -> blanks ssw_ws b -> stmt_end ssw_ws E [] ->
  no_tab (b ++ rep_render n1 n2 y ++ E) ->
  exists f0, forall f, f0 <= f -> parse_seesaw_fuel f (b ++ rep_render n1 n2 y ++ E) = vals [rep_tree n1 n2].
Proof. exact roundtrip_reporter_parse. Qed.
Print Assumptions C19_roundtrip_reporter_parse_string.

(* a wire w[N, N|f] parses to its token tree wherever it stands *)
Theorem C19_wire_parses : forall full x w r, wire_ok w -> std_pre ssw_ws x = wire_text w ++ r ->
  evals seesaw_nodes full 23 true (At x) (POk (At r) [wire_tree w]).
Proof. exact (fun full x w r => sw_wire full true x w r). Qed.
Print Assumptions C19_wire_parses.

(* Round trip, INPUT(N | NAME) = w[N, N|f] *)
Theorem C19_roundtrip_input : forall x w y, ioname_ok x -> wire_ok w -> inp_layout_ok y ->
  ssw_body_ok (inp_render x w y) [inp_tree x w].
Proof. exact roundtrip_input. Qed.
Print Assumptions C19_roundtrip_input.

Theorem C19_roundtrip_input_parse_string : forall x w y b E,
  ioname_ok x -> wire_ok w -> inp_layout_ok y -> blanks ssw_ws b -> stmt_end ssw_ws E [] ->
  no_tab (b ++ inp_render x w y ++ E) ->
  exists f0, forall f, f0 <= f -> parse_seesaw_fuel f (b ++ inp_render x w y ++ E) = vals [inp_tree x w].
Proof. exact roundtrip_input_parse. Qed.
Print Assumptions C19_roundtrip_input_parse_string.

(* Rejection: an input bound to a fluorophore (to anything that does not start like a wire) *)
Theorem C19_reject_input_fluorophore : forall x y rest pls b,
  ioname_ok x -> inp_layout_ok y -> Forall ssw_blank_line pls -> blanks ssw_ws b ->
  no_tab (concat pls ++ b ++ inp_head x y (kw_fluor ++ rest)) ->
  exists f0, forall f, f0 <= f -> parse_seesaw_fuel f (concat pls ++ b ++ inp_head x y (kw_fluor ++ rest)) = err eParse.
Proof. exact reject_input_fluorophore. Qed.
Print Assumptions C19_reject_input_fluorophore.

(* every text that the statement node consumes exactly (ssw_body_ok) parses alone to its tokens *)
Theorem C19_statement_parse_string : forall b y E t,
  blanks ssw_ws b -> stmt_start ssw_ws y -> ssw_body_ok y t -> stmt_end ssw_ws E [] ->
  no_tab (b ++ y ++ E) ->
  exists f0, forall f, f0 <= f -> parse_seesaw_fuel f (b ++ y ++ E) = vals t.
Proof. exact ssw_statement_parse. Qed.
Print Assumptions C19_statement_parse_string.

(* Round trips of the remaining statement kinds, each for all numbers, names, list lengths and
   blanks around every token, before every statement end *)
Theorem C19_roundtrip_output : forall x v y, ioname_ok x -> outval_ok v -> inp_layout_ok y ->
  ssw_body_ok (out_render x v y) [out_tree x v].                       (* OUTPUT(..) = wire | Fluor[N] *)
Proof. exact roundtrip_output. Qed.
Print Assumptions C19_roundtrip_output.

Theorem C19_roundtrip_seesaw : forall s, ss_ok s -> ssw_body_ok (ss_render s) [ss_tree s].
Proof. exact roundtrip_seesaw. Qed.                                     (* seesaw[N, {N,..}, {N|f,..}] *)
Print Assumptions C19_roundtrip_seesaw.

(* conc[TARGET, NUMBER*c], TARGET a wire, a gate g[wire,N] / g[N,wire], a threshold th[wire,N] / th[N,wire];
   NUMBER in integer, decimal or scientific form *)
Theorem C19_roundtrip_conc : forall t q y, ctarget_ok t -> sconc_ok q -> cc_layout_ok y ->
  ssw_body_ok (cc_render t q y) [cc_tree t q].
Proof. exact roundtrip_conc. Qed.
Print Assumptions C19_roundtrip_conc.

Theorem C19_roundtrip_inputfanout : forall s, if_ok s -> ssw_body_ok (if_render s) [if_tree s].
Proof. exact roundtrip_inputfanout. Qed.
Print Assumptions C19_roundtrip_inputfanout.

Theorem C19_roundtrip_seesawOR_seesawAND : forall s, lg_ok s -> ssw_body_ok (lg_render s) [lg_tree s].
Proof. exact roundtrip_logic_gate. Qed.
Print Assumptions C19_roundtrip_seesawOR_seesawAND.

(* Rejections: a concentration that does not start with a digit (negative, missing) *)
Theorem C19_reject_negative_concentration : forall w y rest pls b,
  wire_ok w -> cc_layout_ok y -> Forall ssw_blank_line pls -> blanks ssw_ws b ->
  no_tab (concat pls ++ b ++ badconc_text w y (45%N :: rest)) ->
  exists f0, forall f, f0 <= f ->
    parse_seesaw_fuel f (concat pls ++ b ++ badconc_text w y (45%N :: rest)) = err eParse.
Proof. exact reject_negative_concentration. Qed.
Print Assumptions C19_reject_negative_concentration.

(* ... reporter with a first / second argument that is not a number, with one argument, with three *)
Theorem C19_reject_reporter_arguments : forall f y junk pls b,
  repfault_ok f junk -> rep_layout_ok y -> Forall ssw_blank_line pls -> blanks ssw_ws b ->
  no_tab (concat pls ++ b ++ repfault_text f y junk) ->
  exists f0, forall fu, f0 <= fu -> parse_seesaw_fuel fu (concat pls ++ b ++ repfault_text f y junk) = err eParse.
Proof. exact reject_reporter_arguments. Qed.
Print Assumptions C19_reject_reporter_arguments.

(* Termination within the default fuel (generic analysis of Proofs/PegTerm.v run on the regenerated
   seesaw table): parse_seesaw never answers OutOfFuel *)
Theorem C19_default_fuel_suffices : forall text, parse_seesaw text <> err eFuel.
Proof. exact seesaw_default_fuel_suffices. Qed.
Print Assumptions C19_default_fuel_suffices.

(* hence every "for all sufficiently large fuel" statement above holds for parse_seesaw itself *)
Theorem C19_default_fuel_gives_eventual_result : forall text v,
  (exists f0, forall f, f0 <= f -> parse_seesaw_fuel f text = v) -> parse_seesaw text = v.
Proof. exact seesaw_default_is_limit. Qed.
Print Assumptions C19_default_fuel_gives_eventual_result.

(* no_skipped_text: a successful parse ends at the end of the input and the whole text is a
   concatenation of matched terminals and of blanks / comments skipped by preParse *)
Theorem C19_no_skipped_text : forall fuel text p toks,
  parse_string_fuel seesaw_grammar fuel text = POk p toks -> p = Past /\ pieces seesaw_nodes (expandtabs text).
Proof. exact seesaw_no_skipped_text. Qed.
Print Assumptions C19_no_skipped_text.

(* ---- wrong number / kind of arguments, the other statement kinds (for all numbers, names, list lengths,
   blank layouts; `junk` is the rest of the document) ---- *)
(* seesaw[N, {..} X  with X (after blanks) not a comma: the output list is missing *)
Theorem C19_reject_seesaw_missing_list : forall n ins b1 b2 b3 b4 b5 junk pls b,
  num_ok n -> nset_ok ins -> blanks ssw_ws b1 -> blanks ssw_ws b2 -> blanks ssw_ws b3 -> blanks ssw_ws b4 -> blanks ssw_ws b5 ->
  nohead [44%N] (sspre junk) -> Forall ssw_blank_line pls -> blanks ssw_ws b ->
  no_tab (concat pls ++ b ++ ss_missing_text n ins b1 b2 b3 b4 b5 junk) ->
  exists f0, forall fu, f0 <= fu ->
    parse_seesaw_fuel fu (concat pls ++ b ++ ss_missing_text n ins b1 b2 b3 b4 b5 junk) = err eParse.
Proof. exact reject_seesaw_missing_list. Qed.
Print Assumptions C19_reject_seesaw_missing_list.

(* OUTPUT( X junk  with junk (after blanks) not ')': a second argument *)
Theorem C19_reject_output_extra_argument : forall x b1 b2 b3 junk pls b,
  ioname_ok x -> blanks ssw_ws b1 -> blanks ssw_ws b2 -> blanks ssw_ws b3 ->
  nohead sidch junk -> nohead [41%N] (sspre junk) -> Forall ssw_blank_line pls -> blanks ssw_ws b ->
  no_tab (concat pls ++ b ++ out_extra_text x b1 b2 b3 junk) ->
  exists f0, forall fu, f0 <= fu -> parse_seesaw_fuel fu (concat pls ++ b ++ out_extra_text x b1 b2 b3 junk) = err eParse.
Proof. exact reject_output_extra_argument. Qed.
Print Assumptions C19_reject_output_extra_argument.

(* inputfanout[N, X  with X (after blanks) not a digit: the fan-out is not a number *)
Theorem C19_reject_inputfanout_fanout_kind : forall n b1 b2 b3 b4 junk pls b,
  num_ok n -> blanks ssw_ws b1 -> blanks ssw_ws b2 -> blanks ssw_ws b3 -> blanks ssw_ws b4 ->
  nohead sdigit (sspre junk) -> Forall ssw_blank_line pls -> blanks ssw_ws b ->
  no_tab (concat pls ++ b ++ if_fanout_text n b1 b2 b3 b4 junk) ->
  exists f0, forall fu, f0 <= fu -> parse_seesaw_fuel fu (concat pls ++ b ++ if_fanout_text n b1 b2 b3 b4 junk) = err eParse.
Proof. exact reject_inputfanout_fanout_kind. Qed.
Print Assumptions C19_reject_inputfanout_fanout_kind.

(* conc[ g[..] | th[..] (both argument orders), X  with X not a digit: missing or negative concentration *)
Theorem C19_reject_concentration_on_target : forall th t y junk pls b,
  gate_ok t -> cc_layout_ok y -> nohead sdigit (sspre junk) -> Forall ssw_blank_line pls -> blanks ssw_ws b ->
  no_tab (concat pls ++ b ++ badconc_target_text th t y junk) ->
  exists f0, forall fu, f0 <= fu -> parse_seesaw_fuel fu (concat pls ++ b ++ badconc_target_text th t y junk) = err eParse.
Proof. exact reject_concentration_on_target. Qed.
Print Assumptions C19_reject_concentration_on_target.

(* seesawOR / seesawAND [N, N, {..} X  with X not a comma: the second input list is missing *)
Theorem C19_reject_logic_gate_few_arguments : forall k n m in1 b1 b2 b3 b4 b5 b6 b7 junk pls b,
  num_ok n -> num_ok m -> nset_ok in1 ->
  blanks ssw_ws b1 -> blanks ssw_ws b2 -> blanks ssw_ws b3 -> blanks ssw_ws b4 -> blanks ssw_ws b5 -> blanks ssw_ws b6 -> blanks ssw_ws b7 ->
  nohead [44%N] (sspre junk) -> Forall ssw_blank_line pls -> blanks ssw_ws b ->
  no_tab (concat pls ++ b ++ lg_few_text k n m in1 b1 b2 b3 b4 b5 b6 b7 junk) ->
  exists f0, forall fu, f0 <= fu ->
    parse_seesaw_fuel fu (concat pls ++ b ++ lg_few_text k n m in1 b1 b2 b3 b4 b5 b6 b7 junk) = err eParse.
Proof. exact reject_logic_gate_few_arguments. Qed.
Print Assumptions C19_reject_logic_gate_few_arguments.

(* ---- not proved (listed under `partial` in the evidence): rejection of a wrong number / kind of
   arguments for the statement kinds other than reporter and of a bad concentration on gate /
   threshold targets: checked on the implementation and in the correspondence ---- *)
