(* C17 — IUPAC complement and constraint arithmetic is set-exact.
   The tables wc_*/wob_*/rwc_*/rwob_*/add_* are regenerated from the code on
   every run (gen/IupacTables.v); `mask` is the IUPAC standard (spec). *)
From Coq Require Import List NArith.
From DSD Require Import Base.Str Base.Errors Model.ComplexUtils Model.Iupac Proofs.C17.
Import ListNotations.

Theorem C17_wc_letter_set_exact : forall rna c m, mask rna c = Some m ->
  exists c', wc_tab rna c = Some c' /\ mask rna c' = Some (wc_mask m).
Proof. exact wc_letter_exact. Qed.
Print Assumptions C17_wc_letter_set_exact.

Theorem C17_wobble_letter_set_exact : forall rna c m, mask rna c = Some m ->
  exists c', wob_tab rna c = Some c' /\ mask rna c' = Some (wobble_mask m).
Proof. exact wobble_letter_exact. Qed.
Print Assumptions C17_wobble_letter_set_exact.

Theorem C17_wc_involution : forall rna c c', mask rna c <> None ->
  wc_tab rna c = Some c' -> wc_tab rna c' = Some c.
Proof. exact wc_letter_involution. Qed.
Print Assumptions C17_wc_involution.

Theorem C17_material_differs_by_T_U : forall c, In c (codes false) ->
  wc_tab true (tu c) = option_map tu (wc_tab false c) /\
  wob_tab true (tu c) = option_map tu (wob_tab false c).
Proof. exact material_T_U. Qed.
Print Assumptions C17_material_differs_by_T_U.

Theorem C17_wc_sequences : forall rna s, Forall (fun c => mask rna c <> None) s ->
  exists s', wc_complement rna s = Ok s' /\ Forall2 (related rna wc_mask) s s'.
Proof. exact wc_sequence_exact. Qed.
Print Assumptions C17_wc_sequences.

Theorem C17_wobble_sequences : forall rna s, Forall (fun c => mask rna c <> None) s ->
  exists s', complement rna s = Ok s' /\ Forall2 (related rna wobble_mask) s s'.
Proof. exact wobble_sequence_exact. Qed.
Print Assumptions C17_wobble_sequences.

Theorem C17_unknown_letter_is_KeyError : forall rna s, Exists (fun c => mask rna c = None) s ->
  wc_complement rna s = Err eKey /\ complement rna s = Err eKey.
Proof. exact sequence_keyerror. Qed.
Print Assumptions C17_unknown_letter_is_KeyError.

Theorem C17_reverse_variants : forall rna s,
  reverse_wc_complement rna s = wc_complement rna (rev s) /\
  reverse_complement rna s = complement rna (rev s).
Proof. exact reverse_is_map_of_reversed. Qed.
Print Assumptions C17_reverse_variants.

Theorem C17_reverse_wc_involution : forall rna s s', Forall (fun c => mask rna c <> None) s ->
  reverse_wc_complement rna s = Ok s' -> reverse_wc_complement rna s' = Ok s.
Proof. exact reverse_wc_involution. Qed.
Print Assumptions C17_reverse_wc_involution.

Theorem C17_add_constraints_intersection : forall rna a b,
  length a = length b ->
  Forall (fun c => mask rna c <> None) a -> Forall (fun c => mask rna c <> None) b ->
  match add_constraints rna a b with
  | Ok r => Forall2 (pos_inter rna) (combine a b) r
  | Err k => k = eConstraint /\ Exists (pos_empty rna) (combine a b)
  end.
Proof. exact add_constraints_exact. Qed.
Print Assumptions C17_add_constraints_intersection.
