(* C13 — PIL grammar: parsing inverts rendering, statement by statement.
   Only property theorems: each is closed by `exact` and followed by Print Assumptions.
   `pil_nodes` / `pil_grammar` is the node table regenerated on every run from the
   runtime pyparsing element graph (gen/PilGrammar.v); `parse_pil_fuel f text` is the
   model of parse_pil_string(text) with interpreter fuel f (result `OutOfFuel` when
   exhausted: every theorem gives the answer for all sufficiently large f). *)
From Coq Require Import List NArith.
From DSD Require Import Base.Str Base.Errors Base.Val Model.Peg Model.DispatchPeg
  Proofs.PegMono Proofs.PegStd Proofs.PegDoc Proofs.C13Base Proofs.C13Doc Proofs.PilLex Proofs.C13Lex
  Proofs.C13Dl Proofs.C13Ms Proofs.C13Sl Proofs.C13Cd Proofs.C13Kc Proofs.PegNum Proofs.C13Kc2 Proofs.C13Rx Proofs.C13Ib Proofs.C13Sc Proofs.C13Rej
  Proofs.C13Full Proofs.PegTerm Proofs.C13Fuel Proofs.PegShape Proofs.PegCover Proofs.C13Cover
  Proofs.PegTabs Proofs.C13Tabs Proofs.C13Open.
From DSDGen Require Import PilGrammar.
Import ListNotations.

(* the regenerated table is closed: every child / ignore index names a node *)
Theorem C13_grammar_table_closed : grammar_ok pil_grammar = true.
Proof. exact pil_grammar_closed. Qed.
Print Assumptions C13_grammar_table_closed.

(* Parsing a document = concatenating the parses of its statements, in order.
   A document is: blank / comment lines, then statements (leading blanks + text; each
   text is consumed exactly, with its tokens, by the statement node before every
   admissible continuation), then trailing blanks / a comment without newline. *)
Theorem C13_document_concat : forall pls its tl,
  Forall pil_blank_line pls -> Forall pil_item_ok its -> its <> [] -> pil_tail_ok tl ->
  let D := concat pls ++ flatten its ++ tl in
  no_tab D ->
  exists f0, forall f, f0 <= f -> parse_pil_fuel f D = vals (flat_map it_toks its).
Proof. exact pil_document_concat. Qed.
Print Assumptions C13_document_concat.

(* ... in the words of the property: the document of the statements parses to the
   concatenation of what the one-statement documents parse to *)
Theorem C13_document_is_concat_of_statement_parses : forall its,
  Forall pil_item_ok its -> its <> [] -> no_tab (flatten its) ->
  Forall (fun it => no_tab (it_blanks it ++ it_text it)) its ->
  exists f0, forall f, f0 <= f ->
    parse_pil_fuel f (flatten its) =
    VList (flat_map (fun it => match parse_pil_fuel f (it_blanks it ++ it_text it) with VList l => l | _ => [] end) its).
Proof. exact pil_document_is_concat_of_statements. Qed.
Print Assumptions C13_document_is_concat_of_statement_parses.

(* the result does not depend on anything but the table and the text:
   (i) once the fuel suffices, more fuel never changes the answer *)
Theorem C13_result_independent_of_fuel : forall G text f f',
  parse_string_fuel G f text <> PFuel -> f <= f' -> parse_string_fuel G f' text = parse_string_fuel G f text.
Proof. exact parse_fuel_irrelevant. Qed.
Print Assumptions C13_result_independent_of_fuel.

(* (ii) no hidden state: equal tables give equal answers on every text (that the table
   itself is the same after any history of PIL / seesaw parser calls is observed by the
   translator, which dumps it after such histories and compares) *)
Theorem C13_result_function_of_table_and_text : forall G1 G2 text,
  gnodes G1 = gnodes G2 -> groot G1 = groot G2 -> parse_string G1 text = parse_string G2 text.
Proof. exact parse_function_of_table_and_text. Qed.
Print Assumptions C13_result_function_of_table_and_text.

(* parsing a file is parsing its content *)
Theorem C13_parse_file_eq_string : forall content, parse_pil_file content = parse_pil content.
Proof. exact parse_file_eq_string. Qed.
Print Assumptions C13_parse_file_eq_string.

(* Round trip, domain-length statement: for EVERY name (non-empty over the identifier
   alphabet, optional star), every length (any digit string, `short`, `long`; with the
   keyword `sequence` a digit string), each of the three keywords, both assignment signs,
   arbitrary runs of blanks, and every statement end (line end, comment, blank lines /
   end of input), the statement node returns exactly the token tree. *)
Theorem C13_roundtrip_dl_domain : forall s y,
  dl_stmt_ok s -> dl_layout_ok y -> pil_body_ok (dl_render s y) [dl_tree s].
Proof. exact roundtrip_dl_domain. Qed.
Print Assumptions C13_roundtrip_dl_domain.

Theorem C13_roundtrip_dl_domain_parse_string : forall s y b E,
  dl_stmt_ok s -> dl_layout_ok y -> blanks pil_ws b -> stmt_end E [] ->
  no_tab (b ++ dl_render s y ++ E) ->
  exists f0, forall f, f0 <= f -> parse_pil_fuel f (b ++ dl_render s y ++ E) = vals [dl_tree s].
Proof. exact roundtrip_dl_domain_parse. Qed.
Print Assumptions C13_roundtrip_dl_domain_parse_string.

(* Round trip, macrostate statement: (state | macrostate) NAME = [ NAME (, NAME)* ], every
   list length, every layout; guard: the keyword is separated from the name by a blank
   (`statex = ...` is a kernel-notation complex). *)
Theorem C13_roundtrip_macrostate : forall s y,
  ms_stmt_ok s -> ms_layout_ok y -> pil_body_ok (ms_render s y) [ms_tree s].
Proof. exact roundtrip_macrostate. Qed.
Print Assumptions C13_roundtrip_macrostate.

Theorem C13_roundtrip_macrostate_parse_string : forall s y b E,
  ms_stmt_ok s -> ms_layout_ok y -> blanks pil_ws b -> stmt_end E [] ->
  no_tab (b ++ ms_render s y ++ E) ->
  exists f0, forall f, f0 <= f -> parse_pil_fuel f (b ++ ms_render s y ++ E) = vals [ms_tree s].
Proof. exact roundtrip_macrostate_parse. Qed.
Print Assumptions C13_roundtrip_macrostate_parse_string.

(* Round trip, sequence-constraint statement: sequence NAME[*] (=|:) LETTERS [(=|:) DIGITS] *)
Theorem C13_roundtrip_sl_domain : forall s y,
  sl_stmt_ok s -> sl_layout_ok y -> pil_body_ok (sl_render s y) [sl_tree s].
Proof. exact roundtrip_sl_domain. Qed.
Print Assumptions C13_roundtrip_sl_domain.

Theorem C13_roundtrip_sl_domain_parse_string : forall s y b E,
  sl_stmt_ok s -> sl_layout_ok y -> blanks pil_ws b -> stmt_end E [] ->
  no_tab (b ++ sl_render s y ++ E) ->
  exists f0, forall f, f0 <= f -> parse_pil_fuel f (b ++ sl_render s y ++ E) = vals [sl_tree s].
Proof. exact roundtrip_sl_domain_parse. Qed.
Print Assumptions C13_roundtrip_sl_domain_parse_string.

(* Round trip, strand / sup-sequence statement: (strand | sup-sequence) NAME (=|:) DOMAIN+ [(=|:) DIGITS] *)
Theorem C13_roundtrip_composite_domain : forall s y,
  cd_stmt_ok s -> cd_layout_ok y -> pil_body_ok (cd_render s y) [cd_tree s].
Proof. exact roundtrip_composite_domain. Qed.
Print Assumptions C13_roundtrip_composite_domain.

Theorem C13_roundtrip_composite_domain_parse_string : forall s y b E,
  cd_stmt_ok s -> cd_layout_ok y -> blanks pil_ws b -> stmt_end E [] ->
  no_tab (b ++ cd_render s y ++ E) ->
  exists f0, forall f, f0 <= f -> parse_pil_fuel f (b ++ cd_render s y ++ E) = vals [cd_tree s].
Proof. exact roundtrip_composite_domain_parse. Qed.
Print Assumptions C13_roundtrip_composite_domain_parse_string.

(* Kernel patterns (shared with C12): every item of a pattern -- a domain name with
   optional ^ and *, a strand break +, a loop NAME( PATTERN? ) of any nesting depth, with any
   blanks -- is parsed by the pattern node to exactly its tokens *)
Theorem C13_kernel_pattern_item_parses : forall it full rest x,
  item_wf it rest -> std_pre pil_ws x = item_body it rest ->
  evals pil_nodes full 210 true (At x) (POk (At rest) (item_toks it)).
Proof. exact item_parses_any. Qed.
Print Assumptions C13_kernel_pattern_item_parses.

(* Round trip, kernel-notation complex NAME = PATTERN (without concentration), all names,
   nestings and layouts; guard: the name does not start with a statement keyword *)
Theorem C13_roundtrip_kernel_complex : forall s full b E k,
  blanks pil_ws b -> stmt_end E k -> kc_stmt_ok s (E ++ k) ->
  evals pil_nodes full pil_stmt true (At (b ++ kc_render s ++ E ++ k)) (POk (after pil_ws k) [kc_tree s]).
Proof. exact roundtrip_kernel_complex. Qed.
Print Assumptions C13_roundtrip_kernel_complex.

Theorem C13_roundtrip_kernel_complex_parse_string : forall s b E,
  blanks pil_ws b -> stmt_end E [] -> kc_stmt_ok s E -> no_tab (b ++ kc_render s ++ E) ->
  exists f0, forall f, f0 <= f -> parse_pil_fuel f (b ++ kc_render s ++ E) = vals [kc_tree s].
Proof. exact roundtrip_kernel_complex_parse. Qed.
Print Assumptions C13_roundtrip_kernel_complex_parse_string.

(* Round trip, reaction without rate information: (kinetic | reaction) NAME (+ NAME)* -> NAME (+ NAME)*;
   guard: the arrow is preceded by a blank (`-` is an identifier character) *)
Theorem C13_roundtrip_reaction : forall s y,
  rx_stmt_ok s -> rx_layout_ok y -> pil_body_ok (rx_render s y) [rx_tree s].
Proof. exact roundtrip_reaction. Qed.
Print Assumptions C13_roundtrip_reaction.

Theorem C13_roundtrip_reaction_parse_string : forall s y b E,
  rx_stmt_ok s -> rx_layout_ok y -> blanks pil_ws b -> stmt_end E [] ->
  no_tab (b ++ rx_render s y ++ E) ->
  exists f0, forall f, f0 <= f -> parse_pil_fuel f (b ++ rx_render s y ++ E) = vals [rx_tree s].
Proof. exact roundtrip_reaction_parse. Qed.
Print Assumptions C13_roundtrip_reaction_parse_string.

(* Round trip, strand-notation complex, `structure` form: the dot-bracket token is exactly the
   rendered dot-bracket with the blanks it contains (maximal run over `( ) . +` and the space) *)
Theorem C13_roundtrip_structure : forall s y full b E k,
  st_ok s y (E ++ k) -> blanks pil_ws b -> stmt_end E k -> nohead dbch (E ++ k) ->
  evals pil_nodes full pil_stmt true (At (b ++ st_kw ++ st_tail_text s y (E ++ k))) (POk (after pil_ws k) [st_tree s]).
Proof. exact roundtrip_structure. Qed.
Print Assumptions C13_roundtrip_structure.

(* ... `complex` form, with its two optional line ends *)
Theorem C13_roundtrip_complex : forall s y full b E k,
  cx_ok s y -> blanks pil_ws b -> stmt_end E k -> nohead dbch (E ++ k) ->
  evals pil_nodes full pil_stmt true (At (b ++ cx_kw ++ cx_tail_text s y (E ++ k))) (POk (after pil_ws k) [cx_tree s]).
Proof. exact roundtrip_complex. Qed.
Print Assumptions C13_roundtrip_complex.

Theorem C13_roundtrip_structure_parse_string : forall s y b E,
  st_ok s y E -> blanks pil_ws b -> stmt_end E [] -> nohead dbch E ->
  no_tab (b ++ st_kw ++ st_tail_text s y E) ->
  exists f0, forall f, f0 <= f -> parse_pil_fuel f (b ++ st_kw ++ st_tail_text s y E) = vals [st_tree s].
Proof. exact roundtrip_structure_parse. Qed.
Print Assumptions C13_roundtrip_structure_parse_string.

Theorem C13_roundtrip_complex_parse_string : forall s y b E,
  cx_ok s y -> blanks pil_ws b -> stmt_end E [] -> nohead dbch E ->
  no_tab (b ++ cx_kw ++ cx_tail_text s y E) ->
  exists f0, forall f, f0 <= f -> parse_pil_fuel f (b ++ cx_kw ++ cx_tail_text s y E) = vals [cx_tree s].
Proof. exact roundtrip_complex_parse. Qed.
Print Assumptions C13_roundtrip_complex_parse_string.

(* Rejection: a document whose first statement the statement node refuses raises ParseException *)
Theorem C13_reject_document : forall pls b y,
  Forall pil_blank_line pls -> blanks pil_ws b -> stmt_start pil_ws y ->
  (forall full b', blanks pil_ws b' -> evals pil_nodes full pil_stmt true (At (b' ++ y)) PFail) ->
  let D := concat pls ++ b ++ y in
  no_tab D ->
  exists f0, forall f, f0 <= f -> parse_pil_fuel f D = err eParse.
Proof. exact pil_document_reject. Qed.
Print Assumptions C13_reject_document.

(* Rejection, missing assignment sign: KEYWORD NAME[*] X..., X neither `=` nor `:`, for the
   three domain-length keywords: refused by every one of the 13 statement alternatives *)
Theorem C13_reject_missing_assign : forall s pls b,
  noassign_ok s -> Forall pil_blank_line pls -> blanks pil_ws b ->
  no_tab (concat pls ++ b ++ noassign_text s) ->
  exists f0, forall f, f0 <= f -> parse_pil_fuel f (concat pls ++ b ++ noassign_text s) = err eParse.
Proof. exact reject_missing_assign. Qed.
Print Assumptions C13_reject_missing_assign.

(* Rejection, malformed number: a digit string followed by junk that is not a statement
   end (`5x`, `1.`, `1e`, `1_000`, `1,5`, a non-ASCII digit, ...) in a domain-length statement *)
Theorem C13_reject_malformed_number : forall s y pls b,
  badnum_ok s y -> Forall pil_blank_line pls -> blanks pil_ws b ->
  no_tab (concat pls ++ b ++ badnum_text s y) ->
  exists f0, forall f, f0 <= f -> parse_pil_fuel f (concat pls ++ b ++ badnum_text s y) = err eParse.
Proof. exact reject_malformed_number. Qed.
Print Assumptions C13_reject_malformed_number.

(* REFUTED on the faithful model (and on the implementation): "a statement with a missing
   name is rejected".  `length = 5` is a kernel-notation complex called `length`. *)
Theorem C13_reject_missing_name_refuted :
  parse_pil [108; 101; 110; 103; 116; 104; 32; 61; 32; 53; 10]%N
  = vals [TList [TStr [107; 101; 114; 110; 101; 108; 45; 99; 111; 109; 112; 108; 101; 120]%N;
                 TStr [108; 101; 110; 103; 116; 104]%N; TList [TStr [53%N]]]].
Proof. exact missing_name_refuted. Qed.
Print Assumptions C13_reject_missing_name_refuted.

(* the lexical classes of the dialect (specification) are the character sets of the table *)
Theorem C13_lexical_classes :
  idch = spec_idch /\ alpha = spec_alpha /\ digit = spec_digit /\ pil_ws = spec_blank /\ pil_cs4 = spec_dotbracket.
Proof. exact pil_lexical_classes. Qed.
Print Assumptions C13_lexical_classes.

Theorem C13_words_over_lexical_classes : forallb word_class_ok pil_nodes = true.
Proof. exact pil_words_over_classes. Qed.
Print Assumptions C13_words_over_lexical_classes.

(* Round trip, reaction WITH rate information: [ [NAME (=|:)] RATE [+/- (RATE|inf)] (/M|/mM|/uM|/nM|/pM)* /(s|m|h) ],
   RATE in integer, decimal or scientific form, units of every arity *)
Theorem C13_roundtrip_reaction_infobox : forall s y i,
  rx_stmt_ok s -> rx_layout_ok y -> infobox_ok i -> pil_body_ok (rxi_render s y i) [rxi_tree s i].
Proof. exact roundtrip_reaction_infobox. Qed.
Print Assumptions C13_roundtrip_reaction_infobox.

Theorem C13_roundtrip_reaction_infobox_parse_string : forall s y i b E,
  rx_stmt_ok s -> rx_layout_ok y -> infobox_ok i -> blanks pil_ws b -> stmt_end E [] ->
  no_tab (b ++ rxi_render s y i ++ E) ->
  exists f0, forall f, f0 <= f -> parse_pil_fuel f (b ++ rxi_render s y i ++ E) = vals [rxi_tree s i].
Proof. exact roundtrip_reaction_infobox_parse. Qed.
Print Assumptions C13_roundtrip_reaction_infobox_parse_string.

(* Round trip, kernel-notation complex WITH concentration  @ (initial|i|constant|c) NUMBER (M|mM|uM|nM|pM) *)
Theorem C13_roundtrip_kernel_concentration : forall s c full b E k,
  blanks pil_ws b -> stmt_end E k -> conc_ok c -> kc_stmt_ok s (conc_text c ++ E ++ k) ->
  evals pil_nodes full pil_stmt true (At (b ++ kcc_render s c ++ E ++ k)) (POk (after pil_ws k) [kcc_tree s c]).
Proof. exact roundtrip_kernel_concentration. Qed.
Print Assumptions C13_roundtrip_kernel_concentration.

Theorem C13_roundtrip_kernel_concentration_parse_string : forall s c b E,
  blanks pil_ws b -> stmt_end E [] -> conc_ok c -> kc_stmt_ok s (conc_text c ++ E) -> no_tab (b ++ kcc_render s c ++ E) ->
  exists f0, forall f, f0 <= f -> parse_pil_fuel f (b ++ kcc_render s c ++ E) = vals [kcc_tree s c].
Proof. exact roundtrip_kernel_concentration_parse. Qed.
Print Assumptions C13_roundtrip_kernel_concentration_parse_string.

(* Rejection, unbalanced kernel brackets at top level: a complete pattern followed (after blanks) by an unmatched
   `)` or by a `(` that is not attached to a name; every statement alternative refuses it *)
Theorem C13_reject_unbalanced_kernel : forall s bT d junk pls b,
  (d = 41%N \/ d = 40%N) ->
  blanks pil_ws b -> blanks pil_ws bT -> kc_stmt_ok s (bT ++ d :: junk) -> Forall pil_blank_line pls ->
  is_prefix kw_state (kc_n0 s :: kc_ns s) = false -> is_prefix kw_macrostate (kc_n0 s :: kc_ns s) = false ->
  no_tab (concat pls ++ b ++ kc_text s (bT ++ d :: junk)) ->
  exists f0, forall f, f0 <= f -> parse_pil_fuel f (concat pls ++ b ++ kc_text s (bT ++ d :: junk)) = err eParse.
Proof. exact reject_unbalanced_kernel. Qed.
Print Assumptions C13_reject_unbalanced_kernel.

(* ---- an opening bracket attached to a name and never closed ---- *)
(* `dangling Y`: Y is what follows an unclosed `name(` up to the end of the input: well-formed pattern items
   (names, '+', closed loops of any nesting) and then either the end of the statement or another unclosed
   `name(` followed by a dangling text.  The loop alternative fails at the missing ')', the name is read as a
   plain domain, the pattern stops in front of '(' and nothing accepts '(' there: ParseException, for every
   name, every nesting depth and every layout. *)
Theorem C13_reject_unclosed_loop : forall s b1 n0 ns c st Y pls b,
  dangling Y -> kc_stmt_ok s (b1 ++ sense_text n0 ns c st ++ LPAR :: Y) -> blanks pil_ws b1 ->
  memc n0 idch = true -> all_in idch ns -> Forall pil_blank_line pls -> blanks pil_ws b ->
  is_prefix kw_state (kc_n0 s :: kc_ns s) = false -> is_prefix kw_macrostate (kc_n0 s :: kc_ns s) = false ->
  no_tab (concat pls ++ b ++ kc_text s (b1 ++ sense_text n0 ns c st ++ LPAR :: Y)) ->
  exists f0, forall f, f0 <= f ->
    parse_pil_fuel f (concat pls ++ b ++ kc_text s (b1 ++ sense_text n0 ns c st ++ LPAR :: Y)) = err eParse.
Proof. exact reject_unclosed_loop. Qed.
Print Assumptions C13_reject_unclosed_loop.

(* the same when the unclosed name is the first item of the pattern: `X = a( ...` *)
Theorem C13_reject_unclosed_first : forall x0 xs b2 b1 n0 ns c st Y pls b,
  dangling Y -> memc x0 idch = true -> all_in idch xs -> not_keyword_led (x0 :: xs) ->
  is_prefix kw_state (x0 :: xs) = false -> is_prefix kw_macrostate (x0 :: xs) = false ->
  blanks pil_ws b2 -> blanks pil_ws b1 -> memc n0 idch = true -> all_in idch ns ->
  Forall pil_blank_line pls -> blanks pil_ws b ->
  no_tab (concat pls ++ b ++ open_first_text x0 xs b2 b1 n0 ns c st Y) ->
  exists f0, forall f, f0 <= f ->
    parse_pil_fuel f (concat pls ++ b ++ open_first_text x0 xs b2 b1 n0 ns c st Y) = err eParse.
Proof. exact reject_unclosed_first. Qed.
Print Assumptions C13_reject_unclosed_first.

(* Termination within the default fuel: parse_pil (fuel (|expandtabs text| + 2) * |table|) never
   answers OutOfFuel, for any text whatsoever.  Proved generically (Proofs/PegTerm.v): a
   nullability table, a rank table that decreases along every call that can happen at the same
   input position (absence of left recursion; the loop bodies and ignorables are non-nullable) and
   a StringStart-freedom table are computed from the regenerated node table and validated by
   computation; fuel >= rem(position) * |table| + rank + 3 then never runs out. *)
Theorem C13_default_fuel_suffices : forall text, parse_pil text <> err eFuel.
Proof. exact pil_default_fuel_suffices. Qed.
Print Assumptions C13_default_fuel_suffices.

(* hence every statement above of the form "for all sufficiently large fuel the answer is v"
   is a statement about parse_pil itself (the operation run in the correspondence) *)
Theorem C13_default_fuel_gives_eventual_result : forall text v,
  (exists f0, forall f, f0 <= f -> parse_pil_fuel f text = v) -> parse_pil text = v.
Proof. exact pil_default_is_limit. Qed.
Print Assumptions C13_default_fuel_gives_eventual_result.

(* no_skipped_text (DESIGN C13): a successful parse ends at the end of the input, and the whole
   (tab-expanded) text is a concatenation of `piece`s: strings matched by a terminal of the table
   (a literal, a Word / White run, a line end, a comment) or blanks skipped by the preParse of a node
   that skips whitespace (characters of that node's whitespace set).  The interpreter cannot
   silently drop text.  Generic in the table (Proofs/PegCover.v, parse_cov: for every node and every
   start position). *)
Theorem C13_no_skipped_text : forall fuel text p toks,
  parse_string_fuel pil_grammar fuel text = POk p toks -> p = Past /\ pieces pil_nodes (expandtabs text).
Proof. exact pil_no_skipped_text. Qed.
Print Assumptions C13_no_skipped_text.

(* the token language of a table: whatever a node returns is generated by the text-erased grammar
   (Proofs/PegShape.v; the tool behind "every returned tree has shape ..." statements, used for the
   reader's line shape in Proofs/PilShape.v: pil_grammar_shape) *)
Theorem C13_token_language_sound : forall g full f i cp p p' t,
  parse g full f i cp p = POk p' t -> G g i t.
Proof. exact parse_gen. Qed.
Print Assumptions C13_token_language_sound.

(* ---- layouts with tabs ---- *)
(* parse_pil expands tabs (str.expandtabs) before parsing.  The layouts of all round trips are blank runs
   over the grammar's whitespace set {tab, CR, space}; the theorems below are the *_parse_string theorems
   WITHOUT their `no_tab` hypothesis: the expansion of a rendering is a rendering with other blank runs and the
   same token tree (Proofs/PegTabs.v, Proofs/C13Tabs.v).  Tabs inside comments are covered as well. *)
Theorem C13_roundtrip_dl_domain_tabs : forall s y b E,
  dl_stmt_ok s -> dl_layout_ok y -> blanks pil_ws b -> stmt_end E [] ->
  exists f0, forall f, f0 <= f -> parse_pil_fuel f (b ++ dl_render s y ++ E) = vals [dl_tree s].
Proof. exact roundtrip_dl_domain_tabs. Qed.
Print Assumptions C13_roundtrip_dl_domain_tabs.

Theorem C13_roundtrip_sl_domain_tabs : forall s y b E,
  sl_stmt_ok s -> sl_layout_ok y -> blanks pil_ws b -> stmt_end E [] ->
  exists f0, forall f, f0 <= f -> parse_pil_fuel f (b ++ sl_render s y ++ E) = vals [sl_tree s].
Proof. exact roundtrip_sl_domain_tabs. Qed.
Print Assumptions C13_roundtrip_sl_domain_tabs.

Theorem C13_roundtrip_macrostate_tabs : forall s y b E,
  ms_stmt_ok s -> ms_layout_ok y -> blanks pil_ws b -> stmt_end E [] ->
  exists f0, forall f, f0 <= f -> parse_pil_fuel f (b ++ ms_render s y ++ E) = vals [ms_tree s].
Proof. exact roundtrip_macrostate_tabs. Qed.
Print Assumptions C13_roundtrip_macrostate_tabs.

Theorem C13_roundtrip_composite_domain_tabs : forall s y b E,
  cd_stmt_ok s -> cd_layout_ok y -> blanks pil_ws b -> stmt_end E [] ->
  exists f0, forall f, f0 <= f -> parse_pil_fuel f (b ++ cd_render s y ++ E) = vals [cd_tree s].
Proof. exact roundtrip_composite_domain_tabs. Qed.
Print Assumptions C13_roundtrip_composite_domain_tabs.

Theorem C13_roundtrip_reaction_tabs : forall s y b E,
  rx_stmt_ok s -> rx_layout_ok y -> blanks pil_ws b -> stmt_end E [] ->
  exists f0, forall f, f0 <= f -> parse_pil_fuel f (b ++ rx_render s y ++ E) = vals [rx_tree s].
Proof. exact roundtrip_reaction_tabs. Qed.
Print Assumptions C13_roundtrip_reaction_tabs.

Theorem C13_roundtrip_reaction_infobox_tabs : forall s y i b E,
  rx_stmt_ok s -> rx_layout_ok y -> infobox_ok i -> blanks pil_ws b -> stmt_end E [] ->
  exists f0, forall f, f0 <= f -> parse_pil_fuel f (b ++ rxi_render s y i ++ E) = vals [rxi_tree s i].
Proof. exact roundtrip_reaction_infobox_tabs. Qed.
Print Assumptions C13_roundtrip_reaction_infobox_tabs.

Theorem C13_roundtrip_kernel_complex_tabs : forall s b E,
  blanks pil_ws b -> stmt_end E [] -> kc_stmt_ok s E ->
  exists f0, forall f, f0 <= f -> parse_pil_fuel f (b ++ kc_render s ++ E) = vals [kc_tree s].
Proof. exact roundtrip_kernel_complex_tabs. Qed.
Print Assumptions C13_roundtrip_kernel_complex_tabs.

Theorem C13_roundtrip_kernel_concentration_tabs : forall s c b E,
  blanks pil_ws b -> stmt_end E [] -> conc_ok c -> kc_stmt_ok s (conc_text c ++ E) ->
  exists f0, forall f, f0 <= f -> parse_pil_fuel f (b ++ kcc_render s c ++ E) = vals [kcc_tree s c].
Proof. exact roundtrip_kernel_concentration_tabs. Qed.
Print Assumptions C13_roundtrip_kernel_concentration_tabs.

(* structure / complex: the dot-bracket token is a Word over "( ) . +" AND the space, so blanks after it belong to
   the token; as in the tab-free theorems the statement end E must not start with a character of that class,
   and with tabs it must not start with a tab either (the tab becomes spaces, which the token absorbs) ... *)
Theorem C13_roundtrip_structure_tabs : forall s y b E,
  st_ok s y E -> blanks pil_ws b -> stmt_end E [] -> nohead dbch E -> nohead [TAB] E ->
  exists f0, forall f, f0 <= f -> parse_pil_fuel f (b ++ st_kw ++ st_tail_text s y E) = vals [st_tree s].
Proof. exact roundtrip_structure_tabs. Qed.
Print Assumptions C13_roundtrip_structure_tabs.

Theorem C13_roundtrip_complex_tabs : forall s y b E,
  cx_ok s y -> blanks pil_ws b -> stmt_end E [] -> nohead dbch E -> nohead [TAB] E ->
  exists f0, forall f, f0 <= f -> parse_pil_fuel f (b ++ cx_kw ++ cx_tail_text s y E) = vals [cx_tree s].
Proof. exact roundtrip_complex_tabs. Qed.
Print Assumptions C13_roundtrip_complex_tabs.

(* ... REFUTATION of the unguarded statement: `structure x = a : .<TAB><NL>` does not give the tree of the
   rendering (dot-bracket "."): the tab is expanded to five spaces which end up in the dot-bracket token.
   (A blank after the dot-bracket does the same; to be replayed on the implementation.) *)
Theorem C13_structure_tab_after_dotbracket :
  parse_pil (st_kw ++ [32; 120; 32; 61; 32; 97; 32; 58; 32; 46; 9; 10]%N)
  = vals [TList [TStr tag_sc; TStr [120%N]; TList [TStr [97%N]]; TStr [46; 32; 32; 32; 32; 32]%N]].
Proof. exact structure_tab_after_dotbracket. Qed.
Print Assumptions C13_structure_tab_after_dotbracket.
