(* C13 — PIL grammar: parsing inverts rendering, statement by statement.
   Only property theorems: each is closed by `exact` and followed by Print Assumptions.
   `pil_nodes` / `pil_grammar` is the node table regenerated on every run from the
   runtime pyparsing element graph (gen/PilGrammar.v); `parse_pil_fuel f text` is the
   model of parse_pil_string(text) with interpreter fuel f (result `OutOfFuel` when
   exhausted: every theorem gives the answer for all sufficiently large f). *)
From Coq Require Import List NArith.
From DSD Require Import Base.Str Base.Errors Base.Val Model.Peg Model.DispatchPeg
  Proofs.PegMono Proofs.PegStd Proofs.PegDoc Proofs.C13Base Proofs.C13Doc Proofs.PilLex Proofs.C13Lex
  Proofs.C13Dl Proofs.C13Ms Proofs.C13Sl Proofs.C13Cd Proofs.C13Kc Proofs.C13Rx Proofs.C13Sc Proofs.C13Rej
  Proofs.C13Full.
From DSDGen Require Import PilGrammar.
Import ListNotations.

(* the regenerated table is closed: every child / ignore index names a node *)
Theorem C13_grammar_table_closed : grammar_ok pil_grammar = true.
Proof. exact pil_grammar_closed. Qed.
Print Assumptions C13_grammar_table_closed.

(* Parsing a document = concatenating the parses of its statements, in order.
   A document is: blank / comment lines, then statements (leading blanks + text; each
   text is consumed exactly, with its tokens, by the statement node before every
   admissible continuation), then trailing blanks / a comment without newline. *)
Theorem C13_document_concat : forall pls its tl,
  Forall pil_blank_line pls -> Forall pil_item_ok its -> its <> [] -> pil_tail_ok tl ->
  let D := concat pls ++ flatten its ++ tl in
  no_tab D ->
  exists f0, forall f, f0 <= f -> parse_pil_fuel f D = vals (flat_map it_toks its).
Proof. exact pil_document_concat. Qed.
Print Assumptions C13_document_concat.

(* ... in the words of the property: the document of the statements parses to the
   concatenation of what the one-statement documents parse to *)
Theorem C13_document_is_concat_of_statement_parses : forall its,
  Forall pil_item_ok its -> its <> [] -> no_tab (flatten its) ->
  Forall (fun it => no_tab (it_blanks it ++ it_text it)) its ->
  exists f0, forall f, f0 <= f ->
    parse_pil_fuel f (flatten its) =
    VList (flat_map (fun it => match parse_pil_fuel f (it_blanks it ++ it_text it) with VList l => l | _ => [] end) its).
Proof. exact pil_document_is_concat_of_statements. Qed.
Print Assumptions C13_document_is_concat_of_statement_parses.

(* the result does not depend on anything but the table and the text:
   (i) once the fuel suffices, more fuel never changes the answer *)
Theorem C13_result_independent_of_fuel : forall G text f f',
  parse_string_fuel G f text <> PFuel -> f <= f' -> parse_string_fuel G f' text = parse_string_fuel G f text.
Proof. exact parse_fuel_irrelevant. Qed.
Print Assumptions C13_result_independent_of_fuel.

(* (ii) no hidden state: equal tables give equal answers on every text (that the table
   itself is the same after any history of PIL / seesaw parser calls is observed by the
   translator, which dumps it after such histories and compares) *)
Theorem C13_result_function_of_table_and_text : forall G1 G2 text,
  gnodes G1 = gnodes G2 -> groot G1 = groot G2 -> parse_string G1 text = parse_string G2 text.
Proof. exact parse_function_of_table_and_text. Qed.
Print Assumptions C13_result_function_of_table_and_text.

(* parsing a file is parsing its content *)
Theorem C13_parse_file_eq_string : forall content, parse_pil_file content = parse_pil content.
Proof. exact parse_file_eq_string. Qed.
Print Assumptions C13_parse_file_eq_string.

(* Round trip, domain-length statement: for EVERY name (non-empty over the identifier
   alphabet, optional star), every length (any digit string, `short`, `long`; with the
   keyword `sequence` a digit string), each of the three keywords, both assignment signs,
   arbitrary runs of blanks, and every statement end (line end, comment, blank lines /
   end of input), the statement node returns exactly the token tree. *)
Theorem C13_roundtrip_dl_domain : forall s y,
  dl_stmt_ok s -> dl_layout_ok y -> pil_body_ok (dl_render s y) [dl_tree s].
Proof. exact roundtrip_dl_domain. Qed.
Print Assumptions C13_roundtrip_dl_domain.

Theorem C13_roundtrip_dl_domain_parse_string : forall s y b E,
  dl_stmt_ok s -> dl_layout_ok y -> blanks pil_ws b -> stmt_end E [] ->
  no_tab (b ++ dl_render s y ++ E) ->
  exists f0, forall f, f0 <= f -> parse_pil_fuel f (b ++ dl_render s y ++ E) = vals [dl_tree s].
Proof. exact roundtrip_dl_domain_parse. Qed.
Print Assumptions C13_roundtrip_dl_domain_parse_string.

(* Round trip, macrostate statement: (state | macrostate) NAME = [ NAME (, NAME)* ], every
   list length, every layout; guard: the keyword is separated from the name by a blank
   (`statex = ...` is a kernel-notation complex). *)
Theorem C13_roundtrip_macrostate : forall s y,
  ms_stmt_ok s -> ms_layout_ok y -> pil_body_ok (ms_render s y) [ms_tree s].
Proof. exact roundtrip_macrostate. Qed.
Print Assumptions C13_roundtrip_macrostate.

Theorem C13_roundtrip_macrostate_parse_string : forall s y b E,
  ms_stmt_ok s -> ms_layout_ok y -> blanks pil_ws b -> stmt_end E [] ->
  no_tab (b ++ ms_render s y ++ E) ->
  exists f0, forall f, f0 <= f -> parse_pil_fuel f (b ++ ms_render s y ++ E) = vals [ms_tree s].
Proof. exact roundtrip_macrostate_parse. Qed.
Print Assumptions C13_roundtrip_macrostate_parse_string.

(* Round trip, sequence-constraint statement: sequence NAME[*] (=|:) LETTERS [(=|:) DIGITS] *)
Theorem C13_roundtrip_sl_domain : forall s y,
  sl_stmt_ok s -> sl_layout_ok y -> pil_body_ok (sl_render s y) [sl_tree s].
Proof. exact roundtrip_sl_domain. Qed.
Print Assumptions C13_roundtrip_sl_domain.

Theorem C13_roundtrip_sl_domain_parse_string : forall s y b E,
  sl_stmt_ok s -> sl_layout_ok y -> blanks pil_ws b -> stmt_end E [] ->
  no_tab (b ++ sl_render s y ++ E) ->
  exists f0, forall f, f0 <= f -> parse_pil_fuel f (b ++ sl_render s y ++ E) = vals [sl_tree s].
Proof. exact roundtrip_sl_domain_parse. Qed.
Print Assumptions C13_roundtrip_sl_domain_parse_string.

(* Round trip, strand / sup-sequence statement: (strand | sup-sequence) NAME (=|:) DOMAIN+ [(=|:) DIGITS] *)
Theorem C13_roundtrip_composite_domain : forall s y,
  cd_stmt_ok s -> cd_layout_ok y -> pil_body_ok (cd_render s y) [cd_tree s].
Proof. exact roundtrip_composite_domain. Qed.
Print Assumptions C13_roundtrip_composite_domain.

Theorem C13_roundtrip_composite_domain_parse_string : forall s y b E,
  cd_stmt_ok s -> cd_layout_ok y -> blanks pil_ws b -> stmt_end E [] ->
  no_tab (b ++ cd_render s y ++ E) ->
  exists f0, forall f, f0 <= f -> parse_pil_fuel f (b ++ cd_render s y ++ E) = vals [cd_tree s].
Proof. exact roundtrip_composite_domain_parse. Qed.
Print Assumptions C13_roundtrip_composite_domain_parse_string.

(* Kernel patterns (shared with C12): every item of a pattern -- a domain name with
   optional ^ and *, a strand break +, a loop NAME( PATTERN? ) of any nesting depth, with any
   blanks -- is parsed by the pattern node to exactly its tokens *)
Theorem C13_kernel_pattern_item_parses : forall it full rest x,
  item_wf it rest -> std_pre pil_ws x = item_body it rest ->
  evals pil_nodes full 210 true (At x) (POk (At rest) (item_toks it)).
Proof. exact item_parses_any. Qed.
Print Assumptions C13_kernel_pattern_item_parses.

(* Round trip, kernel-notation complex NAME = PATTERN (without concentration), all names,
   nestings and layouts; guard: the name does not start with a statement keyword *)
Theorem C13_roundtrip_kernel_complex : forall s full b E k,
  blanks pil_ws b -> stmt_end E k -> kc_stmt_ok s (E ++ k) ->
  evals pil_nodes full pil_stmt true (At (b ++ kc_render s ++ E ++ k)) (POk (after pil_ws k) [kc_tree s]).
Proof. exact roundtrip_kernel_complex. Qed.
Print Assumptions C13_roundtrip_kernel_complex.

Theorem C13_roundtrip_kernel_complex_parse_string : forall s b E,
  blanks pil_ws b -> stmt_end E [] -> kc_stmt_ok s E -> no_tab (b ++ kc_render s ++ E) ->
  exists f0, forall f, f0 <= f -> parse_pil_fuel f (b ++ kc_render s ++ E) = vals [kc_tree s].
Proof. exact roundtrip_kernel_complex_parse. Qed.
Print Assumptions C13_roundtrip_kernel_complex_parse_string.

(* Round trip, reaction without rate information: (kinetic | reaction) NAME (+ NAME)* -> NAME (+ NAME)*;
   guard: the arrow is preceded by a blank (`-` is an identifier character) *)
Theorem C13_roundtrip_reaction : forall s y,
  rx_stmt_ok s -> rx_layout_ok y -> pil_body_ok (rx_render s y) [rx_tree s].
Proof. exact roundtrip_reaction. Qed.
Print Assumptions C13_roundtrip_reaction.

Theorem C13_roundtrip_reaction_parse_string : forall s y b E,
  rx_stmt_ok s -> rx_layout_ok y -> blanks pil_ws b -> stmt_end E [] ->
  no_tab (b ++ rx_render s y ++ E) ->
  exists f0, forall f, f0 <= f -> parse_pil_fuel f (b ++ rx_render s y ++ E) = vals [rx_tree s].
Proof. exact roundtrip_reaction_parse. Qed.
Print Assumptions C13_roundtrip_reaction_parse_string.

(* Round trip, strand-notation complex, `structure` form: the dot-bracket token is exactly the
   rendered dot-bracket with the blanks it contains (maximal run over `( ) . +` and the space) *)
Theorem C13_roundtrip_structure : forall s y full b E k,
  st_ok s y (E ++ k) -> blanks pil_ws b -> stmt_end E k -> nohead dbch (E ++ k) ->
  evals pil_nodes full pil_stmt true (At (b ++ st_kw ++ st_tail_text s y (E ++ k))) (POk (after pil_ws k) [st_tree s]).
Proof. exact roundtrip_structure. Qed.
Print Assumptions C13_roundtrip_structure.

(* ... `complex` form, with its two optional line ends *)
Theorem C13_roundtrip_complex : forall s y full b E k,
  cx_ok s y -> blanks pil_ws b -> stmt_end E k -> nohead dbch (E ++ k) ->
  evals pil_nodes full pil_stmt true (At (b ++ cx_kw ++ cx_tail_text s y (E ++ k))) (POk (after pil_ws k) [cx_tree s]).
Proof. exact roundtrip_complex. Qed.
Print Assumptions C13_roundtrip_complex.

Theorem C13_roundtrip_structure_parse_string : forall s y b E,
  st_ok s y E -> blanks pil_ws b -> stmt_end E [] -> nohead dbch E ->
  no_tab (b ++ st_kw ++ st_tail_text s y E) ->
  exists f0, forall f, f0 <= f -> parse_pil_fuel f (b ++ st_kw ++ st_tail_text s y E) = vals [st_tree s].
Proof. exact roundtrip_structure_parse. Qed.
Print Assumptions C13_roundtrip_structure_parse_string.

Theorem C13_roundtrip_complex_parse_string : forall s y b E,
  cx_ok s y -> blanks pil_ws b -> stmt_end E [] -> nohead dbch E ->
  no_tab (b ++ cx_kw ++ cx_tail_text s y E) ->
  exists f0, forall f, f0 <= f -> parse_pil_fuel f (b ++ cx_kw ++ cx_tail_text s y E) = vals [cx_tree s].
Proof. exact roundtrip_complex_parse. Qed.
Print Assumptions C13_roundtrip_complex_parse_string.

(* Rejection: a document whose first statement the statement node refuses raises ParseException *)
Theorem C13_reject_document : forall pls b y,
  Forall pil_blank_line pls -> blanks pil_ws b -> stmt_start pil_ws y ->
  (forall full b', blanks pil_ws b' -> evals pil_nodes full pil_stmt true (At (b' ++ y)) PFail) ->
  let D := concat pls ++ b ++ y in
  no_tab D ->
  exists f0, forall f, f0 <= f -> parse_pil_fuel f D = err eParse.
Proof. exact pil_document_reject. Qed.
Print Assumptions C13_reject_document.

(* Rejection, missing assignment sign: KEYWORD NAME[*] X..., X neither `=` nor `:`, for the
   three domain-length keywords: refused by every one of the 13 statement alternatives *)
Theorem C13_reject_missing_assign : forall s pls b,
  noassign_ok s -> Forall pil_blank_line pls -> blanks pil_ws b ->
  no_tab (concat pls ++ b ++ noassign_text s) ->
  exists f0, forall f, f0 <= f -> parse_pil_fuel f (concat pls ++ b ++ noassign_text s) = err eParse.
Proof. exact reject_missing_assign. Qed.
Print Assumptions C13_reject_missing_assign.

(* Rejection, malformed number: a digit string followed by junk that is not a statement
   end (`5x`, `1.`, `1e`, `1_000`, `1,5`, a non-ASCII digit, ...) in a domain-length statement *)
Theorem C13_reject_malformed_number : forall s y pls b,
  badnum_ok s y -> Forall pil_blank_line pls -> blanks pil_ws b ->
  no_tab (concat pls ++ b ++ badnum_text s y) ->
  exists f0, forall f, f0 <= f -> parse_pil_fuel f (concat pls ++ b ++ badnum_text s y) = err eParse.
Proof. exact reject_malformed_number. Qed.
Print Assumptions C13_reject_malformed_number.

(* REFUTED on the faithful model (and on the implementation): "a statement with a missing
   name is rejected".  `length = 5` is a kernel-notation complex called `length`. *)
Theorem C13_reject_missing_name_refuted :
  parse_pil [108; 101; 110; 103; 116; 104; 32; 61; 32; 53; 10]%N
  = vals [TList [TStr [107; 101; 114; 110; 101; 108; 45; 99; 111; 109; 112; 108; 101; 120]%N;
                 TStr [108; 101; 110; 103; 116; 104]%N; TList [TStr [53%N]]]].
Proof. exact missing_name_refuted. Qed.
Print Assumptions C13_reject_missing_name_refuted.

(* the lexical classes of the dialect (specification) are the character sets of the table *)
Theorem C13_lexical_classes :
  idch = spec_idch /\ alpha = spec_alpha /\ digit = spec_digit /\ pil_ws = spec_blank /\ pil_cs4 = spec_dotbracket.
Proof. exact pil_lexical_classes. Qed.
Print Assumptions C13_lexical_classes.

Theorem C13_words_over_lexical_classes : forallb word_class_ok pil_nodes = true.
Proof. exact pil_words_over_classes. Qed.
Print Assumptions C13_words_over_lexical_classes.

(* ---- full statements not yet proved (kept visible; listed under `partial` in the evidence) ---- *)

(* reaction with rate information [NAME (=|:) RATE [+/- (RATE|inf)] /UNIT.../TIME] *)
Definition C13_roundtrip_reaction_infobox_full : Prop := forall s y i,
  rx_stmt_ok s -> rx_layout_ok y -> infobox_ok i -> pil_body_ok (rxi_render s y i) [rxi_tree s i].

(* kernel-notation complex with concentration  @ (initial|i|constant|c) NUMBER UNIT *)
Definition C13_roundtrip_kernel_concentration_full : Prop := forall s c full b E k,
  blanks pil_ws b -> stmt_end E k -> kc_stmt_ok s (conc_text c ++ E ++ k) -> conc_ok c ->
  evals pil_nodes full pil_stmt true (At (b ++ kcc_render s c ++ E ++ k)) (POk (after pil_ws k) [kcc_tree s c]).

(* layouts with tabs: every *_parse_string theorem above without its `no_tab` hypothesis (parse_string expands
   tabs to spaces before parsing; the expanded text is again a rendering with other blank runs), e.g. *)
Definition C13_roundtrip_dl_domain_tabs_full : Prop := forall s y b E,
  dl_stmt_ok s -> dl_layout_ok y -> blanks pil_ws b -> stmt_end E [] ->
  exists f0, forall f, f0 <= f -> parse_pil_fuel f (b ++ dl_render s y ++ E) = vals [dl_tree s].

(* rejection of unbalanced kernel brackets, for all patterns *)
Definition C13_reject_unbalanced_kernel_full : Prop := forall s pls b E junk,
  kc_stmt_ok s (41%N :: junk) -> Forall pil_blank_line pls -> blanks pil_ws b -> stmt_end E [] ->
  no_tab (concat pls ++ b ++ kc_render s ++ 41%N :: junk ++ E) ->
  exists f0, forall f, f0 <= f -> parse_pil_fuel f (concat pls ++ b ++ kc_render s ++ 41%N :: junk ++ E) = err eParse.

(* the default fuel of parse_pil suffices for every text (termination of the interpreter within
   (|text| + 2) * |table| nested calls); observed on every correspondence case, not proved *)
Definition C13_default_fuel_suffices_full : Prop := forall text, parse_pil text <> err eFuel.
