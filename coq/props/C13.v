(* C13 — PIL grammar: parsing inverts rendering, statement by statement.
   Only property theorems: each is closed by `exact` and followed by Print Assumptions. *)
From Coq Require Import List NArith.
From DSD Require Import Base.Str Base.Errors Base.Val Model.Peg Model.DispatchPeg Proofs.C13Base.
From DSDGen Require Import PilGrammar.
Import ListNotations.

(* the regenerated table is closed: every child / ignore index names a node *)
Theorem C13_grammar_table_closed : grammar_ok pil_grammar = true.
Proof. exact pil_grammar_closed. Qed.
Print Assumptions C13_grammar_table_closed.
