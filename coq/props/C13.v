(* C13 — PIL grammar: parsing inverts rendering, statement by statement.
   Only property theorems: each is closed by `exact` and followed by Print Assumptions.
   `pil_nodes` / `pil_grammar` is the node table regenerated on every run from the
   runtime pyparsing element graph (gen/PilGrammar.v); `parse_pil_fuel f text` is the
   model of parse_pil_string(text) with interpreter fuel f (result `OutOfFuel` when
   exhausted: every theorem gives the answer for all sufficiently large f). *)
From Coq Require Import List NArith.
From DSD Require Import Base.Str Base.Errors Base.Val Model.Peg Model.DispatchPeg
  Proofs.PegMono Proofs.PegStd Proofs.PegDoc Proofs.C13Base Proofs.C13Doc Proofs.PilLex Proofs.C13Dl.
From DSDGen Require Import PilGrammar.
Import ListNotations.

(* the regenerated table is closed: every child / ignore index names a node *)
Theorem C13_grammar_table_closed : grammar_ok pil_grammar = true.
Proof. exact pil_grammar_closed. Qed.
Print Assumptions C13_grammar_table_closed.

(* Parsing a document = concatenating the parses of its statements, in order.
   A document is: blank / comment lines, then statements (leading blanks + text; each
   text is consumed exactly, with its tokens, by the statement node before every
   admissible continuation), then trailing blanks / a comment without newline. *)
Theorem C13_document_concat : forall pls its tl,
  Forall pil_blank_line pls -> Forall pil_item_ok its -> its <> [] -> pil_tail_ok tl ->
  let D := concat pls ++ flatten its ++ tl in
  no_tab D ->
  exists f0, forall f, f0 <= f -> parse_pil_fuel f D = vals (flat_map it_toks its).
Proof. exact pil_document_concat. Qed.
Print Assumptions C13_document_concat.

(* ... in the words of the property: the document of the statements parses to the
   concatenation of what the one-statement documents parse to *)
Theorem C13_document_is_concat_of_statement_parses : forall its,
  Forall pil_item_ok its -> its <> [] -> no_tab (flatten its) ->
  Forall (fun it => no_tab (it_blanks it ++ it_text it)) its ->
  exists f0, forall f, f0 <= f ->
    parse_pil_fuel f (flatten its) =
    VList (flat_map (fun it => match parse_pil_fuel f (it_blanks it ++ it_text it) with VList l => l | _ => [] end) its).
Proof. exact pil_document_is_concat_of_statements. Qed.
Print Assumptions C13_document_is_concat_of_statement_parses.

(* the result does not depend on anything but the table and the text:
   (i) once the fuel suffices, more fuel never changes the answer *)
Theorem C13_result_independent_of_fuel : forall G text f f',
  parse_string_fuel G f text <> PFuel -> f <= f' -> parse_string_fuel G f' text = parse_string_fuel G f text.
Proof. exact parse_fuel_irrelevant. Qed.
Print Assumptions C13_result_independent_of_fuel.

(* (ii) no hidden state: equal tables give equal answers on every text (that the table
   itself is the same after any history of PIL / seesaw parser calls is observed by the
   translator, which dumps it after such histories and compares) *)
Theorem C13_result_function_of_table_and_text : forall G1 G2 text,
  gnodes G1 = gnodes G2 -> groot G1 = groot G2 -> parse_string G1 text = parse_string G2 text.
Proof. exact parse_function_of_table_and_text. Qed.
Print Assumptions C13_result_function_of_table_and_text.

(* parsing a file is parsing its content *)
Theorem C13_parse_file_eq_string : forall content, parse_pil_file content = parse_pil content.
Proof. exact parse_file_eq_string. Qed.
Print Assumptions C13_parse_file_eq_string.

(* Round trip, domain-length statement: for EVERY name (non-empty over the identifier
   alphabet, optional star), every length (any digit string, `short`, `long`; with the
   keyword `sequence` a digit string), each of the three keywords, both assignment signs,
   arbitrary runs of blanks, and every statement end (line end, comment, blank lines /
   end of input), the statement node returns exactly the token tree. *)
Theorem C13_roundtrip_dl_domain : forall s y,
  dl_stmt_ok s -> dl_layout_ok y -> pil_body_ok (dl_render s y) [dl_tree s].
Proof. exact roundtrip_dl_domain. Qed.
Print Assumptions C13_roundtrip_dl_domain.

Theorem C13_roundtrip_dl_domain_parse_string : forall s y b E,
  dl_stmt_ok s -> dl_layout_ok y -> blanks pil_ws b -> stmt_end E [] ->
  no_tab (b ++ dl_render s y ++ E) ->
  exists f0, forall f, f0 <= f -> parse_pil_fuel f (b ++ dl_render s y ++ E) = vals [dl_tree s].
Proof. exact roundtrip_dl_domain_parse. Qed.
Print Assumptions C13_roundtrip_dl_domain_parse_string.
