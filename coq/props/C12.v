(* C12 — kernel notation round-trips: the reader's resolve_kernel_loops is the exact
   inverse of kernel_string on every kernel tree (arbitrary nesting, strands,
   empty loops, any legal names).  The parser step in between is covered by the
   correspondence of the complete chain and by C13. *)
From Coq Require Import List NArith.
From DSD Require Import Base.Str Base.Errors Model.ComplexUtils Model.Compare Model.Views Model.Kernel Proofs.C12.
Import ListNotations.

Theorem C12_reader_inverts_kernel_tree : forall t, names_ok t = true ->
  resolve_kernel_loops (to_tokens t) = Ok (flatten t).
Proof. exact resolve_inverts_tree. Qed.
Print Assumptions C12_reader_inverts_kernel_tree.

Theorem C12_kernel_string_writes_the_tree : forall t, names_ok t = true ->
  kernel_string (fst (flatten t)) (snd (flatten t)) = Ok (join_names [32%N] (tree_texts t)).
Proof. exact kernel_string_of_tree. Qed.
Print Assumptions C12_kernel_string_writes_the_tree.
