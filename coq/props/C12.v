(* C12 — kernel notation round-trips: the reader's resolve_kernel_loops is the exact
   inverse of kernel_string on every kernel tree (arbitrary nesting, strands,
   empty loops, any legal names).  The parser step in between is covered by the
   correspondence of the complete chain and by C13. *)
From Coq Require Import List NArith.
From DSD Require Import Base.Str Base.Errors Model.ComplexUtils Model.Compare Model.Views Model.Kernel Proofs.C12.
Import ListNotations.

Theorem C12_reader_inverts_kernel_tree : forall t, names_ok t = true ->
  resolve_kernel_loops (to_tokens t) = Ok (flatten t).
Proof. exact resolve_inverts_tree. Qed.
Print Assumptions C12_reader_inverts_kernel_tree.

Theorem C12_kernel_string_writes_the_tree : forall t, names_ok t = true ->
  kernel_string (fst (flatten t)) (snd (flatten t)) = Ok (join_names [32%N] (tree_texts t)).
Proof. exact kernel_string_of_tree. Qed.
Print Assumptions C12_kernel_string_writes_the_tree.
(* ---- appended: kernel trees = aligned, well-formed, complementary pairs; full chain ---- *)
From DSD Require Import Base.Val Model.Loops Model.Peg Model.DispatchPeg Model.DispatchKernel
  Proofs.C06 Proofs.RotTree Proofs.RotOnce Proofs.C13Kc Proofs.C12Tree.
From DSDGen Require Import PilGrammar.

(* tree_exists: guards = alignment, well-formedness, non-empty names, no empty strand *)
Theorem C12_tree_exists : forall seq sst,
  aligned seq sst -> wf sst -> Forall (fun x => x <> []) seq ->
  nonempty_strands sPlus seq true = true ->
  is_domainlevel_complement seq sst = Ok true ->
  exists t, names_ok t = true /\ kp_ok t /\ flatten t = (seq, sst).
Proof. exact tree_exists_strong. Qed.
Print Assumptions C12_tree_exists.

(* converse; kp_ok t: the name written at a closing bracket (toggle d) is a legal
   name that toggles back (it excludes names such as a-star-star, plus-star and a lone star) *)
Theorem C12_flatten_sound : forall t,
  names_ok t = true -> kp_ok t ->
  let seq := fst (flatten t) in let sst := snd (flatten t) in
  aligned seq sst /\ wf sst /\ Forall (fun x => x <> []) seq /\
  (nonempty_strands sPlus seq true = true -> is_domainlevel_complement seq sst = Ok true).
Proof. exact flatten_sound. Qed.
Print Assumptions C12_flatten_sound.

(* both guards are needed *)
Theorem C12_tree_exists_needs_nonempty_strands : ~ tree_exists_without_strand_guard_full.
Proof. exact tree_exists_without_strand_guard_refuted. Qed.
Print Assumptions C12_tree_exists_needs_nonempty_strands.

Theorem C12_flatten_sound_needs_name_guard : ~ flatten_sound_without_name_guard_full.
Proof. exact flatten_sound_without_name_guard_refuted. Qed.
Print Assumptions C12_flatten_sound_needs_name_guard.

(* kernel_roundtrip_model: kernel_string, the regenerated PIL grammar (PEG
   interpreter, any sufficiently large fuel) and resolve_kernel_loops compose to
   the identity; c12_chain = c12_chain_with (default_fuel pil_grammar) *)
Theorem C12_kernel_roundtrip_tree : forall t,
  t <> KNil -> ids_ok t = true ->
  exists f0, forall fuel, (forall x, f0 <= fuel x) ->
    c12_chain_with fuel (fst (flatten t)) (snd (flatten t)) =
    VList [ VStr (join_names [32%N] (tree_texts t));
            VList (map val_of_tok (items_toks (items_of t)));
            of_ss (flatten t); VStr tag_kc; VStr [88%N]; of_nat 0 ].
Proof. exact kernel_roundtrip_tree. Qed.
Print Assumptions C12_kernel_roundtrip_tree.

Theorem C12_kernel_roundtrip_model : forall seq sst,
  seq <> [] -> aligned seq sst -> wf sst ->
  Forall (fun x => x = sPlus \/ idname x = true) seq ->
  nonempty_strands sPlus seq true = true ->
  is_domainlevel_complement seq sst = Ok true ->
  exists ks pattern f0,
    kernel_string seq sst = Ok ks /\
    forall fuel, (forall x, f0 <= fuel x) ->
      c12_chain_with fuel seq sst =
      VList [VStr ks; VList (map val_of_tok pattern); of_ss (seq, sst); VStr tag_kc; VStr [88%N]; of_nat 0].
Proof. exact kernel_roundtrip_model. Qed.
Print Assumptions C12_kernel_roundtrip_model.

Theorem C12_chain_is_default_fuel_instance : forall seq sst,
  c12_chain seq sst = c12_chain_with (default_fuel pil_grammar) seq sst.
Proof. exact c12_chain_is_default. Qed.
Print Assumptions C12_chain_is_default_fuel_instance.

(* ---- appended: the chain with the parser's default fuel (c12_chain itself) ---- *)
From DSD Require Import Proofs.C12Fuel.

(* kernel_roundtrip: for an aligned, well-formed, domain-level complementary complex
   without empty strands whose names are identifiers [A-Za-z0-9_-] optionally starred,
   c12_chain (kernel_string -> "X = ...\n" -> PIL grammar with its default fuel ->
   resolve_kernel_loops) returns exactly (seq, sst) *)
Theorem C12_kernel_roundtrip : forall seq sst,
  seq <> [] -> aligned seq sst -> wf sst ->
  Forall (fun x => x = sPlus \/ idname x = true) seq ->
  nonempty_strands sPlus seq true = true ->
  is_domainlevel_complement seq sst = Ok true ->
  exists ks pattern,
    kernel_string seq sst = Ok ks /\
    c12_chain seq sst =
    VList [VStr ks; VList (map val_of_tok pattern); of_ss (seq, sst); VStr tag_kc; VStr [88%N]; of_nat 0].
Proof. exact kernel_roundtrip. Qed.
Print Assumptions C12_kernel_roundtrip.

Theorem C12_kernel_roundtrip_of_tree : forall t,
  t <> KNil -> ids_ok t = true ->
  c12_chain (fst (flatten t)) (snd (flatten t)) =
  VList [ VStr (join_names [32%N] (tree_texts t));
          VList (map val_of_tok (items_toks (items_of t)));
          of_ss (flatten t); VStr tag_kc; VStr [88%N]; of_nat 0 ].
Proof. exact kernel_roundtrip_tree_default. Qed.
Print Assumptions C12_kernel_roundtrip_of_tree.
