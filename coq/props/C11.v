(* C11 — macrostates and reactions are (multi)sets, independent of argument order.
   Members are (canonical form, name) pairs; `singletons l` is the C01 invariant
   "one object per canonical form" restricted to the members. *)
From Coq Require Import List NArith Permutation Sorted.
From DSD Require Import Base.Str Base.Errors Base.Sort Model.ComplexUtils Model.Compare Proofs.C10 Proofs.C11.
Import ListNotations.

Theorem C11_macrostate_order_independent : forall l l' name,
  singletons l -> Permutation l l' ->
  macro_identifiers ckey_cmp l name = macro_identifiers ckey_cmp l' name.
Proof. exact macrostate_order_independent. Qed.
Print Assumptions C11_macrostate_order_independent.

Theorem C11_macrostate_members_name_representative : forall l name cs n,
  macro_identifiers ckey_cmp l name = Ok (cs, n) ->
  Permutation cs l /\ Sorted (klt_or_eq fst ckey_cmp) cs /\
  (name = None -> exists c r, cs = c :: r /\ n = snd c /\ forall y, In y l -> kle fst ckey_cmp c y = true) /\
  (forall m, name = Some m -> n = m /\ exists c, representative cs m = Some c /\ snd c = m /\ In c l).
Proof. exact (macro_members_sorted ckey_cmp good_ckey). Qed.
Print Assumptions C11_macrostate_members_name_representative.

Theorem C11_macrostate_different_members_different_canon : forall l l' name cs n cs' n',
  macro_identifiers ckey_cmp l name = Ok (cs, n) -> macro_identifiers ckey_cmp l' name = Ok (cs', n') ->
  cs = cs' -> Permutation l l'.
Proof. exact (macro_different_members ckey_cmp good_ckey). Qed.
Print Assumptions C11_macrostate_different_members_different_canon.

Theorem C11_reaction_order_independent_complexes : forall re re' pr pr' rtype name,
  singletons re -> singletons pr -> Permutation re re' -> Permutation pr pr' ->
  reaction_identifiers ckey_cmp re pr rtype name = reaction_identifiers ckey_cmp re' pr' rtype name.
Proof. exact reaction_order_independent_complexes. Qed.
Print Assumptions C11_reaction_order_independent_complexes.

Theorem C11_reaction_order_independent_macrostates : forall re re' pr pr' rtype name,
  singletons re -> singletons pr -> Permutation re re' -> Permutation pr pr' ->
  reaction_identifiers mkey_cmp re pr rtype name = reaction_identifiers mkey_cmp re' pr' rtype name.
Proof. exact reaction_order_independent_macrostates. Qed.
Print Assumptions C11_reaction_order_independent_macrostates.

Theorem C11_reaction_members_in_canonical_order : forall re pr rtype name,
  let '(canon, _, sre, spr) := reaction_identifiers ckey_cmp re pr rtype name in
  Permutation sre re /\ Permutation spr pr /\
  Sorted (klt_or_eq fst ckey_cmp) sre /\ Sorted (klt_or_eq fst ckey_cmp) spr /\
  canon = (map fst sre, map fst spr, rtype).
Proof. exact (reaction_members_sorted ckey_cmp good_ckey). Qed.
Print Assumptions C11_reaction_members_in_canonical_order.

Theorem C11_reaction_canonical_form_injective : forall re pr rtype re' pr' rtype' name name',
  fst (fst (fst (reaction_identifiers ckey_cmp re pr rtype name))) =
  fst (fst (fst (reaction_identifiers ckey_cmp re' pr' rtype' name'))) ->
  Permutation (map fst re) (map fst re') /\ Permutation (map fst pr) (map fst pr') /\ rtype = rtype'.
Proof. exact (reaction_canon_injective ckey_cmp). Qed.
Print Assumptions C11_reaction_canonical_form_injective.
