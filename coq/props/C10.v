(* C10 — equality, hashing and ordering are coherent for every kind of object.
   `coherent cmp` bundles: == iff equal canonical forms, equal => equal hash (for
   ANY hash function of the canonical form), != is the negation, <= total and
   transitive, < transitive and irreflexive, < implies <=, <= is not >, >= and >
   are the flipped operators, == implies equivalence and conversely. *)
From Coq Require Import List NArith ZArith.
From DSD Require Import Base.Str Base.Sort Model.Compare Proofs.C10.

Theorem C10_complexes_and_strands : coherent ckey_cmp.
Proof. exact complexes_coherent. Qed.
Print Assumptions C10_complexes_and_strands.
Theorem C10_macrostates : coherent mkey_cmp.
Proof. exact macrostates_coherent. Qed.
Print Assumptions C10_macrostates.
Theorem C10_reactions_over_complexes : coherent (rkey_cmp ckey_cmp).
Proof. exact reactions_over_complexes_coherent. Qed.
Print Assumptions C10_reactions_over_complexes.
Theorem C10_reactions_over_macrostates : coherent (rkey_cmp mkey_cmp).
Proof. exact reactions_over_macrostates_coherent. Qed.
Print Assumptions C10_reactions_over_macrostates.
Theorem C10_domains :
  (forall a b, dom_eqb a b = true <-> a = b) /\
  (forall (H : Type) (h : pstr -> H) a b, dom_eqb a b = true -> h (fst a) = h (fst b)) /\
  (forall a b, nth 1 (dom_ops a b) false = negb (nth 0 (dom_ops a b) false)) /\
  coherent str_cmp /\
  (forall a b, dom_eqb a b = true ->
     leb str_cmp (fst a) (fst b) = true /\ geb str_cmp (fst a) (fst b) = true).
Proof. exact domains_coherent. Qed.
Print Assumptions C10_domains.

(* ---- sorted(), min(), max(): deterministic for every kind (Proofs/C10Sort.v).  `key` is the object's canonical form
   (for domains its name); objects of different subclasses may share a key, so the statements are about the sequence
   of canonical forms, about being an ascending permutation, and about stability (key-equal objects keep their input
   order), with no assumption that the key is injective. ---- *)
From Coq Require Import Permutation Sorted.
From DSD Require Import Proofs.C10Sort.
Import ListNotations.

Theorem C10_sorted_lists_the_same_canonical_forms_in_every_arrangement :
  forall (A K : Type) (key : A -> K) (cmp : K -> K -> comparison), good_cmp cmp ->
  forall l l', Permutation l l' -> map key (sort_by key cmp l) = map key (sort_by key cmp l').
Proof. exact (@sorted_keys_deterministic). Qed.
Print Assumptions C10_sorted_lists_the_same_canonical_forms_in_every_arrangement.

Theorem C10_sorted_is_an_ascending_permutation :
  forall (A K : Type) (key : A -> K) (cmp : K -> K -> comparison), good_cmp cmp ->
  forall l, Permutation (sort_by key cmp l) l /\
            StronglySorted (fun x y => leb cmp (key x) (key y) = true) (sort_by key cmp l).
Proof. intros A K key cmp G l. exact (conj (sorted_is_permutation key cmp l) (sorted_ascending key cmp G l)). Qed.
Print Assumptions C10_sorted_is_an_ascending_permutation.

Theorem C10_sorted_is_stable :
  forall (A K : Type) (key : A -> K) (cmp : K -> K -> comparison), good_cmp cmp ->
  forall k l, filter (fun y => eqb cmp (key y) k) (sort_by key cmp l) = filter (fun y => eqb cmp (key y) k) l.
Proof. exact (@sorted_stable). Qed.
Print Assumptions C10_sorted_is_stable.

Theorem C10_min_and_max_are_the_ends_of_sorted :
  forall (A K : Type) (key : A -> K) (cmp : K -> K -> comparison), good_cmp cmp ->
  forall l, (forall x r, sort_by key cmp l = x :: r -> forall y, In y l -> leb cmp (key x) (key y) = true) /\
            (forall pre x, sort_by key cmp l = pre ++ [x] -> forall y, In y l -> leb cmp (key y) (key x) = true).
Proof.
  intros A K key cmp G l.
  exact (conj (sorted_head_is_minimum key cmp G l) (sorted_last_is_maximum key cmp G l)).
Qed.
Print Assumptions C10_min_and_max_are_the_ends_of_sorted.

(* the orders of all five kinds are instances *)
Theorem C10_every_kind_is_ordered_by_a_good_comparison :
  good_cmp str_cmp /\ good_cmp ckey_cmp /\ good_cmp mkey_cmp /\
  good_cmp (rkey_cmp ckey_cmp) /\ good_cmp (rkey_cmp mkey_cmp).
Proof. exact (conj good_str (conj good_ckey (conj good_mkey (conj (good_rkey _ good_ckey) (good_rkey _ good_mkey))))). Qed.
Print Assumptions C10_every_kind_is_ordered_by_a_good_comparison.
