(* C10 — equality, hashing and ordering are coherent for every kind of object.
   `coherent cmp` bundles: == iff equal canonical forms, equal => equal hash (for
   ANY hash function of the canonical form), != is the negation, <= total and
   transitive, < transitive and irreflexive, < implies <=, <= is not >, >= and >
   are the flipped operators, == implies equivalence and conversely. *)
From Coq Require Import List NArith ZArith.
From DSD Require Import Base.Str Base.Sort Model.Compare Proofs.C10.

Theorem C10_complexes_and_strands : coherent ckey_cmp.
Proof. exact complexes_coherent. Qed.
Print Assumptions C10_complexes_and_strands.
Theorem C10_macrostates : coherent mkey_cmp.
Proof. exact macrostates_coherent. Qed.
Print Assumptions C10_macrostates.
Theorem C10_reactions_over_complexes : coherent (rkey_cmp ckey_cmp).
Proof. exact reactions_over_complexes_coherent. Qed.
Print Assumptions C10_reactions_over_complexes.
Theorem C10_reactions_over_macrostates : coherent (rkey_cmp mkey_cmp).
Proof. exact reactions_over_macrostates_coherent. Qed.
Print Assumptions C10_reactions_over_macrostates.
Theorem C10_domains :
  (forall a b, dom_eqb a b = true <-> a = b) /\
  (forall (H : Type) (h : pstr -> H) a b, dom_eqb a b = true -> h (fst a) = h (fst b)) /\
  (forall a b, nth 1 (dom_ops a b) false = negb (nth 0 (dom_ops a b) false)) /\
  coherent str_cmp /\
  (forall a b, dom_eqb a b = true ->
     leb str_cmp (fst a) (fst b) = true /\ geb str_cmp (fst a) (fst b) = true).
Proof. exact domains_coherent. Qed.
Print Assumptions C10_domains.
