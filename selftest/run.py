#!/venv/bin/python
"""Self-test of the machinery: apply a patch to a scratch copy of the repository
(outside /repo and /verif, removed afterwards) and run a check against it.

  selftest/run.py <patch.diff> <property id> [tier]     -> prints the check output, exit code of the check
  selftest/run.py --all                                 -> every entry of selftest/expect.json
"""
import json, os, shutil, subprocess, sys, tempfile
HERE = os.path.dirname(os.path.abspath(__file__))
VERIF = os.path.dirname(HERE)


def run_patch(patch, pid, tier="quick"):
    d = tempfile.mkdtemp(prefix="vt_selftest_", dir="/tmp")
    try:
        subprocess.run(["git", "-C", "/repo", "worktree", "add", "--detach", "-f", os.path.join(d, "repo"), "HEAD"],
                       check=True, stdout=subprocess.DEVNULL, stderr=subprocess.DEVNULL)
        # the working tree of /repo (not only HEAD) is what the checks see
        r = subprocess.run(["git", "-C", os.path.join(d, "repo"), "apply", os.path.abspath(patch)],
                           stdout=subprocess.PIPE, stderr=subprocess.STDOUT, text=True)
        if r.returncode != 0:
            # later `fix:` commits may have moved the context lines of an older patch: fuzzy application as a fallback
            r2 = subprocess.run(["patch", "-p1", "-F3", "-s", "-i", os.path.abspath(patch)], cwd=os.path.join(d, "repo"),
                                stdout=subprocess.PIPE, stderr=subprocess.STDOUT, text=True)
            if r2.returncode != 0:
                return 99, "patch does not apply: " + r.stdout + r2.stdout
        env = dict(os.environ, VERIF_REPO=os.path.join(d, "repo"))
        p = subprocess.run([os.path.join(VERIF, "check"), pid, tier], env=env, stdout=subprocess.PIPE,
                           stderr=subprocess.STDOUT, text=True)
        return p.returncode, p.stdout
    finally:
        subprocess.run(["git", "-C", "/repo", "worktree", "remove", "--force", os.path.join(d, "repo")],
                       stdout=subprocess.DEVNULL, stderr=subprocess.DEVNULL)
        shutil.rmtree(d, ignore_errors=True)
        subprocess.run(["git", "-C", "/repo", "worktree", "prune"])


def main():
    if sys.argv[1] == "--all":
        exp = json.load(open(os.path.join(HERE, "expect.json")))
        bad = 0
        for e in exp:
            rc, out = run_patch(os.path.join(VERIF, e["patch"]), e["property"], e.get("tier", "quick"))
            got = "VIOLATION" if rc == 1 and "VIOLATION property=" + e["property"] in out else ("PASS" if rc == 0 else f"rc={rc}")
            ok = got == e["expect"]
            bad += not ok
            print(("ok   " if ok else "FAIL ") + f"{e['patch']} {e['property']}: expected {e['expect']}, got {got}", flush=True)
        return 1 if bad else 0
    rc, out = run_patch(sys.argv[1], sys.argv[2], sys.argv[3] if len(sys.argv) > 3 else "quick")
    print(out)
    return rc

if __name__ == "__main__":
    sys.exit(main())
