#!/usr/bin/env python3
"""Prints the per-property 'as built' summary (from MANIFEST.json, evidence/*.json, known_findings.json,
selftest/expect.json, seeded/*/meta.json) for DESIGN.md section 13."""
import json, glob, os
V = os.path.join(os.path.dirname(os.path.abspath(__file__)), "..")
man = json.load(open(os.path.join(V, "MANIFEST.json")))
kf = json.load(open(os.path.join(V, "known_findings.json")))["findings"]
exp = json.load(open(os.path.join(V, "selftest", "expect.json")))
seeds = [json.load(open(f)) for f in glob.glob(os.path.join(V, "seeded", "*", "meta.json"))]
print("| property | theorems (discharged/obligations) | correspondence cases (quick) | wall (quick) | partial / refuted statements | open findings | hand-written mutants (V = must be caught, P = harmless, must pass) | independent seeds caught |")
print("|---|---|---|---|---|---|---|---|")
for c in man["checks"]:
    p = c["property_id"]
    e = json.load(open(os.path.join(V, "evidence", f"{p}.json")))
    cov = e["coverage"]
    part = cov.get("partial") or []
    ref = cov.get("refuted") or []
    if isinstance(ref, dict):
        ref = list(ref)
    nf = [k for k in kf if k["property"] == p and k.get("status") == "open"]
    mv = sum(1 for x in exp if x["property"] == p and x["expect"] == "VIOLATION")
    mp = sum(1 for x in exp if x["property"] == p and x["expect"] == "PASS")
    sd = [m for m in seeds if m["property"] == p]
    caught = sum(1 for m in sd if m.get("detected", {}).get(p, {}).get("exit") == 1)
    print(f"| {p} | {cov.get('discharged')}/{cov.get('obligations')} | {cov.get('evaluations')} | {e['wall_s']:.0f} s | {len(part)} / {len(ref)} | {len(nf)} | {mv} V, {mp} P | {caught}/{len(sd)} |")
