#!/usr/bin/env python3
"""Prints the markdown table of seeded changes (seeded/*/meta.json) for DESIGN.md section 12."""
import json, glob, os
rows = []
for f in sorted(glob.glob(os.path.join(os.path.dirname(os.path.abspath(__file__)), "..", "seeded", "*", "meta.json"))):
    m = json.load(open(f))
    d = os.path.dirname(f)
    what = ""
    notes = os.path.join(d, "notes.md")
    if os.path.exists(notes):
        txt = [l.strip() for l in open(notes) if l.strip() and not l.startswith("#")]
        what = (txt[0] if txt else "")[:160]
    det = "; ".join(f"{p}: " + ("VIOLATION with failing input" if v["with_failing_input"] else "VIOLATION (no-failing-input-found)" if v["exit"] == 1 else "**missed**")
                    for p, v in m.get("detected", {}).items())
    rows.append(f"| {m['seed']} | {m['property']} | {'yes' if m.get('valid') else 'no'} | {det or 'not run'} | {m.get('note', '')} |")
print("| seed | property | valid (59 tests pass, demo fails only on the change) | quick check on the changed tree | remarks |")
print("|---|---|---|---|---|")
print("\n".join(rows))
