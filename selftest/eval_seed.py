#!/venv/bin/python
"""Evaluate a seeded change produced by an independent sub-agent.

  selftest/eval_seed.py <dir with patch.diff, demo.py[, notes.md]> <property id> <seed id> [extra property ids...]

Confirms in a scratch worktree of /repo (removed afterwards) that the patch applies, the 59 repository tests
still pass, the demonstration passes on the unchanged tree and fails on the changed one; then runs the quick
check(s) against the changed tree.  Copies everything to /verif/seeded/<seed id>/ with meta.json."""
import json, os, shutil, subprocess, sys, tempfile, time
HERE = os.path.dirname(os.path.abspath(__file__))
VERIF = os.path.dirname(HERE)


def sh(cmd, **kw):
    p = subprocess.run(cmd, shell=isinstance(cmd, str), stdout=subprocess.PIPE, stderr=subprocess.STDOUT, text=True, **kw)
    return p.returncode, p.stdout


def main():
    src, pid, sid = sys.argv[1], sys.argv[2], sys.argv[3]
    pids = [pid] + sys.argv[4:]
    d = tempfile.mkdtemp(prefix="vt_seed_", dir="/tmp")
    wt = os.path.join(d, "repo")
    meta = {"seed": sid, "property": pid, "checked_with": pids, "ran": []}
    try:
        sh(["git", "-C", "/repo", "worktree", "add", "--detach", "-f", wt, "HEAD"])
        env = dict(os.environ, PYTHONPATH=wt, PYTHONHASHSEED="0")
        rc0, out0 = sh(["/venv/bin/python", os.path.join(src, "demo.py")], env=env, cwd=d, timeout=600)
        meta["demo_on_unchanged"] = rc0
        rc, out = sh(["git", "-C", wt, "apply", os.path.abspath(os.path.join(src, "patch.diff"))])
        if rc != 0:
            # the seed was written against an earlier HEAD (before a later fix: commit): apply with fuzz
            rc, out = sh(f"patch -p1 -F3 --no-backup-if-mismatch < {os.path.abspath(os.path.join(src, 'patch.diff'))}", cwd=wt)
            meta["applied_with_fuzz"] = rc == 0
        meta["patch_applies"] = rc == 0
        if rc != 0:
            print("patch does not apply:", out)
            return finish(meta, src, sid, 2)
        rc, out = sh("/venv/bin/python -m pytest -q -p no:cacheprovider 2>&1 | tail -1", env=env, cwd=wt, timeout=900)
        meta["tests_on_changed"] = out.strip()
        rc1, out1 = sh(["/venv/bin/python", os.path.join(src, "demo.py")], env=env, cwd=d, timeout=600)
        meta["demo_on_changed"] = rc1
        meta["valid"] = (rc0 == 0 and rc1 != 0 and "59 passed" in out and "failed" not in out)
        meta["detected"] = {}
        for p in pids:
            t0 = time.time()
            rc, out = sh([os.path.join(VERIF, "check"), p, "quick"], env=dict(os.environ, VERIF_REPO=wt), timeout=3600)
            lines = [l for l in out.split("\n") if l.startswith("VIOLATION")]
            meta["detected"][p] = {"exit": rc, "violation_lines": lines[:3], "wall_s": round(time.time() - t0, 1),
                                   "with_failing_input": any("no-failing-input-found" not in l for l in lines)}
            meta["ran"].append(f"VERIF_REPO=<scratch worktree with patch> ./check {p} quick")
        print(json.dumps(meta, indent=1))
        return finish(meta, src, sid, 0)
    finally:
        sh(["git", "-C", "/repo", "worktree", "remove", "--force", wt])
        shutil.rmtree(d, ignore_errors=True)
        sh(["git", "-C", "/repo", "worktree", "prune"])


def finish(meta, src, sid, rc):
    out = os.path.join(VERIF, "seeded", sid)
    os.makedirs(out, exist_ok=True)
    for f in ("patch.diff", "demo.py", "notes.md"):
        if os.path.exists(os.path.join(src, f)):
            shutil.copy(os.path.join(src, f), os.path.join(out, f))
    json.dump(meta, open(os.path.join(out, "meta.json"), "w"), indent=1)
    return rc


if __name__ == "__main__":
    sys.exit(main())
