"""Object-level rotation operations on real ComplexS objects (C07).

Every request clears all singleton registries, builds the domains with
DomainS(name, length) and the complex with ComplexS(sequence, structure), calls
the generator and materialises it.  The lists handed to the constructor (which
the object stores) are compared with deep copies taken before the call: a
generator that modifies the stored representation, or the lists it was given,
raises Modified."""
import copy, gc


class Modified(Exception):
    pass


def _base(name):
    return name[:-1] if name.endswith("*") else name


def _length(name):
    """a deterministic length per complementary pair of names"""
    b = _base(name)
    return 1 + (sum(ord(c) for c in b) % 7)


def register(op):
    from dsdobjects import base_classes as bc
    from dsdobjects.singleton import clear_singletons

    classes = [getattr(bc, n) for n in ("DomainS", "ComplexS", "StrandS", "MacrostateS", "ReactionS")
               if hasattr(bc, n)]

    def reset():
        for c in classes:
            clear_singletons(c)
        bc.ComplexS.ID = 1
        gc.collect()

    def build(seq, sst):
        reset()
        doms = {}
        for n in seq:
            if n != "+" and n not in doms:
                doms[n] = bc.DomainS(n, length=_length(n))
        sq = [n if n == "+" else doms[n] for n in seq]
        st = list(sst)
        cx = bc.ComplexS(sq, st)
        return cx, sq, st, doms

    def names(x):
        return [e if isinstance(e, str) else e.name for e in x]

    def guarded(seq, sst, f):
        cx, sq, st, doms = build(seq, sst)
        before = (list(map(id, sq)), names(sq), copy.deepcopy(st),
                  names(cx._sequence), copy.deepcopy(list(cx._structure)))
        try:
            r = f(cx)
        finally:
            after = (list(map(id, sq)), names(sq), copy.deepcopy(st),
                     names(cx._sequence), copy.deepcopy(list(cx._structure)))
        if before != after:
            raise Modified()
        del cx, sq, st, doms
        return r

    @op("obj_rotate")
    def _(a):
        seq, sst, turns = a
        def f(cx):
            out = list(cx.rotate() if turns is None else cx.rotate(turns))
            return [[names(x), list(y)] for x, y in out]
        return guarded(seq, sst, f)

    @op("obj_rotate_pt")
    def _(a):
        seq, sst, turns = a
        def f(cx):
            out = list(cx.rotate_pt() if turns is None else cx.rotate_pt(turns))
            return [[[names(s) for s in st], pt] for st, pt in out]
        return guarded(seq, sst, f)

    @op("obj_rotate_pairtable_loc")
    def _(a):
        seq, sst, loc, n = a
        def f(cx):
            l = tuple(loc)
            before = copy.deepcopy(l)
            r = cx.rotate_pairtable_loc(l, n)
            if l != before:
                raise Modified()
            return list(r)
        return guarded(seq, sst, f)

    def _tup(pt):
        return [[None if e is None else tuple(e) for e in row] for row in pt]

    @op("rotate_complex_pt_turns")
    def _(a):
        from dsdobjects import complex_utils as cu
        st, pt, turns = a
        st, pt = [list(s) for s in st], _tup(pt)
        before = copy.deepcopy((st, pt))
        r = list(cu.rotate_complex_pt(st, pt, turns=turns))
        if before != (st, pt):
            raise Modified()
        return r

    @op("rotate_complex_db_turns")
    def _(a):
        from dsdobjects import complex_utils as cu
        seq, sst, turns = a
        seq, sst = list(seq), list(sst)
        before = copy.deepcopy((seq, sst))
        r = list(cu.rotate_complex_db(seq, sst, turns=turns))
        if before != (seq, sst):
            raise Modified()
        return r

    @op("rotate_forms")
    def _(a):
        """rotate_complex_once / rotate_complex_db with the arguments in another legitimate FORM.
        [fn, seq, sst, sform, tform]; the structure (tform) as list / tuple / str / one-shot iterator / generator, or
        `complex`: sequence and structure are what a real ComplexS hands out (list(cx.sequence) and the ITERATOR
        cx.structure, domain objects as members); the sequence (sform) as list or, for rotate_complex_db, str.
        The result is materialised and domain objects are replaced by their names."""
        from dsdobjects import complex_utils as cu
        fn, seq, sst, sform, tform = a
        seq, sst = list(seq), list(sst)
        cx = None
        if tform == "complex":
            cx, _sq, _st, _doms = build(seq, sst)
            sq, st = list(cx.sequence), cx.structure
        else:
            st = {"list": list, "tuple": tuple, "str": "".join, "iter": lambda x: iter(list(x)),
                  "gen": lambda x: (c for c in list(x))}[tform](sst)
            if sform == "str":
                if fn != "rotate_complex_db" or any(len(x) != 1 for x in seq):
                    raise ValueError("harness: a str sequence needs rotate_complex_db and one-character names")
                sq = "".join(seq)
            else:
                sq = list(seq)
        if fn == "rotate_complex_once":
            r = cu.rotate_complex_once(sq, st)
            out = [names(list(r[0])), list(r[1])]
        elif fn == "rotate_complex_db":
            out = [[names(list(x)), list(y)] for x, y in cu.rotate_complex_db(sq, st)]
        else:
            raise ValueError("harness: rotate_forms " + str(fn))
        if cx is not None and (names(cx._sequence) != seq or list(cx._structure) != sst):
            raise Modified()
        return out

    @op("rotate_db_members")
    def _(a):
        """[seq, sst, mask]: rotate_complex_db on a sequence whose k-th member is a fresh DomainS object when mask[k] is
        true and the plain name otherwise.  Every rotation is reported as [names, structure, origins]; origins[j] is the
        position in THIS call's input of the very object (identity) standing at position j, -1 when the member is not an
        object of the input at all ('+' markers, which the library inserts itself, are reported as -2)."""
        from dsdobjects import complex_utils as cu
        seq, sst, mask = a
        reset()
        doms = {}
        sq = []
        for k, n in enumerate(seq):
            if n != "+" and mask[k % len(mask)] if mask else False:
                if n not in doms:
                    doms[n] = bc.DomainS(n, length=_length(n))
                sq.append(doms[n])
            else:
                sq.append(n)
        st = list(sst)
        ids = {}
        for k, m in enumerate(sq):
            ids.setdefault(id(m), k)
        out = []
        for x, y in cu.rotate_complex_db(sq, st):
            x = list(x)
            out.append([names(x), list(y), [-2 if (isinstance(m, str) and m == "+") else ids.get(id(m), -1) for m in x]])
        if names(sq) != list(seq) or st != list(sst):
            raise Modified()
        return out

    @op("obj_size")
    def _(a):
        seq, sst = a
        return guarded(seq, sst, lambda cx: cx.size)
