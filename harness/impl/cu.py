"""complex_utils operations."""
import copy

def _tup(pt):
    """pair table from the wire: entries become tuples (as the library builds them)."""
    return [[None if e is None else tuple(e) for e in row] for row in pt]

class Modified(Exception):
    pass

def _unmodified(f, *args):
    """call f(*args) and check that the arguments were not modified in place"""
    before = copy.deepcopy(args)
    r = f(*args)
    if before != args:
        raise Modified()
    return r

class Aliased(Exception):
    pass

def _scramble(v):
    """destroy a returned value in place (nested lists), to expose results that alias internal state"""
    if isinstance(v, list):
        for x in v:
            _scramble(x)
        v.clear()
        v.append("?")

def _stable(call):
    """call() twice with fresh arguments; the first result is destroyed in place before the second call:
    the second result must equal the first (a result must never share structure with a cache)"""
    r1 = call()
    if hasattr(r1, "__next__"):
        r1 = list(r1)
    snap = copy.deepcopy(r1)
    _scramble(r1)
    r2 = call()
    if hasattr(r2, "__next__"):
        r2 = list(r2)
    if r2 != snap:
        raise Aliased()
    return r2

def register(op):
    from dsdobjects import complex_utils as cu

    @op("make_pair_table")
    def _(a):
        ss, brk, ign = a
        return _stable(lambda: cu.make_pair_table(list(ss), strand_break=brk, ignore=set(ign)))

    @op("make_pair_table_members")
    def _(a):
        """a LIST structure whose members need not be single characters, `ignore` given as a str / set / list / default"""
        ss, brk, ign, form = a
        kw = {} if form == "default" else {"ignore": "".join(ign) if form == "str" else set(ign) if form == "set" else list(ign)}
        return cu.make_pair_table(list(ss), strand_break=brk, **kw)

    @op("pair_table_to_dot_bracket")
    def _(a):
        pt, brk = a
        return _stable(lambda: _unmodified(lambda p: cu.pair_table_to_dot_bracket(p, strand_break=brk), _tup(pt)))

    @op("pair_table_to_dot_bracket_iter")
    def _(a):
        """the table handed over as a one-shot iterator of rows (what ComplexS.pair_table yields)"""
        pt, brk = a
        return cu.pair_table_to_dot_bracket((row for row in _tup(pt)), strand_break=brk)

    @op("make_strand_table_list")
    def _(a):
        seq, brk = a
        return _stable(lambda: _unmodified(lambda s: cu.make_strand_table(s, strand_break=brk), list(seq)))

    @op("make_strand_table_str")
    def _(a):
        seq, brk = a
        return _stable(lambda: cu.make_strand_table("".join(seq), strand_break=brk))

    @op("strand_table_to_sequence")
    def _(a):
        st, brk = a
        return _stable(lambda: _unmodified(lambda s: cu.strand_table_to_sequence(s, strand_break=brk), copy.deepcopy(st)))

    @op("strand_table_join")
    def _(a):
        st, brk = a
        return cu.strand_table_to_sequence(st, strand_break="".join(brk), join=True)

    def _use(tab, brk, u):
        """one use of a caller-held strand table"""
        if u == "list":
            return cu.strand_table_to_sequence(tab, strand_break=brk)
        if u == "join":
            return cu.strand_table_to_sequence(tab, strand_break=brk, join=True)
        if u == "retable":          # table -> sequence -> table
            return cu.make_strand_table(cu.strand_table_to_sequence(tab, strand_break=brk), strand_break=brk)
        if u == "scramble":         # the caller destroys an earlier rendering: it is the caller's own list
            r = cu.strand_table_to_sequence(tab, strand_break=brk)
            if len(tab) > 1:        # (with one strand the library hands back that strand itself)
                r.clear()
            return None
        raise ValueError("harness: unknown use " + repr(u))

    @op("strand_table_to_sequence_reuse")
    def _(a):
        """[table, break, uses]: ONE table object is used several times (rendered as list / as joined string / turned back
        into a table / an earlier rendering destroyed), failures ignored; the answer is the rendering asked last, which
        must be that of a fresh table: rendering is a query of the table"""
        st, brk, uses = a
        tab = copy.deepcopy(st)
        for u in uses:
            try:
                _use(tab, brk, u)
            except Exception:
                pass
        return cu.strand_table_to_sequence(tab, strand_break=brk)

    @op("strand_table_reuse_fault")
    def _(a):
        """direct statement: every use of a caller-held strand table leaves the table as it was and answers what the table
        says (strands joined by the break marker; back to the table when no strand is empty or contains the marker).
        None, or a description of the first fault."""
        st, brk, uses = a
        if not st:
            return None
        tab, ref = copy.deepcopy(st), copy.deepcopy(st)
        flat = []
        for k, s in enumerate(ref):
            flat += ([brk] if k else []) + list(s)
        text = all(isinstance(x, str) for x in flat)
        for k, u in enumerate(list(uses) + ["list"]):
            if u == "join" and not text:
                continue
            try:
                r = _use(tab, brk, u)
            except Exception as e:
                return f"use {k} ({u}) raised {type(e).__name__}"
            if tab != ref:
                return f"use {k} ({u}) changed the caller's table {ref!r} into {tab!r}"
            if u == "list" and r != flat:
                return f"use {k} ({u}) of the table {ref!r} gives {r!r}"
            if u == "join" and r != brk.join("".join(s) for s in ref):
                return f"use {k} ({u}) of the table {ref!r} gives {r!r}"
            if u == "retable" and all(ref) and brk not in [x for s in ref for x in s] and [list(s) for s in r] != ref:
                return f"use {k} ({u}): table -> sequence -> table gives {r!r} for {ref!r}"
        return None

    @op("strand_table_owned_fault")
    def _(a):
        """direct statement [form, seq, break, edits]: the table make_strand_table hands out is the caller's own.  The
        sequence (form 'str': the elements joined to one string, 'list': the list of elements) is converted, the caller
        edits the table it got in place (edits = [kind, position] on a strand or on the table), and an EQUAL sequence
        (built again, not the same object) is converted again: both conversions must be the sequence cut at every
        element equal to the break marker (empty strands kept for strings, dropped for lists), the second table shares
        no strand with the first, and a string comes back from strand_table_to_sequence(join=True).
        None, or a description of the first fault."""
        form, seq, brk, edits = a

        def given():
            return "".join(seq) if form == "str" else list(seq)
        runs, cur = [], []
        for x in seq:
            if x == brk:
                runs.append(cur); cur = []
            else:
                cur.append(x)
        runs.append(cur)
        want = runs if form == "str" else [r for r in runs if r]
        shown = f"make_strand_table({given()!r}, strand_break={brk!r})"
        try:
            t1 = cu.make_strand_table(given(), strand_break=brk)
        except Exception as e:
            return f"{shown} raised {type(e).__name__}"
        if [list(s) for s in t1] != want:
            return f"{shown} = {t1!r}, the sequence cut at the break marker is {want!r}"
        done = []
        for kind, pos in edits:
            tgt = t1[pos % len(t1)] if t1 else None
            if kind in ("append", "reverse", "pop", "clear", "break", "setitem") and tgt is None:
                continue
            if kind == "append":
                tgt.append("N")
            elif kind == "break":
                tgt.insert(pos % (len(tgt) + 1), brk)
            elif kind == "reverse":
                tgt.reverse()
            elif kind == "pop":
                if tgt:
                    tgt.pop(pos % len(tgt))
            elif kind == "setitem":
                if tgt:
                    tgt[pos % len(tgt)] = "N"
            elif kind == "clear":
                tgt.clear()
            elif kind == "drop":
                if t1:
                    t1.pop(pos % len(t1))
            elif kind == "rotate":
                if t1:
                    t1.append(t1.pop(0))
            elif kind == "new":
                t1.insert(pos % (len(t1) + 1), ["N"])
            else:
                raise ValueError("harness: unknown edit " + repr(kind))
            done.append(kind)
        try:
            t2 = cu.make_strand_table(given(), strand_break=brk)
        except Exception as e:
            return f"{shown} raised {type(e).__name__} after the caller edited ({', '.join(done)}) the table of an earlier conversion"
        if [list(s) for s in t2] != want:
            return (f"{shown} = {t2!r} after the caller edited ({', '.join(done)}) the table it got from an earlier conversion "
                    f"of the same sequence; the sequence cut at the break marker is {want!r}")
        if t2 is t1 or any(x is y for x in t2 for y in t1):
            return f"two conversions {shown} hand out the same strand object"
        if form == "str":
            back = cu.strand_table_to_sequence(t2, strand_break=brk, join=True)
            if back != given():
                return f"{given()!r} -> table -> {back!r} after the caller edited ({', '.join(done)}) an earlier table"
        return None

    @op("make_loop_index")
    def _(a):
        li, ext = _stable(lambda: list(_unmodified(cu.make_loop_index, _tup(a))))
        # the exterior set is compared in insertion order of the model: loops are
        # added in increasing order of first occurrence, which need not be sorted
        return [li, sorted(ext)]

    @op("make_loop_index_comp")
    def _(a):
        li, ext = _stable(lambda: list(_unmodified(lambda p: cu.make_loop_index(p, components=True), _tup(a))))
        return [li, ext]

    @op("split_complex_pt")
    def _(a):
        st, pt = a
        return _stable(lambda: _unmodified(lambda s, p: [list(x) for x in cu.split_complex_pt(s, p)], copy.deepcopy(st), _tup(pt)))

    @op("rotate_complex_pt")
    def _(a):
        st, pt, turns = a
        return _stable(lambda: _unmodified(lambda s, p: [list(x) for x in cu.rotate_complex_pt(s, p, turns=turns)], copy.deepcopy(st), _tup(pt)))

    @op("rotate_complex_once")
    def _(a):
        seq, sst = a
        return _stable(lambda: list(_unmodified(lambda s, t: cu.rotate_complex_once(s, t), list(seq), list(sst))))

    @op("rotate_complex_db")
    def _(a):
        seq, sst = a
        return _stable(lambda: _unmodified(lambda s, t: [list(x) for x in cu.rotate_complex_db(s, t)], list(seq), list(sst)))

    @op("rotate_complex_db_str")
    def _(a):
        """sequence and structure given as strings (nucleotide level: one character per position)"""
        seq, sst = a
        if any(len(x) != 1 for x in seq):
            raise ValueError("harness: rotate_complex_db_str needs one-character names")
        return [[list(x), list(y)] for x, y in cu.rotate_complex_db("".join(seq), "".join(sst))]

    @op("split_complex_db")
    def _(a):
        seq, sst = a
        return _stable(lambda: _unmodified(lambda s, t: [list(x) for x in cu.split_complex_db(s, t)], list(seq), list(sst)))

    @op("wrap")
    def _(a):
        return cu.wrap(a[0], a[1])
