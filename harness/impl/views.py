"""C02 / C03 / C12 operations on real ComplexS objects."""
import gc

def register(op):
    from dsdobjects import base_classes as bc
    from dsdobjects.singleton import clear_singletons, SingletonError
    ALL = [bc.DomainS, bc.StrandS, bc.ComplexS, bc.MacrostateS, bc.ReactionS]

    def fresh():
        for c in ALL:
            clear_singletons(c)
            c.ID = 1 if hasattr(c, "ID") else None
        gc.collect()

    def doms(seq):
        out = []
        for x in seq:
            if x == "+":
                out.append("+")
            else:
                try:
                    out.append(bc.DomainS(x, 5))
                except SingletonError:
                    out.append(bc.DomainS(x))
        return out

    def names(xs):
        return [x if isinstance(x, str) else x.name for x in xs]

    def ckey(c):
        cf = c.canonical_form
        return [list(cf[0]), list(cf[1])]

    def gen_step(c, gens, o):
        """suspended generators of the object inside a history: ["gen_open", slot, "rotate"|"rotate_pt", t|None] creates one
        (nothing runs before the first step), ["gen_next", slot, k] resumes it up to k times.  What a generator that was
        suspended across an assignment of `turns` yields is not specified; it is consumed and dropped."""
        if o[0] == "gen_open":
            f = c.rotate if o[2] == "rotate" else c.rotate_pt
            try:
                gens[o[1]] = f() if o[3] is None else f(o[3])
            except Exception:
                gens.pop(o[1], None)
        else:
            g = gens.get(o[1])
            for _ in range(o[2] if g is not None else 0):
                try:
                    next(g)
                except Exception:
                    break

    @op("c02_identifiers")
    def _(a):
        seq, struct = a
        fresh()
        c = bc.ComplexS(doms(seq), list(struct))
        r = [ckey(c), c.turns]
        del c
        fresh()
        return r

    @op("kernel_string")
    def _(a):
        seq, struct = a
        fresh()
        c = bc.ComplexS(doms(seq), list(struct))
        r = c.kernel_string
        del c
        fresh()
        return r

    @op("c02_orbit")
    def _(a):
        rots, order, mode = a[:3]       # rots: list of [seq, struct]; order: indices; mode: per presentation None|"same"|"other"
        use_sub = a[3] if len(a) > 3 else False
        fresh()
        class SubC(bc.ComplexS):
            pass
        if use_sub:
            # a live base-class object of the same complex exists before anything is presented to the subclass
            base_obj = bc.ComplexS(doms(rots[0][0]), list(rots[0][1]), name="B")
        K = SubC if use_sub else bc.ComplexS
        first, out = None, []
        keep = []
        for k, (i, m) in enumerate(zip(order, mode)):
            seq, struct = rots[i]
            name = None if m is None else ("N" if m == "same" else f"other{k}")
            desc = doms(seq)
            if first is not None and k % 2 == 1:
                # a description may mix domain objects and plain names (here: names at the even positions, the first included)
                desc = [x if (x == "+" or j % 2) else str(x) for j, x in enumerate(desc)]
            try:
                c = K(desc, list(struct), name=name) if name else K(desc, list(struct))
                kind = "object"
            except SingletonError as e:
                c = e.existing
                kind = "refused-existing" if c is not None else "refused-none"
            if first is None and c is not None:
                first = c
            keep.append(c)
            out.append([kind, (c is first) if c is not None else None, ckey(c) if c is not None else None,
                        (hash(c) == hash(first)) if c is not None else None, (c == first) if c is not None else None,
                        c.turns if c is not None else None, c.name if c is not None else None])
        if use_sub and first is not None and (base_obj != first or hash(base_obj) != hash(first) or len({base_obj, first}) != 1):
            raise RuntimeError("a base-class and a subclass object of the same complex (different names) differ in == / hash")
        if first is not None:
            # equality is about canonical forms, not about object identity: an object that outlived a cleared registry equals
            # the object created afterwards from another rotation
            clear_singletons(K)
            seq_, struct_ = rots[order[-1]]
            again = K(doms(seq_), list(struct_))
            if again is first or not (again == first) or (again != first) or hash(again) != hash(first) or ckey(again) != ckey(first):
                raise RuntimeError("an object created after clear_singletons does not equal the surviving object of the same complex")
            clear_singletons(K)
            del again
        if first is not None:
            # canonical form, hash and membership in a set do not move with the representation
            h0, cf0, held = hash(first), ckey(first), {first}
            for t in list(range(first.size)) + [0]:
                first.turns = t
                if hash(first) != h0 or ckey(first) != cf0 or first not in held:
                    raise RuntimeError(f"canonical form / hash changed after turns = {t}")
        del keep, c, first
        base_obj = None
        clear_singletons(SubC)
        fresh()
        return out

    @op("c02_distinct")
    def _(a):
        x, y = a
        fresh()
        c1 = bc.ComplexS(doms(x[0]), list(x[1]))
        try:
            c2 = bc.ComplexS(doms(y[0]), list(y[1]))
            r = [c1 is c2, c1 == c2, hash(c1) == hash(c2), ckey(c1), ckey(c2)]
        except SingletonError as e:
            r = ["refused", e.existing is c1]
        c1 = c2 = None
        fresh()
        return r

    @op("c02_history")
    def _(a):
        """several complexes side by side.  pool[c] = the rotations [[seq, struct], ...] of complex c (pairwise inequivalent);
        steps: ["new", c, r, name|None]      request rotation r of complex c (explicit name, or none = automatic name)
               ["scribble", c, how]           a caller edits, in place, every list the public API handed out for the object of
                                              c (ComplexS.rotate(), rotate_complex_once, rotate_complex_db): they are the caller's
               ["turn", c, t]                 obj.turns = t
               ["drop", c]                    the last reference to the object of c goes away
        Each step answers with what can be observed; the expectations are computed by the harness (props/c02.py)."""
        from dsdobjects import complex_utils as cu_
        pool, steps = a[0], a[1]
        use_sub = a[2] if len(a) > 2 else False
        fresh()
        class SubH(bc.ComplexS):
            pass
        K = SubH if use_sub else bc.ComplexS
        held, extra, out = {}, [], []

        def who(c_):
            for j_, o_ in held.items():
                if o_ is c_:
                    return j_
            for j_, o_ in enumerate(extra):
                if o_ is c_:
                    return -2 - j_
            return None

        def obs(o_):
            return [ckey(o_), o_.turns, names(o_.sequence), list(o_.structure), o_.name]

        def scribble(s_, t_, how):
            if how == "open":
                for i_, x_ in enumerate(t_):
                    if x_ != "+":
                        t_[i_] = "."
            elif how == "unpair":
                depth = 0
                for i_, x_ in enumerate(t_):
                    if x_ == "(":
                        if depth == 0:
                            t_[i_] = "."
                        depth += 1
                    elif x_ == ")":
                        depth -= 1
                        if depth == 0:
                            t_[i_] = "."
                            break
            elif how == "reverse":
                s_.reverse()
                t_[:] = [{"(": ")", ")": "("}.get(x_, x_) for x_ in reversed(t_)]
            elif how == "clear":
                del s_[:]
                del t_[:]
            elif how == "rename":
                for i_, x_ in enumerate(s_):
                    if x_ != "+":
                        s_[i_] = "zz"

        for k, st in enumerate(steps):
            what, ci = st[0], st[1]
            c = None
            try:
                if what == "new":
                    seq, struct = pool[ci][st[2]]
                    name = st[3]
                    try:
                        c = K(doms(seq), list(struct), name=name) if name is not None else K(doms(seq), list(struct))
                        kind = "object"
                    except SingletonError as e:
                        c = e.existing
                        kind = "refused-existing" if c is not None else "refused-none"
                    if c is None:
                        out.append([kind, None, None])
                    else:
                        w = who(c)
                        if w is None:
                            if ci in held:
                                extra.append(c)
                                w = -1 - len(extra)
                            else:
                                held[ci] = c
                                w = ci
                            kind = "created" if kind == "object" else kind
                        out.append([kind, w, obs(c)])
                elif ci not in held:
                    out.append(["absent", None, None])
                elif what == "scribble":
                    o = held[ci]
                    got = [list(p_) for p_ in o.rotate()]
                    got.append(list(cu_.rotate_complex_once(list(o.sequence), list(o.structure))))
                    got.append(list(cu_.rotate_complex_once(names(o.sequence), list(o.structure))))
                    got += [list(p_) for p_ in cu_.rotate_complex_db(names(o.sequence), list(o.structure))]
                    for s_, t_ in got:
                        if isinstance(s_, list) and isinstance(t_, list):
                            scribble(s_, t_, st[2])
                    del got
                    out.append(["scribbled", ci, obs(o)])
                    o = None
                elif what == "turn":
                    held[ci].turns = st[2]
                    out.append(["turned", ci, obs(held[ci])])
                elif what == "drop":
                    del held[ci]
                    gc.collect()
                    out.append(["dropped", ci, None])
                else:
                    raise KeyError(what)
            except Exception as e:
                out.append(["raised", type(e).__name__, None])
            c = None
        # equality and hash among the objects alive at the end
        pairs = []
        objs = sorted(held.items()) + [(-2 - j_, o_) for j_, o_ in enumerate(extra)]
        for i_, (ja, oa) in enumerate(objs):
            for jb, ob in objs[i_ + 1:]:
                pairs.append([ja, jb, oa == ob, oa != ob, hash(oa) == hash(ob)])
        final = [[j_, obs(o_)] for j_, o_ in objs]
        del objs
        held.clear()
        del extra[:]
        clear_singletons(SubH)
        fresh()
        return [out, pairs, final]

    register_c12(op)

    @op("c09_split_twice_witness")
    def _(a):
        """recorded finding: the second split() raises although every component is live, because the next
        automatic name is the name of another live complex"""
        fresh()
        da, db = bc.DomainS("a", 7), bc.DomainS("b", 7)
        bc.ComplexS.ID = 1
        x = bc.ComplexS([~da, da], list("()"), "c3")
        c = bc.ComplexS([~da, da, "+", ~da, da, db], list("()+..."), "c2")
        first = list(c.split())
        try:
            second = list(c.split())
            res = ["ok", all(p is q for p, q in zip(first, second)) and len(first) == len(second)]
        except SingletonError as e:
            res = ["raised", e.existing is None]
        del first, x, c
        fresh()
        return res

    @op("cx_dlc_direct")
    def _(a):
        """is_domainlevel_complement against its definition: every pair joins a domain with its complement (`x is ~y`)"""
        seq, struct = a
        fresh()
        try:
            ds = []
            for x in seq:
                ds.append("+" if x == "+" else bc.DomainS(x, 6))
            c = bc.ComplexS(ds, list(struct), name="V")
        except (SingletonError, bc.ObjectInitError):
            fresh()
            return ["refused"]
        got = c.is_domainlevel_complement
        want = True
        for si, row in enumerate(c.pair_table):
            for di, p in enumerate(row):
                if p is not None:
                    x, y = c.get_domain((si, di)), c.get_domain(tuple(p))
                    try:
                        if x is not ~y:
                            want = False
                    except SingletonError:
                        want = None
        del c, ds
        fresh()
        return ["ok", got, want] if want is not None else ["refused"]

    @op("c03_caller_lists")
    def _(a):
        """the lists handed to the constructor stay the caller's: after the caller edits them in place the complex (and a strand
        built from the same sequence list) still shows what it was built from.  a = [seq, struct, edits, as_strand]"""
        seq, struct, edits, as_strand = a
        fresh()
        sq, st = doms(seq), list(struct)
        want_sq, want_st = names(sq), list(st)
        c = bc.StrandS(sq, name="S") if as_strand else bc.ComplexS(sq, st, name="V")
        def observe():
            o = [names(c.sequence), None if as_strand else list(c.structure), [names(x) if not isinstance(x, str) else x for x in c.canonical_form]
                 if as_strand else ckey(c), c.size if not as_strand else len(names(c.sequence))]
            if not as_strand:
                o += [c.kernel_string, [names(r) for r in c.strand_table], [list(r) for r in c.pair_table]]
            return o
        first = observe()
        problems = []
        if first[0] != want_sq or (not as_strand and first[1] != want_st):
            problems.append(["construction", first[:2], [want_sq, want_st]])
        for n, (target, action) in enumerate(edits):
            b = sq if target == 0 else st
            try:
                if action == "pop": b.pop()
                elif action == "pop0": del b[0]
                elif action == "clear": b.clear()
                elif action == "reverse": b.reverse()
                elif action == "append": b.append(b[0])
                elif action == "swap": b[0], b[-1] = b[-1], b[0]
            except Exception:
                pass
            now = observe()
            if now != first:
                problems.append([f"step {n}: {'sequence' if target == 0 else 'structure'} list {action}", now, first])
                break
        del c
        fresh()
        return problems

    @op("c03_fresh_compare")
    def _(a):
        """the direct statement of C03 on the implementation: after every step, every view of the object equals the
        same view of a freshly built complex (in a sibling registry) with the object's current sequence/structure"""
        seq, struct, ops = a
        fresh()
        class Twin(bc.ComplexS):
            pass
        c = bc.ComplexS(doms(seq), list(struct), name="V")
        def view(x, k, arg=None):
            try:
                if k == "strand_table": return [names(s_) for s_ in x.strand_table]
                if k == "pair_table": return [list(r_) for r_ in x.pair_table]
                if k == "exterior_domains": return list(x.exterior_domains)
                if k == "enclosed_domains": return list(x.enclosed_domains)
                if k == "is_connected": return x.is_connected
                if k == "is_domainlevel_complement": return x.is_domainlevel_complement
                if k == "kernel_string": return x.kernel_string
                if k == "size": return x.size
                if k == "rotate": return [[names(s_), list(t_)] for s_, t_ in x.rotate()]
                if k == "rotate_pt": return [[[names(r_) for r_ in st_], [list(r_) for r_ in pt_]] for st_, pt_ in x.rotate_pt()]
                if k == "rotate_t": return [[names(s_), list(t_)] for s_, t_ in x.rotate(arg)]
                if k == "rotate_pt_t": return [[[names(r_) for r_ in st_], [list(r_) for r_ in pt_]] for st_, pt_ in x.rotate_pt(arg)]
                if k == "strand_length": return x.strand_length(arg)
                if k == "get_domain": return x.get_domain(tuple(arg)).name
                if k == "get_paired_loc": return x.get_paired_loc(tuple(arg))
                if k == "get_loop_index": return x.get_loop_index(tuple(arg))
            except Exception as e:
                return "<" + type(e).__name__ + ">"
            return None
        bad = None
        gens, assigned = {}, False
        for o in ops:
            k = o[0]
            if k in ("gen_open", "gen_next"):
                gen_step(c, gens, o)
                continue
            if k == "set_turns":
                try:
                    c.turns = o[1]
                    assigned = True
                except Exception as e:
                    bad = f"turns = {o[1]} raised {type(e).__name__}"
                    break
                continue
            if k in ("turns", "sequence", "structure", "canonical_form"):
                if assigned and gens:
                    # after an assignment the representation is the turns-th rotation of the canonical form, whatever
                    # generators of the object were suspended or resumed around the assignment
                    from dsdobjects import complex_utils as cu_
                    cf_ = c.canonical_form
                    x_, y_ = [str(e_) for e_ in cf_[0]], list(cf_[1])
                    for _ in range(c.turns):
                        x_, y_ = cu_.rotate_complex_once(x_, y_)
                    if [names(c.sequence), list(c.structure)] != [list(x_), list(y_)]:
                        bad = (f"turns = {c.turns}: sequence/structure {names(c.sequence)!r} {''.join(c.structure)!r} is not rotation "
                               f"{c.turns} of the canonical form ({list(x_)!r} {''.join(y_)!r})")
                        break
                continue
            if k == "split":            # consuming split() must leave every view of the object as it was
                try:
                    parts = list(c.split())
                except Exception:
                    parts = None
                del parts
                continue
            arg = o[1] if len(o) > 1 else None
            got = view(c, k, arg)
            if k in ("rotate_pt_t", "rotate_pt", "rotate_t", "rotate") and not isinstance(got, str):
                # the two generators enumerate the same rotations: tables of the (sequence, structure) pairs
                from dsdobjects import complex_utils as cu_
                R = view(c, "rotate_t" if k.endswith("_t") else "rotate", arg)
                P = view(c, "rotate_pt_t" if k.endswith("_t") else "rotate_pt", arg)
                ok_ = isinstance(R, list) and isinstance(P, list) and len(R) == len(P)
                if ok_:
                    for (sq_, st_), (stab_, ptab_) in zip(R, P):
                        if [list(x_) for x_ in cu_.make_strand_table(list(sq_))] != stab_ or \
                                [list(x_) for x_ in cu_.make_pair_table(list(st_))] != [[tuple(e_) if e_ is not None else None for e_ in r_] for r_ in ptab_] and \
                                [[list(e_) if e_ is not None else None for e_ in r_] for r_ in cu_.make_pair_table(list(st_))] != ptab_:
                            ok_ = False
                if not ok_:
                    bad = f"rotate({arg}) and rotate_pt({arg}) do not enumerate the same rotations: {R!r} vs {P!r}"
                    break
            clear_singletons(Twin)
            t = Twin(doms(names(c.sequence)), list(c.structure), name="T")
            want = view(t, k, arg)
            del t
            if got != want:
                bad = f"{k}{tuple(arg) if isinstance(arg, list) else ''} = {got!r}, a fresh complex with the same sequence/structure gives {want!r}"
                break
        gens.clear()
        del c
        clear_singletons(Twin)
        fresh()
        return bad

    @op("c03_history")
    def _(a):
        seq, struct, ops = a
        fresh()
        c = bc.ComplexS(doms(seq), list(struct), name="V")
        ident, canon = id(c), ckey(c)
        out = []
        gens = {}
        for o in ops:
            k = o[0]
            if k in ("gen_open", "gen_next"):       # suspended generators: no observation of their own
                gen_step(c, gens, o)
                continue
            try:
                if k == "set_turns":
                    c.turns = o[1]; v = None
                elif k == "turns": v = c.turns
                elif k == "canonical_form": v = ckey(c)
                elif k == "sequence": v = names(c.sequence)
                elif k == "structure": v = list(c.structure)
                elif k == "kernel_string": v = c.kernel_string
                elif k == "size": v = c.size
                elif k == "strand_table": v = [names(s) for s in c.strand_table]
                elif k == "pair_table": v = [list(r) for r in c.pair_table]
                elif k == "strand_length": v = c.strand_length(o[1])
                elif k == "get_domain": v = c.get_domain(tuple(o[1])).name
                elif k == "get_paired_loc": v = c.get_paired_loc(tuple(o[1]))
                elif k == "get_loop_index": v = c.get_loop_index(tuple(o[1]))
                elif k == "exterior_domains": v = list(c.exterior_domains)
                elif k == "enclosed_domains": v = list(c.enclosed_domains)
                elif k == "is_connected": v = c.is_connected
                elif k == "rotate": v = [[names(s), list(t)] for s, t in c.rotate()]
                elif k == "rotate_pt": v = [[[names(r) for r in st], [list(r) for r in pt]] for st, pt in c.rotate_pt()]
                else: raise KeyError(k)
            except Exception as e:
                from valfmt import Err
                v = Err(type(e).__name__)
            if id(c) != ident or ckey(c) != canon or c.name != "V":
                from valfmt import Err
                v = Err("IdentityChanged")
            out.append(v)
        gens.clear()
        del c
        fresh()
        return out

def register_c12(op):
    import gc
    from dsdobjects import base_classes as bc, objectio
    from dsdobjects.dsdparser import parse_pil_string
    from dsdobjects.singleton import clear_singletons, SingletonError
    ALL = [bc.DomainS, bc.StrandS, bc.ComplexS, bc.MacrostateS, bc.ReactionS]

    def fresh():
        objectio.clear_io_objects()
        for c in ALL:
            clear_singletons(c)
            c.ID = 1 if hasattr(c, "ID") else None
        gc.collect()
        objectio.set_io_objects()

    def dom(x):
        # lengths at the edge of the quantifier too: 0 and above sys.maxsize are legal domain lengths
        base = x.rstrip("*")
        L = {0: 0, 1: 99999999999999999999999}.get(sum(map(ord, base)) % 7, 5)
        try:
            return bc.DomainS(x, L)
        except SingletonError:
            return bc.DomainS(x)

    @op("resolve_kernel_loops")
    def _(a):
        import copy
        b = copy.deepcopy(a)
        r = objectio.resolve_kernel_loops(a)
        if a != b:
            raise RuntimeError("input modified")
        return [r[0], r[1]]

    @op("c12_chain")
    def _(a):
        seq, struct = a
        fresh()
        ds = [dom(x) if x != "+" else "+" for x in seq]
        c = bc.ComplexS(ds, list(struct), name="X")
        ks = c.kernel_string
        text = "X = " + ks + "\n"
        [line] = parse_pil_string(text)
        r = objectio.resolve_kernel_loops(line[2])
        res = [ks, line[2], [r[0], r[1]], line[0], line[1], len(line) - 3]
        del c, ds
        fresh()
        return res

    @op("c12_roundtrip")
    def _(a):
        """every rotation of the complex: write `Y = <kernel_string>`, read it back (as a line, and through a file that
        is rewritten for every rotation), also while a strand named like one of its domains is alive"""
        import os, tempfile
        seq, struct = a
        fresh()
        # the reader was configured with user classes before and is then set back to the library classes
        class _C(bc.ComplexS): pass
        class _D(bc.DomainS): pass
        objectio.set_io_objects(D=_D, C=_C)
        objectio.set_io_objects()
        ds = [dom(x) if x != "+" else "+" for x in seq]
        c = bc.ComplexS(ds, list(struct), name="Y")
        # a composite domain (strand) that happens to carry the name of one of the complex's domains
        first = next((x for x in seq if x != "+" and not x.endswith("*")), None)
        keepalive = None
        if first is not None and len([x for x in ds if x != "+"]) >= 2:
            others = [x for x in ds if x != "+"][:2]
            try:
                keepalive = bc.StrandS(others, name=first)
            except Exception:
                keepalive = None
        path = os.path.join(tempfile.gettempdir(), "verif_c12_%d.pil" % os.getpid())
        out = []
        n = c.size
        for t in range(n):
            c.turns = t
            want = [[str(x) for x in c.sequence], list(c.structure)]
            back = objectio.read_pil_line("Y = " + c.kernel_string)
            got = [[str(x) for x in back.sequence], list(back.structure)]
            [line] = parse_pil_string("Y = " + c.kernel_string + "\n")
            shown = repr(line)
            r = objectio.resolve_kernel_loops(line[2])
            with open(path, "w") as f:
                f.write("Y = " + c.kernel_string + "\n")
            viafile = objectio.read_pil(path, is_file=True)["complexes"]
            fobj = viafile.get("Y")
            fgot = [[str(x) for x in fobj.sequence], list(fobj.structure)] if fobj is not None else None
            # the parsed line stays the caller's: the SAME parser output (already interpreted once by resolve_kernel_loops above)
            # is read again by the reader, then once more in a second reader configuration (a user subclass of ComplexS, as
            # a tool does that loads one parsed document into two object layers); every interpretation is the complex that
            # was written and the parse tree is left as the parser produced it
            try:
                again = objectio.read_pil_line(line)
                same_again = again is c
            except (SingletonError, objectio.PilFormatError):
                same_again = False
            again = None
            objectio.set_io_objects(C=_C)
            try:
                layer = objectio.read_pil_line(line)
                lgot = [[str(x) for x in layer.sequence], list(layer.structure)]
            except (SingletonError, objectio.PilFormatError):
                lgot = None
            layer = None
            clear_singletons(_C)
            objectio.set_io_objects()
            reread = same_again and lgot == want and repr(line) == shown
            out.append([back is c, [list(r[0]), list(r[1])] == want, got == want, fobj is c and fgot == want, reread])
            del viafile, fobj
            if t == 0:
                # the name Y denotes c: another complex over the same domains (two different unpaired tokens swapped) read under
                # that name is refused, never resolved to c
                toks = c.kernel_string.split()
                plain = [i for i, x in enumerate(toks) if x not in ("+", ")") and not x.endswith("(")]
                swap = next(((i, j) for i in plain for j in plain if i < j and toks[i] != toks[j]), None)
                if swap:
                    i, j = swap
                    toks[i], toks[j] = toks[j], toks[i]
                    text = "Y = " + " ".join(toks)
                    [l2] = parse_pil_string(text + "\n")
                    s2, t2 = objectio.resolve_kernel_loops(l2[2])
                    import os as _os, sys as _sys
                    _sys.path.insert(0, _os.path.dirname(_os.path.dirname(_os.path.abspath(__file__))))
                    import gen_pil as _gp
                    if _gp.canon(list(s2), list(t2)) != _gp.canon(want[0], want[1]):
                        try:
                            other = objectio.read_pil_line(text)
                            ok_ = other is not c
                        except SingletonError:
                            ok_ = True
                        out.append([ok_, True, True, True])
                        other = None
        try:
            os.remove(path)
        except OSError:
            pass
        del c, ds, back, keepalive
        fresh()
        return out
