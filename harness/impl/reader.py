"""read_pil / read_pil_line on the real reader, results in canonical form."""
import gc

def register(op):
    from dsdobjects import objectio, base_classes as bc
    from dsdobjects.singleton import clear_singletons

    def fresh():
        objectio.clear_io_objects()
        for c in (bc.DomainS, bc.StrandS, bc.ComplexS, bc.MacrostateS, bc.ReactionS):
            clear_singletons(c)
            if hasattr(c, "ID"):
                c.ID = 1
        gc.collect()
        objectio.set_io_objects()

    def names(xs):
        return [str(x) if not isinstance(x, str) else x for x in xs]

    def rxn(r):
        k, u = r.rate_constant
        return [sorted(x.name for x in r.reactants), sorted(x.name for x in r.products), r.rtype,
                (float(k) if k is not None else None), u]

    def canon(out):
        return [
            ["domains", sorted([n, d.length, d.sequence, d.name, type(d).__name__] for n, d in out["domains"].items())],
            ["strands", sorted([n, names(s.sequence), s.name] for n, s in out["strands"].items())],
            ["complexes", sorted([n, names(c.sequence), list(c.structure),
                                  (list(c.concentration) if c.concentration is not None else None), c.name]
                                 for n, c in out["complexes"].items())],
            ["macrostates", sorted([n, sorted(x.name for x in m.complexes), m.name] for n, m in out["macrostates"].items())],
            ["det_reactions", sorted(rxn(r) for r in out["det_reactions"])],
            ["con_reactions", sorted(rxn(r) for r in out["con_reactions"])],
            ["other", out["other"]],
        ]

    @op("read_pil")
    def _(a):
        text, ignore = a
        fresh()
        try:
            out = objectio.read_pil(text, ignore=ignore)
            return canon(out)
        finally:
            out = None
            fresh()
