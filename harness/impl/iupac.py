"""iupac_utils operations."""
def register(op):
    from dsdobjects import iupac_utils as iu
    def mat(rna):
        # the material name is built at run time (as one read from a file or an argument would be): an equal string, not the
        # interned literal
        return "".join(["R" if rna else "D", "N", "A"])
    for name in ("wc_complement", "complement", "reverse_wc_complement", "reverse_complement"):
        def f(a, name=name):
            return getattr(iu, name)(a[0], material=mat(a[1]))
        op(name)(f)
    @op("add_constraints")
    def _(a):
        return iu.add_constraints(a[0], a[1], material=mat(a[2]))
