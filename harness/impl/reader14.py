"""Reader ops of C14 / C15 / C16 / C05 on the real read_pil.

read_pil_model  [text, ignore]   same request name as the model op: set_io_objects() and
                read_pil(text, ignore = ignore), result dictionary in the canonical list form of
                impl/reader.py (exception kind otherwise)
read_pil_cfg    [class table (ignored), class names (ignored), slots, prelude, text, ignore]
                user classes of the registry zoo in the five slots, an optional document read and
                held before, registries observed before and after everything is dropped
read_pil_release [text]  read a document, keep weak references to every object of the result, drop the
                dictionary, run ONE gc.collect() and report the survivors (C05)
c14_views       [text, ignore]  read_pil(text) vs read_pil(path, is_file=True) vs line-by-line reading
reader_kept_consistent [text, ignore]  the same with ignore
reader_session  [text1, text2]  read text1, hold the result, read text2: True when both reads return and every name of
                the second result that the first result has too is the very same object
read_pil_after_released [[earlier texts], text, ignore]  ONE session (one set_io_objects()): every earlier document is read
                (failures ignored), its result dropped and one gc.collect() run; then read_pil(text, ignore) in the
                canonical form of read_pil_model.  The model is asked read_pil_model [text, ignore]: once its objects are
                released, nothing of an earlier document may be remembered (a name means what THIS document declares)
reader_consistent [text]  True when set_io_objects(); read_pil(text) returns a dictionary (the model op of the
                same name computes whether the statements form a consistent system, which by
                C14_reader_builds implies that the document is read)"""
import gc, os, tempfile, weakref


def register(op):
    from dsdobjects import objectio, base_classes as bc
    from dsdobjects.singleton import clear_singletons
    from impl import registry as reg

    BASE = (bc.DomainS, bc.StrandS, bc.ComplexS, bc.MacrostateS, bc.ReactionS)

    def fresh(classes=BASE):
        objectio.clear_io_objects()
        for c in classes:
            clear_singletons(c)
        for c in BASE:
            if "ID" in c.__dict__:
                c.ID = 1
        gc.collect()

    def names(xs):
        return [str(x) if not isinstance(x, str) else x for x in xs]

    def rxn(r):
        k, u = r.rate_constant
        return [sorted(x.name for x in r.reactants), sorted(x.name for x in r.products), r.rtype,
                (float(k) if k is not None else None), u]

    def canon(out):
        return [
            ["domains", sorted([n, d.length, d.sequence, d.name, type(d).__name__] for n, d in out["domains"].items())],
            ["strands", sorted([n, names(s.sequence), s.name] for n, s in out["strands"].items())],
            ["complexes", sorted([n, names(c.sequence), list(c.structure),
                                  (list(c.concentration) if c.concentration is not None else None), c.name]
                                 for n, c in out["complexes"].items())],
            ["macrostates", sorted([n, sorted(x.name for x in m.complexes), m.name] for n, m in out["macrostates"].items())],
            ["det_reactions", sorted(rxn(r) for r in out["det_reactions"])],
            ["con_reactions", sorted(rxn(r) for r in out["con_reactions"])],
            ["other", out["other"]],
        ]

    @op("read_pil_model")
    def _(a):
        text, ignore = a
        fresh()
        objectio.set_io_objects()
        out = None
        try:
            out = objectio.read_pil(text, ignore=ignore)
            return canon(out)
        finally:
            out = None
            fresh()

    @op("read_pil_after_released")
    def _(a):
        earlier, text, ignore = a
        fresh()
        objectio.set_io_objects()
        out = None
        try:
            for e in earlier:
                try:
                    out = objectio.read_pil(e)
                except RecursionError:
                    raise
                except Exception:
                    pass
                out = None
                gc.collect()        # a failed read leaves its frames in reference cycles of the parser's exceptions
            out = objectio.read_pil(text, ignore=ignore)
            return canon(out)
        finally:
            out = None
            fresh()

    @op("reader_consistent")
    def _(a):
        (text,) = a
        fresh()
        objectio.set_io_objects()
        out = None
        try:
            out = objectio.read_pil(text)
            return isinstance(out, dict)
        finally:
            out = None
            fresh()

    @op("reader_kept_consistent")
    def _(a):
        text, ignore = a
        fresh()
        objectio.set_io_objects()
        out = None
        try:
            out = objectio.read_pil(text, ignore=ignore)
            return isinstance(out, dict)
        finally:
            out = None
            fresh()

    @op("reader_session")
    def _(a):
        text1, text2 = a
        fresh()
        objectio.set_io_objects()
        out1 = out2 = None
        try:
            out1 = objectio.read_pil(text1)
            out2 = objectio.read_pil(text2)
            for f in ("domains", "strands", "complexes", "macrostates"):
                for n, o in out2[f].items():
                    if n in out1[f] and out1[f][n] is not o:
                        return "NotIdentical:" + f + ":" + n
            return True
        finally:
            out1 = out2 = None
            fresh()

    # ------------------------------------------------------------------
    def filed(out):
        res = []
        for k, f in (("D", "domains"), ("S", "strands"), ("C", "complexes"), ("M", "macrostates")):
            res += [[k, n, type(o).__name__] for n, o in sorted(out[f].items())]
        res += [["R", r.name, type(r).__name__] for r in sorted(list(out["det_reactions"]) + list(out["con_reactions"]),
                                                                key=lambda r: r.name)]
        return res

    def registries():
        return [sorted(c._instanceNames.keys()) for c in reg.ZOO]

    def outcome(thunk):
        from valfmt import Err
        try:
            return thunk(), None
        except RecursionError:
            raise
        except BaseException as e:
            if isinstance(e, (KeyboardInterrupt, SystemExit, MemoryError)):
                raise
            return None, Err(type(e).__name__)

    @op("registry_class_names")
    def _(a):
        reg.build_zoo()
        return [c.__name__ for c in reg.ZOO]

    @op("read_pil_cfg")
    def _(a):
        _, _, slots, prelude, text, ignore = a
        reg.build_zoo()
        reg.reset()
        fresh(tuple(reg.ZOO))
        D, S, C, M, R = [None if s is None else reg.ZOO[s] for s in slots]
        # set_io_objects replaces None by the base class; a None slot is only reachable through
        # clear_io_objects, i.e. all five None
        if all(s is None for s in slots):
            objectio.clear_io_objects()
        else:
            objectio.set_io_objects(D, S, C, M, R)
        held = out = None
        try:
            if prelude is not None:
                held, e = outcome(lambda: objectio.read_pil(prelude))
                if e is not None:
                    return ["prelude-failed", e.kind]
            regs1 = registries()
            out, e = outcome(lambda: objectio.read_pil(text, ignore=ignore))
            if e is not None:
                # the frames of the failed call survive in reference cycles of the parser's internal
                # exceptions: the property grants the reader one collector pass (C05)
                gc.collect()
            res = [canon(out) if e is None else e,
                   filed(out) if e is None else None,
                   regs1, registries(),
                   canon(held) if held is not None else None,
                   filed(held) if held is not None else None]
            # drop everything, one collector pass
            refs = []
            for d in (held, out):
                if d is not None:
                    for f in ("domains", "strands", "complexes", "macrostates"):
                        refs += [weakref.ref(o) for o in d[f].values()]
                    refs += [weakref.ref(o) for o in list(d["det_reactions"]) + list(d["con_reactions"])]
            held = out = d = e = None
            gc.collect()
            res.append(registries())
            res.append(sum(1 for r in refs if r() is not None))
            return res
        finally:
            held = out = None
            reg.reset()
            fresh(tuple(reg.ZOO))

    @op("read_pil_release")
    def _(a):
        (text,) = a
        fresh()
        objectio.set_io_objects()
        gc.collect()
        was = gc.isenabled()
        gc.disable()
        try:
            out = objectio.read_pil(text)
            refs = []
            for f in ("domains", "strands", "complexes", "macrostates"):
                refs += [(f, n, weakref.ref(o)) for n, o in out[f].items()]
            refs += [("reactions", r.name, weakref.ref(r)) for r in list(out["det_reactions"]) + list(out["con_reactions"])]
            n = len(refs)
            out = None
            immediately = sorted([f, nm] for f, nm, r in refs if r() is not None)
            gc.collect()
            after_one = sorted([f, nm] for f, nm, r in refs if r() is not None)
            left = [sorted(c._instanceNames.keys()) for c in BASE]
            return [n, immediately, after_one, left]
        finally:
            out = None
            if was:
                gc.enable()
            fresh()

    @op("c14_views")
    def _(a):
        text, ignore = a
        fresh()
        objectio.set_io_objects()
        out = out2 = out3 = None
        try:
            out = objectio.read_pil(text, ignore=ignore)
            a1 = canon(out)
            # is_file = True
            fd, path = tempfile.mkstemp(suffix=".pil", dir=os.environ.get("VERIF_WORK", None))
            try:
                with os.fdopen(fd, "w") as f:
                    f.write(text)
                out2 = objectio.read_pil(path, is_file=True, ignore=ignore)
            finally:
                os.unlink(path)
            a2 = canon(out2)
            same_objects = all(out2[f][n] is o for f in ("domains", "strands", "complexes", "macrostates")
                               for n, o in out[f].items())
            return [a1, a2, same_objects]
        finally:
            out = out2 = out3 = None
            fresh()
