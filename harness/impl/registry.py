"""Registry state machine on the real classes (DESIGN.md section 6, correspondence for histories).

ops:  registry_classes  None -> class table of the zoo (constants read from the imported classes)
      history           [class table (ignored here), nslots, ops, observed class indices] -> one observation per step

Objects are named by the order in which they were first handed out (never by address),
liveness is observed through weakref.ref, registries through cls._instanceNames /
cls._instanceCanon and cross-checked against the public show_singletons()."""
import gc, weakref, collections
from valfmt import Err

ZOO = []            # classes in class-table order
ORIG_ID = {}
KIND = {}
FAIL = {}


CONTAINERS = (tuple, list, collections.deque)      # indexed by (number of the construction in the history) % 3


class UserInitError(Exception):
    pass


def build_zoo():
    if ZOO:
        return
    from dsdobjects.base_classes import DomainS, ComplexS, StrandS, MacrostateS, ReactionS

    def failing(base, name, after):
        if after:
            def __init__(self, *a, **k):
                base.__init__(self, *a, **k)
                raise UserInitError("user code fails after super().__init__")
        else:
            def __init__(self, *a, **k):
                raise UserInitError("user code fails before super().__init__")
        return type(base)(name, (base,), {"__init__": __init__})

    class DomA(DomainS):
        pass

    class DomAA(DomA):
        pass

    class DomB(DomainS):
        DTYPE_CUTOFF = 4
        SHORT_DOM_LEN = 3
        LONG_DOM_LEN = 9
        PREFIX = 'q'
        ID = 7

    class DomC(DomainS):               # class defaults on the "wrong" side of the cutoff
        DTYPE_CUTOFF = 20

    class DomD(DomainS):
        SHORT_DOM_LEN = 10

    class CplxA(ComplexS):
        pass

    class CplxAA(CplxA):
        pass

    class CplxB(ComplexS):
        PREFIX = 'k'
        ID = 3

    class StrandA(StrandS):
        pass

    class MacA(MacrostateS):
        pass

    class MacAA(MacA):
        pass

    class RxnA(ReactionS):
        pass

    zoo = [(DomainS, "D", None), (ComplexS, "C", None), (StrandS, "S", None), (MacrostateS, "M", None),
           (ReactionS, "R", None),
           (DomA, "D", None), (DomAA, "D", None), (DomB, "D", None),
           (failing(DomainS, "DomFailB", False), "D", "before"), (failing(DomainS, "DomFailA", True), "D", "after"),
           (CplxA, "C", None), (CplxAA, "C", None), (CplxB, "C", None),
           (failing(ComplexS, "CplxFailB", False), "C", "before"), (failing(ComplexS, "CplxFailA", True), "C", "after"),
           (StrandA, "S", None), (failing(StrandS, "StrandFailA", True), "S", "after"),
           (MacA, "M", None), (MacAA, "M", None), (failing(MacrostateS, "MacFailA", True), "M", "after"),
           (RxnA, "R", None), (failing(ReactionS, "RxnFailA", True), "R", "after"),
           (failing(ReactionS, "RxnFailB", False), "R", "before"),
           (DomC, "D", None), (DomD, "D", None)]
    for cls, kind, fail in zoo:
        ZOO.append(cls)
        KIND[cls] = kind
        FAIL[cls] = fail or "none"
        ORIG_ID[cls] = cls.__dict__.get("ID")


# ---------------------------------------------------------------------------
# zoo variants: the same class table built from classes that no naming attribute tells apart.
#   0  the zoo above (every class has its own name)
#   1  every user class of one kind is called alike (`Dom`, `Cplx`, ...: what a class factory, `type(...)` called twice or a
#      re-executed class statement produce), in the module of the harness
#   2  every user class carries the __name__ / __qualname__ / __module__ of the LIBRARY class of its kind
#   3  the zoo of variant 0 (the very same classes); after every operation of the history every read-only accessor
#      (READ_ATTRS, plus repr / str / hash / ==) of every object the user holds is read and the value thrown away: reading
#      leaves no trace (no reference to the object or its parts survives, no registry entry moves), so every history
#      must be what it is without the reads
# A registry belongs to a class OBJECT: the model's class table is the same for all variants, and so must every history be.
VARIANTS = {}
CURRENT = [0]
READS = [False]
READS_VARIANT = 3
# properties only (nothing here constructs an object: `complement` is an operation of the histories, not a read)
READ_ATTRS = ("name", "length", "dtype", "cname", "is_complement", "canonical_form", "sequence", "structure", "turns", "size",
              "kernel_string", "strand_table", "pair_table", "domains", "enclosed_domains", "exterior_domains",
              "is_domainlevel_complement", "is_connected", "concentration", "complexes", "representative", "reactants",
              "products", "rtype", "reaction_string", "arity", "rate_constant")


def read_accessors(held):
    """read every read-only accessor of every held object; failures are values too (a sanity check may raise)"""
    for k in range(len(held)):
        if held[k] is None or type(held[k]) not in KIND:
            continue
        for a in READ_ATTRS:
            try:
                getattr(held[k], a)
            except Exception:
                pass
        for f in (repr, str, hash, lambda x: x == x):
            try:
                f(held[k])
            except Exception:
                pass
_OWN = ("__module__", "__qualname__", "__doc__", "__dict__", "__weakref__", "_instanceNames", "_instanceCanon")


def build_variant(v):
    build_zoo()
    if 0 not in VARIANTS:
        VARIANTS[0] = list(ZOO)
    if v in VARIANTS:
        return VARIANTS[v]
    if v == READS_VARIANT:
        VARIANTS[v] = list(VARIANTS[0])
        return VARIANTS[v]
    if v not in (1, 2):
        raise ValueError(f"zoo variant {v!r}")
    orig = VARIANTS[0]
    base_of = dict(zip("DCSMR", orig[:5]))
    common = {"D": "Dom", "C": "Cplx", "S": "Strand", "M": "Mac", "R": "Rxn"}
    twin = list(orig[:5])
    for cls in orig[5:]:
        kind = KIND[cls]
        par = twin[orig.index(cls.__mro__[1])]
        ns = {k: x for k, x in cls.__dict__.items() if k not in _OWN and k != "ID"}
        if v == 1:
            name = common[kind]
            ns["__module__"], ns["__qualname__"] = __name__, name
        else:
            name = base_of[kind].__name__
            ns["__module__"], ns["__qualname__"] = base_of[kind].__module__, base_of[kind].__qualname__
        if ORIG_ID[cls] is not None:
            ns["ID"] = ORIG_ID[cls]
        new = type(cls)(name, (par,), ns)
        KIND[new], FAIL[new], ORIG_ID[new] = kind, FAIL[cls], ORIG_ID[cls]
        twin.append(new)
    VARIANTS[v] = twin
    return twin


class zoo_variant:
    """with zoo_variant(v): ZOO holds the classes of variant v (replaced in place: every user of reg.ZOO follows);
    variant 0 is restored on exit.  reset() clears the classes of the variant in force: a history must be reset before
    the variant is left (run_history does)"""
    def __init__(self, v):
        self.v = v

    def __enter__(self):
        ZOO[:] = build_variant(self.v)
        CURRENT[0] = self.v
        READS[0] = self.v == READS_VARIANT

    def __exit__(self, *a):
        ZOO[:] = VARIANTS[0]
        CURRENT[0] = 0
        READS[0] = False


def label(cls):
    """a name for messages: the class name, with the table index when names do not tell the classes apart"""
    return cls.__name__ if CURRENT[0] in (0, READS_VARIANT) else f"{cls.__name__}#{ZOO.index(cls)}"


def class_table():
    build_zoo()
    out = []
    for cls in ZOO:
        par = cls.__mro__[1]
        out.append([KIND[cls], ZOO.index(par) if par in ZOO else None,
                    getattr(cls, "DTYPE_CUTOFF", 0), getattr(cls, "SHORT_DOM_LEN", 0),
                    getattr(cls, "LONG_DOM_LEN", 0), getattr(cls, "PREFIX", ""),
                    ORIG_ID[cls], FAIL[cls]])
    return out


def reset():
    for cls in ZOO:
        cls._instanceNames.clear()
        cls._instanceCanon.clear()
        if ORIG_ID[cls] is not None:
            cls.ID = ORIG_ID[cls]
        elif "ID" in cls.__dict__:
            del cls.ID


def render(k):
    if isinstance(k, (tuple, list)):
        return [render(x) for x in k]
    if k is None or isinstance(k, (str, int)):
        return k
    if hasattr(k, "canonical_form"):
        return render(k.canonical_form)
    raise TypeError(f"cannot render key part {type(k).__name__}")


class Machine:
    def __init__(self, nslots, watch):
        build_zoo()
        self.watch = watch
        self.slots = [None] * nslots
        self.handed = []            # weak references, in hand-out order

    def hidx(self, obj):
        for n, r in enumerate(self.handed):
            if r() is obj:
                return n
        return -1

    def hand_out(self, obj):
        if self.hidx(obj) >= 0:
            return "returned"
        self.handed.append(weakref.ref(obj))
        return "created"

    # ---- one operation -------------------------------------------------
    def construct(self, op):
        """returns a thunk building the object, or None when the op must be skipped"""
        tag = op[0]
        S = self.slots
        # call style: an absent optional argument is either omitted or spelled out as an explicit `=None` keyword
        # (the two must be indistinguishable); alternates deterministically with the position in the history
        self.ncalls = getattr(self, "ncalls", 0) + 1
        explicit = self.ncalls % 2 == 0
        # container style: the unordered collection arguments (members of a macrostate, reactants / products of a
        # reaction) are handed over as a tuple, a list or another re-iterable sequence (deque) in turn; the three
        # must be indistinguishable (in particular a tuple is not thereby already "the canonical tuple")
        box = CONTAINERS[self.ncalls % 3]
        if tag == "dom":
            _, dst, c, name, length, prefix, dtype = op
            kw = {k: v for k, v in (("name", name), ("length", length), ("prefix", prefix), ("dtype", dtype))
                  if v is not None or explicit}
            return lambda: ZOO[c](**kw)
        if tag in ("cplx", "strand"):
            if tag == "cplx":
                _, dst, c, seq, sst, name, prefix = op
            else:
                _, dst, c, seq, name, prefix = op
                sst = None
            if seq is not None:
                if any(isinstance(e, int) and S[e] is None for e in seq):
                    return None
                seq = [S[e] if isinstance(e, int) else e for e in seq]
            kw = {k: v for k, v in (("name", name), ("prefix", prefix)) if v is not None or explicit}
            if tag == "cplx":
                if seq is None:
                    return (lambda: ZOO[c](None, None, **kw))
                return lambda: ZOO[c](seq, None if sst is None else list(sst), **kw)
            return lambda: ZOO[c](seq, **kw)
        if tag == "macro":
            _, dst, c, members, name = op
            kw = {} if (name is None and not explicit) else {"name": name}
            if members is None:
                return lambda: ZOO[c](**kw)
            if any(S[e] is None for e in members):
                return None
            ms = box(S[e] for e in members)
            return lambda: ZOO[c](ms, **kw)
        if tag == "rxn":
            _, dst, c, rp, rtype, name = op
            kw = {} if (name is None and not explicit) else {"name": name}
            if rp is None:
                return lambda: ZOO[c](None, None, rtype, **kw)
            r, p = rp
            if any(S[e] is None for e in r + p):
                return None
            rs, ps = box(S[e] for e in r), box(S[e] for e in p)
            return lambda: ZOO[c](rs, ps, rtype, **kw)
        raise ValueError(tag)

    def run_op(self, op):
        from dsdobjects.base_classes import DomainS, ComplexS
        tag = op[0]
        S = self.slots
        try:
            if tag in ("dom", "cplx", "strand", "macro", "rxn", "inv"):
                dst = op[1]
                if tag == "inv":
                    src = op[2]
                    if src >= len(S) or S[src] is None or not isinstance(S[src], DomainS):
                        return ["skipped"]
                    obj = ~S[src]
                else:
                    if KIND[ZOO[op[2]]] != {"dom": "D", "cplx": "C", "strand": "S", "macro": "M", "rxn": "R"}[tag]:
                        return ["skipped"]
                    thunk = self.construct(op)
                    if thunk is None:
                        return ["skipped"]
                    obj = thunk()
                    del thunk
                how = self.hand_out(obj)
                if dst < len(S):
                    S[dst] = obj
                n = self.hidx(obj)
                del obj
                return [how, n]
            if tag == "split":
                from dsdobjects.base_classes import StrandS
                _, dst, src = op
                if src >= len(S) or S[src] is None or not isinstance(S[src], ComplexS) or isinstance(S[src], StrandS):
                    return ["skipped"]
                parts = list(S[src].split())
                ns = []
                for k, p in enumerate(parts):
                    self.hand_out(p)
                    ns.append(self.hidx(p))
                    if dst + k < len(S):
                        S[dst + k] = p
                p = None
                del parts
                return ["split", ns]
            if tag == "drop":
                if op[1] < len(S):
                    S[op[1]] = None
                return ["value", 0]
            if tag == "query":
                _, s, q = op
                if s >= len(S) or S[s] is None:
                    return ["skipped"]
                o = S[s]
                v = {"name": lambda: o.name, "len": lambda: len(o), "dtype": lambda: o.dtype,
                     "size": lambda: o.size}[q]()
                return ["value", v]
            if tag == "turns":
                _, s, v = op
                if s >= len(S) or S[s] is None or not isinstance(S[s], ComplexS):
                    return ["skipped"]
                S[s].turns = v
                return ["value", 0]
            raise ValueError(tag)
        except BaseException as e:          # noqa: every failure is an outcome
            if isinstance(e, (KeyboardInterrupt, SystemExit, MemoryError)):
                raise
            ex = getattr(e, "existing", None)
            # the caught error (and with it `existing`, the frames, the arguments) is
            # dropped when this block ends; the observation is taken afterwards
            return ["raised", type(e).__name__, None if ex is None else self.hidx(ex)]

    # ---- observation -----------------------------------------------------
    def observe(self, outcome):
        from dsdobjects import show_singletons
        classes = []
        for cls in [ZOO[c] for c in self.watch]:
            names = [[k, self.hidx(v)] for k, v in list(cls._instanceNames.items())]
            canon = [[render(k), self.hidx(v)] for k, v in list(cls._instanceCanon.items())]
            shown = []
            for line in show_singletons(cls):
                assert line.startswith("name = ") and ", obj = " in line, line
                shown.append(line[len("name = "):line.index(", obj = ")])
            if sorted(shown) != sorted(n for n, _ in names):
                raise ShowSingletonsMismatch(f"{cls.__name__}: {shown} vs {names}")
            classes.append([names, canon, getattr(cls, "ID", None), "ID" in cls.__dict__])
        objs = []
        for n, r in enumerate(self.handed):
            o = r()
            if o is None:
                continue
            k = KIND[type(o)]
            if k == "D":
                key = [o.name, o.length]
                data = ["D", o.length]
            else:
                key = render(o.canonical_form)
                if k == "C":
                    data = ["C", [str(x) for x in o.sequence], list(o.structure), o.turns]
                elif k == "S":
                    data = ["S", [str(x) for x in o.sequence]]
                elif k == "M":
                    data = ["M", [self.hidx(x) for x in o.complexes], self.hidx(o.representative)]
                else:
                    data = ["R", [self.hidx(x) for x in o.reactants], [self.hidx(x) for x in o.products], o.rtype]
            objs.append([n, ZOO.index(type(o)), o.name, key, data])
            del o
        live = [r() is not None for r in self.handed]
        return [outcome, [None if s is None else self.hidx(s) for s in self.slots], classes, objs, live]


class ShowSingletonsMismatch(Exception):
    pass


_runs = [0]


def run_history(nslots, ops, watch, quiet=0):
    build_zoo()
    was = gc.isenabled()
    if _runs[0] % 512 == 0:
        gc.collect()          # cyclic garbage of earlier requests; never needed for the singletons themselves
    _runs[0] += 1
    gc.disable()              # release must be immediate (reference counting), not helped by the collector
    m = None
    try:
        reset()
        m = Machine(nslots, watch)
        out = []
        for k, op in enumerate(ops):
            outcome = m.run_op(op)
            if READS[0]:
                read_accessors(m.slots)
            if k >= quiet:
                out.append(m.observe(outcome))
        return out
    finally:
        m = None
        reset()
        if was:
            gc.enable()


def register(op):
    @op("registry_classes")
    def _(a):
        return class_table()

    @op("history")
    def _(a):
        _, nslots, ops, watch, quiet = a
        return run_history(nslots, ops, watch, quiet)

    @op("histories")
    def _(a):
        _, nslots, hs, watch, quiet = a
        out = []
        for ops in hs:
            try:
                out.append(run_history(nslots, ops, watch, quiet))
            except Exception as e:       # a broken observation is an outcome of that history only
                out.append(Err(type(e).__name__))
        return out

    @op("histories_v")
    def _(a):
        """`histories` on a zoo variant (build_variant): [class table, nslots, histories, watch, quiet, variant]"""
        _, nslots, hs, watch, quiet, v = a
        plain = class_table()
        with zoo_variant(v):
            if class_table() != plain:
                return Err("VariantClassTableDiffers")
            out = []
            for ops in hs:
                try:
                    out.append(run_history(nslots, ops, watch, quiet))
                except Exception as e:
                    out.append(Err(type(e).__name__))
            return out
