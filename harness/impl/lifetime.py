"""C05, direct statement: querying never prolongs a lifetime.

ops:  c05_catalogue      None -> [[kind, [[name, what], ...]], ...]   every public property ("get"), property with a
                         setter ("set"), method ("call") and special method ("dunder") of the five base classes,
                         discovered with dir() on the imported classes (kind in D, C, S, M, R)
      c05_query_release  [dk, doms, cplxs, macros, rxns, queries, keep] -> [complaints ([] = fine), number of queries that raised]

A system is built through the constructors (gc disabled), the listed queries are made (results and caught errors are
dropped at once), then every reference is dropped except the objects listed in `keep`.  Expected survivors = the kept
objects and what they contain, computed from the request alone.  Everything else must be gone immediately (weakref),
the registries must hold the survivors only, and the released names must be redefinable with other parameters.

  dk       class of the domains (index into DOM)
  doms     [[name, length], ...]
  cplxs    [[sequence of domain names / '+', structure string or None (None: a StrandS), name, class index], ...]
  macros   [[member complex indices], class index]
  rxns     [[reactants], [products], rtype, 'c' | 'm', class index]      (indices of complexes or of macrostates)
  queries  [[[kind, index], name, args or None, mode], ...]
           name 'x' with args None: read attribute x;  '=x': assign args[0] to x;  otherwise call x(*args);
           args: plain values, ['#t', ...] a tuple, ['@', kind, index] an object of the system;
           mode 0: an iterator result is consumed; 1: only its first element is taken, then it is dropped
  keep     [[kind, index], ...]       kind in 'D' (index into doms), 'C', 'M', 'R'

      c05_tidy_release   [dk, doms, cplxs, macros, rxns, queries, keep, tidy] -> as c05_query_release
  tidy     [[mode per macrostate], [[mode of the reactants, mode of the products] per reaction]]: the member containers
           are the caller's own and the caller goes on using them after the construction -
           0 a list, only dropped; 1 list.clear() (what show_memory() recommends); 2 pop(); 3 append(another object);
           4 l[:] = [another object]; 5 a tuple; 6 del l[0]; 7 reverse().  The container keeps (and reports) the members it
           was built from and nothing else.
"""
import gc, weakref

DUNDERS = ["__repr__", "__str__", "__len__", "__hash__", "__invert__", "__eq__", "__ne__", "__lt__", "__gt__", "__le__",
           "__ge__"]


def register(op):
    from dsdobjects import base_classes as bc

    class LtDomA(bc.DomainS): pass
    class LtCplxA(bc.ComplexS): pass
    class LtStrandA(bc.StrandS): pass
    class LtMacA(bc.MacrostateS): pass
    class LtRxnA(bc.ReactionS): pass
    DOM = [bc.DomainS, LtDomA]
    CPLX = [bc.ComplexS, LtCplxA]
    STRAND = [bc.StrandS, LtStrandA]
    MAC = [bc.MacrostateS, LtMacA]
    RXN = [bc.ReactionS, LtRxnA]
    ALL = DOM + CPLX + STRAND + MAC + RXN
    BASE = {"D": bc.DomainS, "C": bc.ComplexS, "S": bc.StrandS, "M": bc.MacrostateS, "R": bc.ReactionS}

    def fresh(collect=True):
        for c in ALL:
            c._instanceNames.clear()
            c._instanceCanon.clear()
            if "ID" in c.__dict__:
                c.ID = 1
        if collect:
            gc.collect()

    @op("c05_catalogue")
    def _(arg):
        out = []
        for kind, cls in BASE.items():
            entries = []
            for n in sorted(dir(cls)):
                if n.startswith("_"):
                    continue
                raw = None
                for k in cls.__mro__:
                    if n in k.__dict__:
                        raw = k.__dict__[n]
                        break
                if isinstance(raw, property):
                    entries.append([n, "get"])
                    if raw.fset is not None:
                        entries.append([n, "set"])
                elif isinstance(raw, (classmethod, staticmethod)):
                    continue
                elif callable(raw):
                    entries.append([n, "call"])
                else:
                    entries.append([n, "get"])
            for n in DUNDERS:
                if any(n in k.__dict__ for k in cls.__mro__[:-1]):
                    entries.append([n, "dunder"])
            out.append([kind, entries])
        return out

    @op("c05_query_release")
    def _(arg):
        dk, doms, cplxs, macros, rxns, queries, keep = arg
        was = gc.isenabled()
        fresh(collect=False)          # (cyclic garbage of earlier requests cannot be seen: the registries are empty)
        gc.disable()                  # release must be immediate (reference counting), not helped by the collector
        try:
            return run(dk, doms, cplxs, macros, rxns, queries, keep)
        finally:
            fresh()
            if was:
                gc.enable()

    @op("c05_tidy_release")
    def _(arg):
        dk, doms, cplxs, macros, rxns, queries, keep, tidy = arg
        was = gc.isenabled()
        fresh(collect=False)
        gc.disable()
        try:
            return run(dk, doms, cplxs, macros, rxns, queries, keep, tidy)
        finally:
            fresh()
            if was:
                gc.enable()

    def handed_over(make, lists, modes, pool):
        """make(*containers), the containers built by the caller as in `lists`; afterwards the caller goes on using
        its own containers as in `modes` (see the module docstring) and drops them"""
        args = [tuple(l) if m == 5 else list(l) for l, m in zip(lists, modes)]
        o = make(*args)
        for l, m in zip(args, modes):
            other = next((x for x in pool if not any(x is y for y in l)), pool[0])
            if m == 1:
                l.clear()
            elif m == 2:
                l.pop()
            elif m == 3:
                l.append(other)
            elif m == 4:
                l[:] = [other]
            elif m == 6:
                del l[0]
            elif m == 7:
                l.reverse()
            other = None
        l = None
        del args
        return o

    def run(dk, doms, cplxs, macros, rxns, queries, keep, tidy=None):
        objs = {"D": [], "C": [], "M": [], "R": []}
        byname = {}
        for name, length in doms:
            d = DOM[dk](name, length)
            byname[name] = d
            objs["D"].append(d)
        d = None
        for seq, sst, name, k in cplxs:
            sq = [byname[x] if x != "+" else "+" for x in seq]
            if sst is None:
                objs["C"].append(STRAND[k](sq, name=name))
            else:
                objs["C"].append(CPLX[k](sq, list(sst), name=name))
            del sq
        for j, (ms, k) in enumerate(macros):
            if tidy is None:
                objs["M"].append(MAC[k]([objs["C"][i] for i in ms]))
            else:
                objs["M"].append(handed_over(MAC[k], [[objs["C"][i] for i in ms]], [tidy[0][j]], objs["C"]))
        for j, (re, pr, rtype, over, k) in enumerate(rxns):
            pool = objs["C"] if over == "c" else objs["M"]
            if tidy is None:
                objs["R"].append(RXN[k]([pool[i] for i in re], [pool[i] for i in pr], rtype))
            else:
                objs["R"].append(handed_over(lambda a, b: RXN[k](a, b, rtype), [[pool[i] for i in re], [pool[i] for i in pr]],
                                             tidy[1][j], pool))
        pool = None
        del byname
        if len({id(o) for v in objs.values() for o in v}) != sum(len(v) for v in objs.values()):
            raise ValueError("the request denotes one object twice")          # a generator error, not a finding
        refs = {k: [weakref.ref(o) for o in v] for k, v in objs.items()}
        names = {k: [(type(o), o.name) for o in v] for k, v in objs.items()}

        def value(a):
            if isinstance(a, list) and a and a[0] == "#t":
                return tuple(value(x) for x in a[1:])
            if isinstance(a, list) and len(a) == 3 and a[0] == "@":
                return objs[a[1]][a[2]]
            if isinstance(a, list):
                return [value(x) for x in a]
            return a

        raised = 0
        for (kind, idx), name, args, mode in queries:
            try:
                o = objs[kind][idx]
                if name.startswith("="):
                    setattr(o, name[1:], value(args[0]))
                    continue
                if name.startswith("__") and name != "__invert__" and args is not None:
                    import operator
                    f = {"__repr__": repr, "__str__": str, "__len__": len, "__hash__": hash}.get(name) or getattr(operator, name)
                    r = f(o, *[value(a) for a in args])
                elif name == "__invert__":
                    r = ~o
                else:
                    r = getattr(o, name)
                    if args is not None:
                        r = r(*[value(a) for a in args])
                if hasattr(r, "__next__"):
                    if mode:
                        next(r, None)
                    else:
                        for _ in r:
                            pass
                        _ = None
            except BaseException as e:          # noqa: a caught error; dropped (with its traceback) when the block ends
                if isinstance(e, (KeyboardInterrupt, SystemExit, MemoryError)):
                    raise
                raised += 1
            finally:
                o = r = f = None
        # expected survivors, from the request alone
        alive = {"D": set(), "C": set(), "M": set(), "R": set()}
        dindex = {n: i for i, (n, _) in enumerate(doms)}

        def mark(kind, i):
            if i in alive[kind]:
                return
            alive[kind].add(i)
            if kind == "C":
                for x in cplxs[i][0]:
                    if x != "+":
                        mark("D", dindex[x])
            elif kind == "M":
                for j in macros[i][0]:
                    mark("C", j)
            elif kind == "R":
                for j in rxns[i][0] + rxns[i][1]:
                    mark("C" if rxns[i][3] == "c" else "M", j)
        for kind, i in keep:
            mark(kind, i)
        kept = [objs[kind][i] for kind, i in keep]
        bad = []
        if tidy is not None:
            # what the containers say about their members is what they were built from, whatever became of the
            # caller's own lists
            def members(o, attr):
                try:
                    return sorted(x.name for x in getattr(o, attr))
                except Exception as e:
                    return type(e).__name__
            for j, (ms, k) in enumerate(macros):
                got, want = members(objs["M"][j], "complexes"), sorted(names["C"][i][1] for i in ms)
                if got != want:
                    bad.append(f"{names['M'][j][0].__name__} {names['M'][j][1]!r}: complexes are {got}, built from {want}")
            for j, (re, pr, rtype, over, k) in enumerate(rxns):
                src = names["C" if over == "c" else "M"]
                for attr, idx in (("reactants", re), ("products", pr)):
                    got, want = members(objs["R"][j], attr), sorted(src[i][1] for i in idx)
                    if got != want:
                        bad.append(f"{names['R'][j][0].__name__} {names['R'][j][1]!r}: {attr} are {got}, built from {want}")
        objs = None
        for kind in "DCMR":
            for i, r in enumerate(refs[kind]):
                o = r()
                cls, nm = names[kind][i]
                if i in alive[kind]:
                    if o is None:
                        bad.append(f"{cls.__name__} {nm!r} is gone although a kept object contains it")
                    elif cls._instanceNames.get(nm) is not o:
                        bad.append(f"{cls.__name__} {nm!r} is referenced but no longer the singleton of its name")
                elif o is not None:
                    bad.append(f"{cls.__name__} {nm!r} is still alive after its last reference was dropped")
                o = None
        expected = {(names[kind][i][0], names[kind][i][1]) for kind in "DCMR" for i in alive[kind]}
        for cls in ALL:
            for n in list(cls._instanceNames.keys()):
                if (cls, n) not in expected:
                    bad.append(f"{cls.__name__} {n!r} is still registered after its last reference was dropped")
            canon_owners = {id(v) for v in list(cls._instanceCanon.values())}
            name_owners = {id(v) for v in list(cls._instanceNames.values())}
            if not canon_owners <= name_owners:
                bad.append(f"{cls.__name__}: a canonical form is still registered for an object whose name is not")
        # the released names can be redefined with other parameters
        if not bad:
            zz = DOM[dk]("zzq", 3)
            for i, (cls, nm) in enumerate(names["C"]):
                if i in alive["C"]:
                    continue
                try:
                    if issubclass(cls, bc.StrandS):
                        c = cls([zz, zz, zz, zz, zz, zz, zz], name=nm)
                    else:
                        c = cls([zz, zz, zz, zz, zz, zz, zz], list("......."), name=nm)
                    del c
                except bc.SingletonError:
                    bad.append(f"redefinition of the released name {nm!r} ({cls.__name__}) is refused")
            del zz
            families = {}
            for i, (n, _) in enumerate(doms):
                families.setdefault(n.rstrip("*"), []).append(i)
            for i, (n, ln) in enumerate(doms):
                if any(j in alive["D"] for j in families[n.rstrip("*")]):
                    continue
                try:
                    d = DOM[dk](n, ln + 1)
                    del d
                except bc.SingletonError:
                    bad.append(f"redefinition of the released domain {n!r} with length {ln + 1} is refused")
        del kept
        return [bad, raised]
