"""C10 / C11 operations on real objects (base classes and subclasses with their own registries)."""
import gc

def register(op):
    from dsdobjects import base_classes as bc
    from dsdobjects.singleton import clear_singletons

    class DomA(bc.DomainS): pass
    class DomB(DomA): pass
    class CplxA(bc.ComplexS): pass
    class CplxB(bc.ComplexS): pass
    class MacA(bc.MacrostateS): pass
    class RxnA(bc.ReactionS): pass
    class DomC(bc.DomainS):          # sibling registries with other class constants
        DTYPE_CUTOFF = 10
        SHORT_DOM_LEN = 9
    class DomD(bc.DomainS):
        DTYPE_CUTOFF = 6
        LONG_DOM_LEN = 7
    DOM = [bc.DomainS, DomA, DomB, DomC, DomD]
    CPLX = [bc.ComplexS, CplxA, CplxB]
    MAC = [bc.MacrostateS, MacA]
    RXN = [bc.ReactionS, RxnA]
    ALL = DOM + CPLX + MAC + RXN + [bc.StrandS]

    def fresh():
        for c in ALL:
            clear_singletons(c)
            if "ID" in c.__dict__ or hasattr(c, "ID"):
                c.ID = 1
        gc.collect()

    def comp(n):
        return n[:-1] if n.endswith("*") else n + "*"

    def dom(name, length=5, k=0):
        cls = DOM[k]
        try:
            return cls(name, length)
        except Exception:
            return cls(name)

    def cplx(spec, name=None):
        seq, struct, k = spec
        ds = [dom(x) if x != "+" else "+" for x in seq]
        try:
            return CPLX[k](ds, list(struct), name=name)
        except bc.SingletonError as e:
            if e.existing is None:
                raise
            return e.existing

    def ckey(c):
        cf = c.canonical_form
        return [list(cf[0]), list(cf[1])]

    def macro(spec):
        cs, k = spec
        members = [cplx(c) for c in cs]
        if k % 2:                       # the subclass registry gets the members in the opposite order ...
            members.reverse()
            if len({id(m) for m in members}) > 1:
                # ... and a user-chosen name (that of its canonically largest member): name and representative are not part
                # of the canonical form
                try:
                    return MAC[k](members, name=max(members, key=lambda c: c.canonical_form).name)
                except bc.SingletonError as e:
                    if e.existing is not None:
                        return e.existing
                    raise
        return MAC[k](members)

    def mkey(m):
        return [ckey(c) for c in m.canonical_form]

    def rxn(spec, kind):
        re, pr, rtype, k = spec
        mk = cplx if kind == "c" else macro
        return RXN[k]([mk(x) for x in re], [mk(x) for x in pr], rtype)

    def rkey(r, kind):
        cf = r.canonical_form
        conv = (lambda x: [list(x[0]), list(x[1])]) if kind == "c" else (lambda x: [ckey(c) for c in x])
        return [[conv(x) for x in cf[0]], [conv(x) for x in cf[1]], cf[2]]

    def ops(a, b):
        return [a == b, a != b, a < b, a <= b, a > b, a >= b]

    @op("c10_pair")
    def _(arg):
        kind, sa, sb = arg
        fresh()
        if kind == "domain":
            a, b = dom(*sa), dom(*sb)
            ka, kb = [a.name, a.length], [b.name, b.length]
        elif kind == "complex":
            a, b = cplx(sa), cplx(sb)
            ka, kb = ckey(a), ckey(b)
        elif kind == "macrostate":
            a, b = macro(sa), macro(sb)
            ka, kb = mkey(a), mkey(b)
        else:
            k = kind[-1]
            a, b = rxn(sa, k), rxn(sb, k)
            ka, kb = rkey(a, k), rkey(b, k)
        # the operators are asked before any hash was taken, after one object was hashed (put into a set), and after
        # both were: the answers must not depend on that
        o1 = ops(a, b)
        one = {a}
        o2 = ops(a, b) + ops(b, a)
        inset = b in one
        o3 = ops(a, b)
        if o1 != o3 or o2[:6] != o1 or o2[6] != o1[0] or inset != o1[0]:
            raise RuntimeError(f"comparison depends on whether a hash was taken before: {o1} {o2} {o3} {inset}")
        res = [ka, kb, o1, hash(a) == hash(b), a is b, len({a, b}),
               [x is a for x in sorted([a, b])], [x is a for x in sorted([b, a])]]
        del one
        del a, b
        fresh()
        return res

    @op("c10_order")
    def _(arg):
        """several objects of one kind alive together: the whole relation (all ordered pairs), and sorted()/min()/max() of the
        given arrangements of them; arg = ["order", kind, specs, perms]"""
        _, kind, specs, perms = arg
        fresh()
        if kind == "domain":
            objs = [dom(*s) for s in specs]
            keys = [[o.name, o.length] for o in objs]
        elif kind == "complex":
            objs = [cplx(s) for s in specs]
            keys = [ckey(o) for o in objs]
        elif kind == "macrostate":
            objs = [macro(s) for s in specs]
            keys = [mkey(o) for o in objs]
        else:
            k = kind[-1]
            objs = [rxn(s, k) for s in specs]
            keys = [rkey(o, k) for o in objs]
        n = len(objs)
        first = [min(j for j in range(n) if objs[j] is objs[i]) for i in range(n)]     # identical objects: one index
        rel = [[ops(objs[i], objs[j]) for j in range(n)] for i in range(n)]
        idx = lambda o: min(j for j in range(n) if objs[j] is o)
        arr, xs = [], None
        for p in perms:
            xs = [objs[i] for i in p]
            arr.append([[idx(o) for o in sorted(xs)], idx(min(xs)), idx(max(xs)), [idx(o) for o in sorted(xs, reverse=True)]])
        again = [[ops(objs[i], objs[j]) for j in range(n)] for i in range(n)]
        if again != rel:
            raise RuntimeError("the operators answer differently after sorted()/min()/max() were used")
        del objs, xs
        fresh()
        return [keys, first, rel, arr]

    @op("c10_names")
    def _(arg):
        """Names are not part of the canonical form of complexes, macrostates and reactions.  Several sessions in one
        process: in each session objects of one kind are requested under USER-CHOSEN names (or None: automatic name) in
        given registries -- the same object may be called differently in the base class and in the subclass, a name may
        denote another object in the other registry or in a later session (the objects of a session are released before
        the next one starts; the registries are NOT cleared, only garbage collected).  Within a session every ordered pair
        is observed: operators, hashes, membership in a set, size of the set, dictionary lookup.
        arg = ["names", kind, sessions]; session = [[spec, name, class index, use-as-set-member-first], ...]
        (macrostates: name = None or the index of the member whose name is used)
        returns per session [keys, names, included indices, rel] with rel[i][j] = [==, !=, <=, >=, hash==, in, len, lookup]"""
        _, kind, sessions = arg
        fresh()
        def session(sess):
            objs, keys, incl = [], [], []
            cn = {}                                     # complexes are called A, B, C, ... anew in every session
            def named_cplx(spec):
                c = cplx(spec, name="ABCDEFGHIJKLMNOP"[len(cn) % 16] + ("" if len(cn) < 16 else str(len(cn))))
                cn[c.name] = c
                return c
            for n, (spec, name, k, _use) in enumerate(sess):
                try:
                    if kind == "complex":
                        seq, struct, _k = spec
                        ds = [dom(x) if x != "+" else "+" for x in seq]
                        o = CPLX[k](ds, list(struct), name=name) if name else CPLX[k](ds, list(struct))
                        key = ckey(o)
                    elif kind == "macrostate":
                        members = [named_cplx(c) for c in spec[0]]
                        if isinstance(name, int):       # called after its n-th member (the caller's choice of a representative)
                            name = members[name % len(members)].name
                        o = MAC[k](members, name=name) if name else MAC[k](members)
                        key = mkey(o)
                    else:
                        kk = kind[-1]
                        mk = named_cplx if kk == "c" else macro
                        re, pr, rtype = spec[0], spec[1], spec[2]
                        o = RXN[k]([mk(x) for x in re], [mk(x) for x in pr], rtype, name=name)
                        key = rkey(o, kk)
                except bc.SingletonError as e:
                    if e.existing is None:
                        continue                        # the name is taken in this registry: not a case
                    o = e.existing
                    key = ckey(o) if kind == "complex" else mkey(o) if kind == "macrostate" else rkey(o, kind[-1])
                except (bc.ObjectInitError, AssertionError):
                    continue
                objs.append(o); keys.append(key); incl.append(n)
            used = set()
            for o, n in zip(objs, incl):
                if sess[n][3]:
                    used.add(o)                         # the object is in use as a set member / dictionary key
            m = len(objs)
            rel = [[None] * m for _ in range(m)]
            for i in range(m):
                for j in range(m):
                    x, y = objs[i], objs[j]
                    rel[i][j] = [x == y, x != y, x <= y, x >= y, hash(x) == hash(y), y in {x}, len({x, y}), {x: 1}.get(y, 0) == 1]
            return [keys, [o.name for o in objs], incl, rel]
        out = []
        for sess in sessions:
            out.append(session(sess))                   # all references of the session die with its frame
            gc.collect()
        fresh()
        return out

    @op("c10_readonly")
    def _(arg):
        kind, spec = arg
        fresh()
        # a population member whose construction the library refuses (e.g. colliding automatic names)
        # is not a probe case
        try:
            if kind == "domain": dom(*spec)
            elif kind == "complex": cplx(spec, name="K")
            elif kind == "macrostate": macro(spec)
            else: rxn(spec, kind[-1])
        except (bc.SingletonError, bc.ObjectInitError, AssertionError):
            fresh()
            return [["construction-refused", True, True]]
        fresh()
        out = []
        def attempt(o, attr, value, observe):
            before = observe()
            try:
                setattr(o, attr, value)
                raised = False
            except Exception:
                raised = True
            out.append([attr, raised, observe() == before])
        if kind == "domain":
            d = dom(*spec)
            obs = lambda: [d.name, d.length, repr(d.canonical_form)]
            attempt(d, "name", "zz", obs); attempt(d, "length", 99, obs); attempt(d, "canonical_form", None, obs)
        elif kind == "complex":
            c = cplx(spec, name="K")
            obs = lambda: [c.name, ckey(c), list(map(str, c.sequence)), list(c.structure), [list(x) for x in c.pair_table],
                           [list(map(str, x)) for x in c.strand_table], c.kernel_string,
                           [[list(map(str, s_)), list(t_)] for s_, t_ in c.rotate()],
                           [[[list(map(str, r_)) for r_ in st_], [list(r_) for r_ in pt_]] for st_, pt_ in c.rotate_pt()]]
            attempt(c, "name", "zz", obs); attempt(c, "canonical_form", (("a",), (".",)), obs)
            for view in ("sequence", "structure"):
                v = list(getattr(c, view)); b = obs()
                if v: v[0] = "?"; v.append("?")
                out.append([view + "-copy", True, obs() == b])
            for view in ("pair_table", "strand_table"):
                v = list(getattr(c, view)); b = obs()
                if v and v[0]: v[0][0] = "?"
                v.append(["?"])
                out.append([view + "-copy", True, obs() == b])
            b = obs()
            for (s, t) in list(c.rotate()):
                if s: s[0] = "?"
                if t: t[0] = "?"
                s.append("?"); t.append("?")
            out.append(["rotate-copy", True, obs() == b])
            for (st, pt) in list(c.rotate_pt()):
                for r_ in st: r_.append("?")
                for r_ in pt: r_.append("?")
                st.append(["?"]); pt.append(["?"])
            out.append(["rotate_pt-copy", True, obs() == b])
            # the same after moving to another rotation and back
            n_ = c.size
            c.turns = c.turns + 1
            for (s, t) in list(c.rotate()):
                if s: s[0] = "?"
            c.turns = c.turns - 1
            out.append(["rotate-copy-after-turns", True, obs() == b])
        elif kind == "macrostate":
            m = macro(spec)
            obs = lambda: [m.name, mkey(m), [x.name for x in m.complexes], m.representative.name]
            for attr in ("complexes", "representative", "canonical_form", "name"):
                attempt(m, attr, None, obs)
            v = list(m.complexes); b = obs(); v.clear()
            out.append(["complexes-copy", True, obs() == b])
        else:
            k = kind[-1]
            r = rxn(spec, k)
            obs = lambda: [r.name, rkey(r, k), [x.name for x in r.reactants], [x.name for x in r.products], r.rtype]
            for attr in ("reactants", "products", "rtype", "name", "canonical_form"):
                attempt(r, attr, None, obs)
            v = list(r.reactants); b = obs(); v.clear()
            out.append(["reactants-copy", True, obs() == b])
        fresh()
        return out

    @op("c11_macro")
    def _(arg):
        cspecs, perm1, perm2, named, k = arg[:5]
        named2 = arg[5] if len(arg) > 5 else "same"      # "same": the same name again; None: unnamed; int: another member
        fresh()
        cs = [cplx(s, name=f"X{i}") for i, s in enumerate(cspecs)]
        members = [[ckey(c), c.name] for c in cs]
        name = cs[perm1[named]].name if named is not None else None
        m1 = MAC[k]([cs[i] for i in perm1], name) if name else MAC[k]([cs[i] for i in perm1])
        name2 = name if named2 == "same" else (None if named2 is None else cs[perm1[named2]].name)
        how = "object"
        try:
            m2 = MAC[k]([cs[i] for i in perm2], name2) if name2 else MAC[k]([cs[i] for i in perm2])
        except bc.SingletonError as e:
            m2 = e.existing
            how = "refused-existing" if m2 is not None else "refused-none"
        same = m2 is m1
        res = [members, name, [[x.name for x in m1.canonical_form], m1.name, m1.representative.name, len(m1)],
               same, (mkey(m1) == mkey(m2)) if m2 is not None else False, (m1.name == m2.name) if m2 is not None else False,
               sorted(x.name for x in m1.complexes) == sorted(x.name for x in m1.canonical_form), how]
        del m1, m2, cs
        fresh()
        return res

    @op("c11_macro_overlap")
    def _(arg):
        """a macrostate is alive; another, different member set that shares members with it is requested without a name:
        either refused, or a macrostate named after / represented by ITS canonically smallest member"""
        cspecs, set1, set2, k = arg[:4]
        named = arg[4] if len(arg) > 4 else False
        fresh()
        cs = [cplx(s, name=f"X{i}") for i, s in enumerate(cspecs)]
        if named == "shared":
            # the first macrostate is automatically named; the second, over another member set, is named after one of ITS
            # members that also belongs to the first (but is not the first one's name): that name is free, so it is created
            m1 = MAC[k]([cs[i] for i in set1])
            cand = [cs[i] for i in set2 if i in set1 and cs[i].name != m1.name]
            if not cand:
                m1 = None
                fresh()
                return ["refused", False]
            try:
                m2 = MAC[k]([cs[i] for i in set2], name=cand[0].name)
                res = ["shared", m2 is m1, m2.name == cand[0].name and m2.representative is cand[0], len(m2) == len(set(set2)), m1 != m2]
            except bc.SingletonError as e:
                res = ["shared-refused", e.existing is m1]
            m1 = m2 = None
            del cs, cand
            fresh()
            return res
        if named:
            # both macrostates carry user-chosen names (their canonically LARGEST members): different member sets, one possibly
            # a prefix of the other in canonical order, are different objects that compare unequal
            big = lambda idx: max((cs[i] for i in idx), key=lambda c: c.canonical_form).name
            try:
                m1 = MAC[k]([cs[i] for i in set1], name=big(set1))
                m2 = MAC[k]([cs[i] for i in set2], name=big(set2))
            except bc.SingletonError:
                fresh()
                return ["refused", False]
            res = ["named", m1 is m2, m1 == m2, m1 != m2, m2 == m1, hash(m1) == hash(m2), len({m1, m2})]
            m1 = m2 = None
            del cs
            fresh()
            return res
        m1 = MAC[k]([cs[i] for i in set1])
        try:
            m2 = MAC[k]([cs[i] for i in set2])
        except bc.SingletonError as e:
            res = ["refused", e.existing is m1]
        else:
            smallest = min((cs[i] for i in set2), key=lambda c: c.canonical_form)
            res = ["object", m2 is m1, m2.name, m2.representative.name, smallest.name, len(m2),
                   sorted(x.name for x in m2.complexes) == sorted(cs[i].name for i in set(set2))]
        m1 = m2 = None
        del cs
        fresh()
        return res

    @op("c05_macro_after_turns")
    def _(arg):
        """a macrostate (and a reaction over it) stays the singleton of its members while a member is rotated: asking for the
        same members again, in any order, after `turns` assignments yields the very same objects"""
        cspecs, turns, k = arg
        fresh()
        cs = [cplx(s, name=f"X{i}") for i, s in enumerate(cspecs)]
        m1 = MAC[k](list(cs))
        r1 = RXN[0]([m1], [m1], "condensed")
        for i, t in turns:
            cs[i % len(cs)].turns = t
        bad = []
        try:
            m2 = MAC[k](list(reversed(cs)))
        except bc.SingletonError as e:
            m2 = e.existing
        if m2 is not m1:
            bad.append("the same members, after a turns assignment, denote " + ("another macrostate" if m2 is not None else "a refused request"))
        else:
            try:
                r2 = RXN[0]([m2], [m2], "condensed")
            except bc.SingletonError as e:
                r2 = e.existing
            if r2 is not r1:
                bad.append("the reaction over the macrostate is no longer found")
        del m1, m2, r1, cs
        fresh()
        return bad

    @op("c11_reaction")
    def _(arg):
        kind, specs, re1, pr1, re2, pr2, rtype, name, k = arg
        fresh()
        if kind == "c":
            objs = [cplx(s, name=f"X{i}") for i, s in enumerate(specs)]
            keyf = ckey
        else:
            objs = []
            for i, spec in enumerate(specs):
                cspecs, mk = spec[0], spec[1]
                cs = [cplx(s, name=f"X{i}_{j}") for j, s in enumerate(cspecs)]
                # optionally named by the user after one of its members (not necessarily the smallest)
                objs.append(MAC[mk](cs, name=cs[spec[2]].name) if len(spec) > 2 and spec[2] is not None else MAC[mk](cs))
            keyf = mkey
        members = [[keyf(o), o.name] for o in objs]
        r1 = RXN[k]([objs[i] for i in re1], [objs[i] for i in pr1], rtype, name=name)
        r2 = RXN[k]([objs[i] for i in re2], [objs[i] for i in pr2], rtype, name=name)
        res = [members, [rkey(r1, kind), r1.name, [x.name for x in r1.reactants], [x.name for x in r1.products]],
               r1 is r2, list(r1.arity), r1.rtype]
        del r1, r2, objs
        fresh()
        return res

    @op("c11_reaction_differs")
    def _(arg):
        """Two reactions whose reactant multisets, product multisets or types differ (a multiplicity changed, a member
        added, dropped or exchanged, another type) are requested one after the other, both unnamed and both alive: they are
        different objects with different canonical forms and automatic names, each lists ITS members in canonical order with
        its own arity (also when looked at again after the other one exists), and each is found again by a permutation of
        its own arguments.
        arg = [kind, specs, [re, pr, rtype], [re, pr, rtype], k]   (kind/specs as in c11_reaction); returns problems"""
        kind, specs, one, two, k = arg
        one, two = one[:3], two[:3]                # a fourth entry names the change for the report
        fresh()
        if kind == "c":
            objs = [cplx(s, name=f"X{i}") for i, s in enumerate(specs)]
        else:
            objs = []
            for i, spec in enumerate(specs):
                cs = [cplx(s, name=f"X{i}_{j}") for j, s in enumerate(spec[0])]
                objs.append(MAC[spec[1]](cs, name=cs[spec[2]].name) if len(spec) > 2 and spec[2] is not None else MAC[spec[1]](cs))
        ck = lambda o: o.canonical_form
        observe = lambda o: [o.name, rkey(o, kind), [[x.name for x in o.reactants], [x.name for x in o.products]],
                             list(o.arity), o.rtype]
        problems, rs, first_obs = [], [], []
        for n, (re, pr, rtype) in enumerate((one, two)):
            try:
                r = RXN[k]([objs[i] for i in re], [objs[i] for i in pr], rtype)
            except bc.SingletonError as e:
                problems.append([n, "refused", e.existing is not None and e.existing in rs, None])
                break
            rs.append(r)
            first_obs.append(observe(r))
        if len(rs) == 2:
            r1, r2 = rs
            if r1 is r2:
                problems.append([1, "same-object", first_obs[0][0], None])
            if r1 == r2 or not (r1 != r2):
                problems.append([1, "compare-equal", None, None])
            if first_obs[0][1] == first_obs[1][1]:
                problems.append([1, "same-canonical-form", None, None])
            if first_obs[0][0] == first_obs[1][0]:
                problems.append([1, "same-name", first_obs[0][0], None])
            for n, (re, pr, rtype) in enumerate((one, two)):
                now = observe(rs[n])
                want = [[x.name for x in sorted((objs[i] for i in re), key=ck)], [x.name for x in sorted((objs[i] for i in pr), key=ck)]]
                if now[2] != want or now[3] != [len(re), len(pr)] or now[4] != rtype:
                    problems.append([n, "members", [now[2], now[3], now[4]], [want, [len(re), len(pr)], rtype]])
                if [len(now[1][0]), len(now[1][1])] != [len(re), len(pr)]:
                    problems.append([n, "canonical-form-size", [len(now[1][0]), len(now[1][1])], [len(re), len(pr)]])
                if now != first_obs[n]:
                    problems.append([n, "changed-by-other-request", now, first_obs[n]])
                try:
                    again = RXN[k](tuple(objs[i] for i in reversed(re)), tuple(objs[i] for i in reversed(pr)), rtype)
                except bc.SingletonError as e:
                    again = e.existing
                if again is not rs[n]:
                    problems.append([n, "permutation-is-another-object", None, None])
            del r1, r2, again
        r = None
        del rs, objs
        fresh()
        return problems

    @op("c11_macro_caller_args")
    def _(arg):
        """A macrostate keeps the set of complexes it was made from whatever the caller does with HIS container afterwards
        (its length is the number of members, `complexes` lists them): arg = [specs, members, named, k, form, steps];
        returns [first observation, problems]"""
        import collections
        specs, members, named, k, form, steps = arg
        fresh()
        class Sub(list): pass
        objs = [cplx(s, name=f"X{i}") for i, s in enumerate(specs)]
        orig = [objs[i] for i in members]
        buf = {"sublist": Sub, "deque": collections.deque}.get(form, list)(orig)
        passed = tuple(buf) if form == "tuple" else buf
        nm = max(orig, key=lambda c: c.canonical_form).name if named else None
        first = MAC[k](passed, name=nm) if nm else MAC[k](passed)
        observe = lambda m: [m.name, mkey(m), sorted(x.name for x in m.complexes), len(m), m.representative.name]
        obs0 = observe(first)
        problems = []
        if obs0[2] != sorted(x.name for x in orig) or obs0[3] != len(orig):
            problems.append([-1, None, "members", obs0[2:4], [sorted(x.name for x in orig), len(orig)]])
        if len(buf) != len(orig) or any(x is not y for x, y in zip(buf, orig)):
            problems.append([-1, None, "caller-container-changed", [x.name for x in buf], [x.name for x in orig]])
        for n, (t, action, param) in enumerate(steps):
            try:
                if action == "clear": buf.clear()
                elif action == "append": buf.append(objs[param])
                elif action == "pop": buf.pop()
                elif action == "pop0": del buf[0]
                elif action == "reverse": buf.reverse()
                elif action == "replace": buf[param[0] % len(buf)] = objs[param[1]]
                elif action == "refill": buf.clear(); buf.extend(objs[i] for i in param)
                elif action == "sort-desc": buf.sort(key=lambda o: o.canonical_form, reverse=True)
            except Exception:
                pass
            now = observe(first)
            if now != obs0:
                problems.append([n, [t, action, param], "changed-after-caller-edit", now, obs0])
                break
        res = [obs0, problems]
        del first, objs, orig, buf, passed
        fresh()
        return res

    @op("c11_caller_args")
    def _(arg):
        """A reaction keeps the multisets it was made from, whatever the caller does with HIS argument containers afterwards.
        The first request passes caller-owned containers of the given forms (list, list subclass, deque, tuple); then the
        caller's containers are edited step by step (buffer re-use: clear, refill, append, pop, reverse, replace, sort, possibly
        requesting further reactions from the edited buffers).  Right after the first request and after every step the reaction
        must list exactly the members of the first request, in canonical order, with the same name, canonical form and arity;
        the request must have left the caller's containers as they were; and the original members, requested again (as
        reversed tuples), are the same object.
        arg = [kind, specs, re, pr, rtype, name, k, [form_re, form_pr], steps]
          kind "c": reaction over complexes, "m": reaction over macrostates (specs as in c11_reaction)
          step = [target 0|1, action, param]   (param: an index into the population, or a list of indices)"""
        import collections
        kind, specs, re, pr, rtype, name, k, forms, steps = arg
        fresh()
        class Sub(list): pass
        if kind == "c":
            objs = [cplx(s, name=f"X{i}") for i, s in enumerate(specs)]
        else:
            objs = []
            for i, spec in enumerate(specs):
                cs = [cplx(s, name=f"X{i}_{j}") for j, s in enumerate(spec[0])]
                objs.append(MAC[spec[1]](cs, name=cs[spec[2]].name) if len(spec) > 2 and spec[2] is not None else MAC[spec[1]](cs))
        orig = [[objs[i] for i in re], [objs[i] for i in pr]]
        mk = {"sublist": Sub, "deque": collections.deque}
        bufs = [mk.get(forms[j], list)(orig[j]) for j in (0, 1)]
        # what the caller hands over: his own container object, or a tuple of it
        passed = lambda j: tuple(bufs[j]) if forms[j] == "tuple" else bufs[j]
        request = lambda: RXN[k](passed(0), passed(1), rtype, name=name)
        ck = lambda o: o.canonical_form
        observe = lambda o: [o.name, rkey(o, kind), [[x.name for x in o.reactants], [x.name for x in o.products]],
                             list(o.arity), o.rtype]
        first = request()
        obs0 = observe(first)
        problems = []
        # (1) right after the first request: the members of the request, in canonical order, and their numbers
        want_members = [[x.name for x in sorted(orig[j], key=ck)] for j in (0, 1)]
        if obs0[2] != want_members:
            problems.append([-1, None, "members", obs0[2], want_members])
        if obs0[3] != [len(orig[0]), len(orig[1])]:
            problems.append([-1, None, "size", obs0[3], [len(orig[0]), len(orig[1])]])
        # (2) the caller's containers are his: same elements, same order as before the request
        for j in (0, 1):
            if len(bufs[j]) != len(orig[j]) or any(x is not y for x, y in zip(bufs[j], orig[j])):
                problems.append([-1, None, "caller-container-changed", [x.name for x in bufs[j]], [x.name for x in orig[j]]])
        # (3) the caller goes on using his containers
        keep = []
        for n, (t, action, param) in enumerate(steps):
            b = bufs[t]
            try:
                if action == "clear": b.clear()
                elif action == "append": b.append(objs[param])
                elif action == "pop": b.pop()
                elif action == "pop0": del b[0]
                elif action == "reverse": b.reverse()
                elif action == "replace": b[param[0] % len(b)] = objs[param[1]]
                elif action == "refill": b.clear(); b.extend(objs[i] for i in param)
                elif action == "sort-desc": b.sort(key=ck, reverse=True)
                elif action == "request": keep.append(request())
            except Exception:
                pass                        # an empty buffer, a container without sort(), a refused further request: not the subject
            now = observe(first)
            if now != obs0:
                problems.append([n, [t, action, param], "changed-after-caller-edit", now, obs0])
                break
        # (4) the original members again, other container kind and order: the very same object
        try:
            again = RXN[k](tuple(reversed(orig[0])), tuple(reversed(orig[1])), rtype, name=name)
        except bc.SingletonError as e:
            again = e.existing
        if again is not first:
            problems.append([len(steps), None, "original-members-no-longer-this-object", None, None])
        res = [obs0, want_members, problems]
        del first, again, keep, objs, orig, bufs
        fresh()
        return res
