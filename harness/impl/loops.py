"""Object-level complex views (ComplexS of base_classes.py): loop index,
connectivity, exterior / enclosed domains, domain-level complementarity, split().
Every op clears all singleton registries first and builds its own DomainS objects."""
import copy, gc

DOMLEN = 7


def toggle(n):
    return n[:-1] if n.endswith("*") else n + "*"


def register(op):
    from dsdobjects import base_classes as bc
    from dsdobjects.singleton import clear_singletons

    classes = [getattr(bc, n) for n in ("DomainS", "StrandS", "ComplexS", "MacrostateS", "ReactionS")
               if hasattr(bc, n)]

    def fresh():
        for c in classes:
            clear_singletons(c)
        gc.collect()
        for c in classes:
            if hasattr(c, "ID"):
                c.ID = 1

    def domains(seq):
        """DomainS objects for the names of seq ('+' stays a string); the unstarred
        name is created first, its complement with the same length"""
        objs = {}
        for n in seq:
            if n == "+" or n in objs:
                continue
            base = n[:-1] if n.endswith("*") else n
            star = base + "*"
            L = DOMLEN + (len(base) % 3)
            objs[base] = bc.DomainS(base, L)
            objs[star] = bc.DomainS(star, L)
        return [n if n == "+" else objs[n] for n in seq], objs

    def attempt(f):
        try:
            return f()
        except Exception as e:          # the kind is the observable outcome
            from valfmt import Err
            return Err(type(e).__name__)

    def view(c, k):
        if k == 0:
            return c.is_connected
        if k == 1:
            shape = [len(r) for r in c.pair_table]
            try:                          # the loop index is computed even when there is no position
                c.get_loop_index((0, 0))
            except IndexError:
                pass
            return [[c.get_loop_index((si, di)) for di in range(n)] for si, n in enumerate(shape)]
        if k == 2:
            return [list(x) for x in c.exterior_domains]
        if k == 3:
            return [list(x) for x in c.enclosed_domains]
        if k == 4:
            return c.is_domainlevel_complement
        raise KeyError(k)

    @op("cx_views")
    def _(a):
        from valfmt import Err, norm
        seq, sst, order = a
        fresh()
        dseq, keep = domains(seq)
        sst = list(sst)
        before = (list(dseq), list(sst))
        c = bc.ComplexS(dseq, sst)
        out = {}
        for k in order:
            r = norm(attempt(lambda: view(c, k)))
            if k in out and out[k] != r:
                return Err("UnstableView")
            out[k] = r
        if before != (dseq, sst) or [str(x) for x in c.sequence] != list(seq) or list(c.structure) != sst:
            return Err("Modified")
        return [out[k] for k in range(5)]

    @op("cx_get_loop_index")
    def _(a):
        seq, sst, loc = a
        fresh()
        dseq, keep = domains(seq)
        c = bc.ComplexS(dseq, list(sst))
        return c.get_loop_index(tuple(loc))

    def show(o):
        return [[str(x) for x in o.sequence], list(o.structure)]

    @op("cx_split")
    def _(a):
        from valfmt import Err
        seq, sst = a
        fresh()
        dseq, keep = domains(seq)
        c = bc.ComplexS(dseq, list(sst))
        before = show(c)
        first = list(c.split())
        ids, known = [], [c]
        for o in first:
            for i, k in enumerate(known):
                if k is o:
                    ids.append(i)
                    break
            else:
                known.append(o)
                ids.append(len(known) - 1)
        second = list(c.split())
        same = len(first) == len(second) and all(x is y for x, y in zip(first, second))
        if show(c) != before or before != [list(seq), list(sst)]:
            return Err("Modified")
        return [[[i, show(o)] for i, o in zip(ids, first)], same]

    @op("cx_split_hist")
    def _(a):
        """complexes made beforehand, the complex to split, split() twice; every object
        that ever appears is held until the end (no garbage collection in between)"""
        from valfmt import Err
        pre, me = a
        fresh()
        names = [n for item in pre + [me] for n in item[0]]
        _, keep = domains(names)
        known = []

        def num(o):
            for i, k in enumerate(known):
                if k is o:
                    return i
            known.append(o)
            return len(known) - 1

        def make(item):
            seq, sst, nm = item
            dseq = [n if n == "+" else keep[n] for n in seq]
            try:
                o = bc.ComplexS(dseq, list(sst)) if nm is None else bc.ComplexS(dseq, list(sst), nm)
            except Exception as e:
                ex = getattr(e, "existing", None)
                if ex is not None:
                    num(ex)               # stays alive through the caught exception in Python too
                return Err(type(e).__name__)
            return num(o)

        def run(c):
            ys, err = [], None
            g = c.split()
            while True:
                try:
                    ys.append(num(next(g)))
                except StopIteration:
                    break
                except Exception as e:
                    err = Err(type(e).__name__)
                    break
            return [ys, err]

        outs = [make(item) for item in pre]
        o = make(me)
        if isinstance(o, Err):
            runs = None
        else:
            c = known[o]
            runs = [attempt(lambda: run(c)), attempt(lambda: run(c))]
        objs = [[i, show(k)] for i, k in enumerate(known)]
        return [outs, o, runs, objs]

    @op("cx_split_runs")
    def _(a):
        """complexes made beforehand, the complex to split, then any number of runs of split(): each run is
        [limit, set_id(, how)] - ComplexS.ID is assigned first when set_id is given, the generator is advanced at most
        `limit` times (None: until it ends) and then abandoned (how = 'close' (default): closed; 'del': released and
        collected; 'keep': stays suspended until the end).  Every object that ever appears is held until the end."""
        from valfmt import Err
        pre, me, runs = a
        fresh()
        names = [n for item in pre + [me] for n in item[0]]
        _, keep = domains(names)
        known, suspended = [], []

        def num(o):
            for i, k in enumerate(known):
                if k is o:
                    return i
            known.append(o)
            return len(known) - 1

        def make(item):
            seq, sst, nm = item
            dseq = [n if n == "+" else keep[n] for n in seq]
            try:
                o = bc.ComplexS(dseq, list(sst)) if nm is None else bc.ComplexS(dseq, list(sst), nm)
            except Exception as e:
                ex = getattr(e, "existing", None)
                if ex is not None:
                    num(ex)
                return Err(type(e).__name__)
            return num(o)

        def run(c, lim, sid, how):
            if sid is not None:
                bc.ComplexS.ID = sid
            ys, err = [], None
            g = c.split()
            while lim is None or len(ys) < lim:
                try:
                    ys.append(num(next(g)))
                except StopIteration:
                    break
                except Exception as e:
                    err = Err(type(e).__name__)
                    break
            if how == "keep":
                suspended.append(g)
            elif how == "del":
                del g
                gc.collect()
            else:
                g.close()
            return [ys, err]

        outs = [make(item) for item in pre]
        o = make(me)
        if isinstance(o, Err):
            res = None
        else:
            c = known[o]
            res = [run(c, r[0], r[1], r[2] if len(r) > 2 else "close") for r in runs]
        objs = [[i, show(k)] for i, k in enumerate(known)]
        for g in suspended:
            g.close()
        return [outs, o, res, objs]

    @op("cx_split_hist_check")
    def _(a):
        """direct statement of the object-level clause on a history: after the complexes made beforehand, the complex
        itself and one consumed split(), (i) every yielded object is a component of the complex (up to strand rotation),
        each component is yielded once, (ii) no two DISTINCT live complexes are strand rotations of each other (so a
        component that existed beforehand, in any rotation, is the object that split() yields)"""
        import os, sys
        sys.path.insert(0, os.path.dirname(os.path.dirname(os.path.abspath(__file__))))
        import gen_pil, loops_common as lc
        pre, me = a[0], a[1]
        runs = a[2] if len(a) > 2 else []
        fresh()
        names = [n for item in pre + [me] for n in item[0]]
        _, keep = domains(names)
        held = []
        for seq, sst, nm in pre + [me]:
            dseq = [n if n == "+" else keep[n] for n in seq]
            try:
                held.append(bc.ComplexS(dseq, list(sst)) if nm is None else bc.ComplexS(dseq, list(sst), nm))
            except Exception as e:
                ex = getattr(e, "existing", None)
                if ex is not None:
                    held.append(ex)
                if (seq, sst, nm) == tuple(me) or [seq, sst, nm] == me:
                    return []
        c = held[-1]
        bad = []
        def canon(o):
            return gen_pil.canon([str(x) for x in o.sequence], list(o.structure))
        s = "".join(me[1])
        want = sorted(repr(gen_pil.canon(*lc.component_complex(me[0], s, ids, 0))) for ids in lc.components(s))
        # earlier runs of split() on the same object (generator advanced a bounded number of times and abandoned,
        # ComplexS.ID assigned in between): a run that is consumed to its end without an exception yields the components
        for k, r in enumerate(runs):
            lim, sid = r[0], r[1]
            if sid is not None:
                bc.ComplexS.ID = sid
            g, ys, ended = c.split(), [], False
            try:
                while lim is None or len(ys) < lim:
                    try:
                        ys.append(next(g))
                    except StopIteration:
                        ended = True
                        break
            except Exception as e:
                pass
            g.close()
            held += ys
            if ended and sorted(repr(canon(p)) for p in ys) != want:
                bad.append(f"run {k} of split() yielded {[(list(map(str, p.sequence)), ''.join(p.structure)) for p in ys]}, not the connected components")
        try:
            parts = list(c.split())
        except Exception as e:
            parts = None
        if parts is not None:
            got = sorted(repr(canon(p)) for p in parts)
            if got != want:
                bad.append(f"split() yielded {[(list(map(str, p.sequence)), ''.join(p.structure)) for p in parts]}, not the connected components"
                           + (f" (after the earlier runs {runs!r} of split() on the same object)" if runs else ""))
            held += parts
        live = []
        for o in held:
            if not any(o is x for x in live):
                live.append(o)
        for i, x in enumerate(live):
            for y in live[i + 1:]:
                if canon(x) == canon(y):
                    bad.append(f"two distinct live complexes are strand rotations of each other: {x.name} = {x.kernel_string} and "
                               f"{y.name} = {y.kernel_string}")
        del held, live, parts, c
        fresh()
        return bad[:3]

    @op("toggle")
    def _(a):
        fresh()
        d = bc.DomainS(a, DOMLEN) if not a.endswith("*") else None
        if d is None:
            base = bc.DomainS(a[:-1], DOMLEN)
            d = bc.DomainS(a, DOMLEN)
        return (~d).name
