"""Legacy object model (dsdobjects.core.deprecated) operations."""
def register(op):
    import warnings
    warnings.simplefilter("ignore")
    from dsdobjects.core import deprecated as dep
    from dsdobjects import utils

    def ckey(cf):
        return [list(cf[0]), list(cf[1])]

    @op("legacy_complex")
    def _(a):
        seq, struct = a
        dep.clear_memory()
        c = dep.DSD_Complex(list(seq), list(struct), name="L")
        from valfmt import Err
        def attempt(f):
            try:
                return f()
            except Exception as e:
                return Err(type(e).__name__)
        def li():
            l, ext = c.loop_index
            return [l, sorted(ext)]
        def observe():
            return [ckey(c.canonical_form), c.rotations, [str(x) for x in c.sequence], list(c.structure), c.size,
                    attempt(lambda: c.kernel_string), attempt(lambda: c.pair_table), attempt(li),
                    attempt(lambda: c.is_connected), attempt(lambda: list(c.exterior_domains)),
                    attempt(lambda: list(c.enclosed_domains))]
        res = observe()
        # views handed out must not share structure with the object: destroy them, observe again
        import copy
        snap = copy.deepcopy(res)
        for v in (c.sequence, c.structure, attempt(lambda: c.pair_table), attempt(lambda: c.loop_index[0]),
                  attempt(lambda: c.lol_sequence), attempt(lambda: c.exterior_domains), attempt(lambda: c.enclosed_domains)):
            if isinstance(v, list):
                for x in v:
                    if isinstance(x, list):
                        x.clear(); x.append("?")
                v.clear(); v.append("?")
        again = observe()
        # exterior/enclosed lists are cached attributes of the legacy object (returned as such by design): compare the rest
        if again[:9] != snap[:9]:
            raise RuntimeError("a view handed out by the legacy complex aliases its state")
        # in-place rotation of the legacy object with every table cached: afterwards every view describes the rotated
        # (sequence, structure), i.e. equals that of a legacy object built from it without memory
        if len(c.lol_sequence) >= 1 and not any(isinstance(x, Err) for x in (res[6], res[7])):
            c2 = dep.DSD_Complex(list(seq), list(struct), name="L2", memorycheck=False)
            for loc in [(0, 0)]:
                attempt(lambda: c2.get_domain(loc)); attempt(lambda: c2.get_paired_loc(loc)); attempt(lambda: c2.get_loop_index(loc))
            attempt(lambda: c2.is_domainlevel_complement)
            for _ in range(2):
                c2.rotate_once()
                c3 = dep.DSD_Complex(list(c2.sequence), list(c2.structure), name="L3", memorycheck=False)
                def views(x):
                    return [attempt(lambda: x.pair_table), attempt(lambda: x.loop_index[0]), attempt(lambda: sorted(x.loop_index[1])),
                            attempt(lambda: x.kernel_string), attempt(lambda: list(x.exterior_domains)), attempt(lambda: list(x.enclosed_domains)),
                            attempt(lambda: [str(d) for d in x.lol_sequence[0]]), attempt(lambda: x.get_paired_loc((0, 0))),
                            attempt(lambda: str(x.get_domain((0, 0)))), attempt(lambda: x.get_loop_index((0, 0)))]
                if repr(views(c2)) != repr(views(c3)):
                    raise RuntimeError("after rotate_once() the legacy object's views differ from those of a fresh object of the same representation")
        dep.clear_memory()
        return res

    @op("legacy_dup")
    def _(a):
        sa, ta, sb, tb = a
        dep.clear_memory()
        x = dep.DSD_Complex(list(sa), list(ta), name="A")
        try:
            y = dep.DSD_Complex(list(sb), list(tb), name="B")
            res = ["created", ckey(y.canonical_form), y.rotations]
        except dep.DSDDuplicationError as e:
            if e.existing is not x:
                raise RuntimeError("existing is not the registered complex")
            res = ["duplicate", e.rotations]
        dep.clear_memory()
        return res

    @op("legacy_distance")
    def _(a):
        """rotation distances of the legacy model: a registered complex A (its canonical form, `rotations`, size), then the
        request B (usually a rotation of A): [canonical form, rotations, size, outcome of B] with outcome
        ["duplicate", error.rotations, existing is A] / ["created", canonical form, rotations]; the harness states what the
        numbers mean (rotating the canonical form `rotations` times gives the representation, rotating A's representation
        `error.rotations` times gives B)"""
        sa, ta, sb, tb = a
        dep.clear_memory()
        x = dep.DSD_Complex(list(sa), list(ta), name="A")
        res = [ckey(x.canonical_form), x.rotations, x.size]
        if [str(d) for d in x.sequence] != [str(d) for d in sa] or list(x.structure) != list(ta):
            raise RuntimeError("the canonical form search left the legacy complex in another representation")
        try:
            y = dep.DSD_Complex(list(sb), list(tb), name="B")
            res.append(["created", ckey(y.canonical_form), y.rotations])
        except dep.DSDDuplicationError as e:
            res.append(["duplicate", e.rotations, e.existing is x])
        dep.clear_memory()
        return res

    @op("legacy_history")
    def _(a):
        """a history of creation requests [(seq, struct, name|None)] through the legacy and the current object model:
        per step the outcome class (new / dup of step k / err) of both; the property says they agree"""
        import gc
        from dsdobjects import base_classes as bc
        from dsdobjects.singleton import clear_singletons, SingletonError
        dep.clear_memory()
        clear_singletons(bc.ComplexS)
        bc.ComplexS.ID = 1
        if hasattr(dep.DSD_Complex, "ID"):
            dep.DSD_Complex.ID = 1
        lobjs, cobjs, out = [], [], []
        def index(objs, o):
            for k, x in enumerate(objs):
                if x is o:
                    return k
            return -1
        for seq, struct, name in a:
            try:
                lo = dep.DSD_Complex(list(seq), list(struct), name=name) if name is not None else dep.DSD_Complex(list(seq), list(struct))
                l = ["new", len(lobjs)]
                lobjs.append(lo)
            except dep.DSDDuplicationError as e:
                l = ["dup", index(lobjs, e.existing)]
                lobjs.append(None)
            except dep.DSDObjectsError:
                l = ["err", -1]
                lobjs.append(None)
            try:
                co = bc.ComplexS(list(seq), list(struct), name=name) if name is not None else bc.ComplexS(list(seq), list(struct))
                k = index(cobjs, co)
                c = ["dup", k] if k >= 0 else ["new", len(cobjs)]
                cobjs.append(co if k < 0 else None)
            except SingletonError as e:
                c = ["err", -1] if e.existing is None else ["dup", index(cobjs, e.existing)]
                cobjs.append(None)
            out.append([l, c])
        del lobjs, cobjs
        dep.clear_memory()
        clear_singletons(bc.ComplexS)
        gc.collect()
        return out

    @op("legacy_split")
    def _(a):
        seq, struct = a
        return utils.split_complex(utils.make_lol_sequence(list(seq)), utils.make_pair_table(list(struct)))

    def mat(rna):
        return "".join(["R" if rna else "D", "N", "A"])
    for name in ("wc_complement", "complement", "reverse_wc_complement", "reverse_complement"):
        def f(a, name=name):
            return getattr(dep.SequenceConstraint(a[0], mat(a[1])), name)
        op("legacy_" + name)(f)
