"""dsdparser operations: the text goes in, the token tree (asList) comes out.
The runner maps an exception to its class name: pyparsing.ParseException becomes
the kind "ParseException", anything else keeps its own name and so disagrees
with the model (which only ever fails with ParseException)."""
def register(op):
    import dsdobjects.dsdparser as dp

    @op("parse_pil")
    def _(a):
        return dp.parse_pil_string(a)

    @op("parse_seesaw")
    def _(a):
        return dp.parse_seesaw_string(a)
