"""utils.flint / convert_units and the rate-constant / concentration conversions."""
import gc

def register(op):
    from dsdobjects import utils
    from dsdobjects import base_classes as bc
    from dsdobjects.singleton import clear_singletons

    # classes derived from the library's: each has its own singleton registry, so an object of the derived class with the
    # same canonical form (equal and of equal hash, `==` deliberately accepts any ReactionS / ComplexS) is a DISTINCT
    # object with its own constant / concentration.  A conversion answers for the object it is asked of.
    class TwinReaction(bc.ReactionS):
        pass

    class TwinReaction2(TwinReaction):
        pass

    class TwinComplex(bc.ComplexS):
        pass

    def fresh():
        for c in (bc.DomainS, bc.StrandS, bc.ComplexS, bc.MacrostateS, bc.ReactionS, TwinReaction, TwinReaction2, TwinComplex):
            clear_singletons(c)
        gc.collect()

    def twins(r, rs, p):
        """the same reaction (reactants, products, type) in the derived classes"""
        ts = [cls(rs, [p], r.rtype) for cls in (TwinReaction, TwinReaction2)]
        if any(t is r for t in ts) or ts[0] is ts[1] or any(t != r or hash(t) != hash(r) for t in ts):
            raise RuntimeError("harness: twin reactions are not distinct equal objects")
        return ts

    def reaction(n):
        fresh()
        a = bc.DomainS("a", 5)
        rs = [bc.ComplexS([a] * (i + 1), list("." * (i + 1)), name=f"R{i}") for i in range(n)]
        p = bc.ComplexS([a] * 9, list("." * 9), name="P")
        r = bc.ReactionS(rs, [p], "condensed" if n == 0 else "bind21")
        return r, rs, p

    @op("flint")
    def _(a):
        return utils.flint(a)

    @op("convert_units")
    def _(a):
        return utils.convert_units(a[0], a[1], a[2])

    @op("rateformat")
    def _(a):
        c, u, n, out = a
        r, rs, p = reaction(n)
        # a second reaction of the same arity with another constant is converted to the same units first: a conversion
        # answers for the reaction it is asked of, whatever was converted before
        r0 = bc.ReactionS(rs, [p], "open")
        if r0 is r:
            raise RuntimeError("harness: second reaction is the same object")
        r.rate_constant = (c, u)
        try:
            r0.rate_constant = (7 if c != 7 else 3, u)
            r0.rateformat(out)
        except Exception:
            pass
        # ... nor whatever was converted for an EQUAL reaction of another class (same canonical form, own constant)
        t1, t2 = twins(r, rs, p)
        other = 11 if c != 11 else 13
        try:
            t1.rate_constant = (other, u)
            t1.rateformat(out)
        except Exception:
            pass
        res = r.rateformat(out)
        if res[1] != out:
            raise RuntimeError("units not passed through")
        stored = r.rate_constant
        try:
            r.rateformat("/M" * (n - 1) + "/s")
        except Exception:
            pass
        again = r.rateformat(out)
        if repr(again) != repr(res) or repr(r.rate_constant) != repr(stored):
            raise RuntimeError("rateformat is not repeatable or changes the stored constant")
        # the twins in turn: the second twin carries r's constant and is converted after r and after the first twin
        # (it must answer what r answered), the first twin still carries its own constant and answers as before
        t2.rate_constant = (c, u)
        if repr(t2.rateformat(out)) != repr(res):
            raise RuntimeError("an equal reaction of a derived class with the same constant converts differently")
        try:
            first = t1.rateformat(out)
        except Exception:
            first = None
        if first is not None:
            lone = bc.ReactionS(rs, [p], "branch-3way")     # nothing equal to it was ever converted
            lone.rate_constant = (other, u)
            if repr(lone.rateformat(out)) != repr(first) or repr(t1.rate_constant) != repr(lone.rate_constant):
                raise RuntimeError("the conversion of an equal reaction of a derived class depends on the other objects")
        if repr(r.rateformat(out)) != repr(res) or repr(r.rate_constant) != repr(stored):
            raise RuntimeError("rateformat of an equal reaction of another class changes this reaction's answer")
        return res[0]

    @op("rate_set_get")
    def _(a):
        form, c, u = a
        r, rs, p = reaction(1)
        # the reaction carried another constant with other units before: what is returned is what was set LAST
        r.rate_constant = (3, "/nM/h")
        if form == 0:
            r.rate_constant = c
        elif form == 1:
            r.rate_constant = (c,)
        elif form == 2:
            r.rate_constant = (c, u)
        else:
            r.rate_constant = tuple([c] * form)
        # an equal reaction of a derived class gets another constant afterwards: each object keeps its own
        t1, t2 = twins(r, rs, p)
        t1.rate_constant = (5, "/uM/m")
        if t1.rate_constant != (5, "/uM/m") or t2.rate_constant == (5, "/uM/m"):
            raise RuntimeError("rate constants are shared between equal reactions of different classes")
        return list(r.rate_constant)

    @op("concentrationformat")
    def _(a):
        mode, v, u, out = a
        fresh()
        d = bc.DomainS("a", 5)
        x = bc.ComplexS([d], ["."], name="X")
        x.concentration = (mode, v, u)
        y = bc.ComplexS([d, d], [".", "."], name="Y")
        try:
            y.concentration = (mode, 7 if v != 7 else 3, u)
            y.concentrationformat(out)
        except Exception:
            pass
        # an EQUAL complex of a derived class (own registry, same canonical form and name) with another concentration
        z = TwinComplex([d], ["."], name="X")
        if z is x or z != x or hash(z) != hash(x):
            raise RuntimeError("harness: twin complex is not a distinct equal object")
        try:
            z.concentration = (mode, 11 if v != 11 else 13, u)
            z.concentrationformat(out)
        except Exception:
            pass
        res = x.concentrationformat(out)
        if repr(x.concentrationformat(out)) != repr(res):
            raise RuntimeError("concentrationformat is not repeatable")
        if res[0] != mode or res[2] != out or x.concentration != (mode, v, u):
            raise RuntimeError("mode/unit not passed through")
        return res[1]
