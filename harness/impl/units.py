"""utils.flint / convert_units and the rate-constant / concentration conversions."""
import gc

def register(op):
    from dsdobjects import utils
    from dsdobjects import base_classes as bc
    from dsdobjects.singleton import clear_singletons

    def fresh():
        for c in (bc.DomainS, bc.StrandS, bc.ComplexS, bc.MacrostateS, bc.ReactionS):
            clear_singletons(c)
        gc.collect()

    def reaction(n):
        fresh()
        a = bc.DomainS("a", 5)
        rs = [bc.ComplexS([a] * (i + 1), list("." * (i + 1)), name=f"R{i}") for i in range(n)]
        p = bc.ComplexS([a] * 9, list("." * 9), name="P")
        r = bc.ReactionS(rs, [p], "condensed" if n == 0 else "bind21")
        return r, rs, p

    @op("flint")
    def _(a):
        return utils.flint(a)

    @op("convert_units")
    def _(a):
        return utils.convert_units(a[0], a[1], a[2])

    @op("rateformat")
    def _(a):
        c, u, n, out = a
        r, rs, p = reaction(n)
        # a second reaction of the same arity with another constant is converted to the same units first: a conversion
        # answers for the reaction it is asked of, whatever was converted before
        r0 = bc.ReactionS(rs, [p], "open")
        if r0 is r:
            raise RuntimeError("harness: second reaction is the same object")
        r.rate_constant = (c, u)
        try:
            r0.rate_constant = (7 if c != 7 else 3, u)
            r0.rateformat(out)
        except Exception:
            pass
        res = r.rateformat(out)
        if res[1] != out:
            raise RuntimeError("units not passed through")
        stored = r.rate_constant
        try:
            r.rateformat("/M" * (n - 1) + "/s")
        except Exception:
            pass
        again = r.rateformat(out)
        if repr(again) != repr(res) or repr(r.rate_constant) != repr(stored):
            raise RuntimeError("rateformat is not repeatable or changes the stored constant")
        return res[0]

    @op("rate_set_get")
    def _(a):
        form, c, u = a
        r, rs, p = reaction(1)
        # the reaction carried another constant with other units before: what is returned is what was set LAST
        r.rate_constant = (3, "/nM/h")
        if form == 0:
            r.rate_constant = c
        elif form == 1:
            r.rate_constant = (c,)
        elif form == 2:
            r.rate_constant = (c, u)
        else:
            r.rate_constant = tuple([c] * form)
        return list(r.rate_constant)

    @op("concentrationformat")
    def _(a):
        mode, v, u, out = a
        fresh()
        d = bc.DomainS("a", 5)
        x = bc.ComplexS([d], ["."], name="X")
        x.concentration = (mode, v, u)
        y = bc.ComplexS([d, d], [".", "."], name="Y")
        try:
            y.concentration = (mode, 7 if v != 7 else 3, u)
            y.concentrationformat(out)
        except Exception:
            pass
        res = x.concentrationformat(out)
        if repr(x.concentrationformat(out)) != repr(res):
            raise RuntimeError("concentrationformat is not repeatable")
        if res[0] != mode or res[2] != out or x.concentration != (mode, v, u):
            raise RuntimeError("mode/unit not passed through")
        return res[1]
