"""Tabulate convert_units on candidate unit names and find the rate units the PIL
grammar accepts.  Candidates: a fixed list plus every short string constant of
utils.py and pil_parser.py (so that a newly added unit is discovered)."""
import ast, json, os, sys, warnings
warnings.simplefilter("ignore")
import dsdobjects
from dsdobjects.utils import convert_units
from dsdobjects.dsdparser import parse_pil_string

root = os.path.dirname(dsdobjects.__file__)
cands = {"M", "mM", "uM", "nM", "pM", "fM", "aM", "kM", "days", "day", "d", "hours", "hour", "h", "min", "m",
         "s", "sec", "ms", "us", "ns", "ps", "fs", "x", ""}
dict_types = {}          # unit -> "int" | "float" as written in a dict literal of utils.py
for fn in ("utils.py", os.path.join("dsdparser", "pil_parser.py")):
    tree = ast.parse(open(os.path.join(root, fn)).read())
    for node in ast.walk(tree):
        if isinstance(node, ast.Constant) and isinstance(node.value, str) and len(node.value) <= 6 and "\n" not in node.value:
            cands.add(node.value)
        if fn == "utils.py" and isinstance(node, ast.Dict):
            for k, v in zip(node.keys, node.values):
                if isinstance(k, ast.Constant) and isinstance(k.value, str) and isinstance(v, ast.Constant) \
                        and type(v.value) in (int, float):
                    t = type(v.value).__name__
                    if dict_types.get(k.value, t) != t:
                        dict_types[k.value] = "ambiguous"
                    else:
                        dict_types[k.value] = t
cands = sorted(c for c in cands if all(ch.isalnum() for ch in c))


def outcome(f, *a):
    try:
        r = f(*a)
    except Exception as e:
        return {"err": type(e).__name__}
    if isinstance(r, bool) or not isinstance(r, (int, float)):
        return {"err": "NotANumber:" + type(r).__name__}
    return {"int": str(r)} if isinstance(r, int) else {"hex": r.hex()}

known = [u for u in cands if "err" not in outcome(convert_units, 1, u, u)]
pair = {a: {b: outcome(convert_units, 1, a, b) for b in known} for a in known}
unknown_in = {u: outcome(convert_units, 1, u, known[0] if known else "M") for u in cands if u not in known}

def accepts(text):
    try:
        parse_pil_string(text)
        return True
    except Exception:
        return False

g_c = [u for u in cands if u and accepts(f"reaction [x = 1 /{u}/s] A + B -> C\n")]
g_t = [u for u in cands if u and accepts(f"reaction [x = 1 /{u}] A -> C\n")]
json.dump({"candidates": cands, "known": known, "pair": pair, "unknown_in": unknown_in,
           "dict_types": dict_types, "grammar_cunits": g_c, "grammar_tunits": g_t}, sys.stdout)
