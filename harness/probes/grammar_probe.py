"""Dump the runtime pyparsing element graphs of the PIL and seesaw grammars.

Run inside the implementation environment (PYTHONPATH=$VERIF_REPO).  Prints one
JSON object {"pil": graph, "seesaw": graph, "histories": n}.  Fail-closed: any
element class, attribute value or parse action that the Gallina interpreter
(coq/theories/Model/Peg.v) does not model raises and aborts generation.

graph = {"root": int, "nodes": [node]},  node =
  {"k": class name, "kids": [int], "skip": bool, "ws": [code points], "ign": [int],
   "callpre": bool, "tags": [str], + per class:
   Literal/_SingleCharLiteral: "match": [cp]
   Word: "init": [cp], "body": [cp], "min": int, "max": int (0 = unbounded), "re": bool
   White: "chars": [cp], "min": int, "max": int
   Combine: "join": [cp]}
Shared sub-expressions keep one node (identity of the Python object), so the
Forward cycle of the kernel pattern is a cycle of indices.
"""
import json, sys, warnings
warnings.simplefilter("ignore")
import pyparsing as pp
from pyparsing import core as ppc

MAXINT = ppc._MAX_INT
PROBE_CHARS = [chr(i) for i in range(0, 0x250)] + [" ", "　", "\U0001F600"]


class Unmodelled(Exception):
    pass


def need(cond, what):
    if not cond:
        raise Unmodelled(what)


def tag_of(fn, where):
    """Behavioural identification of a T(x, tag) parse action: the wrapped action
    called on tokens t must return [tag] + t.asList() with tag a str."""
    outs = []
    for toks in ([], ["@a"], ["@a", ["@b", "@c"], "@d"]):
        pr = pp.ParseResults([pp.ParseResults(x) if isinstance(x, list) else x for x in toks])
        if any(isinstance(x, list) for x in toks):
            # nested results as Group makes them: a ParseResults holding a ParseResults
            pr = pp.ParseResults([])
            for x in toks:
                pr += pp.ParseResults([pp.ParseResults(x)]) if isinstance(x, list) else pp.ParseResults(x)
        r = fn("", 0, pr)
        need(isinstance(r, list) and len(r) == len(toks) + 1 and isinstance(r[0], str) and r[1:] == toks,
             f"parse action on {where} is not `[tag] + t.asList()`: {toks!r} -> {r!r}")
        outs.append(r[0])
    need(len(set(outs)) == 1, f"parse action on {where} has no constant tag")
    return outs[0]


ALLOWED_INSTANCE_OVERRIDES = {"Word": {"parseImpl"}}
METHODS = ("parseImpl", "postParse", "preParse", "_parse", "_parseNoCache", "_skipIgnorables", "_parseCache")


def cps(chars):
    return sorted(ord(c) for c in set(chars))


def dump(root):
    need(not ppc.ParserElement._packratEnabled, "packrat enabled")
    need(not ppc.ParserElement._left_recursion_enabled, "left recursion enabled")
    need(ppc.ParserElement._parse is ppc.ParserElement._parseNoCache, "ParserElement._parse replaced")
    need(not root.keepTabs, "root keeps tabs")
    nodes, index = [], {}

    def go(e):
        if id(e) in index:
            return index[id(e)]
        i = len(nodes)
        index[id(e)] = i
        nodes.append(None)
        k = type(e).__name__
        need(type(e).__module__ == "pyparsing.core" and getattr(ppc, k, None) is type(e),
             f"element class {type(e).__module__}.{k} is not a pyparsing.core class")
        for m in METHODS:
            if m in e.__dict__:
                need(m in ALLOWED_INSTANCE_OVERRIDES.get(k, ()), f"instance override of {m} on a {k}")
        need(not e.debug and e.failAction is None, f"debug/fail action on {k}")
        need(e.resultsName is None, f"results name on {k}")
        need(isinstance(e.skipWhitespace, bool) or e.skipWhitespace in (0, 1), "skipWhitespace")
        n = {"k": k, "skip": bool(e.skipWhitespace), "ws": cps(e.whiteChars),
             "callpre": bool(e.callPreparse), "desc": str(e)[:60]}
        n["tags"] = [tag_of(f, f"{k} {str(e)[:40]}") for f in e.parseAction]
        if k in ("Literal", "_SingleCharLiteral"):
            need(isinstance(e.match, str) and len(e.match) >= 1 and e.matchLen == len(e.match)
                 and e.firstMatchChar == e.match[0], "literal fields")
            need((k == "_SingleCharLiteral") == (len(e.match) == 1), "literal class/length")
            n["k"] = "Literal"
            n["match"] = [ord(c) for c in e.match]
        elif k == "Word":
            need(not e.asKeyword, "Word as keyword")
            need(e.minLen >= 1, "Word min")
            need(e.maxSpecified == (e.maxLen != MAXINT), "Word maxSpecified")
            n["init"], n["body"] = cps(e.init_chars), cps(e.bodyChars)
            n["min"], n["max"] = int(e.minLen), (int(e.maxLen) if e.maxSpecified else 0)
            n["re"] = "parseImpl" in e.__dict__
            if n["re"]:
                need(e.__dict__["parseImpl"].__func__ is ppc.Word.parseImpl_regex and e.re_match == e.re.match,
                     "Word regex path")
                need(not e.maxSpecified and e.minLen == 1, "Word regex path with min/max (not modelled)")
                # behavioural cross-check of the compiled regular expression against the sets
                i0 = min(e.init_chars)
                for c in set(PROBE_CHARS) | set(e.init_chars) | set(e.bodyChars):
                    m = e.re.match(c)
                    need((m is not None and m.end() == 1) == (c in e.init_chars), f"Word regex/initChars at {c!r}")
                    m = e.re.match(i0 + c + "\x00")
                    need(m is not None and (m.end() == 2) == (c in e.bodyChars), f"Word regex/bodyChars at {c!r}")
        elif k == "White":
            n["chars"] = cps(e.matchWhite)
            n["min"], n["max"] = int(e.minLen), (int(e.maxLen) if e.maxLen != MAXINT else 0)
        elif k == "Regex":
            need(e.pattern == "#.*" and e.flags == 0 and not e.asGroupList and not e.asMatch,
                 f"Regex {e.pattern!r} (only the python-style comment is modelled)")
        elif k == "Combine":
            need(isinstance(e.joinString, str), "Combine join string")
            n["join"] = [ord(c) for c in e.joinString]
        elif k == "Group":
            need(not e._asPythonList, "Group(aslist=True)")
        elif k == "Opt":
            need(isinstance(e.defaultValue, ppc._NullToken), "Opt with default value")
        elif k in ("OneOrMore", "ZeroOrMore"):
            need(e.not_ender is None, f"{k} with stop_on")
        elif k in ("And", "MatchFirst", "Suppress", "Forward", "DelimitedList", "LineEnd", "StringStart", "StringEnd"):
            pass
        else:
            raise Unmodelled(f"unmodelled element class {k}")
        if k in ("And", "MatchFirst"):
            need(len(e.exprs) >= 1, f"empty {k}")
            kids = list(e.exprs)
        elif k in ("Opt", "OneOrMore", "ZeroOrMore", "Group", "Suppress", "Combine", "Forward", "DelimitedList"):
            need(e.expr is not None, f"{k} without expression")
            kids = [e.expr]
        else:
            need(not hasattr(e, "exprs") and getattr(e, "expr", None) is None, f"{k} with children")
            kids = []
        n["kids"] = [go(x) for x in kids]
        n["ign"] = [go(x) for x in e.ignoreExprs]
        nodes[i] = n
        return i

    r = go(root)
    g = {"root": r, "nodes": nodes}
    check_combine(g)
    return g


def check_combine(g):
    """Combine joins str(token) of the flattened ParseResults; a plain Python list
    (the product of a tag action) inside would be str()'d.  Not modelled: no tag,
    Group below a Combine (Forward cycles neither)."""
    N = g["nodes"]
    for i, n in enumerate(N):
        if n["k"] != "Combine":
            continue
        seen, stack = set(), list(n["kids"])
        while stack:
            j = stack.pop()
            if j in seen:
                continue
            seen.add(j)
            m = N[j]
            need(not m["tags"] and m["k"] not in ("Group", "Forward"), f"Combine (node {i}) over a {m['k']} / tag action")
            stack += m["kids"]


def prepared(setup):
    """what parse_string does to the graph before parsing"""
    d = setup()
    if not d.streamlined:
        d.streamline()
    for e in d.ignoreExprs:
        e.streamline()
    return d


def canon(g):
    return json.dumps(g, sort_keys=True)


def main():
    from dsdobjects.dsdparser.pil_parser import pil_document_setup
    from dsdobjects.dsdparser.seesaw_parser import ssw_document_setup
    import dsdobjects.dsdparser as dp
    order = sys.argv[1] if len(sys.argv) > 1 else "pil-first"
    setups = {"pil": pil_document_setup, "seesaw": ssw_document_setup}
    names = ["pil", "seesaw"] if order == "pil-first" else ["seesaw", "pil"]
    first = {k: dump(prepared(setups[k])) for k in names}
    # a history of parser calls (successful and failing, both dialects), then the graphs again;
    # also the graph a parse has actually been run on
    samples = [(dp.parse_pil_string, "length a = 5\n"), (dp.parse_seesaw_string, "INPUT(1) = w[1,2]\n"),
               (dp.parse_pil_string, "length = \n"), (dp.parse_seesaw_string, "seesaw[\n"),
               (dp.parse_pil_string, "cplx = a( b + c( ) ) @i 5 nM # x\n\n"), (dp.parse_seesaw_string, "reporter[1,2]")]
    histories = 0
    for rounds in range(2):
        for f, s in (samples if rounds == 0 else reversed(samples)):
            try:
                f(s)
            except pp.ParseBaseException:
                pass
            histories += 1
        for k in names:
            d = prepared(setups[k])
            g1 = dump(d)
            try:
                d.parse_string("x = a\n")
            except pp.ParseBaseException:
                pass
            g2 = dump(d)
            need(canon(g1) == canon(first[k]), f"{k} grammar differs after earlier parser calls")
            need(canon(g2) == canon(first[k]), f"{k} grammar object changes while parsing")
    json.dump({"pil": first["pil"], "seesaw": first["seesaw"], "histories": histories, "order": order,
               "pyparsing": pp.__version__}, sys.stdout)


if __name__ == "__main__":
    main()
