"""Tabulate the IUPAC functions of the implementation on single-letter inputs."""
import json, sys, warnings
warnings.simplefilter("ignore")
from dsdobjects import iupac_utils as iu

LETTERS = [chr(i) for i in range(128)] + ["é", "Ω"]
CODES = "ACGTURYSMWKVHDBN"

def call(f, *a, **k):
    try:
        r = f(*a, **k)
    except Exception as e:
        return {"err": type(e).__name__}
    if not isinstance(r, str):
        return {"err": "NotAString:" + type(r).__name__}
    return {"val": r}

out = {"unary": {}, "add": {}}
for mat in ("DNA", "RNA"):
    for fn in ("wc_complement", "complement", "reverse_wc_complement", "reverse_complement"):
        out["unary"][f"{fn}/{mat}"] = {str(ord(c)): call(getattr(iu, fn), c, material=mat) for c in LETTERS}
    out["add"][mat] = {f"{ord(x)},{ord(y)}": call(iu.add_constraints, x, y, material=mat)
                       for x in CODES + "XZ" for y in CODES + "XZ"}
json.dump(out, sys.stdout)
