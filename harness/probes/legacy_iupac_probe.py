"""Tabulate the legacy SequenceConstraint complements on single letters."""
import json, sys, warnings
warnings.simplefilter("ignore")
from dsdobjects.core.deprecated import SequenceConstraint

LETTERS = [chr(i) for i in range(128)]
out = {}
for mat in ("DNA", "RNA"):
    for prop in ("wc_complement", "complement", "reverse_wc_complement", "reverse_complement"):
        tab = {}
        for c in LETTERS:
            try:
                r = getattr(SequenceConstraint(c, mat), prop)
                tab[str(ord(c))] = {"val": r} if isinstance(r, str) else {"err": "NotAString"}
            except Exception as e:
                tab[str(ord(c))] = {"err": type(e).__name__}
        out[f"{prop}/{mat}"] = tab
json.dump(out, sys.stdout)
