"""Every global-name reference of every code object of the package, and the names
bound in each module's namespace after import (plus builtins)."""
import builtins, dis, importlib, json, os, pkgutil, sys, types, warnings
warnings.simplefilter("ignore")
import dsdobjects

mods = {}
for m in pkgutil.walk_packages(dsdobjects.__path__, "dsdobjects."):
    mods[m.name] = importlib.import_module(m.name)
mods["dsdobjects"] = dsdobjects

refs = []
def walk(code, modname, qual, is_module):
    for ins in dis.get_instructions(code):
        if ins.opname == "LOAD_GLOBAL" or (ins.opname == "LOAD_NAME" and is_module):
            refs.append([modname, qual, ins.positions.lineno if ins.positions else code.co_firstlineno, ins.argval])
    for c in code.co_consts:
        if isinstance(c, types.CodeType):
            # class bodies use LOAD_NAME for class-local names: only functions below them are scanned
            walk(c, modname, (qual + "." if qual else "") + c.co_name, False)

out = {"modules": {}, "refs": None}
for name, mod in sorted(mods.items()):
    src = getattr(mod, "__file__", None)
    if not src or not src.endswith(".py"):
        continue
    code = compile(open(src).read(), src, "exec")
    walk(code, name, "", True)
    out["modules"][name] = sorted(set(vars(mod)) | set(dir(builtins)))
out["refs"] = refs
json.dump(out, sys.stdout)
