"""Constants the reader model needs, read from the current tree: the class constants
of the five base classes (the classes set_io_objects() configures by default),
ReactionS.RTYPES, and the two literals of `dlen = 5 if line[2] == 'short' else 15 if
line[2] == 'long' else int(line[2])` in objectio.read_pil_line (ast)."""
import ast, inspect, json, sys, warnings
warnings.simplefilter("ignore")
from dsdobjects import objectio
from dsdobjects import base_classes as bc

base = [bc.DomainS, bc.ComplexS, bc.StrandS, bc.MacrostateS, bc.ReactionS]
kinds = ["D", "C", "S", "M", "R"]
classes = []
for cls, k in zip(base, kinds):
    par = cls.__mro__[1]
    ident = cls.__dict__.get("ID")
    if ident is not None and type(ident) is not int:
        raise SystemExit(f"{cls.__name__}.ID is not an int")
    classes.append({"name": cls.__name__, "kind": k,
                    "parent": base.index(par) if par in base else None,
                    "cutoff": getattr(cls, "DTYPE_CUTOFF", 0), "short": getattr(cls, "SHORT_DOM_LEN", 0),
                    "long": getattr(cls, "LONG_DOM_LEN", 0), "prefix": getattr(cls, "PREFIX", ""),
                    "id": ident})
# the defaults of set_io_objects are these classes
objectio.set_io_objects()
slots = [objectio.Domain, objectio.Strand, objectio.Complex, objectio.Macrostate, objectio.Reaction]
default_cfg = [base.index(c) for c in slots]
objectio.clear_io_objects()

rt = bc.ReactionS.RTYPES
if not all(isinstance(x, str) for x in rt):
    raise SystemExit("RTYPES is not a collection of str")

# the literals of the dlen expression
tree = ast.parse(inspect.getsource(objectio.read_pil_line))
found = []
for node in ast.walk(tree):
    if isinstance(node, ast.IfExp) and isinstance(node.test, ast.Compare) and \
            isinstance(node.test.comparators[0], ast.Constant) and node.test.comparators[0].value == "short" and \
            isinstance(node.body, ast.Constant) and isinstance(node.orelse, ast.IfExp) and \
            isinstance(node.orelse.test, ast.Compare) and isinstance(node.orelse.test.comparators[0], ast.Constant) and \
            node.orelse.test.comparators[0].value == "long" and isinstance(node.orelse.body, ast.Constant):
        found.append((node.body.value, node.orelse.body.value))
if len(found) != 1 or not all(type(x) is int for x in found[0]):
    raise SystemExit(f"dlen expression of read_pil_line not recognised: {found}")

json.dump({"classes": classes, "default_cfg": default_cfg, "rtypes": sorted(rt),
           "short": found[0][0], "long": found[0][1]}, sys.stdout)
