"""Evaluate model cases inside Coq: write cases_<k>.v files, run coqc in parallel,
return the flat list of integers printed by `Eval vm_compute`."""
import os, re, subprocess
import concurrent.futures as cf
import common


def eval_cases(workdir, header, terms, per_file=400, jobs=8, timeout=900):
    """terms: list of Coq terms of type T; header must define `run_case : T -> list Z`.
    Each result is printed length-prefixed so that the flat output can be split."""
    os.makedirs(workdir, exist_ok=True)
    files = []
    for k in range(0, len(terms), per_file):
        fn = os.path.join(workdir, f"cases_{k // per_file}.v")
        body = ";\n".join(terms[k:k + per_file])
        open(fn, "w").write(header + "\nDefinition cases := [\n" + body +
                            "\n].\nEval vm_compute in (flat_map (fun c => let r := run_case c in Z.of_nat (length r) :: r) cases).\n")
        files.append(fn)

    def run(fn):
        p = subprocess.run(["timeout", str(timeout), "coqc", "-Q", "theories", "DSD", "-Q", "gen", "DSDGen", fn],
                           cwd=common.COQ, stdout=subprocess.PIPE, stderr=subprocess.STDOUT, text=True)
        if p.returncode != 0:
            raise RuntimeError(f"coqc failed on {fn}: {p.stdout[-1500:]}")
        out = p.stdout[p.stdout.index("="):]
        out = out[:out.rindex(":")]
        return [int(x) for x in re.findall(r"-?\d+", out)]

    with cf.ThreadPoolExecutor(jobs) as ex:
        parts = list(ex.map(run, files))
    flat = [x for p in parts for x in p]
    res, i = [], 0
    while i < len(flat):
        n = flat[i]
        res.append(flat[i + 1:i + 1 + n])
        i += 1 + n
    if len(res) != len(terms):
        raise RuntimeError(f"expected {len(terms)} results from Coq, got {len(res)}")
    return res
