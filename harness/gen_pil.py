"""Generator of abstract, consistent DSD systems, their rendering as PIL text and
the dictionary that reading the text must produce (used by C12, C14, C16, C05, C15).
All randomness comes from the rng passed in."""
import gen_structs as gs

IUPAC = "ACGTRYSMWKVHDBN"
WC = dict(zip("ACGTRYSMWKVHDBN", "TGCAYRSKWMBDHVN"))
RTYPES = ["condensed", "open", "bind11", "bind21", "branch-3way", "branch-4way"]
CUNITS = ["M", "mM", "uM", "nM", "pM"]
TUNITS = ["s", "m", "h"]
KEYWORDS = {"length", "domain", "sequence", "sup-sequence", "strand", "complex", "structure", "kinetic",
            "reaction", "state", "macrostate", "short", "long", "inf", "initial", "constant", "i", "c"}


def comp(n):
    return n[:-1] if n.endswith("*") else n + "*"


def ident(rng, used, prefix):
    """a PIL-legal identifier that is not a keyword, not a prefix-extension of one, unused"""
    alphabet = "abcdefghijklmnopqrstuvwxyzABCDEFGHIJKLMNOPQRSTUVWXYZ0123456789_-"
    while True:
        n = prefix + "".join(rng.choice(alphabet) for _ in range(rng.randrange(0, 4)))
        if n in used or n in KEYWORDS or any(n.startswith(k) for k in KEYWORDS if len(k) > 1):
            continue
        if n.isdigit() or n[0] in "-0123456789":
            continue
        used.add(n)
        return n


class System:
    """domains: {name: (length, sequence|None)} (unstarred names), strands: {name: [domain names]},
    complexes: {name: (seq, struct, conc|None, notation)}, macrostates: {name: [complex names]},
    reactions: [(reactants, products, rtype, rate, units)]"""

    def __init__(self):
        self.domains, self.strands, self.complexes, self.macrostates, self.reactions = {}, {}, {}, {}, []
        self.order = []          # statements in a declaration-respecting order: (kind, name/index)
        self.hints = {}          # complex name -> how it is written (strand notation / composite names)


def rotations(seq, struct):
    """all strand rotations of an aligned (seq, struct) pair, independent implementation via pair lists"""
    strands, cur = [], []
    for x in seq:
        if x == "+":
            strands.append(cur); cur = []
        else:
            cur.append(x)
    strands.append(cur)
    # flat positions -> (strand, index)
    pos, k = {}, 0
    for si, s in enumerate(strands):
        for di in range(len(s)):
            pos[k] = (si, di); k += 1
        k += 1
    pairs = [(pos[i], pos[j]) for i, j in gs.pair_positions("".join(struct))]
    n = len(strands)
    out = []
    for r in range(n):
        order = [(si + r) % n for si in range(n)]
        new_index = {old: new for new, old in enumerate(order)}
        sq, st_rows = [], []
        for old in order:
            st_rows.append(["."] * len(strands[old]))
        for (a, b) in pairs:
            a2, b2 = (new_index[a[0]], a[1]), (new_index[b[0]], b[1])
            lo, hi = min(a2, b2), max(a2, b2)
            st_rows[lo[0]][lo[1]] = "("
            st_rows[hi[0]][hi[1]] = ")"
        for k, old in enumerate(order):
            if k:
                sq.append("+")
            sq.extend(strands[old])
        st = []
        for k, row in enumerate(st_rows):
            if k:
                st.append("+")
            st.extend(row)
        out.append((sq, st))
    return out


def canon(seq, struct):
    return min((tuple(s), tuple(t)) for s, t in rotations(seq, struct))


def make_system(rng, n_dom=4, n_cplx=4, n_strands=2, n_macro=2, n_rxn=3, sizes=(1, 8),
                p_strand_notation=0.0, p_composite=0.0):
    """p_strand_notation: probability that a complex without empty strands is declared through named strands
    (`structure` / `complex` statements); p_composite: probability that a kernel-notation complex is written
    with composite-domain names (runs of unpaired domains, runs of complements, nested helices).  Both add
    the strand declarations they need.  With both 0 the random stream is the one of earlier versions."""
    S = System()
    used = set()
    for _ in range(n_dom):
        n = ident(rng, used, rng.choice("abcdxyz"))
        used.add(n + "*")
        if rng.random() < 0.4:
            seq = "".join(rng.choice(IUPAC) for _ in range(rng.randrange(1, 12)))
            S.domains[n] = (len(seq), seq)
        else:
            S.domains[n] = (rng.choice([rng.randrange(1, 30), 5, 15] * 4 + [0, 99999999999999999999999]), None)
        S.order.append(("domain", n))
    dnames = list(S.domains)
    anydom = lambda: rng.choice(dnames) + ("*" if rng.random() < 0.3 else "")
    seen_strands = {}
    for _ in range(n_strands):
        n = ident(rng, used, "s")
        sq = [anydom() for _ in range(rng.randrange(1, 4))]
        if tuple(sq) in seen_strands:
            continue
        seen_strands[tuple(sq)] = n
        S.strands[n] = sq
        S.order.append(("strand", n))
    seen = set()
    for _ in range(n_cplx * 3):
        if len(S.complexes) >= n_cplx:
            break
        st = gs.random_wf(rng, rng.randrange(*sizes), p_break=rng.choice([0.1, 0.25]))
        sq = gs.seq_for(rng, st, names=dnames)
        c = canon(sq, list(st))
        if c in seen:
            continue
        seen.add(c)
        n = ident(rng, used, rng.choice("ABCXYZ"))
        conc = None
        if rng.random() < 0.4:
            conc = (rng.choice(["initial", "constant"]), rng.choice([0, 5, 100, 2.5, 1e-3, 12.75]), rng.choice(CUNITS))
        notation = "kernel"
        if p_strand_notation and nonempty_strands(sq) and rng.random() < p_strand_notation:
            notation, conc = "strand", None          # the strand notations have no concentration field
            S.hints[n] = {"strands": [strand_for(S, rng, used, seen_strands, part) for part in split_strands(sq)],
                          "style": rng.choice(["structure", "complex"])}
        elif p_composite and rng.random() < p_composite:
            subs = composite_cover(S, rng, used, seen_strands, sq, list(st))
            if subs:
                notation = "kernel+composite"
                S.hints[n] = {"subs": subs}
        S.complexes[n] = (sq, list(st), conc, notation)
        S.order.append(("complex", n))
    cn = list(S.complexes)
    seen_m = set()
    for _ in range(n_macro):
        if not cn:
            break
        members = rng.sample(cn, rng.randrange(1, min(3, len(cn)) + 1))
        key = frozenset(members)
        name = rng.choice(members)
        if key in seen_m or name in S.macrostates:
            continue
        seen_m.add(key)
        S.macrostates[name] = members
        S.order.append(("macrostate", name))
    mn = list(S.macrostates)
    seen_r = set()
    for _ in range(n_rxn):
        rtype = rng.choice(RTYPES)
        pool = mn if rtype == "condensed" else cn
        if not pool:
            continue
        re = [rng.choice(pool) for _ in range(rng.randrange(1, 3))]
        pr = [rng.choice(pool) for _ in range(rng.randrange(1, 3))]
        key = (tuple(sorted(re)), tuple(sorted(pr)), rtype)
        if key in seen_r:
            continue
        seen_r.add(key)
        rate = rng.choice([1, 5, 0.5, 1e6, 3.25e-4, 120000, 0, 0.0])
        units = "".join("/" + rng.choice(CUNITS) for _ in range(len(re) - 1)) + "/" + rng.choice(TUNITS)
        S.reactions.append((re, pr, rtype, rate, units))
        S.order.append(("reaction", len(S.reactions) - 1))
    return S


def kernel_string(seq, struct):
    out = []
    for d, s in zip(seq, struct):
        if s == "+":
            out.append("+")
        elif s == ")":
            out.append(")")
        elif s == "(":
            out.append(d + "(")
        else:
            out.append(d)
    return " ".join(out)



def split_strands(seq):
    out, cur = [], []
    for x in seq:
        if x == "+":
            out.append(cur); cur = []
        else:
            cur.append(x)
    out.append(cur)
    return out


def nonempty_strands(seq):
    return all(split_strands(seq))


def strand_for(S, rng, used, seen_strands, part):
    """the name of the strand with this domain sequence, declared now if it does not exist yet
    (two strands with one sequence would be the same singleton under two names)"""
    key = tuple(part)
    if key not in seen_strands:
        n = ident(rng, used, "s")
        seen_strands[key] = n
        S.strands[n] = list(part)
        S.order.append(("strand", n))
    return seen_strands[key]


def composite_cover(S, rng, used, seen_strands, sq, st):
    """substitutions (start, length, token, kind) that write parts of a kernel string with composite-domain
    names: kind 'run' = unpaired run written as the composite name, 'crun' = unpaired run written as the
    complement name, 'helix' = k directly nested pairs written as name( ... ) """
    pairs = {}
    for i, j in gs.pair_positions("".join(st)):
        pairs[i] = j
    subs, i, n = [], 0, len(sq)
    while i < n:
        if st[i] == "." and rng.random() < 0.6:
            j = i
            while j < n and st[j] == "." and j - i < 3:
                j += 1
            k = rng.randrange(1, j - i + 1)
            part = sq[i:i + k]
            if rng.random() < 0.5:
                subs.append((i, k, strand_for(S, rng, used, seen_strands, part), "run"))
            else:
                subs.append((i, k, strand_for(S, rng, used, seen_strands, [comp(d) for d in reversed(part)]) + "*", "crun"))
            i += k
        elif st[i] == "(" and rng.random() < 0.6:
            k = 1
            while i + k < n and st[i + k] == "(" and pairs[i + k] == pairs[i] - k and k < 3:
                k += 1
            k = rng.randrange(1, k + 1)
            part = sq[i:i + k]
            # the closing side must be the reversed complements (it is, for domain-level complementary pairs)
            if [comp(d) for d in reversed(part)] == sq[pairs[i] - k + 1:pairs[i] + 1]:
                subs.append((i, k, strand_for(S, rng, used, seen_strands, part), "helix"))
            i += k
        else:
            i += 1
    return subs


def kernel_string_with(seq, struct, subs):
    """kernel string in which the substituted stretches are written with their composite names"""
    start = {s[0]: s for s in subs}
    skip_close = set()
    pairs = dict(gs.pair_positions("".join(struct)))
    out, i = [], 0
    while i < len(seq):
        if i in start:
            _, k, tok, kind = start[i]
            if kind == "helix":
                out.append(tok + "(")
                # the k closing brackets collapse into one
                for t in range(1, k):
                    skip_close.add(pairs[i + t])
            else:
                out.append(tok)
            i += k
            continue
        d, s = seq[i], struct[i]
        if s == "+":
            out.append("+")
        elif s == ")":
            if i not in skip_close:
                out.append(")")
        elif s == "(":
            out.append(d + "(")
        else:
            out.append(d)
        i += 1
    return " ".join(out)


def fmt_num(x):
    if isinstance(x, int):
        return str(x)
    s = repr(float(x))
    if "e" in s:                       # grammar: digits[.digits]e[+-]digits
        m, e = s.split("e")
        if e.startswith("+"):
            e = e[1:]
        return m + "e" + e
    return s


def render_stmt(S, item, rng=None, layout=False):
    kind, key = item
    sp = (lambda: rng.choice([" ", "  ", "\t", " \t "])) if (layout and rng) else (lambda: " ")
    eq = (lambda: rng.choice(["=", ":"])) if (layout and rng) else (lambda: "=")
    if kind == "domain":
        L, seq = S.domains[key]
        if seq is None:
            kw = rng.choice(["length", "domain", "sequence"]) if (layout and rng) else "length"
            # `sequence x = short` is read as a sequence constraint by an earlier alternative
            # of the grammar (ambiguous text, DESIGN.md section 8): never rendered
            kwok = kw != "sequence"
            val = "short" if (kwok and L == 5 and rng and rng.random() < 0.5) else \
                  "long" if (kwok and L == 15 and rng and rng.random() < 0.5) else str(L)
            return f"{kw}{sp()}{key}{sp()}{eq()}{sp()}{val}"
        tail = f"{sp()}{eq()}{sp()}{L}" if (rng and rng.random() < 0.5) else ""
        return f"sequence{sp()}{key}{sp()}{eq()}{sp()}{seq}{tail}"
    if kind == "strand":
        kw = rng.choice(["sup-sequence", "strand"]) if (layout and rng) else "strand"
        txt = f"{kw}{sp()}{key}{sp()}{eq()}{sp()}" + sp().join(S.strands[key])
        if layout and rng and rng.random() < 0.3:
            # the optional explicit length of a strand (the sum of its domains' lengths)
            txt += f"{sp()}{eq()}{sp()}{sum(S.domains[d.rstrip('*')][0] for d in S.strands[key])}"
        return txt
    if kind == "complex":
        sq, st, conc, notation = S.complexes[key]
        hint = S.hints.get(key, {})
        if notation == "strand":
            db = "".join(st)
            if layout and rng and rng.random() < 0.5:
                db = db.replace("+", " + ")
            if hint["style"] == "structure":
                return (f"structure{sp()}{key}{sp()}{eq()}{sp()}" + f"{sp()}+{sp()}".join(hint["strands"]) +
                        f"{sp()}{eq()}{sp()}{db}")
            return f"complex{sp()}{key}{sp()}{eq()}\n" + sp().join(hint["strands"]) + f"\n{db}"
        ks = kernel_string_with(sq, st, hint["subs"]) if notation == "kernel+composite" else kernel_string(sq, st)
        txt = f"{key}{sp()}={sp()}{ks}"
        if conc:
            txt += f"{sp()}@{conc[0]}{sp()}{fmt_num(conc[1])}{sp()}{conc[2]}"
        return txt
    if kind == "macrostate":
        kw = rng.choice(["state", "macrostate"]) if (layout and rng) else "state"
        return f"{kw}{sp()}{key}{sp()}={sp()}[" + ("," + sp()).join(S.macrostates[key]) + "]"
    if kind == "reaction":
        re, pr, rtype, rate, units = S.reactions[key]
        kw = rng.choice(["reaction", "kinetic"]) if (layout and rng) else "reaction"
        return (f"{kw}{sp()}[{rtype}{sp()}={sp()}{fmt_num(rate)}{sp()}{units}]{sp()}" +
                f"{sp()}+{sp()}".join(re) + f"{sp()}->{sp()}" + f"{sp()}+{sp()}".join(pr))
    raise ValueError(kind)


def render(S, rng=None, layout=False, order=None):
    lines = []
    for item in (order or S.order):
        line = render_stmt(S, item, rng, layout)
        if layout and rng and rng.random() < 0.2:
            line += "  # " + rng.choice(["comment", "x = y", "length q = 3"])
        lines.append(line)
        if layout and rng and rng.random() < 0.15:
            lines.append(rng.choice(["", "# a comment line", "   "]))
    nl = rng.choice(["\n", "\r\n"]) if (layout and rng and False) else "\n"
    return nl.join(lines) + nl


def revwc(seq):
    return "".join(WC[c] for c in reversed(seq))


def expected(S):
    """the dictionary read_pil must return, in a canonical JSON-able form"""
    doms = {}
    for n, (L, seq) in S.domains.items():
        doms[n] = [L, seq]
        doms[n + "*"] = [L, revwc(seq) if seq is not None else None]
    return {
        "domains": doms,
        "strands": {n: list(sq) for n, sq in S.strands.items()},
        "complexes": {n: [list(sq), list(st), (list(conc) if conc else None)] for n, (sq, st, conc, _) in S.complexes.items()},
        "macrostates": {n: sorted(ms) for n, ms in S.macrostates.items()},
        "reactions": sorted([sorted(re), sorted(pr), rt, float(rate), units] for re, pr, rt, rate, units in S.reactions),
    }


def shuffled_order(S, rng):
    """a random statement order that still respects declaration-before-use"""
    deps = {}
    for item in S.order:
        kind, key = item
        if kind == "domain":
            deps[item] = []
        elif kind == "strand":
            deps[item] = [("domain", d.rstrip("*")) for d in S.strands[key]]
        elif kind == "complex":
            deps[item] = [("domain", d.rstrip("*")) for d in S.complexes[key][0] if d != "+"]
            hint = S.hints.get(key, {})
            deps[item] += [("strand", s) for s in hint.get("strands", [])]
            deps[item] += [("strand", t[2].rstrip("*")) for t in hint.get("subs", [])]
        elif kind == "macrostate":
            deps[item] = [("complex", c) for c in S.macrostates[key]]
        else:
            re, pr, rt = S.reactions[key][:3]
            deps[item] = [("macrostate" if rt == "condensed" else "complex", x) for x in re + pr]
    done, out, todo = set(), [], list(S.order)
    while todo:
        ready = [i for i in todo if all(d in done for d in deps[i])]
        pick = rng.choice(ready)
        todo.remove(pick)
        done.add(pick)
        out.append(pick)
    return out


def permuted_names(S, rng, which=None):
    """the system S with its names exchanged among its own objects: every domain / strand / complex (and so macrostate)
    name of S is declared again, but denotes what another name of the same kind denoted in S (a cyclic exchange in a
    random order, so with two or more names of a kind no name keeps its meaning).  `which`: the kinds exchanged
    ("d", "s", "c"), random (at least one) by default.  The result is consistent whenever S is; a document of it is a
    legitimate re-declaration of every name once the objects of S have been released."""
    def cyc(names):
        names = list(names)
        rng.shuffle(names)
        return {a: b for a, b in zip(names, names[1:] + names[:1])}
    same = lambda names: {n: n for n in names}
    if which is None:
        which = [k for k in "dsc" if rng.random() < 0.7] or [rng.choice("dsc")]
    dm = (cyc if "d" in which else same)(S.domains)
    sm = (cyc if "s" in which else same)(S.strands)
    cm = (cyc if "c" in which else same)(S.complexes)
    star = lambda m, n: (m[n[:-1]] + "*") if n.endswith("*") else m[n]
    md = lambda x: x if x == "+" else star(dm, x)
    T = System()
    T.domains = {dm[n]: v for n, v in S.domains.items()}
    T.strands = {sm[n]: [md(d) for d in sq] for n, sq in S.strands.items()}
    T.complexes = {cm[n]: ([md(x) for x in sq], list(st), conc, nt) for n, (sq, st, conc, nt) in S.complexes.items()}
    for n, h in S.hints.items():
        h2 = dict(h)
        if "strands" in h:
            h2["strands"] = [sm[s] for s in h["strands"]]
        if "subs" in h:
            h2["subs"] = [(i, k, star(sm, tok), kind) for (i, k, tok, kind) in h["subs"]]
        T.hints[cm[n]] = h2
    T.macrostates = {cm[n]: [cm[x] for x in ms] for n, ms in S.macrostates.items()}
    T.reactions = [([cm[x] for x in re], [cm[x] for x in pr], rt, rate, u) for re, pr, rt, rate, u in S.reactions]
    mp = {"domain": dm, "strand": sm, "complex": cm, "macrostate": cm}
    T.order = [(k, mp[k][key] if k in mp else key) for k, key in S.order]
    return T
