"""Text form of the universal value type shared by the model runner (OCaml,
extracted from Coq) and the implementation runner (Python).

  N | T | F | #<int> | "<cp>,<cp>,... | ( v ... ) | ~<m>,<e> | { "<kind> v ... }
"""
import math


class Err:
    """An exception outcome: kind is the exception class name."""
    __slots__ = ("kind", "args")

    def __init__(self, kind, args=()):
        self.kind = kind
        self.args = tuple(args)

    def __eq__(self, o):
        return isinstance(o, Err) and (self.kind, self.args) == (o.kind, o.args)

    def __hash__(self):
        return hash((self.kind, self.args))

    def __repr__(self):
        return f"Err({self.kind}{', ' + repr(self.args) if self.args else ''})"


def float_me(x):
    """(mantissa, exponent) with odd mantissa, exact; specials use e = 99999."""
    if x != x:
        return (0, 99999)
    if x == math.inf:
        return (1, 99999)
    if x == -math.inf:
        return (-1, 99999)
    if x == 0:
        return (0, 0) if math.copysign(1, x) > 0 else (0, -1)   # -0.0 distinguished
    m, e = math.frexp(x)
    m = int(m * (1 << 53))
    e -= 53
    while m % 2 == 0:
        m //= 2
        e += 1
    return (m, e)


def me_float(m, e):
    if e == 99999:
        return math.nan if m == 0 else math.copysign(math.inf, m)
    if m == 0:
        return 0.0 if e == 0 else -0.0
    return math.ldexp(m, e)


def enc(v):
    if v is None:
        return "N"
    if v is True:
        return "T"
    if v is False:
        return "F"
    if isinstance(v, int):
        return f"#{v}"
    if isinstance(v, float):
        m, e = float_me(v)
        return f"~{m},{e}"
    if isinstance(v, str):
        return '"' + ",".join(str(ord(c)) for c in v)
    if isinstance(v, (list, tuple)):
        return "( " + "".join(enc(x) + " " for x in v) + ")"
    if isinstance(v, Err):
        return "{ " + enc(v.kind) + " " + "".join(enc(x) + " " for x in v.args) + "}"
    raise TypeError(f"cannot encode {type(v).__name__}: {v!r}")


def _parse(toks, i):
    t = toks[i]
    c = t[0]
    if c == "N":
        return None, i + 1
    if c == "T":
        return True, i + 1
    if c == "F":
        return False, i + 1
    if c == "#":
        return int(t[1:]), i + 1
    if c == '"':
        return ("".join(chr(int(x)) for x in t[1:].split(",")) if len(t) > 1 else ""), i + 1
    if c == "~":
        m, e = t[1:].split(",")
        return me_float(int(m), int(e)), i + 1
    if c == "(":
        out = []
        i += 1
        while toks[i] != ")":
            v, i = _parse(toks, i)
            out.append(v)
        return out, i + 1
    if c == "{":
        k, i = _parse(toks, i + 1)
        out = []
        while toks[i] != "}":
            v, i = _parse(toks, i)
            out.append(v)
        return Err(k, out), i + 1
    raise ValueError(f"bad token {t!r}")


def dec(s):
    toks = s.split()
    v, i = _parse(toks, 0)
    if i != len(toks):
        raise ValueError("trailing tokens")
    return v


def norm(v):
    """Canonical Python form for comparison: tuples -> lists."""
    if isinstance(v, (list, tuple)):
        return [norm(x) for x in v]
    if isinstance(v, Err):
        return Err(v.kind, [norm(x) for x in v.args])
    return v
